(* C13  The sub-registry view ocifilter.Sub(r, prefix) is confined to prefix/ and equals the
   underlying registry restricted to the repositories under the prefix, with the prefix
   removed.  Statements only; proofs live in Proofs/FilterSub.v and Proofs/FilterSubStack.v.  Throughout: [cbstep] is an
   ARBITRARY wrapped registry (any step function of the context's scope, the state and the
   operation) with arbitrary state [st]; [prefix] is any byte string (Sub builds the
   wrapper only for a non-empty one, [sub] covers both); [ctx] is the auth scope found in
   the caller's context; caller names are arbitrary byte strings (empty, dot, dot-dot, any
   slashes, any case: nothing is assumed about them).  The third component of a step's
   result is the trace: the calls made on the wrapped registry, each with the scope of the
   context it was made with.  [under prefix r] : r = prefix ++ "/" ++ n for some n. *)
From Coq Require Import String.
From OCI Require Import Model.FilterLegacy Proofs.FilterSelect Proofs.FilterSub Proofs.FilterSubStack.
From OCI Require Import Model.Filter.

(* Every call, completely: exactly one call reaches the wrapped registry; it is the same
   operation with every repository argument n replaced by prefix/n (Repositories: a
   non-empty start point s replaced by prefix/s), made under the rewritten context (an
   operation on a BlobWriter is passed on as it is); the caller gets the wrapped registry's
   answer (Repositories: reduced to the names under prefix/, stripped) and the wrapped
   registry's state is the state after that one call. *)
Theorem C13_sub_step_characterised :
  forall (B : Type) (prefix : bytes) (cbstep : ctx_registry B) (ctx : scope) (st : B) (o : op),
    sub_step prefix cbstep ctx st o =
      (fst (cbstep (call_ctx prefix ctx o) st (sub_op prefix o)),
       sub_post prefix o (snd (cbstep (call_ctx prefix ctx o) st (sub_op prefix o))),
       [(call_ctx prefix ctx o, sub_op prefix o)]).
Proof. exact @sub_step_spec. Qed.
Print Assumptions C13_sub_step_characterised.

(* ... where the repositories of that call are the caller's names, each with the prefix. *)
Theorem C13_sub_op_repositories :
  forall (prefix : bytes) (o : op),
    op_repos (sub_op prefix o) = map (fun n => prefix ++ [slash] ++ n) (op_repos o).
Proof. exact sub_op_repos. Qed.
Print Assumptions C13_sub_op_repositories.

(* Confinement (sub_names): for every caller name, well-formed or not, every repository
   that any backend call made for it uses is under prefix/. *)
Theorem C13_sub_names :
  forall (B : Type) (prefix : bytes) (cbstep : ctx_registry B) (ctx : scope) (st : B) (o : op)
         (c : bcall) (r : bytes),
    In c (snd (sub_step prefix cbstep ctx st o)) -> In r (op_repos (snd c)) -> under prefix r.
Proof. exact @sub_names. Qed.
Print Assumptions C13_sub_names.

(* Confinement over every history of calls (any methods, any names). *)
Theorem C13_sub_names_history :
  forall (B : Type) (prefix : bytes) (cbstep : ctx_registry B) (ctx : scope) (h : list op) (st : B)
         (c : bcall) (r : bytes),
    In c (ttrace (sub_step prefix cbstep ctx) st h) -> In r (op_repos (snd c)) -> under prefix r.
Proof. exact @sub_names_hist. Qed.
Print Assumptions C13_sub_names_history.

(* "and on nothing else": over every history the calls on the wrapped registry are exactly
   the image of the caller's calls, one for one and in order. *)
Theorem C13_sub_trace_is_image :
  forall (B : Type) (prefix : bytes) (cbstep : ctx_registry B) (ctx : scope) (h : list op) (st : B),
    ttrace (sub_step prefix cbstep ctx) st h =
      map (fun o => (call_ctx prefix ctx o, sub_op prefix o)) h.
Proof. exact @sub_ttrace. Qed.
Print Assumptions C13_sub_trace_is_image.

(* "under" is decided by a prefix test, and a sibling that merely shares the text of the
   prefix is not under it. *)
Theorem C13_under_decided :
  forall prefix r, underb prefix r = true <-> under prefix r.
Proof. exact underb_under. Qed.
Print Assumptions C13_under_decided.

(* Sub = the restricted-and-stripped registry (sub_equals_restriction), one call: state
   and result are those of [restricted_step] (Model/Filter.v, Section Restricted).  For
   Repositories with a start point this needs the wrapped registry to honour the Lister
   contract ([lister]: listing from s = the complete listing cut after s), because the
   restricted registry is defined from the complete listing. *)
Theorem C13_sub_equals_restriction_step :
  forall (B : Type) (prefix : bytes) (cbstep : ctx_registry B) (ctx : scope) (st : B) (o : op),
    (forall start, o <> Repositories start) \/ lister cbstep ->
    fst (sub_step prefix cbstep ctx st o) = restricted_step prefix cbstep ctx st o.
Proof. exact @sub_is_restricted_step. Qed.
Print Assumptions C13_sub_equals_restriction_step.

(* ... and over every history: same results, same final state of the wrapped registry. *)
Theorem C13_sub_equals_restriction :
  forall (B : Type) (prefix : bytes) (cbstep : ctx_registry B) (ctx : scope) (h : list op) (st : B),
    Forall (fun o => forall start, o <> Repositories start) h \/ lister cbstep ->
    (fst (trun (sub_step prefix cbstep ctx) st h),
     map fst (snd (trun (sub_step prefix cbstep ctx) st h))) =
      run (restricted_step prefix cbstep ctx) st h.
Proof. exact @sub_is_restricted. Qed.
Print Assumptions C13_sub_equals_restriction.

(* func Sub itself: the registry unchanged for the empty prefix, the wrapper otherwise. *)
Theorem C13_sub_constructor :
  forall (B : Type) (prefix : bytes) (cbstep : ctx_registry B) (ctx : scope) (st : B) (o : op),
    (prefix = [] -> sub prefix cbstep ctx st o = (fst (cbstep ctx st o), snd (cbstep ctx st o), [(ctx, o)])) /\
    (prefix <> [] -> sub prefix cbstep ctx = sub_step prefix cbstep ctx).
Proof.
  intros B prefix cbstep ctx st o. split.
  - intros ->. apply sub_empty_prefix.
  - apply sub_nonempty_prefix.
Qed.
Print Assumptions C13_sub_constructor.

(* Listing (sub_listing), without any assumption on the wrapped registry: whatever it
   yields (items l, then maybe an error e) for the prefixed start point, the caller gets
   exactly the yielded names under prefix/, stripped, in the same order, then e ... *)
Theorem C13_sub_listing_strips :
  forall (B : Type) (prefix : bytes) (cbstep : ctx_registry B) (ctx : scope) (st : B) (start : bytes)
         (st' : B) (l : list bytes) (e : option err),
    cbstep (map_scopes prefix ctx) st (Repositories (sub_start prefix start)) = (st', Ok (RList l e)) ->
    fst (sub_step prefix cbstep ctx st (Repositories start)) =
      (st', Ok (RList (filter_map (cut_prefix (prefix ++ [slash])) l) e)).
Proof. exact @sub_listing_strip. Qed.
Print Assumptions C13_sub_listing_strips.

(* ... where n is among the stripped names exactly when prefix/n was yielded (so a sibling
   such as fooey for the prefix foo contributes nothing). *)
Theorem C13_sub_listing_members :
  forall (prefix : bytes) (l : list bytes) (n : bytes),
    In n (filter_map (cut_prefix (prefix ++ [slash])) l) <-> In ((prefix ++ [slash]) ++ n) l.
Proof. exact stripped_in. Qed.
Print Assumptions C13_sub_listing_members.

(* Listing from any start point over a registry that honours the Lister contract and whose
   complete listing is l: the caller gets, in order, exactly the names n with prefix/n in l
   that are after the caller's own start point (all of them for the empty start point). *)
Theorem C13_sub_listing_from_start :
  forall (B : Type) (prefix : bytes) (cbstep : ctx_registry B) (ctx : scope) (st : B) (start : bytes)
         (st' : B) (l : list bytes) (e : option err),
    lister cbstep ->
    cbstep (map_scopes prefix ctx) st (Repositories []) = (st', Ok (RList l e)) ->
    fst (sub_step prefix cbstep ctx st (Repositories start)) =
      (st', Ok (RList (after start (filter_map (cut_prefix (prefix ++ [slash])) l)) e)) /\
    forall n, In n (after start (filter_map (cut_prefix (prefix ++ [slash])) l)) <->
              In (prefix ++ [slash] ++ n) l /\ (start = [] \/ blt start n).
Proof. exact @sub_listing_from. Qed.
Print Assumptions C13_sub_listing_from_start.

(* The function literal of Repositories yield by yield, for a wrapped iterator that may
   yield anything in any order and a consumer that may stop at any yield: what the
   consumer receives is a prefix of the stripped names the backend yields before its first
   error; all of them when it never stops; nothing after an error; the yield answered with
   "stop" is the last one.  (The lemmas are the ones of C12, which hold for any keep.) *)
Theorem C13_listing_yields :
  forall (prefix : bytes) (more : nat -> bool) (evs : list yld) (i : nat),
    let keep := cut_prefix (prefix ++ [slash]) in
    (exists rest, filter_map keep (items_before_error evs) =
                    item_yields (fst (repos_drive keep more i evs)) ++ rest) /\
    item_yields (fst (repos_drive keep always i evs)) = filter_map keep (items_before_error evs) /\
    (forall pre y post0, fst (repos_drive keep more i evs) = pre ++ y :: post0 ->
                         is_error y = true -> post0 = []) /\
    (forall ys n, repos_drive keep more i evs = (ys, n) ->
                  forall k, (k < length ys)%nat -> more (i + k)%nat = false -> S k = length ys).
Proof.
  intros prefix more evs i keep. repeat split.
  - apply drive_items_prefix.
  - apply drive_all_items.
  - apply drive_error_last.
  - apply drive_stops.
Qed.
Print Assumptions C13_listing_yields.

(* Scopes (sub_scopes): every one of the eighteen methods hands the wrapped registry the
   rewritten context ... *)
Theorem C13_sub_scopes_every_method :
  forall (B : Type) (prefix : bytes) (cbstep : ctx_registry B) (ctx : scope) (st : B) (o : op) (m : method),
    op_method o = Some m ->
    map fst (snd (sub_step prefix cbstep ctx st o)) = [map_scopes prefix ctx].
Proof. exact @sub_scopes. Qed.
Print Assumptions C13_sub_scopes_every_method.

(* ... which is unlimited when the caller's is, and otherwise holds exactly the images of
   the caller's resource scopes: a repository scope for n becomes the same action on
   prefix/n, every other scope is kept as it is ... *)
Theorem C13_sub_scopes_rewritten :
  forall (prefix : bytes),
    map_scopes prefix ScUnlimited = ScUnlimited /\
    (forall l rs', exists l', map_scopes prefix (ScSet l) = ScSet l' /\
                   (In rs' l' <-> exists rs, In rs l /\ rs' = map_rscope prefix rs)) /\
    (forall rs, rs_type rs = TypeRepository ->
                map_rscope prefix rs = RS (rs_type rs) (prefix ++ [slash] ++ rs_resource rs) (rs_action rs)) /\
    (forall rs, rs_type rs <> TypeRepository -> map_rscope prefix rs = rs).
Proof.
  intros prefix. split; [reflexivity|]. split; [exact (map_scopes_members prefix)|].
  split; [exact (map_rscope_repository prefix) | exact (map_rscope_other prefix)].
Qed.
Print Assumptions C13_sub_scopes_rewritten.

(* ... so the repository names it mentions are exactly the prefixed names of the caller's,
   and over every history no method call carries a repository scope outside prefix/. *)
Theorem C13_sub_scopes_confined :
  forall (B : Type) (prefix : bytes) (cbstep : ctx_registry B) (ctx : scope),
    (forall r, In r (scope_repos (map_scopes prefix ctx)) <->
               exists n, In n (scope_repos ctx) /\ r = prefix ++ [slash] ++ n) /\
    (forall (h : list op) (st : B) (c : bcall) (r : bytes),
        In c (ttrace (sub_step prefix cbstep ctx) st h) -> op_method (snd c) <> None ->
        In r (scope_repos (fst c)) -> under prefix r).
Proof.
  intros B prefix cbstep ctx. split.
  - apply map_scopes_repos.
  - apply sub_scopes_hist.
Qed.
Print Assumptions C13_sub_scopes_confined.

(* A view of a view.  Sub(Sub(r, p1), p2) is the view Sub(r, p1/p2), whatever r is given
   ([joined p1 p2] = p1 ++ "/" ++ p2; [as_registry] hands the inner view to the outer one as
   its registry): for every call the caller gets the state and result Sub(r, p1/p2) gives,
   the outer view makes exactly one call on the inner view, and for that call the inner view
   makes on r exactly the call Sub(r, p1/p2) makes (same operation, same rewritten scope). *)
Theorem C13_sub_of_sub_step :
  forall (B : Type) (p1 p2 : bytes), p1 <> [] -> p2 <> [] ->
  forall (cbstep : ctx_registry B) (ctx : scope) (st : B) (o : op),
    sub p2 (as_registry (sub p1 cbstep)) ctx st o =
      (fst (sub (joined p1 p2) cbstep ctx st o), [(call_ctx p2 ctx o, sub_op p2 o)]) /\
    snd (sub p1 cbstep (call_ctx p2 ctx o) st (sub_op p2 o)) = snd (sub (joined p1 p2) cbstep ctx st o).
Proof. exact @sub_of_sub_step. Qed.
Print Assumptions C13_sub_of_sub_step.

(* ... over every history: same results, same final state of the registry underneath. *)
Theorem C13_sub_of_sub :
  forall (B : Type) (p1 p2 : bytes), p1 <> [] -> p2 <> [] ->
  forall (cbstep : ctx_registry B) (ctx : scope) (h : list op) (st : B),
    (fst (trun (sub p2 (as_registry (sub p1 cbstep)) ctx) st h),
     map fst (snd (trun (sub p2 (as_registry (sub p1 cbstep)) ctx) st h))) =
    (fst (trun (sub (joined p1 p2) cbstep ctx) st h),
     map fst (snd (trun (sub (joined p1 p2) cbstep ctx) st h))).
Proof. exact @sub_of_sub. Qed.
Print Assumptions C13_sub_of_sub.

(* ... and confinement: every repository named by a call that reaches r is under p1/p2/. *)
Theorem C13_sub_of_sub_names :
  forall (B : Type) (p1 p2 : bytes), p1 <> [] -> p2 <> [] ->
  forall (cbstep : ctx_registry B) (ctx : scope) (st : B) (o : op) (c : bcall) (r : bytes),
    In c (snd (sub p1 cbstep (call_ctx p2 ctx o) st (sub_op p2 o))) -> In r (op_repos (snd c)) ->
    under (joined p1 p2) r.
Proof. exact @sub_of_sub_names. Qed.
Print Assumptions C13_sub_of_sub_names.

(* What the scope part rests on: the scope the wrapped registry receives (NewScope = sort by
   Compare and drop adjacent duplicates) is determined by the set of its members, so
   rewriting in two steps and in one step give the very same scope. *)
Theorem C13_scopes_rewritten_in_steps :
  forall (p1 p2 : bytes) (ctx : scope), map_scopes p1 (map_scopes p2 ctx) = map_scopes (joined p1 p2) ctx.
Proof. exact map_scopes_joined. Qed.
Print Assumptions C13_scopes_rewritten_in_steps.

(* The code before the repairs f9bf398 / 5c7e867 (Model/FilterLegacy.v: repo() = path.Join,
   the empty name kept empty, the start point passed on unprefixed) violated the
   statements; the witnesses are the inputs kept in corpus/C13. *)
Theorem C13_sub_names_legacy_refuted :
  exists prefix name, prefix <> [] /\ ~ under prefix (legacy_repo prefix name).
Proof. exact legacy_names_refuted. Qed.
Print Assumptions C13_sub_names_legacy_refuted.

Theorem C13_sub_names_legacy_witnesses :
  legacy_repo (s "a") (s "../other") = s "other" /\ legacy_repo (s "a") (s ".") = s "a" /\
  legacy_repo (s "a") (s "b/..") = s "a" /\ legacy_repo (s "a") [] = [].
Proof. exact (conj legacy_repo_dotdot (conj legacy_repo_dot (conj legacy_repo_b_dotdot legacy_repo_empty))). Qed.
Print Assumptions C13_sub_names_legacy_witnesses.

Theorem C13_sub_listing_legacy_refuted :
  exists names start,
    snd (fst (legacy_repositories (s "a") (names_registry names) (ScSet []) tt start)) <>
      Ok (RList (after start (filter_map (cut_prefix (s "a" ++ [slash])) names)) None).
Proof. exact legacy_listing_refuted. Qed.
Print Assumptions C13_sub_listing_legacy_refuted.

(* The hypotheses are satisfiable by non-trivial values: a registry that is a sorted list
   of names is a lister; through Sub(_, "a") from start point "b" it lists "c" and neither
   the sibling ab/x nor b itself; a dot-dot name stays under the prefix. *)
Example C13_example_lister : forall names, lister (names_registry names).
Proof. exact names_registry_lister. Qed.

Example C13_example_listing :
  snd (fst (sub (s "a") (names_registry [s "a/b"; s "a/c"; s "ab/x"]) (ScSet []) tt (Repositories (s "b")))) =
    Ok (RList [s "c"] None).
Proof. exact fixed_listing_example. Qed.

(* the order of the prefixes of a view of a view matters: team, then proj, is team/proj *)
Example C13_example_sub_of_sub :
  sub_op (s "team") (sub_op (s "proj") (GetTag (s "n") (s "t"))) = GetTag (s "team/proj/n") (s "t") /\
  sub_op (joined (s "proj") (s "team")) (GetTag (s "n") (s "t")) <> GetTag (s "team/proj/n") (s "t").
Proof. exact sub_of_sub_example. Qed.

Example C13_example_dotdot :
  snd (sub (s "a") (fun _ (st : unit) _ => (st, Ok RUnit))
           (ScSet [RS (s "repository") (s "../other") (s "pull")]) tt (GetBlob (s "../other") (s "d"))) =
    [(ScSet [RS (s "repository") (s "a/../other") (s "pull")], GetBlob (s "a/../other") (s "d"))].
Proof. vm_compute. reflexivity. Qed.
