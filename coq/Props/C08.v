(* C08  The in-memory registry is race-free and linearizable under concurrent use.
   Statements only; proofs live in Proofs/Conc*.v.

   Model/Conc.v is the sectioned model of ociregistry/ocimem: every operation is a short
   program of atomic sections (one per critical region of the Go code), any number of threads,
   each idle thread may invoke any operation, one small step runs one section of one thread on
   the shared Mem.state; traces carry invocation, response and linearisation-point events.
   [aug_ok cmp a st tr] (Model/Conc.v) is the SPECIFICATION of a valid linearisation, written
   without the sectioned model: each operation takes effect atomically at its LP event between
   its invocation and response, the effects in LP order are those of the sequential registry
   Mem.step, and each response is the result computed at the LP.
   [Conc.structure] is the lock structure of the model's sections; Generated/MemSections.v is
   the table extracted from ociregistry/ocimem/*.go on this run. *)
From Coq Require Import String.
From OCI Require Import Model.Conc Model.ConcRun Generated.MemSections.
From OCI Require Import Proofs.ConcStruct Proofs.ConcStructure Proofs.ConcErase Proofs.Conc Proofs.ConcRun
  Proofs.ConcExamples Proofs.ConcFrame.
From OCI Require Obs.C08.

(* 1. The code's lock structure (regenerated from the Go source on every run) is the one the
   theorems below are about. *)
Theorem C08_structure_matches : table_eq MemSections.table Conc.structure = true.
Proof. exact structure_matches. Qed.
Print Assumptions C08_structure_matches.

(* 2. Linearizability, for any number of threads, any operations, any schedule: the trace of
   every execution from the empty registry, with the linearisation points where the model
   puts them (one per operation), is a valid linearisation w.r.t. Mem.step, responses compared
   for equality.  Hypothesis: the hash is collision-free (used for one case only: a Commit
   whose buffer grew after the digest check must fail sequentially too). *)
Theorem C08_linearizable :
  forall hash vd vr vt di dx cfg, (forall a b : bytes, hash a = hash b -> a = b) ->
  forall c tr ms c', initial c -> csteps hash vd vr vt di dx cfg c tr ms c' ->
    aug_ok hash vd vr vt di dx cfg result_eqb init [] tr = true.
Proof. intros. eapply conc_linearizable; eauto using result_eqb_refl. Qed.
Print Assumptions C08_linearizable.

(* ... hence every concurrent history (the trace without the LP events) is linearizable *)
Theorem C08_histories_linearizable :
  forall hash vd vr vt di dx cfg, (forall a b : bytes, hash a = hash b -> a = b) ->
  forall c tr ms c', initial c -> csteps hash vd vr vt di dx cfg c tr ms c' ->
    linearizable_from hash vd vr vt di dx cfg result_eqb init (history tr).
Proof. intros. exists tr. split; [reflexivity | eapply C08_linearizable; eauto]. Qed.
Print Assumptions C08_histories_linearizable.

(* [result_eqb] is equality *)
Theorem C08_result_eqb_eq : forall a b, result_eqb a b = true <-> a = b.
Proof. exact result_eqb_eq. Qed.
Print Assumptions C08_result_eqb_eq.

(* the hypotheses are satisfiable, and the delicate interleaving is really in the model:
   with hash = identity, a Write that lands between Commit's digest check and its callback
   makes that Commit fail with DIGEST_INVALID and nothing is stored *)
Theorem C08_example_write_during_commit : commit_race_outcome.
Proof. exact commit_race_example. Qed.
Print Assumptions C08_example_write_during_commit.

(* 3. One thread alone: the sections of an operation compose to Mem.step (so C02's histories
   tie the sectioned model's sequential behaviour to the code). *)
Theorem C08_single_thread_is_step :
  forall hash vd vr vt di dx cfg m o, run_op hash vd vr vt di dx cfg m o = mstep hash vd vr vt di dx cfg m o.
Proof. exact conc_seq. Qed.
Print Assumptions C08_single_thread_is_step.

(* 4. Lockset discipline of the lock structure: whenever an interval of an operation touches a
   state class (registry state / buffer state), the mutex guarding that class is held; hence
   any two accesses to one class, in any two operations, have a common lock.  (Race freedom
   in the lockset sense, not against the Go memory model.) *)
Theorem C08_lockset_ok : lockset_disciplined Conc.structure.
Proof. exact structure_lockset. Qed.
Print Assumptions C08_lockset_ok.

Theorem C08_lockset_common_lock :
  forall n1 is1 i1 a1 n2 is2 i2 a2,
    In (n1, is1) Conc.structure -> In i1 is1 -> In a1 (i_acc i1) ->
    In (n2, is2) Conc.structure -> In i2 is2 -> In a2 (i_acc i2) ->
    acc_class a1 = acc_class a2 -> exists l, In l (i_locks i1) /\ In l (i_locks i2).
Proof. exact (lockset_common_lock _ structure_lockset). Qed.
Print Assumptions C08_lockset_common_lock.

(* 5. Lock order: Buffer.commitMu < Registry.mu < Buffer.mu; no cycle in "acquired while held" *)
Theorem C08_lock_order_acyclic : forall l, ~ path (all_edges Conc.structure) l l.
Proof. exact structure_lock_order_acyclic. Qed.
Print Assumptions C08_lock_order_acyclic.

(* 6. Every operation is one atomic region, except Commit = check / callback / record-failure
   under commitMu throughout; the first and last of these do not write registry state *)
Theorem C08_structure_ok : structure_ok Conc.structure = true.
Proof. exact structure_ok_structure. Qed.
Print Assumptions C08_structure_ok.

(* ... and the declared structure is honest about what the model's sections write: an
   operation whose entry has no write access to registry state (resp. buffer state) leaves the
   repositories (resp. the upload buffers) unchanged; of Commit's three sections only the
   callback writes registry state *)
Theorem C08_structure_honest :
  forall hash vd vr vt di dx cfg m o, (forall w d, o <> WCommit w d) ->
    (writes CReg (op_intervals o) = false -> repos (fst (mstep hash vd vr vt di dx cfg m o)) = repos m) /\
    (writes CBuf (op_intervals o) = false -> bufs (fst (mstep hash vd vr vt di dx cfg m o)) = bufs m).
Proof. intros. split; [now apply frame_registry | now apply frame_buffers]. Qed.
Print Assumptions C08_structure_honest.

Theorem C08_commit_frame :
  forall hash vd vr vt di dx cfg lk m m' lp p',
    (forall w d, sec_step hash vd vr vt di dx cfg lk m (PStart (WCommit w d)) = Some (m', lp, p') -> repos m' = repos m) /\
    (forall w e, sec_step hash vd vr vt di dx cfg lk m (PCommitC w e) = Some (m', lp, p') -> repos m' = repos m).
Proof. intros. split; intros; [eapply frame_commit_A | eapply frame_commit_C]; eauto. Qed.
Print Assumptions C08_commit_frame.

(* 7. Corollaries named by the property.
   (a) every state reached concurrently is, up to Buffer.committed / Buffer.desc (which no
       operation reads), a state of the sequential registry *)
Theorem C08_concurrent_states_are_sequential :
  forall hash vd vr vt di dx cfg, (forall a b : bytes, hash a = hash b -> a = b) ->
  forall c tr ms c', initial c -> csteps hash vd vr vt di dx cfg c tr ms c' ->
    exists h, erase (c_mem c') = erase (final (mstep hash vd vr vt di dx cfg) init h).
Proof. intros. eapply conc_reaches_sequential; eauto using result_eqb_refl. Qed.
Print Assumptions C08_concurrent_states_are_sequential.

(* (b) a committed blob's stored content always matches its digest *)
Theorem C08_content_matches_digest :
  forall hash vd vr vt di dx cfg, (forall a b : bytes, hash a = hash b -> a = b) ->
  forall c tr ms c', initial c -> csteps hash vd vr vt di dx cfg c tr ms c' ->
  forall r d b, iblob (c_mem c') r d = Some b -> hash (b_data b) = d.
Proof. intros. eapply conc_content_matches_digest; eauto using result_eqb_refl. Qed.
Print Assumptions C08_content_matches_digest.

(* (c) a tag that at every instant of an execution points at an existing manifest is never
       reported missing by a GetTag invoked in that execution (from any starting state) *)
Theorem C08_tag_never_missing :
  forall hash vd vr vt di dx cfg r tg c tr ms c',
    Forall idle (c_threads c) -> csteps hash vd vr vt di dx cfg c tr ms c' ->
    (forall m, In m ms -> tag_live m r tg) ->
    forall t th res, nth_error (c_threads c') t = Some th ->
      t_cur th = Some (GetTag r tg, PDone res) -> exists de data, res = Ok (RRead de data).
Proof. exact conc_tag_never_missing. Qed.
Print Assumptions C08_tag_never_missing.

(* 8. The checker used on recorded histories of the real code is sound: what it accepts is
   linearizable w.r.t. Mem.step (results compared on the projected observables). *)
Theorem C08_lin_check_sound :
  forall o imm http h, Obs.C08.lin_check o imm http h = true ->
    linearizable_from (Obs.C08.c08_hash o) (MemObs.orc_vd o) (MemObs.orc_vr o) (MemObs.orc_vt o)
      (MemObs.orc_img o) (MemObs.orc_idx o) {| immutable_tags := imm |} (Obs.C08.cmp_of http) init (map ev_of h).
Proof. exact Obs.C08.lin_check_sound. Qed.
Print Assumptions C08_lin_check_sound.

(* 9. The code before the repairs (Model/ConcLegacy.v), kept as refuted statements:
   GetTag as two sections reports a tag missing that pointed at an existing manifest at every
   instant; Commit without re-validation stores content that does not match its digest. *)
Theorem C08_legacy_gettag_refuted : legacy_gettag_missing.
Proof. exact legacy_gettag_witness. Qed.
Print Assumptions C08_legacy_gettag_refuted.

Theorem C08_legacy_commit_refuted : legacy_commit_mismatch.
Proof. exact legacy_commit_witness. Qed.
Print Assumptions C08_legacy_commit_refuted.
