(* C04  Chunked and resumable uploads commit exactly the bytes written.
   Statements only; proofs live in Proofs/RangeCodec.v, Proofs/UploadLaw.v, Proofs/Upload.v,
   Proofs/UploadMem.v.

   Vocabulary.  [ubackend] (Model/Upload.v) is the upload part of ociregistry.Interface; the
   stacks are [mem_backend] (ocimem), [hop1] = ociclient -> ociserver -> ocimem, [hop2] =
   two hops, [unify_backend B B] = ociunify.  [ulaw] (Proofs/UploadLaw.v) is the contract of
   a backend in terms of the bytes an upload has received ([rcv]) and the blobs held
   ([stor]): a writer that is positioned at the end of what the registry has ([Syn])
   accepts every Write, Close leaves the registry with everything written, Commit stores
   exactly received ++ unsent when the digest is its hash and otherwise fails and stores
   nothing; a writer resumed at another offset ([Uns]) has every flush refused as
   range-invalid with the upload and the store unchanged.  [check] (Model/UploadSpec.v) is
   the property as a checker over a script (start / write / close / resume / commit) and
   what was observed. *)
From Coq Require Import String.
From OCI Require Import Model.RangeCodec Model.RangeCodecLegacy Model.Upload Model.UploadSpec Model.UploadMem
  Proofs.RangeCodec Proofs.UploadLaw Proofs.Upload Proofs.UploadMem Proofs.UploadPlans.
Local Open Scope Z_scope.

(* ---- the Content-Range codec (DESIGN C04.2) ---- *)

(* strconv.ParseInt inverts %d on every int64 *)
Theorem C04_decimal_roundtrip : forall z, in_int64 z = true -> parse_int (fmt_int z) = Some z.
Proof. exact parse_int_fmt_int. Qed.
Print Assumptions C04_decimal_roundtrip.

(* ParseRange inverts RangeString on every range 0 <= start <= end (int64) except (0, 1) *)
Theorem C04_range_codec_roundtrip : forall a b,
  0 <= a <= b -> b <= MAX64 -> (a, b) <> (0, 1) ->
  parse_range (range_string a b) = Some (a, b).
Proof. exact parse_range_range_string. Qed.
Print Assumptions C04_range_codec_roundtrip.

(* the exception is forced by the text: "0-0" is written for both, and read as empty *)
Theorem C04_range_codec_ambiguity :
  range_string 0 0 = range_string 0 1 /\ parse_range (range_string 0 1) = Some (0, 0).
Proof. split; [exact range_string_ambiguous | exact parse_range_first_byte]. Qed.
Print Assumptions C04_range_codec_ambiguity.

(* with the request's Content-Length the server recovers every range, (0, 1) included *)
Theorem C04_chunk_range_recovers : forall a b,
  0 <= a <= b -> b <= MAX64 -> chunk_range (range_string a b) (b - a) = CROk a b.
Proof. exact chunk_range_range_string. Qed.
Print Assumptions C04_chunk_range_recovers.

(* and refuses a header whose length is not the Content-Length (the two excluded triples
   are the two readings of "0-0") *)
Theorem C04_chunk_range_rejects : forall a b cl,
  0 <= a <= b -> b <= MAX64 -> 0 <= cl -> cl <> b - a ->
  (a, b, cl) <> (0, 0, 1) -> (a, b, cl) <> (0, 1, 0) ->
  exists n, chunk_range (range_string a b) cl = CRBadLength n.
Proof. exact chunk_range_length_mismatch. Qed.
Print Assumptions C04_chunk_range_rejects.

(* what a resume by asking the registry learns from the status Range header: the size,
   unless exactly one byte has been received (the case the property excludes) *)
Theorem C04_status_range : forall n,
  0 <= n <= MAX64 -> n <> 1 -> parse_range (range_string 0 n) = Some (0, n).
Proof. exact status_range_roundtrip. Qed.
Print Assumptions C04_status_range.

(* before the repairs (Model/RangeCodecLegacy.v) the statement above was false: the first
   byte of an upload and an empty closing request after one byte were refused *)
Theorem C04_chunk_range_recovers_refuted_before_fix :
  exists a b, 0 <= a <= b /\ b <= MAX64 /\ chunk_range_legacy (range_string a b) (b - a) <> CROk a b.
Proof.
  exists 0, 1. repeat split; try (unfold MAX64; lia).
  change (1 - 0) with 1. rewrite legacy_first_byte. discriminate.
Qed.
Print Assumptions C04_chunk_range_recovers_refuted_before_fix.

(* ---- the contract and its preservation ---- *)

(* ocimem satisfies the upload contract (DESIGN C04.1 buffer_direct) *)
Theorem C04_mem_contract :
  forall hash vd vr vt di dx cfg repo, vr repo = true ->
  ulaw (mem_backend hash vd vr vt di dx cfg) hash repo (m_stor repo) (m_rcv repo) (m_Inv repo)
       (m_Good repo) (m_Syn repo) (m_Uns repo) 0.
Proof. exact mem_law. Qed.
Print Assumptions C04_mem_contract.

(* one hop preserves it, for every backend and every way request bodies arrive in pieces;
   the writer invariant (DESIGN C04.3) is [Syn']: the registry holds the first [flushed]
   bytes, the client's chunk the rest, at most a chunk; refusals carry HTTP status 416 *)
Theorem C04_hop_preserves_contract :
  forall (S W I : Type) (B : ubackend S W I) pieces, (forall b, concat (pieces b) = b) ->
  forall hash repo stor rcv Inv Good Syn Uns rs,
  ulaw B hash repo stor rcv Inv Good Syn Uns rs ->
  ulaw (client_backend (serve B pieces)) hash repo stor (rcv' rcv) Inv (Good' repo Good)
       (Syn' repo rcv Good) (Uns' repo rcv Good) 416.
Proof. intros S W I B pieces Hp hash repo stor rcv Inv Good Syn Uns rs L. exact (hop_law B pieces Hp hash repo stor rcv Inv Good Syn Uns rs L). Qed.
Print Assumptions C04_hop_preserves_contract.

(* ociunify over two registries in the same state preserves it; what is stored is stored in both *)
Theorem C04_unify_preserves_contract :
  forall (S W I : Type) (B : ubackend S W I) hash repo stor rcv Inv Good Syn Uns rs,
  ulaw B hash repo stor rcv Inv Good Syn Uns rs ->
  ulaw (unify_backend B B) hash repo (storU stor) (rcvU rcv) (InvU Inv) (GoodU Good)
       (SynU B Syn) (UnsU Uns) rs.
Proof. intros S W I B hash repo stor rcv Inv Good Syn Uns rs L. exact (unify_law B hash repo stor rcv Inv Good Syn Uns rs L). Qed.
Print Assumptions C04_unify_preserves_contract.

(* ---- the property, for every script, on every lawful backend ---- *)

(* Whatever a lawful backend does on a script that fits int64, started where no blob is
   held, satisfies the specification: all contents, all partitions into writes, all
   chunk-size hints, all close-and-resume patterns (at Size(), by asking the registry, at
   an explicit offset), writes at wrong offsets, right and wrong commit digests. *)
Theorem C04_lawful_backend_meets_spec :
  forall (S W I : Type) (B : ubackend S W I) hash repo stor rcv Inv Good Syn Uns rs,
  ulaw B hash repo stor rcv Inv Good Syn Uns rs ->
  forall http : bool, (if http then rs = 416 else rs = 0 \/ rs = 416) ->
  forall st0, Inv st0 -> (forall x, Forall (fun v => v = None) (stor st0 x)) ->
  forall ops st' cur' obs digests,
  weight ops <= MAX64 ->
  run_script B repo st0 None ops = (st', cur', obs) ->
  check hash http ops obs (map (fun d => (d, stor st' d)) digests) = true.
Proof.
  intros S W I B hash repo stor rcv Inv Good Syn Uns rs L http Hrs st0 Hi He ops st' cur' obs digests.
  exact (check_sound B hash repo stor rcv Inv Good Syn Uns rs L http Hrs st0 Hi He ops st' cur' obs digests).
Qed.
Print Assumptions C04_lawful_backend_meets_spec.

(* ... hence on ocimem directly, *)
Theorem C04_spec_mem :
  forall hash vd vr vt di dx cfg repo, vr repo = true ->
  forall ops st' cur' obs digests, weight ops <= MAX64 ->
  run_script (mem_backend hash vd vr vt di dx cfg) repo init None ops = (st', cur', obs) ->
  check hash false ops obs (map (fun d => (d, m_stor repo st' d)) digests) = true.
Proof. exact mem_check. Qed.
Print Assumptions C04_spec_mem.

(* ... through client -> server -> ocimem (DESIGN C04.4 chunked_commit_http), *)
Theorem C04_spec_one_hop :
  forall hash vd vr vt di dx cfg repo, vr repo = true ->
  forall pieces, (forall b, concat (pieces b) = b) ->
  forall ops st' cur' obs digests, weight ops <= MAX64 ->
  run_script (hop1 hash vd vr vt di dx cfg pieces) repo init None ops = (st', cur', obs) ->
  check hash true ops obs (map (fun d => (d, m_stor repo st' d)) digests) = true.
Proof. exact hop1_check. Qed.
Print Assumptions C04_spec_one_hop.

(* ... through two hops, *)
Theorem C04_spec_two_hops :
  forall hash vd vr vt di dx cfg repo, vr repo = true ->
  forall pieces, (forall b, concat (pieces b) = b) ->
  forall ops st' cur' obs digests, weight ops <= MAX64 ->
  run_script (hop2 hash vd vr vt di dx cfg pieces) repo init None ops = (st', cur', obs) ->
  check hash true ops obs (map (fun d => (d, m_stor repo st' d)) digests) = true.
Proof. exact hop2_check. Qed.
Print Assumptions C04_spec_two_hops.

(* ... and through ociunify over two in-memory registries, or over two one-hop stacks. *)
Theorem C04_spec_unify_mem :
  forall hash vd vr vt di dx cfg repo, vr repo = true ->
  forall ops st' cur' obs digests, weight ops <= MAX64 ->
  run_script (unify_backend (mem_backend hash vd vr vt di dx cfg) (mem_backend hash vd vr vt di dx cfg))
             repo (init, init) None ops = (st', cur', obs) ->
  check hash false ops obs (map (fun d => (d, storU (m_stor repo) st' d)) digests) = true.
Proof. exact unify_mem_check. Qed.
Print Assumptions C04_spec_unify_mem.

Theorem C04_spec_unify_one_hop :
  forall hash vd vr vt di dx cfg repo, vr repo = true ->
  forall pieces, (forall b, concat (pieces b) = b) ->
  forall ops st' cur' obs digests, weight ops <= MAX64 ->
  run_script (unify_backend (hop1 hash vd vr vt di dx cfg pieces) (hop1 hash vd vr vt di dx cfg pieces))
             repo (init, init) None ops = (st', cur', obs) ->
  check hash true ops obs (map (fun d => (d, storU (m_stor repo) st' d)) digests) = true.
Proof. exact unify_hop1_check. Qed.
Print Assumptions C04_spec_unify_one_hop.

(* ---- the property in explicit form (Proofs/UploadPlans.v) ---- *)

(* For every lawful backend: every content, every partition of it into Write calls, every
   chunk-size hint, every subset of the write boundaries at which the writer is closed and
   resumed, each resume in any of the three modes (by asking the registry only when the
   bytes received so far are not exactly one): every operation succeeds; a commit with the
   hash of the concatenation returns its length and stores exactly the concatenation in
   every registry underneath; a commit with another digest fails and stores nothing. *)
Theorem C04_plan_commit :
  forall (S W I : Type) (B : ubackend S W I) hash repo stor rcv Inv Good Syn Uns rs,
  ulaw B hash repo stor rcv Inv Good Syn Uns rs ->
  forall http : bool, (if http then rs = 416 else rs = 0 \/ rs = 416) ->
  forall st0, Inv st0 ->
  forall h0 ws0 segs d0 d st' cur' obs,
  let ops := plan_ops h0 ws0 segs ++ [UCommit (d0 :: d)] in
  let content := concat ws0 ++ later_content segs in
  later_ok (concat ws0) segs -> weight ops <= MAX64 ->
  run_script B repo st0 None ops = (st', cur', obs) ->
  exists obs1 ob, obs = obs1 ++ [ob] /\ Forall ok_res obs1 /\
    ((d0 :: d) = hash content ->
       uo_res ob = UOk (blen content) /\
       forall x, stor st' x = put_view (d0 :: d) content x (stor st0 x)) /\
    ((d0 :: d) <> hash content ->
       is_uerr (uo_res ob) = true /\ forall x, stor st' x = stor st0 x).
Proof.
  intros S W I B hash repo stor rcv Inv Good Syn Uns rs L http Hrs st0 Hi.
  exact (plan_commit B hash repo stor rcv Inv Good Syn Uns rs L http Hrs st0 Hi).
Qed.
Print Assumptions C04_plan_commit.

(* For every lawful backend: after any such upload, closed, a resume at an explicit offset
   other than what the registry has received, followed by writes that carry at least one
   byte and a Close, has one of these operations refused as range-invalid (with HTTP
   status 416 over HTTP); the upload is not altered: resumed at the right offset it takes
   further writes and commits as exactly the bytes written through well-positioned writers. *)
Theorem C04_wrong_offset_refused :
  forall (S W I : Type) (B : ubackend S W I) hash repo stor rcv Inv Good Syn Uns rs,
  ulaw B hash repo stor rcv Inv Good Syn Uns rs ->
  forall http : bool, (if http then rs = 416 else rs = 0 \/ rs = 416) ->
  forall st0, Inv st0 ->
  forall h0 ws0 segs off h1 ews h2 ws2 st' cur' obs,
  let g := concat ws0 ++ later_content segs in
  let content := g ++ concat ws2 in
  let d := hash content in
  let ops := plan_ops h0 ws0 segs ++ UClose :: UResume (MAt off) h1 :: (map UWrite ews ++ [UClose])
             ++ UResume (MAt (blen g)) h2 :: map UWrite ws2 ++ [UCommit d] in
  later_ok (concat ws0) segs -> 0 <= off -> off <> blen g -> concat ews <> [] -> d <> [] ->
  weight ops <= MAX64 ->
  run_script B repo st0 None ops = (st', cur', obs) ->
  exists obs1 obe obs2 ob,
    obs = obs1 ++ obe ++ obs2 ++ [ob] /\
    Exists (fun o => is_range_refusal http (uo_res o) = true) obe /\
    uo_res ob = UOk (blen content) /\
    forall x, stor st' x = put_view d content x (stor st0 x).
Proof.
  intros S W I B hash repo stor rcv Inv Good Syn Uns rs L http Hrs st0 Hi.
  exact (wrong_offset_refused B hash repo stor rcv Inv Good Syn Uns rs L http Hrs st0 Hi).
Qed.
Print Assumptions C04_wrong_offset_refused.

(* The stacks of the property are lawful backends (so the two theorems above apply to them,
   from the empty registry [init], with http = false for ocimem and ociunify over ocimem,
   true for the others): ocimem by C04_mem_contract, and *)
Theorem C04_stacks_lawful :
  forall hash vd vr vt di dx cfg repo, vr repo = true ->
  forall pieces, (forall b, concat (pieces b) = b) ->
  let MB := mem_backend hash vd vr vt di dx cfg in
  let H1 := hop1 hash vd vr vt di dx cfg pieces in
  let H2 := hop2 hash vd vr vt di dx cfg pieces in
  (exists rcv Good Syn Uns, ulaw H1 hash repo (m_stor repo) rcv (m_Inv repo) Good Syn Uns 416) /\
  (exists rcv Good Syn Uns, ulaw H2 hash repo (m_stor repo) rcv (m_Inv repo) Good Syn Uns 416) /\
  (exists rcv Good Syn Uns, ulaw (unify_backend MB MB) hash repo (storU (m_stor repo)) rcv (InvU (m_Inv repo)) Good Syn Uns 0) /\
  (exists rcv Good Syn Uns, ulaw (unify_backend H1 H1) hash repo (storU (m_stor repo)) rcv (InvU (m_Inv repo)) Good Syn Uns 416) /\
  m_Inv repo init /\ InvU (m_Inv repo) (init, init).
Proof.
  intros hash vd vr vt di dx cfg repo Hvr pieces Hp MB H1 H2.
  split; [do 4 eexists; exact (hop1_law hash vd vr vt di dx cfg repo Hvr pieces Hp)|].
  split; [do 4 eexists; exact (hop2_law hash vd vr vt di dx cfg repo Hvr pieces Hp)|].
  split; [do 4 eexists; exact (unify_mem_law hash vd vr vt di dx cfg repo Hvr)|].
  split; [do 4 eexists; exact (unify_hop1_law hash vd vr vt di dx cfg repo Hvr pieces Hp)|].
  split; [apply init_inv | split; [reflexivity | apply init_inv]].
Qed.
Print Assumptions C04_stacks_lawful.

(* The hypotheses are satisfiable by non-trivial values: a one-byte content written in one
   piece, closed, resumed at the reported size and committed over two hops is stored. *)
Example C04_two_hops_one_byte :
  let hash := fun c : bytes => 104%N :: c in
  let B := hop2 hash (fun _ => true) (fun _ => true) (fun _ => true) (fun _ => None) (fun _ => None)
                {| immutable_tags := false |} (fun b => match b with [] => [] | _ => [b] end) in
  let ops := plan_ops 0 [[97%N]] [(MSize, 0, [])] ++ [UCommit (hash [97%N])] in
  let '(st', _, obs) := run_script B (s "foo/bar") init None ops in
  map uo_res obs = [UOk 0; UOk 1; UOk 0; UOk 0; UOk 1] /\
  m_stor (s "foo/bar") st' (hash [97%N]) = [Some [97%N]].
Proof. vm_compute. split; reflexivity. Qed.

(* PushBlobChunked: the chunk size of the writer is the larger of the caller's hint (64 KiB
   when the hint is not positive) and the minimum the registry announces (DESIGN C04.3) *)
Theorem C04_chunk_size :
  forall (S I : Type) (srv : S -> request I -> S * response I) st repo hint st' i rg m,
  srv st (QStart repo) = (st', upload_response 202 repo i rg (fmt_int m)) -> in_int64 m = true ->
  exists w, client_start srv st repo hint = (st', Ok w) /\
    w_chunksize w = Z.max (if hint <=? 0 then DEFAULT_CHUNK else hint) m /\
    w_size w = 0 /\ w_flushed w = 0 /\ w_chunk w = [] /\ w_loc w = LUpload repo i.
Proof. intros S I srv. exact (client_start_chunksize srv). Qed.
Print Assumptions C04_chunk_size.
