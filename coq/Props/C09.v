(* C09  Auth scopes behave as finite sets of (type, resource, action) triples.
   Statements only; proofs live in Proofs/Scope*.v.  Vocabulary (Model/Scope.v):
     scope      the Go representation: original text, unlimited flag, sorted repositories with
                a parallel slice of action bitmasks ("" = catalog sentinel), sorted others
     wf sc      the representation invariant (parallel slices of equal length, repositories
                strictly ascending, masks in {pull, push, pull|push} and the sentinel's mask
                = 1<<pull, others strictly ascending and none of them "known", an unlimited
                scope has no other content, a source text parses to this very scope)
     abs sc     the set the scope denotes, as the strictly ascending list of its triples
     eval e     the value of an expression over NewScope / ParseScope / UnlimitedScope /
                Union / Canonical, i.e. every Scope the exported API can build
     Holds      returns R unit bool: Panic / OutOfFuel are explicit outcomes of the indexing
                and of the binary-search loop. *)
From Coq Require Import String.
From OCI Require Import Model.Scope Proofs.Scope Proofs.ScopeAlg Proofs.ScopeOps Proofs.ScopeEval
  Proofs.ScopeText Proofs.ScopeLaws Model.ScopeLegacy.

(* Every Scope the exported API can build satisfies the representation invariant. *)
Theorem C09_wf_constructible : forall e, wf (eval e).
Proof. exact wf_eval. Qed.
Print Assumptions C09_wf_constructible.

(* The invariant is preserved by every operation taken alone, too. *)
Theorem C09_wf_operations :
  (forall l, wf (NewScope l)) /\ (forall t, wf (ParseScope t)) /\ wf UnlimitedScope /\
  (forall s1 s2, wf s1 -> wf s2 -> wf (Union s1 s2)) /\ (forall sc, wf sc -> wf (Canonical sc)).
Proof. exact wf_operations. Qed.
Print Assumptions C09_wf_operations.

(* abs is a canonical form: strictly ascending in ResourceScope.Compare order. *)
Theorem C09_abs_ascending : forall sc, StronglySorted rs_lt (abs sc).
Proof. exact abs_sorted. Qed.
Print Assumptions C09_abs_ascending.

(* NewScope builds the set of its arguments: arbitrary field values, duplicates, any order. *)
Theorem C09_abs_new : forall l r, In r (abs (NewScope l)) <-> In r l.
Proof. exact abs_new. Qed.
Print Assumptions C09_abs_new.

(* ParseScope builds the set of the triples the scope grammar reads from the text. *)
Theorem C09_abs_parse : forall t r, In r (abs (ParseScope t)) <-> In r (parse_rscopes t).
Proof. exact abs_parse. Qed.
Print Assumptions C09_abs_parse.

(* Holds is membership; it never panics (no index out of range, the binary search ends
   within its fuel). *)
Theorem C09_holds_spec : forall sc r,
  wf sc -> exists b, Holds sc r = Ok b /\ (b = true <-> unlimited sc = true \/ In r (abs sc)).
Proof. exact holds_spec. Qed.
Print Assumptions C09_holds_spec.

(* slices.BinarySearch(Func) on a strictly ascending slice: found = membership, the index
   is the position of the element and the number of smaller elements. *)
Theorem C09_binary_search_spec : forall {A} (cmp : A -> A -> comparison), total_cmp cmp -> forall x t,
  StronglySorted (cmp_lt cmp) x ->
  exists k b, bsearch cmp x t = Ok (k, b) /\ (b = true <-> In t x) /\
              (b = true -> nth_error x k = Some t) /\
              k = List.length (filter (fun e => match cmp e t with Lt => true | _ => false end) x).
Proof. exact @bsearch_sorted. Qed.
Print Assumptions C09_binary_search_spec.

(* Contains is the superset relation (the unlimited scope being the top element). *)
Theorem C09_contains_spec : forall s1 s2,
  wf s1 -> wf s2 ->
  (Contains s1 s2 = true <-> unlimited s1 = true \/ (unlimited s2 = false /\ incl (abs s2) (abs s1))).
Proof. exact contains_spec. Qed.
Print Assumptions C09_contains_spec.

(* Union is set union (unlimited absorbing), and the result is well formed. *)
Theorem C09_union_spec : forall s1 s2,
  wf s1 -> wf s2 ->
  wf (Union s1 s2) /\
  unlimited (Union s1 s2) = unlimited s1 || unlimited s2 /\
  (unlimited s1 = false -> unlimited s2 = false ->
   forall v, In v (abs (Union s1 s2)) <-> In v (abs s1) \/ In v (abs s2)).
Proof. exact union_spec. Qed.
Print Assumptions C09_union_spec.

(* A union that adds nothing returns its receiver: Leibniz equality, so the original text
   (and with it String) is unchanged. *)
Theorem C09_union_noop : forall s1 s2, wf s1 -> Contains s1 s2 = true -> Union s1 s2 = s1.
Proof. exact union_noop. Qed.
Print Assumptions C09_union_noop.

Theorem C09_union_noop_text : forall t s2,
  Contains (ParseScope t) s2 = true -> String (Union (ParseScope t) s2) = t.
Proof. exact union_noop_text. Qed.
Print Assumptions C09_union_noop_text.

(* Equal is equality of the denoted sets (and of the unlimited flag). *)
Theorem C09_equal_spec : forall s1 s2,
  wf s1 -> wf s2 ->
  (Equal s1 s2 = true <-> unlimited s1 = unlimited s2 /\ forall v, In v (abs s1) <-> In v (abs s2)).
Proof. exact equal_spec_in. Qed.
Print Assumptions C09_equal_spec.

(* Len is the cardinality; it panics exactly on the unlimited scope (as documented). *)
Theorem C09_len_spec : forall sc,
  wf sc -> Len sc = if unlimited sc then Panic else Ok (List.length (abs sc)).
Proof. exact len_spec. Qed.
Print Assumptions C09_len_spec.

(* IsEmpty is emptiness of the set. *)
Theorem C09_isempty_spec : forall sc, wf sc -> (IsEmpty sc = true <-> unlimited sc = false /\ abs sc = []).
Proof. exact isempty_spec. Qed.
Print Assumptions C09_isempty_spec.

(* Iter hands any consumer the elements of the set in strictly ascending order, stopping
   when the consumer declines; in particular the full iteration is abs, and a consumer that
   declines its (n+1)-th item has been called on exactly the first n+1 elements. *)
Theorem C09_iter_spec : forall sc,
  wf sc ->
  (forall St (y : rscope -> St -> St * bool) st, Iter y sc st = fst (run y (abs sc) st)) /\
  IterList sc = abs sc /\ StronglySorted rs_lt (IterList sc) /\
  (forall n, IterStop n sc = firstn (S n) (abs sc)).
Proof. exact iter_spec. Qed.
Print Assumptions C09_iter_spec.

(* The canonical text of a list of clean triples parses back to the very same list. *)
Theorem C09_parse_render : forall l, forallb clean_rs l = true -> parse_rscopes (render l) = l.
Proof. exact parse_render. Qed.
Print Assumptions C09_parse_render.

(* Printing a scope and parsing the text yields an equal scope (fields non-empty and free of
   white space, colons and commas). *)
Theorem C09_print_parse : forall sc,
  wf sc -> unlimited sc = false -> clean sc -> Equal (ParseScope (String (Canonical sc))) sc = true.
Proof. exact print_parse. Qed.
Print Assumptions C09_print_parse.

(* The same without Canonical: a scope that still carries its source text prints as that
   text, which parses to an equal scope whatever its fields are. *)
Theorem C09_reparse : forall sc,
  wf sc -> unlimited sc = false -> clean sc \/ original sc <> [] ->
  Equal (ParseScope (String sc)) sc = true.
Proof. exact reparse. Qed.
Print Assumptions C09_reparse.

(* the hypotheses of the round trip are satisfiable by a scope that mixes the catalog
   scope, a two-action repository, an unknown action and an unknown type:
   example_scope = NewScope [repository:foo/bar:push; x:y:z; repository:foo/bar:pull;
   registry:catalog:*; repository:foo/bar:delete] *)
Example C09_print_parse_nonvacuous :
  wf example_scope /\ unlimited example_scope = false /\ clean example_scope /\
  List.length (abs example_scope) = 5%nat /\
  String example_scope = s "registry:catalog:* repository:foo/bar:delete,pull,push x:y:z".
Proof. exact print_parse_nonvacuous. Qed.
Print Assumptions C09_print_parse_nonvacuous.

(* A parsed scope prints as the text it was parsed from: every text, byte for byte. *)
Theorem C09_parse_keeps_text : forall t, String (ParseScope t) = t.
Proof. exact parse_keeps_text. Qed.
Print Assumptions C09_parse_keeps_text.

(* The unlimited scope contains everything and absorbs unions; nothing else contains it. *)
Theorem C09_unlimited_top :
  (forall r, Holds UnlimitedScope r = Ok true) /\
  (forall sc, Contains UnlimitedScope sc = true) /\
  (forall sc, Union UnlimitedScope sc = UnlimitedScope /\ Union sc UnlimitedScope = UnlimitedScope) /\
  (forall sc, wf sc -> Contains sc UnlimitedScope = true -> sc = UnlimitedScope).
Proof. exact unlimited_top. Qed.
Print Assumptions C09_unlimited_top.

(* A repository scope never confers the registry catalog scope, or the reverse: whatever
   the resource names and actions are (the empty repository name included). *)
Theorem C09_catalog_separation :
  (forall l, (forall q, In q l -> rtype q = TypeRepository) -> Holds (NewScope l) CatalogScope = Ok false) /\
  (forall l r, (forall q, In q l -> rtype q = TypeRegistry) -> rtype r = TypeRepository ->
               Holds (NewScope l) r = Ok false) /\
  (forall sc r, wf sc -> unlimited sc = false -> (Holds sc r = Ok true <-> In r (abs sc))).
Proof. exact catalog_separation_all. Qed.
Print Assumptions C09_catalog_separation.

(* Contains is a preorder compatible with Union (used by C10). *)
Theorem C09_contains_order :
  (forall sc, wf sc -> Contains sc sc = true) /\
  (forall a b c, wf a -> wf b -> wf c -> Contains a b = true -> Contains b c = true -> Contains a c = true) /\
  (forall a b, wf a -> wf b -> Contains (Union a b) a = true /\ Contains (Union a b) b = true).
Proof. exact contains_order. Qed.
Print Assumptions C09_contains_order.

(* The finding repaired by fix 8ef16a4, kept on the model of the code as it was
   (Model/ScopeLegacy.v): NewScope({repository,"",pull}) held registry:catalog:*, was Equal to
   NewScope(CatalogScope), and the catalog scope held {repository,"",pull}.  With the fix the
   statement C09_catalog_separation above holds for these inputs (corpus/C09). *)
Theorem C09_catalog_separation_legacy_refuted :
  exists l, (forall q, In q l -> rtype q = TypeRepository) /\
            Holds_legacy (NewScope_legacy l) CatalogScope = Ok true /\
            Equal (NewScope_legacy l) (NewScope_legacy [CatalogScope]) = true /\
            Holds_legacy (NewScope_legacy [CatalogScope]) (RS TypeRepository [] ActionPull) = Ok true.
Proof. exact legacy_separation_refuted. Qed.
Print Assumptions C09_catalog_separation_legacy_refuted.
