(* C18  The HTTP client survives any server response.
   Statements only; proofs live in Proofs/Client.v.  The model is Model/Client.v (ociclient,
   method by method) over Model/Http.v (net/http's redirect loop over an arbitrary stateful
   server [serve : Srv -> hreq -> Srv * option hresp]).

   [env_ok ev] is what the theorems ask of the library oracles: a digest ociref.IsValidDigest
   accepts has a ":" and an available algorithm, sha256 is available (go-digest), and
   ocirequest.Construct refuses a blob request with an empty digest.  Everything else the
   oracles answer (URL parsing, JSON and mime decoding, hashing, argument validation) is
   arbitrary.  [inv w] says the log of the starting world respects the error-body bound; the
   empty log does.  The page size is any integer. *)
From Coq Require Import String.
From OCI Require Import Base.Outcome Model.Http Model.Client Model.Iface Model.Errors Proofs.Client.

Local Open Scope Z_scope.

(* No method panics: every server (any state, any answers, transport failures), every oracle
   satisfying env_ok, every call with every argument and every use of the returned reader /
   writer / iterator, every ListPageSize, every fuel. *)
Theorem C18_no_panic :
  forall Srv (serve : Srv -> hreq -> Srv * option hresp) ev, env_ok ev ->
  forall page fuel cl w, inv w ->
  outcome_panics (snd (Client.run Srv serve ev current (new_client current page) fuel cl w)) = false.
Proof. exact client_no_panic. Qed.
Print Assumptions C18_no_panic.

(* The number of requests is bounded: 10 per HTTP exchange (net/http's redirect limit) and a
   fixed number of exchanges per call (2 for the reads and PushBlob, 1 + the number of
   operations on the writer for a chunked upload, else 1). *)
Theorem C18_requests_bounded :
  forall Srv (serve : Srv -> hreq -> Srv * option hresp) ev, env_ok ev ->
  forall page fuel cl w, inv w -> is_paged cl = false ->
  (nreq (fst (Client.run Srv serve ev current (new_client current page) fuel cl w))
   <= nreq w + 10 * exchanges_of cl)%nat.
Proof. exact client_requests_bounded. Qed.
Print Assumptions C18_requests_bounded.

(* A listing never loops without progress: when it has made j exchanges it has yielded at
   least (j - 1) full pages of names, for the page size in force (which is at least 1). *)
Theorem C18_paging_progress :
  forall Srv (serve : Srv -> hreq -> Srv * option hresp) ev, env_ok ev ->
  forall page fuel cl w, inv w -> is_paged cl = true ->
  exists j, 0 <= j /\
    Z.of_nat (nreq (fst (Client.run Srv serve ev current (new_client current page) fuel cl w)))
      <= Z.of_nat (nreq w) + 10 * j /\
    (j - 1) * c_page_size (new_client current page)
      <= names_yielded (snd (Client.run Srv serve ev current (new_client current page) fuel cl w)).
Proof. exact client_paging_progress. Qed.
Print Assumptions C18_paging_progress.

(* The page size in force is positive for every configured value, -1 and 0 included. *)
Theorem C18_page_size_positive : forall page, 1 <= c_page_size (new_client current page).
Proof. exact new_client_page_size. Qed.
Print Assumptions C18_page_size_positive.

(* After a transport failure the operation stops: at most one failed request per operation
   the caller performs (the call itself and each operation on its BlobWriter). *)
Theorem C18_stops_on_transport_failure :
  forall Srv (serve : Srv -> hreq -> Srv * option hresp) ev, env_ok ev ->
  forall page fuel cl w, inv w ->
  (nerr (fst (Client.run Srv serve ev current (new_client current page) fuel cl w))
   <= nerr w + caller_ops_of cl)%nat.
Proof. exact client_stops_on_transport_failure. Qed.
Print Assumptions C18_stops_on_transport_failure.

(* The body of a response that is not a 2xx is read at most 8 KiB + 1 (entry_ok), over the
   whole log, redirect hops included. *)
Theorem C18_error_body_read_bounded :
  forall Srv (serve : Srv -> hreq -> Srv * option hresp) ev, env_ok ev ->
  forall page fuel cl w, inv w ->
  Forall entry_ok (w_log (fst (Client.run Srv serve ev current (new_client current page) fuel cl w))).
Proof. exact client_error_body_read_bounded. Qed.
Print Assumptions C18_error_body_read_bounded.

(* Only a listing can use up its fuel, and then it has received as many answers as it had
   fuel (the other possibility is a caller that reads a blob with an empty buffer). *)
Theorem C18_out_of_fuel_only_by_answers :
  forall Srv (serve : Srv -> hreq -> Srv * option hresp) ev, env_ok ev ->
  forall page fuel cl w, inv w ->
  outcome_out_of_fuel (snd (Client.run Srv serve ev current (new_client current page) fuel cl w)) = true ->
  (is_paged cl = true /\
   (nans w + fuel <= nans (fst (Client.run Srv serve ev current (new_client current page) fuel cl w)))%nat)
  \/ ~ bufsz_ok cl.
Proof. exact client_out_of_fuel. Qed.
Print Assumptions C18_out_of_fuel_only_by_answers.

(* On a finite script (answers in order, then transport failures) every call ends: with more
   fuel than answers nothing runs out of fuel, at most one request per operation of the caller
   goes beyond the script, and the log lines up with the script. *)
Theorem C18_finite_script :
  forall (sc : script) ev page, env_ok ev -> forall fuel cl,
  let w' := fst (Client.run script script_serve ev current (new_client current page) fuel cl (init_world sc)) in
  let o := snd (Client.run script script_serve ev current (new_client current page) fuel cl (init_world sc)) in
  outcome_panics o = false /\
  ((length sc < fuel)%nat -> bufsz_ok cl -> outcome_out_of_fuel o = false) /\
  (nreq w' <= length sc + caller_ops_of cl)%nat /\
  (exists j, 0 <= j /\ Z.of_nat (nreq w') <= 10 * j /\
             if is_paged cl then (j - 1) * c_page_size (new_client current page) <= names_yielded o
             else j <= Z.of_nat (exchanges_of cl)) /\
  Forall entry_ok (w_log w') /\ log_matches sc (w_log w').
Proof. exact script_run. Qed.
Print Assumptions C18_finite_script.

(* descriptorFromResponse, locationFromResponse and nextLink give a value or an error on
   every response (no panic, no loop), for every oracle. *)
Theorem C18_parsers_total :
  forall ev r known rs rd q last,
  clean (descriptor_from_response ev current r known rs rd) /\
  clean (location_from_response ev r) /\ clean (next_link ev r q last).
Proof. exact parsers_total. Qed.
Print Assumptions C18_parsers_total.

(* chunkSizeFromResponse never lowers the caller's chunk size. *)
Theorem C18_chunk_size_from_response : forall r cs, cs <= chunk_size_from_response r cs.
Proof. exact chunk_size_from_response_ge. Qed.
Print Assumptions C18_chunk_size_from_response.

(* The hypothesis env_ok is satisfiable. *)
Example C18_env_ok_example : env_ok witness_env.
Proof. exact witness_env_ok. Qed.

(* The tree before the fixes violated the property, each time on an input on which the
   current tree does not: ListPageSize -1 with an empty page; a caller's digest that only
   passes in its URL-decoded form with no Docker-Content-Digest in the answer; a huge
   OCI-Chunk-Min-Length on the status request of a resumed upload followed by a Write. *)
Theorem C18_page_size_refuted_before_fix :
  outcome_panics (run_before (-1) (CRepositories [] None) [ok_resp 200 []]) = true
  /\ outcome_panics (run_now (-1) (CRepositories [] None) [ok_resp 200 []]) = false.
Proof. exact legacy_page_size_panics. Qed.
Print Assumptions C18_page_size_refuted_before_fix.

Theorem C18_known_digest_refuted_before_fix :
  outcome_panics (run_before 0 (CGetBlob (s "foo") (s "sha256%3Aaa") 1) [ok_resp 200 []]) = true
  /\ outcome_panics (run_now 0 (CGetBlob (s "foo") (s "sha256%3Aaa") 1) [ok_resp 200 []]) = false.
Proof. exact legacy_known_digest_panics. Qed.
Print Assumptions C18_known_digest_refuted_before_fix.

Theorem C18_chunk_size_refuted_before_fix :
  let sc := [ok_resp 204 [(s "Location", s "/u"); (s "Range", s "0-9");
                          (s "Oci-Chunk-Min-Length", s "9223372036854775807")]] in
  let cl := CPushBlobChunkedResume (s "foo") (s "/u") (-1) 0 [WoWrite (s "x")] in
  outcome_panics (run_before 0 cl sc) = true /\ outcome_panics (run_now 0 cl sc) = false.
Proof. exact legacy_chunk_size_panics. Qed.
Print Assumptions C18_chunk_size_refuted_before_fix.
