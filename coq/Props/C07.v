(* C07  Errors keep their identity, status and message across the wire.
   Statements only; proofs live in Proofs/Errors.v (model: Model/Errors.v).

   Vocabulary.  [gerr] is a Go error value (tree of WireError / WireErrors / fmt %w wrapper /
   httpError / plain error); [is e t] is errors.Is(e, t) for t one of the 15 standard values;
   [marshal_error] is ociregistry.MarshalError; [hop hs e] is one server-to-client hop:
   the handler's wrapping, MarshalError / WriteError, the HTTP response, ociclient.makeError, the
   client method's wrapping; [hops l e] is a chain of hops, the one next to the backend first.
   [nowvspec hs]: neither side flattens the error with %v;  [bodyspec hs]: moreover the carrier
   is not HEAD and the response body fits the client's 8 KiB limit;  [plainspec hs]: moreover
   neither side adds a text prefix.  Every theorem of the message / status group holds for ANY
   status-text and code-text functions [sprefix] / [cprefix] (http.StatusText and the code
   lower-casing are not assumed). *)
From Coq Require Import String.
From OCI Require Import Base.Outcome Model.Errors Model.ErrorsLegacy Proofs.Errors.
From OCI Require Obs.C07.

(* ---------------------------------------------------------------- status *)

(* The code-to-status table of error.go is the distribution specification's, row by row
   (spec_status is the specification's table written as a function). *)
Theorem C07_status_table_rows : forall t, lookup (std_code t) error_statuses = Some (spec_status t).
Proof. exact lookup_std. Qed.
Print Assumptions C07_status_table_rows.

(* MarshalError answers with the specification's status whenever the code it sends is one of
   the 15, whatever HTTP-status wrappers the error carries ... *)
Theorem C07_status_table_std : forall sprefix cprefix e t,
  marshal_code e = std_code t -> r_status (marshal_error sprefix cprefix e) = spec_status t.
Proof. intros sprefix cprefix e t. exact (status_table_std e t). Qed.
Print Assumptions C07_status_table_std.

(* ... and for every other code with the error's own status (outermost HTTPError), else 500. *)
Theorem C07_status_table_other : forall sprefix cprefix e,
  (forall t, marshal_code e <> std_code t) ->
  r_status (marshal_error sprefix cprefix e) = match as_http e with Some st => st | None => 500%Z end.
Proof. intros sprefix cprefix e. exact (status_table_other e). Qed.
Print Assumptions C07_status_table_other.

(* After any number n >= 1 of hops that do not flatten the error (HEAD carriers and oversize
   bodies included) the status the caller reads is the status MarshalError gave the original,
   and every later server answers with it again. *)
Theorem C07_status_preserved : forall sprefix cprefix hs l e,
  forallb nowvspec (hs :: l) = true ->
  as_http (hops sprefix cprefix (hs :: l) e) = Some (marshal_status e) /\
  marshal_status (hops sprefix cprefix (hs :: l) e) = marshal_status e.
Proof.
  intros sprefix cprefix hs l e H. split; [now apply status_read | now apply status_preserved].
Qed.
Print Assumptions C07_status_preserved.

Example C07_status_preserved_nonvacuous :
  forallb nowvspec [ {| h_head := true; h_swrap := WNone; h_cwrap := WNone; h_len := 0 |};
                     {| h_head := false; h_swrap := WW [99]; h_cwrap := WW [100]; h_len := 9000 |} ] = true.
Proof. reflexivity. Qed.

(* ---------------------------------------------------------------- errors.Is *)

(* Exact answer of errors.Is after n >= 1 body-carrying hops, for EVERY error value: the code
   MarshalError chose is the standard value's code, or the status is 416 and the value is
   ErrRangeInvalid (httpError.Is). *)
Theorem C07_is_after_hops : forall sprefix cprefix hs l e t,
  forallb bodyspec (hs :: l) = true ->
  is (hops sprefix cprefix (hs :: l) e) t =
    beqb (std_code t) (marshal_code e) || (Z.eqb (marshal_status e) 416 && std_eqb t SRangeInvalid).
Proof. intros. now apply is_hops. Qed.
Print Assumptions C07_is_after_hops.

(* errors.Is is preserved over n >= 1 body-carrying hops for every error with at most one
   reachable code (every wrapping of one leaf by %w / HTTP-status wrappers with any status)
   and every standard value; for ErrRangeInvalid under the side condition that the original's
   answer agrees with what code and status will say (range_clean).  Partial: HEAD carriers,
   oversize bodies and the 416 disagreement are excluded; see the three witnesses below. *)
Theorem C07_is_preserved_partial : forall sprefix cprefix hs l e t,
  forallb bodyspec (hs :: l) = true -> single e = true ->
  (std_eqb t SRangeInvalid = true -> range_clean e = true) ->
  is (hops sprefix cprefix (hs :: l) e) t = is e t.
Proof. intros. now apply is_preserved_hops. Qed.
Print Assumptions C07_is_preserved_partial.

(* every error value the harness can script (Obs.C07.serr: standard value, custom coded error
   or uncoded error under any nesting of %w and HTTP-status wrappers) has one reachable code *)
Theorem C07_inputs_single : forall se, single (Obs.C07.to_gerr se) = true.
Proof. exact Obs.C07.single_to_gerr. Qed.
Print Assumptions C07_inputs_single.

Example C07_is_preserved_nonvacuous :
  let e := Http 418 (Some (Wrap [120] (std_err SBlobUnknown))) false in
  single e = true /\ range_clean e = true /\ is e SBlobUnknown = true.
Proof. repeat split. Qed.

(* Witness (finding is-416-status): ErrBlobUploadInvalid travels with status 416, and status
   416 alone answers errors.Is(err, ErrRangeInvalid): false on the original, true after a hop. *)
Theorem C07_is_preserved_416_refuted : exists hs e t,
  bodyspec hs = true /\ single e = true /\
  is e t <> is (hop go_sprefix go_cprefix hs e) t.
Proof.
  exists {| h_head := false; h_swrap := WNone; h_cwrap := WNone; h_len := 100 |},
         (std_err SBlobUploadInvalid), SRangeInvalid.
  repeat split. vm_compute. discriminate.
Qed.
Print Assumptions C07_is_preserved_416_refuted.

(* ... and in the other direction: an HTTP-416 wrapper around a 404 code loses the answer. *)
Theorem C07_is_preserved_416_lost_refuted : exists hs e t,
  bodyspec hs = true /\ single e = true /\
  is e t = true /\ is (hop go_sprefix go_cprefix hs e) t = false.
Proof.
  exists {| h_head := false; h_swrap := WNone; h_cwrap := WNone; h_len := 100 |},
         (Http 416 (Some (std_err SBlobUnknown)) false), SRangeInvalid.
  repeat split.
Qed.
Print Assumptions C07_is_preserved_416_lost_refuted.

(* HEAD carriers: the response has no body; errors.Is after the hop is EXACTLY the status
   fallback of makeError1 (404 NAME_UNKNOWN, 401 UNAUTHORIZED, 403 DENIED, 429
   TOOMANYREQUESTS, 400 UNSUPPORTED) plus 416 for ErrRangeInvalid ... *)
Theorem C07_is_head_exact : forall sprefix cprefix hs e t,
  h_head hs = true -> nowvspec hs = true ->
  is (hop sprefix cprefix hs e) t = is_head (marshal_status e) t.
Proof. intros. now apply is_hop_head. Qed.
Print Assumptions C07_is_head_exact.

(* ... a further HEAD hop changes nothing ... *)
Theorem C07_head_stable : forall sprefix cprefix hs l e,
  forallb headspec (hs :: l) = true ->
  hops sprefix cprefix (hs :: l) e = head_result e.
Proof. intros. now apply hops_head. Qed.
Print Assumptions C07_head_stable.

(* ... and on a path that mixes HEAD requests with body-carrying ones (a client's follow-up
   HEAD behind a GET, a handler's preliminary ResolveBlob in front of one; no text added, bodies
   that fit) what arrives is the status fallback carried through the hops after the last HEAD:
   the status survives, identity is the fallback's from the first HEAD hop on ... *)
Theorem C07_head_then_body : forall sprefix cprefix p e,
  forallb Obs.C07.hpspec p = true -> existsb h_head p = true ->
  hops sprefix cprefix p e = hops sprefix cprefix (Obs.C07.after_head p) (head_result e) /\
  forallb plainspec (Obs.C07.after_head p) = true /\
  marshal_status (hops sprefix cprefix p e) = marshal_status e /\
  forall t, is (hops sprefix cprefix p e) t = is_head (marshal_status e) t.
Proof. exact Obs.C07.head_then_body. Qed.
Print Assumptions C07_head_then_body.

(* ... witness (finding head-identity): ErrBlobUnknown through a HEAD carrier answers
   errors.Is(err, ErrBlobUnknown) = false and errors.Is(err, ErrNameUnknown) = true. *)
Theorem C07_is_preserved_head_refuted : exists hs e,
  h_head hs = true /\ nowvspec hs = true /\
  is e SBlobUnknown = true /\ is (hop go_sprefix go_cprefix hs e) SBlobUnknown = false /\
  is e SNameUnknown = false /\ is (hop go_sprefix go_cprefix hs e) SNameUnknown = true.
Proof.
  exists {| h_head := true; h_swrap := WNone; h_cwrap := WNone; h_len := 100 |}, (std_err SBlobUnknown).
  repeat split.
Qed.
Print Assumptions C07_is_preserved_head_refuted.

(* Witness (finding oversize-body): a response above 8 KiB is not parsed by the client. *)
Theorem C07_is_preserved_oversize_refuted : exists hs e,
  h_head hs = false /\ nowvspec hs = true /\
  is e SBlobUnknown = true /\ is (hop go_sprefix go_cprefix hs e) SBlobUnknown = false.
Proof.
  exists {| h_head := false; h_swrap := WNone; h_cwrap := WNone; h_len := 8193 |}, (std_err SBlobUnknown).
  repeat split.
Qed.
Print Assumptions C07_is_preserved_oversize_refuted.

(* ---------------------------------------------------------------- code and detail *)

(* After n >= 1 body-carrying hops the caller reads (errors.As Error) the code MarshalError
   chose for the original and the original's detail (nil and empty detail identified, as
   omitempty does); the detail is an opaque value here (JSON re-encoding is not modelled). *)
Theorem C07_detail_preserved : forall sprefix cprefix hs l e,
  forallb bodyspec (hs :: l) = true ->
  exists m, as_err (hops sprefix cprefix (hs :: l) e) = Some (W (marshal_code e) m (marshal_detail e)).
Proof. intros. now apply code_detail_read. Qed.
Print Assumptions C07_detail_preserved.

(* Witness (finding head-detail): the detail does not survive a HEAD carrier. *)
Theorem C07_detail_head_refuted : exists hs e,
  h_head hs = true /\ nowvspec hs = true /\
  marshal_detail e = Some [49] /\ marshal_detail (hop go_sprefix go_cprefix hs e) = None.
Proof.
  exists {| h_head := true; h_swrap := WNone; h_cwrap := WNone; h_len := 100 |},
         (Wire (W (std_code SBlobUnknown) [109] (Some [49]))).
  repeat split.
Qed.
Print Assumptions C07_detail_head_refuted.

(* ---------------------------------------------------------------- message *)

(* message_fixpoint: over hops that add no text, the message the caller finds after n+1 hops
   is the message found after the first hop, for every error value, every message text
   (also ones that begin with status or code prefixes, and the empty one), any StatusText and
   any code-text function.  (Status 0 is the one status trimErrorCodePrefix does not strip;
   WriteHeader panics on it, see C07_hops_run.) *)
Theorem C07_message_fixpoint : forall sprefix cprefix hs l e,
  forallb plainspec (hs :: l) = true -> marshal_status e <> 0%Z ->
  cmsg (hops sprefix cprefix (hs :: l) e) = cmsg (hop sprefix cprefix hs e).
Proof. intros. now apply message_fixpoint. Qed.
Print Assumptions C07_message_fixpoint.

(* no accumulation: the message on the wire is the same at every level *)
Theorem C07_message_no_accumulation : forall sprefix cprefix l e,
  forallb plainspec l = true -> marshal_status e <> 0%Z ->
  wmsg sprefix cprefix (hops sprefix cprefix l e) = wmsg sprefix cprefix e.
Proof. intros. now apply wmsg_fixpoint. Qed.
Print Assumptions C07_message_no_accumulation.

(* HEAD carriers: the whole error, hence its message, is stable from the first hop on
   (C07_head_stable). *)

(* Witness (finding upload-message-accumulates): the upload methods of ociclient and the
   upload handlers of ociserver add a text prefix in front of the status prefix, which
   trimErrorCodePrefix (a prefix trim) then no longer strips: the message grows by
   prefix + status text + code text per hop. *)
Theorem C07_message_fixpoint_upload_refuted : exists hs e,
  bodyspec hs = true /\
  cmsg (hop go_sprefix go_cprefix hs (hop go_sprefix go_cprefix hs e)) <> cmsg (hop go_sprefix go_cprefix hs e) /\
  (length (wmsg go_sprefix go_cprefix (hop go_sprefix go_cprefix hs e)) >
   length (wmsg go_sprefix go_cprefix e))%nat.
Proof.
  exists {| h_head := false; h_swrap := WNone; h_cwrap := WW Obs.C07.t_commit; h_len := 100 |},
         (std_err SBlobUnknown).
  split; [reflexivity|]. split; [vm_compute; discriminate | vm_compute; lia].
Qed.
Print Assumptions C07_message_fixpoint_upload_refuted.

(* Before the repair of trimErrorCodePrefix (Model/ErrorsLegacy.v) the fixed point was reached
   one hop late for an empty first message: errors.New("") travelled as "" and then as the
   code text "unknown". *)
Theorem C07_message_fixpoint_legacy_refuted : exists e,
  wmsg_legacy go_sprefix go_cprefix (hop_legacy go_sprefix go_cprefix e) <> wmsg_legacy go_sprefix go_cprefix e.
Proof. exists (Plain []). vm_compute. discriminate. Qed.
Print Assumptions C07_message_fixpoint_legacy_refuted.

(* the message sent is never longer than the Error() text it was cut from *)
Theorem C07_message_bounded : forall sprefix cprefix e,
  (length (wmsg sprefix cprefix e) <= length (text sprefix cprefix e))%nat.
Proof. intros. apply wmsg_length. Qed.
Print Assumptions C07_message_bounded.

(* ---------------------------------------------------------------- panics *)

(* The total functions above describe a run whenever no handler panics (WriteHeader outside
   100..999, Error() of an empty WireErrors): then the run's result is [hops], and the first
   status was a legal one. *)
Theorem C07_hops_run : forall sprefix cprefix l e e',
  hops_r sprefix cprefix l e = Ok e' -> e' = hops sprefix cprefix l e.
Proof. intros sprefix cprefix l e e'. apply hops_r_ok. Qed.
Print Assumptions C07_hops_run.
