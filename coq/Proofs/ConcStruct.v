(* Lockset discipline, lock order and atomic-region shape of the declared lock structure of
   the sectioned model (Model/Conc.v), and what the decidable checks mean. *)
From Coq Require Import String Lia.
From OCI Require Import Model.Conc.

(* ---------------------------------------------------------------- meaning of the checks *)

Lemma mem_lock_In l ls : mem_lock l ls = true -> In l ls.
Proof.
  unfold mem_lock. rewrite existsb_exists. intros [x [Hin Hx]].
  destruct l, x; cbn in Hx; try discriminate; try exact Hin.
  apply beqb_eq in Hx. subst. exact Hin.
Qed.

(* lockset discipline, spelled out: whenever an interval of an operation touches a state
   class, the mutex guarding that class is among the locks held in that interval *)
Definition lockset_disciplined (t : stable) : Prop :=
  forall name is i a, In (name, is) t -> In i is -> In a (i_acc i) -> In (guard (acc_class a)) (i_locks i).

Lemma lockset_ok_sound t : lockset_ok t = true -> lockset_disciplined t.
Proof.
  unfold lockset_ok, lockset_disciplined. intros H name is i a Ht Hi Ha.
  rewrite forallb_forall in H. specialize (H _ Ht). cbn in H.
  rewrite forallb_forall in H. specialize (H _ Hi). unfold interval_lockset_ok in H.
  rewrite forallb_forall in H. specialize (H _ Ha). now apply mem_lock_In.
Qed.

(* two accesses to one class, anywhere in the table, share a lock: no data race between any
   two operations in the lockset sense *)
Lemma lockset_common_lock t :
  lockset_disciplined t ->
  forall n1 is1 i1 a1 n2 is2 i2 a2,
    In (n1, is1) t -> In i1 is1 -> In a1 (i_acc i1) ->
    In (n2, is2) t -> In i2 is2 -> In a2 (i_acc i2) ->
    acc_class a1 = acc_class a2 ->
    exists l, In l (i_locks i1) /\ In l (i_locks i2).
Proof.
  intros H n1 is1 i1 a1 n2 is2 i2 a2 H1 H2 H3 H4 H5 H6 E.
  exists (guard (acc_class a1)). split.
  - exact (H n1 is1 i1 a1 H1 H2 H3).
  - rewrite E. exact (H n2 is2 i2 a2 H4 H5 H6).
Qed.

(* lock order: every acquisition goes up in one strict order, so the "acquired while held"
   relation has no cycle (no deadlock between the mutexes) *)
Definition rank_of (l : lock) : N := match lock_rank l with Some n => n | None => 0 end.

Lemma edge_ok_lt e : edge_ok e = true -> (rank_of (fst e) < rank_of (snd e))%N.
Proof.
  unfold edge_ok, rank_of. destruct (lock_rank (fst e)), (lock_rank (snd e)); try discriminate.
  now rewrite N.ltb_lt.
Qed.

Inductive path (es : list (lock * lock)) : lock -> lock -> Prop :=
  | path_one a b : In (a, b) es -> path es a b
  | path_cons a b c : In (a, b) es -> path es b c -> path es a c.

Lemma lock_order_acyclic_gen es :
  forallb edge_ok es = true -> forall a b, path es a b -> (rank_of a < rank_of b)%N.
Proof.
  intros H a b P. rewrite forallb_forall in H. induction P as [a b Hin | a b c Hin _ IH].
  - exact (edge_ok_lt _ (H _ Hin)).
  - pose proof (edge_ok_lt _ (H _ Hin)) as L. cbn in L. lia.
Qed.

Lemma lock_order_no_cycle t : lock_order_ok t = true -> forall l, ~ path (all_edges t) l l.
Proof.
  intros H l P. pose proof (lock_order_acyclic_gen _ H _ _ P). lia.
Qed.

(* ---------------------------------------------------------------- the declared structure *)

Lemma structure_lockset_ok : lockset_ok Conc.structure = true.
Proof. vm_compute. reflexivity. Qed.

Lemma structure_lock_order_ok : lock_order_ok Conc.structure = true.
Proof. vm_compute. reflexivity. Qed.

Lemma structure_shapes_ok : shapes_ok Conc.structure = true.
Proof. vm_compute. reflexivity. Qed.

Lemma structure_lockset : lockset_disciplined Conc.structure.
Proof. apply lockset_ok_sound, structure_lockset_ok. Qed.

Lemma structure_lock_order_acyclic : forall l, ~ path (all_edges Conc.structure) l l.
Proof. apply lock_order_no_cycle, structure_lock_order_ok. Qed.

(* the order is not vacuous: commitMu -> Registry.mu -> Buffer.mu are all present *)
Lemma structure_edges_present :
  In (CommitMu, RegMu) (all_edges Conc.structure) /\ In (RegMu, BufMu) (all_edges Conc.structure)
  /\ In (CommitMu, BufMu) (all_edges Conc.structure).
Proof. vm_compute. intuition. Qed.

(* ---------------------------------------------------------------- table_eq is equality *)

Lemma lock_eqb_eq a b : lock_eqb a b = true <-> a = b.
Proof.
  destruct a, b; cbn; split; try congruence; try reflexivity.
  - intros H. apply beqb_eq in H. now subst.
  - intros H. injection H as ->. apply beqb_refl.
Qed.
Lemma class_eqb_eq a b : class_eqb a b = true <-> a = b.
Proof.
  destruct a, b; cbn; split; try congruence; try reflexivity.
  - intros H. apply beqb_eq in H. now subst.
  - intros H. injection H as ->. apply beqb_refl.
Qed.
Lemma acc_eqb_eq a b : acc_eqb a b = true <-> a = b.
Proof.
  destruct a, b; cbn; rewrite ?class_eqb_eq; split; try congruence; intros H; now injection H.
Qed.
Lemma interval_eqb_eq a b : interval_eqb a b = true <-> a = b.
Proof.
  destruct a as [la aa], b as [lb ab]. unfold interval_eqb, locks_eqb, accs_eqb. cbn.
  rewrite andb_true_iff, (list_eqb_eq _ lock_eqb_eq), (list_eqb_eq _ acc_eqb_eq).
  split; [intros [-> ->]; reflexivity | intros H; injection H; auto].
Qed.
Lemma entry_eqb_eq a b : entry_eqb a b = true <-> a = b.
Proof.
  destruct a as [na ia], b as [nb ib]. unfold entry_eqb. cbn.
  rewrite andb_true_iff, beqb_eq, (list_eqb_eq _ interval_eqb_eq).
  split; [intros [-> ->]; reflexivity | intros H; injection H; auto].
Qed.
Lemma table_eq_eq a b : table_eq a b = true <-> a = b.
Proof. apply list_eqb_eq, entry_eqb_eq. Qed.

(* so a tree whose extracted table equals the declared structure passes every check *)
Lemma structure_ok_structure : structure_ok Conc.structure = true.
Proof. vm_compute. reflexivity. Qed.

Lemma table_eq_structure_ok t : table_eq t Conc.structure = true -> structure_ok t = true.
Proof. intros H. apply table_eq_eq in H. subst. apply structure_ok_structure. Qed.
