(* The upload session of ociclient.PushBlob as ociserver reads it: the Location the server hands
   out, the PUT to it with the digest added, the Content-Range of the whole content. *)
From Coq Require Import String.
From OCI Require Import Base.Regex Model.Stack Proofs.Request Proofs.StackBase Proofs.StackDot.
From OCI Require Import Model.RequestCodecSpec Proofs.RequestCodec Proofs.StackQuery.
From OCI Require Proofs.Server.

Local Open Scope Z_scope.

(* ---------------------------------------------------------------- Content-Range of a whole content *)

Lemma range_string_whole size : 1 <= size <= max_int64 ->
  Request.range_string 0 size = 48%N :: 45%N :: dec_Z (size - 1).
Proof.
  intros H. unfold Request.range_string. rewrite wrap64_small by (unfold min_int64, max_int64 in *; lia).
  destruct (Z.ltb_spec (size - 1) 0); [lia | reflexivity].
Qed.

Lemma parse_range_whole size : 1 <= size <= max_int64 ->
  Request.parse_range (Request.range_string 0 size) = Some (0, if 0 <? size - 1 then size else 0).
Proof.
  intros H. rewrite (range_string_whole size H). unfold Request.parse_range.
  change (cut_byte 45 (48%N :: 45%N :: dec_Z (size - 1))) with (Some ([48%N], dec_Z (size - 1))).
  cbv beta iota. change (parse_int [48%N]) with (Some 0). rewrite parse_int_dec_Z by (unfold min_int64, max_int64 in *; lia).
  cbn [orb]. change (0 <? 0) with false. rewrite orb_false_r.
  destruct (Z.ltb_spec 0 (size - 1)).
  - rewrite wrap64_small by (unfold min_int64, max_int64 in *; lia). f_equal. f_equal. lia.
  - assert (size = 1) by lia. subst size. reflexivity.
Qed.

Lemma chunk_range_whole (req : Server.hreq) size :
  1 <= size <= max_int64 -> hq_crange req = Request.range_string 0 size -> hq_clen req = size ->
  chunk_range req = Ok (0, size).
Proof.
  intros H Hc Hl. unfold chunk_range. rewrite Hc, Hl. clear Hc Hl.
  destruct (Request.range_string 0 size) as [|c0 cr] eqn:E.
  { rewrite (range_string_whole size H) in E. discriminate. }
  rewrite <- E, (parse_range_whole size H).
  destruct (Z.leb_spec 0 size); [|lia]. cbn [andb].
  destruct (Z.ltb_spec 0 (size - 1)).
  - change (0 =? 0) with true. destruct (Z.eqb_spec size 0); [lia|]. cbn [andb].
    rewrite Z.sub_0_r, wrap64_small by (unfold min_int64, max_int64 in *; lia). rewrite Z.eqb_refl. reflexivity.
  - assert (Hs1 : size = 1) by lia. rewrite Hs1. reflexivity.
Qed.

(* the Content-Range of n >= 1 bytes at offset f *)
Lemma range_string_at f n : 0 <= f -> 1 <= n -> f + n <= max_int64 ->
  Request.range_string f (f + n) = dec_Z f ++ 45%N :: dec_Z (f + n - 1).
Proof.
  intros Hf Hn Hm. unfold Request.range_string. rewrite wrap64_small by (unfold min_int64, max_int64 in *; lia).
  destruct (Z.ltb_spec (f + n - 1) 0); [lia | reflexivity].
Qed.

Lemma chunk_range_at (req : Server.hreq) f n :
  0 <= f -> 1 <= n -> f + n <= max_int64 ->
  hq_crange req = Request.range_string f (f + n) -> hq_clen req = n ->
  chunk_range req = Ok (f, f + n).
Proof.
  intros Hf Hn Hm Hc Hl. unfold chunk_range. rewrite Hc, Hl. clear Hc Hl.
  rewrite (range_string_at f n Hf Hn Hm).
  destruct (dec_Z f ++ 45%N :: dec_Z (f + n - 1)) as [|c0 cr] eqn:E; [destruct (dec_Z f); discriminate|].
  rewrite <- E. unfold Request.parse_range.
  rewrite (Proofs.Server.cut_byte_app' 45%N (dec_Z f) _ (Proofs.Server.dec_Z_nonneg_no_dash f Hf)).
  rewrite (parse_int_dec_Z f). 2:{ unfold min_int64, max_int64 in *. lia. }
  rewrite (parse_int_dec_Z (f + n - 1)). 2:{ unfold min_int64, max_int64 in *. lia. }
  destruct (Z.leb_spec 0 n); [|lia]. cbn [andb].
  destruct ((0 <? f + n - 1) || (0 <? f)) eqn:Epos.
  - rewrite (wrap64_small (f + n - 1 + 1)). 2:{ unfold min_int64, max_int64 in *. lia. }
    replace (f + n - 1 + 1) with (f + n) by lia.
    assert (Hnz : (f =? 0) && (f + n =? 0) && (n =? 1) = false).
    { destruct (Z.eqb_spec (f + n) 0); [lia|]. now rewrite andb_false_r. }
    rewrite Hnz. replace (f + n - f) with n by lia.
    rewrite (wrap64_small n). 2:{ unfold min_int64, max_int64 in *. lia. }
    rewrite Z.eqb_refl. reflexivity.
  - apply orb_false_iff in Epos as [E1 E2]. apply Z.ltb_ge in E1, E2.
    assert (f = 0) by lia. assert (n = 1) by lia. subst. reflexivity.
Qed.

(* ---------------------------------------------------------------- the upload location *)

Definition good_upload_id (id : bytes) : Prop := id <> [] /\ utf8_valid id = true.

Definition upath (repo id : bytes) : bytes := s "/v2/" ++ repo ++ s "/blobs/uploads/" ++ b64u_encode id.

Section Loc.
  Variable linked : alg -> bool.

  Lemma location_ok repo id : vrepo repo = true -> good_upload_id id ->
    location_for_upload_id linked repo id = Ok (upath repo id).
  Proof.
    intros Hr [Hne Hu]. unfold location_for_upload_id.
    rewrite (must_construct_ok linked (mkreq Request.ReqBlobUploadInfo repo [] [] [] id 0 [])).
    - reflexivity.
    - unfold wf_request, upload_ok. cbn [Request.q_kind Request.q_repo Request.q_upload]. rewrite Hr, Hu.
      destruct id; [congruence | reflexivity].
  Qed.

  Lemma upath_safe repo id : vrepo repo = true -> good_upload_id id ->
    forallb safe (repo ++ s "/blobs/uploads/" ++ b64u_encode id) = true.
  Proof. intros Hr [Hne Hu]. now apply upload_path_safe. Qed.

  Lemma upath_parse repo id : vrepo repo = true -> good_upload_id id ->
    url_parse_v2 (upath repo id) = Ok (upath repo id, []).
  Proof. intros Hr Hid. unfold upath. apply (url_parse_path _ (upath_safe repo id Hr Hid)). Qed.

  Lemma upath_no_frag repo id c : vrepo repo = true -> good_upload_id id -> (c = 35 \/ c = 63)%N -> ~ In c (upath repo id).
  Proof.
    intros Hr Hid Hc. unfold upath. intros Hi. apply in_app_or in Hi as [Hi|Hi].
    - vm_compute in Hi. destruct Hc; subst; intuition discriminate.
    - revert Hi. apply (safe_not_in _ c (upath_safe repo id Hr Hid)). destruct Hc; subst; auto 10.
  Qed.

  Lemma upath_dot_free repo id : vrepo repo = true -> good_upload_id id ->
    dot_free (ref_escaped_path (upath repo id)) = true.
  Proof.
    intros Hr Hid. unfold ref_escaped_path, cut_or_all.
    rewrite (cut_byte_absent 35%N _ (upath_no_frag repo id 35%N Hr Hid (or_introl eq_refl))). cbn [fst].
    rewrite (cut_byte_absent 63%N _ (upath_no_frag repo id 63%N Hr Hid (or_intror eq_refl))). cbn [fst].
    unfold upath. apply v2_repo_dot_free; [exact Hr|].
    destruct Hid as [Hne Hu]. destruct (b64_text id Hne Hu) as (Eu & E47 & Ene & _).
    change (s "/blobs/uploads/" ++ b64u_encode id) with (s "/blobs/uploads" ++ 47%N :: b64u_encode id).
    rewrite nds_app. apply andb_true_iff. split; [reflexivity|].
    change (ends_slash false (s "/blobs/uploads")) with false. cbn [nds]. change (47 =? 47)%N with true.
    rewrite andb_true_l. apply nds_no_slash; [exact E47|].
    intros _ c r E. rewrite E in Eu. cbn [forallb] in Eu. apply andb_true_iff in Eu as [Eu _].
    (* a base64url byte is not a dot: it would have to be unreserved AND in the alphabet *)
    pose proof (utf8_valid_bytes id Hu) as Hb. pose proof (b64u_encode_alpha id Hb) as Ha.
    rewrite E in Ha. cbn [forallb] in Ha. apply andb_true_iff in Ha as [Ha _].
    intros ->. vm_compute in Ha. discriminate.
  Qed.

  (* the PUT: path and query as the server reads them *)
  Lemma complete_parse repo id dg : vrepo repo = true -> good_upload_id id -> vdigest linked dg = true ->
    parse_req linked m_PUT (upath repo id) (s "digest=" ++ query_escape dg)
    = Ok (mkreq Request.ReqBlobCompleteUpload repo dg [] [] id 0 []).
  Proof.
    intros Hr [Hne Hu] Hd.
    destruct (vdigest_chars linked dg Hd) as (Ds & _).
    assert (Hbl : byte_list dg = true).
    { eapply forallb_impl; [|exact Ds]. intros c Hc. apply safe_iff in Hc. apply N.ltb_lt. lia. }
    assert (Hq : parse_query (s "digest=" ++ query_escape dg) = ([(s "digest", dg)], false)).
    { change (s "digest=" ++ query_escape dg) with (s "digest" ++ 61%N :: query_escape dg).
      pose proof (query_escape_alpha _ Hbl) as Hal.
      apply parse_query_one; try (intros Hx; vm_compute in Hx; intuition discriminate);
        try solve [apply (esc_not_in _ _ Hal); auto]; try reflexivity.
      now apply query_escape_roundtrip. }
    unfold upath. rewrite (upload_path_assoc repo (b64u_encode id)).
    change (s "/v2/") with v2.
    rewrite (parse_upload linked m_PUT repo id _ _ Hr Hne Hu Hq).
    cbv zeta. lit_beqb. cbv iota. change (qget (s "digest") [(s "digest", dg)]) with dg. rewrite Hd. reflexivity.
  Qed.

  (* the PATCH *)
  Lemma chunk_parse repo id : vrepo repo = true -> good_upload_id id ->
    parse_req linked m_PATCH (upath repo id) [] = Ok (mkreq Request.ReqBlobUploadChunk repo [] [] [] id 0 []).
  Proof.
    intros Hr [Hne Hu]. unfold upath. rewrite (upload_path_assoc repo (b64u_encode id)). change (s "/v2/") with v2.
    rewrite (parse_upload linked m_PATCH repo id [] [] Hr Hne Hu eq_refl). cbv zeta. lit_beqb. reflexivity.
  Qed.

  (* the Location of the 201 after a commit *)
  Lemma blob_location_parse repo dg : vrepo repo = true -> vdigest linked dg = true ->
    url_parse_v2 (s "/v2/" ++ repo ++ s "/blobs/" ++ dg) = Ok (s "/v2/" ++ repo ++ s "/blobs/" ++ dg, []).
  Proof.
    intros Hr Hd. destruct (vdigest_chars linked dg Hd) as (Ds & _).
    apply (url_parse_path (repo ++ s "/blobs/" ++ dg)).
    rewrite !forallb_app, (repo_safe repo Hr), Ds. reflexivity.
  Qed.

End Loc.

Print Assumptions chunk_range_whole.
Print Assumptions upath_dot_free.
Print Assumptions complete_parse.
Print Assumptions chunk_range_at.
Print Assumptions chunk_parse.
