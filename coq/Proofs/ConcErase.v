(* Mem.step never reads Buffer.committed / Buffer.desc: two states that differ only there
   answer every operation alike and stay alike.  (Section A of Commit writes these two
   fields before the linearisation point; nothing else in the vocabulary can tell.) *)
From Coq Require Import String Lia.
From OCI Require Import Model.Conc Proofs.MemBasics.

Definition eb (b : buffer) : buffer :=
  {| u_repo := u_repo b; u_id := u_id b; u_buf := u_buf b; u_check := u_check b;
     u_committed := false; u_desc := zero_desc; u_err := u_err b |}.
Definition erase (m : state) : state :=
  {| repos := repos m; bufs := map eb (bufs m); next_id := next_id m |}.

Lemma map_upd_nth {A B} (g : A -> B) (f : A -> A) (f' : B -> B) i l :
  (forall a, g (f a) = f' (g a)) -> map g (upd_nth i f l) = upd_nth i f' (map g l).
Proof.
  intros H. revert i; induction l as [|a l IH]; intros [|i]; cbn; try reflexivity.
  - now rewrite H.
  - now rewrite IH.
Qed.

Lemma map_eb_idem (l : list buffer) : map eb (map eb l) = map eb l.
Proof. rewrite map_map. apply map_ext. now intros []. Qed.

Lemma erase_idem m : erase (erase m) = erase m.
Proof. unfold erase; cbn. f_equal. rewrite map_map. apply map_ext. now intros []. Qed.

Section Erase.
  Variable hash : bytes -> bytes.
  Variable valid_digest : bytes -> bool.
  Variable valid_repo : bytes -> bool.
  Variable valid_tag : bytes -> bool.
  Variable decode_image : bytes -> option image_manifest.
  Variable decode_index : bytes -> option index_manifest.
  Variable cfg : config.
  Local Notation mstep := (mstep hash valid_digest valid_repo valid_tag decode_image decode_index cfg).

  Lemma erase_set_repo m r rp : erase (set_repo m r rp) = set_repo (erase m) r rp.
  Proof. reflexivity. Qed.
  Lemma erase_upd_repo m r f : erase (upd_repo m r f) = upd_repo (erase m) r f.
  Proof. unfold upd_repo, get_repo. cbn. now destruct (alookup r (repos m)). Qed.
  Lemma erase_make_repo m r : make_repo valid_repo (erase m) r = option_map erase (make_repo valid_repo m r).
  Proof.
    unfold make_repo, get_repo. cbn. destruct (valid_repo r); [|reflexivity]. cbn.
    now destruct (alookup r (repos m)).
  Qed.
  Lemma erase_with_buf m i f f' :
    (forall b, eb (f b) = f' (eb b)) -> erase (with_buf m i f) = with_buf (erase m) i f'.
  Proof. intros H. unfold erase, with_buf. cbn. f_equal. now apply map_upd_nth. Qed.
  Lemma nth_erase m i : nth_error (bufs (erase m)) i = option_map eb (nth_error (bufs m) i).
  Proof. cbn. apply nth_error_map. Qed.

  Lemma erase_with_buf2 m i f :
    (forall b, eb (f (eb b)) = eb (f b)) -> erase (with_buf (erase m) i f) = erase (with_buf m i f).
  Proof.
    intros H. unfold erase, with_buf. cbn. f_equal.
    assert (Hid : forall l : list buffer, map eb (map eb l) = map eb l).
    { intros l. rewrite map_map. apply map_ext. now intros []. }
    generalize (bufs m) as l. intros l. revert i; induction l as [|a l IH]; intros [|i]; cbn; try reflexivity.
    - now rewrite H, Hid.
    - now rewrite IH.
  Qed.

  (* the one-state form: running on the erased state gives the same answer and an
     erase-equal state *)
  Lemma step_erase m o :
    snd (mstep (erase m) o) = snd (mstep m o) /\
    erase (fst (mstep (erase m) o)) = erase (fst (mstep m o)).
  Proof.
    unfold Conc.mstep.
    destruct o; cbn [step].
    (* reads *)
    all: try (split; [reflexivity | apply erase_idem]).
    all: try (rewrite nth_erase; destruct (nth_error (bufs m) (N.to_nat w)); cbn; split; solve [reflexivity | apply erase_idem]).
    all: unfold blob_for, manifest_for, get_repo.
    all: repeat first
      [ match goal with |- context [repos (erase ?x)] => change (repos (erase x)) with (repos x) end
      | match goal with |- context [next_id (erase ?x)] => change (next_id (erase x)) with (next_id x) end
      | rewrite erase_make_repo
      | rewrite <- erase_upd_repo
      | rewrite nth_erase
      | progress cbn [eb u_check u_buf u_err u_repo u_id]
      | match goal with
        | |- context [match option_map ?f ?x with _ => _ end] => destruct x; cbn [option_map]
        | |- snd (match ?x with _ => _ end) = _ /\ _ => destruct x
        | |- snd (if ?x then _ else _) = _ /\ _ => destruct x
        | |- snd (let (_, _) := ?x in _) = _ /\ _ => destruct x
        end
      | (split; cbn [fst snd]; [reflexivity | rewrite ?erase_idem; reflexivity])
      | (split; cbn [fst snd]; [reflexivity | apply erase_with_buf2; intros ?; reflexivity])
      | (split; cbn [fst snd]; unfold erase; cbn [bufs repos next_id]; rewrite ?map_length, ?map_app, ?map_eb_idem; reflexivity)
      | (split; cbn [fst snd]; [reflexivity | rewrite !erase_upd_repo; f_equal; apply erase_with_buf2; intros ?; reflexivity]) ].
  Qed.

  (* the two-state form used by the simulation *)
  Lemma step_erase_eq m1 m2 o :
    erase m1 = erase m2 ->
    snd (mstep m1 o) = snd (mstep m2 o) /\ erase (fst (mstep m1 o)) = erase (fst (mstep m2 o)).
  Proof.
    intros E. destruct (step_erase m1 o) as [A1 B1], (step_erase m2 o) as [A2 B2].
    rewrite <- A1, <- A2, <- B1, <- B2, E. split; reflexivity.
  Qed.
End Erase.
