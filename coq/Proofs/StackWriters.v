(* C03, the history-level transparency theorem WITH the chunked-upload writers inside the
   histories (Proofs/StackHistory.v covers the sixteen methods that are one client call), and
   with refused PushBlobs inside them.

   Handles and upload IDs differ between the two runs (the caller of the stack holds client-side
   writers and IDs that are upload locations; the caller of the backend holds the backend's
   writers and IDs), so a history names upload SESSIONS, as harness/cmd/c03 does:

     hop            HOp c                 one of the sixteen one-call methods
                    HStart rp hint        PushBlobChunked: opens the next session
                    HResume s rp off hint PushBlobChunkedResume with the ID that session s's writer
                                          reports; the new writer becomes the session's writer
                    HW s wo               Write / Close / Size / ChunkSize / Commit / Cancel on the
                                          session's writer
                    HID s                 ID
     hstep, hrun    the runner, for any backend: it keeps the handle of every session

   The contract on the backend, beside [Conforming] (Proofs/StackHistory.v):

     UploadLaws Inv sim Upl Hdl Room   [Upl b rp id rcv]: in state b the upload (rp, id) is open, has
                    received rcv, and accepts a resume at -1 or at its size; [Hdl b h rp id]: the
                    writer h is a writer of the upload (rp, id); [Room n b]: the backend can still
                    open n sessions under IDs it has not used.  Laws per backend call: what a call
                    answers on its own session, FRAME laws ([ul_frame]: a call that does not touch a
                    session leaves it as it is - the one-call methods touch none; [ul_hdl_keep]:
                    handles stay valid), NEUTRALITY ([ul_neutral]: writer calls other than Commit
                    do not change what [sim] compares), and the two-sided laws for the calls that do
                    (PushBlobChunked, Commit: accepted on both sides, or refused on both sides
                    with the same error).

   [whistory_transparent]: for every history that is admissible ([wadmissible]: outside the
   recorded deviations, which for the writers are: Cancel (a no-op on the client), a Commit
   (accepted or refused) and a resume end the use of a writer; a resume only of a writer with
   nothing pending, at -1 or at the size; -1 not after exactly one byte) and not longer than the
   backend has room for sessions, answer by answer the two runs are equivalent ([hres_equiv]), they
   keep the same sessions, and end in related states.

   [history_transparent_slack] (end of the file): the one-call histories with refused PushBlobs
   inside, up to content-free repositories ([SlackLaws], [slack_equiv]). *)
From Coq Require Import String.
From OCI Require Import Model.Stack Proofs.Request Proofs.StackBase Proofs.StackDesc Proofs.StackRange.
From OCI Require Import Proofs.RequestCodec Proofs.StackTransparent Proofs.StackListing Proofs.StackListingB Proofs.StackTwoHops.
From OCI Require Import Proofs.StackUpload Proofs.StackUploadErr Proofs.StackStep Proofs.StackHistory Proofs.StackWriterStep.
From OCI Require Proofs.Errors.

Local Open Scope Z_scope.

(* ================================================================ histories over sessions *)

Inductive hop :=
  | HOp (c : op)
  | HStart (rp : bytes) (hint : Z)
  | HResume (s : nat) (rp : bytes) (off hint : Z)
  | HW (s : nat) (wo : wop)
  | HID (s : nat).

Definition wop_op (h : wid) (wo : wop) : op :=
  match wo with
  | WoWrite d => WWrite h d
  | WoClose => WClose h
  | WoCommit d => WCommit h d
  | WoSize => WSize h
  | WoChunkSize => WChunkSize h
  | WoCancel => WCancel h
  end.

Definition no_session : gerr := Plain (s "no such session").

(* one step of a history on any backend; [tb]: the handle of every session, in the vocabulary
   of that backend *)
Definition hstep {X} (step : backend X) (x : X) (tb : list wid) (e : hop) : X * list wid * bres :=
  match e with
  | HOp c => let '(x', r) := step x c in (x', tb, r)
  | HStart rp hint =>
      let '(x', r) := step x (PushBlobChunked rp hint) in
      (x', match r with Ok v => tb ++ [wid_of v] | _ => tb end, r)
  | HResume s rp off hint =>
      match nth_error tb s with
      | None => (x, tb, Err no_session)
      | Some h =>
          let '(x1, ri) := step x (WID h) in
          match ri with
          | Ok vi =>
              let '(x2, r) := step x1 (PushBlobChunkedResume rp (str_of vi) off hint) in
              (x2, match r with Ok v => set_nth s (wid_of v) tb | _ => tb end, r)
          | _ => (x1, tb, ri)
          end
      end
  | HW s wo =>
      match nth_error tb s with
      | None => (x, tb, Err no_session)
      | Some h => let '(x', r) := step x (wop_op h wo) in (x', tb, r)
      end
  | HID s =>
      match nth_error tb s with
      | None => (x, tb, Err no_session)
      | Some h => let '(x', r) := step x (WID h) in (x', tb, r)
      end
  end.

Fixpoint hrun {X} (step : backend X) (x : X) (tb : list wid) (h : list hop) : X * list wid * list bres :=
  match h with
  | [] => (x, tb, [])
  | e :: h' =>
      let '(x1, tb1, r) := hstep step x tb e in
      let '(x2, tb2, rs) := hrun step x1 tb1 h' in
      (x2, tb2, r :: rs)
  end.

(* what the history itself says about the writer of a session: dead (Cancel, Commit, or a
   failed resume ended its use), or live, closed or not, and whether its pending chunk is
   certainly empty (nothing written since it was made or closed) *)
Inductive sst := SDead | SLive (closed clean : bool).

Definition next_sst (ss : list sst) (e : hop) (r : bres) : list sst :=
  match e with
  | HOp _ | HID _ => ss
  | HStart _ _ => match r with Ok _ => ss ++ [SLive false true] | _ => ss end
  | HResume s _ _ _ => set_nth s (match r with Ok _ => SLive false true | _ => SDead end) ss
  | HW s wo =>
      match nth_error ss s with
      | Some (SLive cl cn) =>
          match wo with
          | WoWrite d => set_nth s (SLive cl (cn && is_empty d)) ss
          | WoClose => if cl then ss else set_nth s (SLive true true) ss
          | WoCommit _ | WoCancel => set_nth s SDead ss
          | WoSize | WoChunkSize => ss
          end
      | _ => ss
      end
  end.

(* ================================================================ list plumbing *)

Lemma nth_error_set_nth {A} (l : list A) i j a :
  nth_error (set_nth i a l) j = if Nat.eqb j i then match nth_error l j with Some _ => Some a | None => None end
                                else nth_error l j.
Proof.
  revert i j. induction l as [|b l IH]; intros i j; cbn [set_nth].
  - destruct i, j; cbn; try reflexivity; destruct (Nat.eqb j i); reflexivity.
  - destruct i as [|i]; destruct j as [|j]; cbn [nth_error Nat.eqb]; try reflexivity. apply IH.
Qed.

Lemma set_nth_length {A} (l : list A) i a : length (set_nth i a l) = length l.
Proof. revert i. induction l as [|b l IH]; intros [|i]; cbn [set_nth length]; auto. Qed.

Lemma map_set_nth {A B} (f : A -> B) l i a : map f (set_nth i a l) = set_nth i (f a) (map f l).
Proof. revert i. induction l as [|b l IH]; intros [|i]; cbn [set_nth map]; try reflexivity. now rewrite IH. Qed.

Lemma nth_error_map' {A B} (f : A -> B) l i : nth_error (map f l) i = option_map f (nth_error l i).
Proof. revert i. induction l as [|a l IH]; intros [|i]; cbn; auto. Qed.

Lemma nth_error_snoc {A} (l : list A) a i :
  nth_error (l ++ [a]) i = if Nat.ltb i (length l) then nth_error l i else if Nat.eqb i (length l) then Some a else None.
Proof.
  revert i. induction l as [|b l IH]; intros [|i]; cbn [app nth_error length]; try reflexivity.
  - destruct i; reflexivity.
  - rewrite IH. change (Nat.ltb (S i) (S (length l))) with (Nat.ltb i (length l)).
    change (Nat.eqb (S i) (S (length l))) with (Nat.eqb i (length l)). reflexivity.
Qed.

Lemma set_nth_same {A} (l : list A) i a : nth_error l i = Some a -> set_nth i a l = l.
Proof. revert i. induction l as [|b l IH]; intros [|i]; cbn; intros H; try congruence. f_equal. auto. Qed.

Lemma NoDup_set_nth_fresh {A} (l : list A) i a : NoDup l -> ~ In a l -> NoDup (set_nth i a l).
Proof.
  revert i. induction l as [|b l IH]; intros i Hn Hin; [destruct i; constructor|].
  inversion Hn as [|? ? Hb Hl]; subst. destruct i as [|i]; cbn [set_nth].
  - constructor; [intros H; apply Hin; right; exact H | exact Hl].
  - constructor.
    + intros H. assert (G : forall (l0 : list A) j x, In x (set_nth j a l0) -> x = a \/ In x l0).
      { induction l0 as [|c l0 IH0]; intros [|j] x Hx; cbn in Hx; auto; destruct Hx as [<-|Hx]; auto.
        - right; right; exact Hx.
        - right; left; reflexivity.
        - destruct (IH0 _ _ Hx); auto. right; right; assumption. }
      destruct (G _ _ _ H) as [->|H']; [apply Hin; left; reflexivity | exact (Hb H')].
    + apply IH; [exact Hl | intros H; apply Hin; right; exact H].
Qed.

Ltac csplit := repeat match goal with |- _ /\ _ => split end.

Section Writers.
  Variable linked : alg -> bool.
  Variable hash : bytes -> bytes -> bytes.
  Variable subject_of : bytes -> option (option bytes).
  Variable media : bytes -> bytes.
  Variable enc : jval -> bytes.
  Variable dec_errors : bytes -> option (list werr).
  Variable dec_names : bool -> bytes -> option (list bytes).
  Variable dec_index : bytes -> option (list desc).
  Variable redirect : bytes -> bytes -> bytes * bytes.
  Variable St : Type.
  Variable bstep : backend St.
  Variable o : opts.
  Variable cc : ccfg.

  Notation stack := (stack_bstep linked hash subject_of media enc dec_errors dec_names dec_index redirect bstep o cc).
  Notation serve := (serve_stack linked hash subject_of enc redirect bstep o).
  Notation env := (stack_env linked hash media dec_errors dec_names dec_index).
  Notation W := (world (srv St)).
  Notation wop_ := (writer_op (srv St) serve env current).

  Variable Inv : St -> Prop.
  Variable sim : St -> St -> Prop.

  (* ---------------------------------------------------------- the contract on upload sessions *)

  Variable Upl : St -> bytes -> bytes -> bytes -> Prop.
  Variable Hdl : St -> wid -> bytes -> bytes -> Prop.
  (* [Room n b]: the backend can still open n upload sessions under IDs it has not used *)
  Variable Room : nat -> St -> Prop.

  (* the calls that can change what an upload session has received, or end it *)
  Definition touches (b : St) (c : op) (rp id : bytes) : Prop :=
    match c with
    | PushBlobChunkedResume _ _ _ _ =>
        (* a resume touches the session its writer is a writer of *)
        match snd (bstep b c) with Ok v => Hdl (fst (bstep b c)) (wid_of v) rp id | _ => False end
    | WWrite h _ | WCommit h _ | WCancel h => Hdl b h rp id
    | _ => False
    end.

  (* the calls that change nothing of what [sim] compares *)
  Definition neutral (b : St) (c : op) : Prop :=
    match c with
    | WWrite _ _ | WClose _ | WSize _ | WChunkSize _ | WID _ | WCancel _ => True
    | PushBlobChunkedResume rp id _ _ => exists rcv, Upl b rp id rcv
    | _ => False
    end.

  (* the calls that open a session under an ID the backend mints (a resume under the empty ID is one) *)
  Definition not_start (c : op) : Prop :=
    match c with PushBlobChunked _ _ | PushBlobChunkedResume _ [] _ _ => False | _ => True end.

  Record UploadLaws : Prop := {
    ul_hdl_fun : forall b h rp id rp' id', Hdl b h rp id -> Hdl b h rp' id' -> rp' = rp /\ id' = id;
    ul_nonempty : forall b rp id rcv, Upl b rp id rcv -> id <> [];
    ul_hdl_keep : forall b c h rp id, Inv b -> not_start c \/ Room 1 b -> Hdl b h rp id -> Hdl (fst (bstep b c)) h rp id;
    (* frame: a call that does not touch a session leaves it as it is *)
    ul_frame : forall b c rp id rcv, Inv b -> not_start c \/ Room 1 b -> Upl b rp id rcv -> ~ touches b c rp id ->
        Upl (fst (bstep b c)) rp id rcv;
    ul_neutral : forall b c, Inv b -> neutral b c ->
        (forall y, sim b y -> sim (fst (bstep b c)) y) /\ (forall x, sim x b -> sim x (fst (bstep b c)));
    (* PushBlobChunked opens a new session, under an ID no open session has *)
    ul_room_weaken : forall b n, Room (S n) b -> Room n b;
    ul_room_keep : forall b c n, Inv b -> not_start c -> Room n b -> Room n (fst (bstep b c));
    ul_room_start : forall b rp hint n, Inv b -> Room (S n) b -> Room n (fst (bstep b (PushBlobChunked rp hint)));
    ul_start : forall b rp hint b' vw, Inv b -> Room 1 b -> bstep b (PushBlobChunked rp hint) = (b', Ok vw) ->
        exists id, good_upload_id id /\ Hdl b' (wid_of vw) rp id /\ Upl b' rp id []
                   /\ forall rcv, ~ Upl b rp id rcv;
    ul_start_sim : forall b1 b2 rp h1 h2 b1' v1, Inv b1 -> Inv b2 -> sim b1 b2 ->
        bstep b1 (PushBlobChunked rp h1) = (b1', Ok v1) ->
        exists b2' v2, bstep b2 (PushBlobChunked rp h2) = (b2', Ok v2) /\ sim b1' b2';
    (* ... or refuses on both sides with the same error, which the server can relay *)
    ul_start_err : forall b1 b2 rp h1 h2 b1' e, Inv b1 -> Inv b2 -> sim b1 b2 ->
        bstep b1 (PushBlobChunked rp h1) = (b1', Err e) ->
        relayable enc e /\ exists b2', bstep b2 (PushBlobChunked rp h2) = (b2', Err e) /\ sim b1' b2';
    (* a resume at -1 or at the size: a writer of the same session *)
    ul_resume : forall b rp id rcv off hint, Inv b -> Upl b rp id rcv -> off = -1 \/ off = blen rcv ->
        exists b' vw, bstep b (PushBlobChunkedResume rp id off hint) = (b', Ok vw)
                      /\ Hdl b' (wid_of vw) rp id /\ Upl b' rp id rcv;
    ul_write : forall b h rp id rcv data, Inv b -> Hdl b h rp id -> Upl b rp id rcv ->
        exists b' vn, bstep b (WWrite h data) = (b', Ok vn) /\ n_of vn = blen data /\ Upl b' rp id (rcv ++ data);
    ul_size : forall b h rp id rcv, Inv b -> Hdl b h rp id -> Upl b rp id rcv ->
        exists b' v, bstep b (WSize h) = (b', Ok v) /\ n_of v = blen rcv;
    ul_id : forall b h rp id rcv, Inv b -> Hdl b h rp id -> Upl b rp id rcv ->
        exists b' v, bstep b (WID h) = (b', Ok v) /\ str_of v = id;
    ul_chunksize : forall b h rp id rcv, Inv b -> Hdl b h rp id -> Upl b rp id rcv ->
        exists b' v, bstep b (WChunkSize h) = (b', Ok v) /\ min_int64 <= n_of v <= max_int64;
    ul_close : forall b h rp id rcv, Inv b -> Hdl b h rp id -> Upl b rp id rcv ->
        exists b' v, bstep b (WClose h) = (b', Ok v);
    ul_close_any : forall b h, Inv b ->
        snd (bstep b (WClose h)) <> Panic /\ snd (bstep b (WClose h)) <> OutOfFuel;
    ul_cancel : forall b h rp id rcv, Inv b -> Hdl b h rp id -> Upl b rp id rcv ->
        exists b' v, bstep b (WCancel h) = (b', Ok v);
    (* Commit of the same content on both sides *)
    ul_commit : forall b1 b2 h1 h2 rp id1 id2 data dg b1' v1, Inv b1 -> Inv b2 -> sim b1 b2 ->
        Hdl b1 h1 rp id1 -> Upl b1 rp id1 data -> Hdl b2 h2 rp id2 -> Upl b2 rp id2 data ->
        bstep b1 (WCommit h1 dg) = (b1', Ok v1) ->
        d_digest (desc_of v1) = dg /\ d_size (desc_of v1) = blen data
        /\ exists b2' v2, bstep b2 (WCommit h2 dg) = (b2', Ok v2) /\ d_digest (desc_of v2) = dg /\ sim b1' b2';
    ul_commit_err : forall b1 b2 h1 h2 rp id1 id2 data dg b1' e, Inv b1 -> Inv b2 -> sim b1 b2 ->
        Hdl b1 h1 rp id1 -> Upl b1 rp id1 data -> Hdl b2 h2 rp id2 -> Upl b2 rp id2 data ->
        bstep b1 (WCommit h1 dg) = (b1', Err e) ->
        relayable enc e /\ exists b2', bstep b2 (WCommit h2 dg) = (b2', Err e) /\ sim b1' b2'
  }.

  Hypothesis CF : Conforming linked hash subject_of enc St bstep o Inv sim.
  Hypothesis UL : UploadLaws.

  (* ---------------------------------------------------------- frames *)

  (* from b to b': the invariant holds, handles stay, every session but those of [K] is as it was,
     at most k new sessions were opened *)
  Definition FrameN (k : nat) (K : bytes -> bytes -> Prop) (b b' : St) : Prop :=
    Inv b' /\ (forall h rp id, Hdl b h rp id -> Hdl b' h rp id)
    /\ (forall rp id rcv, ~ K rp id -> Upl b rp id rcv -> Upl b' rp id rcv)
    /\ (forall n, Room (k + n) b -> Room n b').

  Notation Frame := (FrameN 0).

  Definition nokey : bytes -> bytes -> Prop := fun _ _ => False.
  Definition key (rp id : bytes) : bytes -> bytes -> Prop := fun rp' id' => rp' = rp /\ id' = id.

  Definition NeutralR (b b' : St) : Prop := forall x, sim x b -> sim x b'.
  Definition NeutralL (b b' : St) : Prop := forall y, sim b y -> sim b' y.

  Lemma Frame_refl (K : bytes -> bytes -> Prop) b : Inv b -> Frame K b b.
  Proof. intros H. repeat split; auto. Qed.

  Lemma Frame_trans (K : bytes -> bytes -> Prop) b b' b'' : Frame K b b' -> Frame K b' b'' -> Frame K b b''.
  Proof. intros (A1 & A2 & A3 & A4) (B1 & B2 & B3 & B4). repeat split; auto. Qed.

  Lemma Frame1_trans (K : bytes -> bytes -> Prop) b b' b'' : FrameN 1 K b b' -> Frame K b' b'' -> FrameN 1 K b b''.
  Proof. intros (A1 & A2 & A3 & A4) (B1 & B2 & B3 & B4). repeat split; auto. Qed.

  Lemma Frame_trans1 (K : bytes -> bytes -> Prop) b b' b'' : Frame K b b' -> FrameN 1 K b' b'' -> FrameN 1 K b b''.
  Proof. intros (A1 & A2 & A3 & A4) (B1 & B2 & B3 & B4). repeat split; auto. Qed.

  Lemma Frame_weaken k (K K' : bytes -> bytes -> Prop) b b' : (forall rp id, K rp id -> K' rp id) -> FrameN k K b b' -> FrameN k K' b b'.
  Proof. intros HK (A1 & A2 & A3 & A4). split; [exact A1|]. split; [exact A2|]. split; [|exact A4]. intros rp id rcv Hn. apply A3. intros Hk. apply Hn, HK, Hk. Qed.

  Lemma inv_step b c : Inv b -> Inv (fst (bstep b c)).
  Proof. apply (cf_inv _ _ _ _ _ _ _ _ _ CF). Qed.

  (* one call *)
  Lemma Frame_step (K : bytes -> bytes -> Prop) b c : Inv b -> not_start c -> (forall rp id, touches b c rp id -> K rp id) -> Frame K b (fst (bstep b c)).
  Proof.
    intros Hi Hns Ht. split; [now apply inv_step|]. split; [|split].
    - intros h rp id. apply (ul_hdl_keep UL); auto.
    - intros rp id rcv Hn Hu. apply (ul_frame UL); auto.
    - intros n Hr. now apply (ul_room_keep UL).
  Qed.

  Lemma Frame_step_eq (K : bytes -> bytes -> Prop) b c b' r : Inv b -> bstep b c = (b', r) -> not_start c -> (forall rp id, touches b c rp id -> K rp id) -> Frame K b b'.
  Proof. intros Hi E Hns Ht. pose proof (Frame_step K b c Hi Hns Ht) as H. now rewrite E in H. Qed.

  (* PushBlobChunked *)
  Lemma Frame_start (K : bytes -> bytes -> Prop) b rp hint b' r : Inv b -> Room 1 b -> bstep b (PushBlobChunked rp hint) = (b', r) -> FrameN 1 K b b'.
  Proof.
    intros Hi Hroom E. pose proof (inv_step b (PushBlobChunked rp hint) Hi) as H1.
    pose proof (fun h rp0 id => ul_hdl_keep UL b (PushBlobChunked rp hint) h rp0 id Hi (or_intror Hroom)) as H2.
    pose proof (fun rp0 id rcv Hu => ul_frame UL b (PushBlobChunked rp hint) rp0 id rcv Hi (or_intror Hroom) Hu (fun x => x)) as H3.
    pose proof (fun n => ul_room_start UL b rp hint n Hi) as H4. rewrite E in *. cbn [fst] in *.
    split; [exact H1|]. split; [exact H2|]. split; [intros rp0 id rcv _; apply H3 | exact H4].
  Qed.

  Lemma Room_le b m n : (m <= n)%nat -> Room n b -> Room m b.
  Proof. induction 1; auto. intros H0. apply IHle. now apply (ul_room_weaken UL). Qed.

  Lemma Frame_to1 (K : bytes -> bytes -> Prop) b b' : Frame K b b' -> FrameN 1 K b b'.
  Proof. intros (A1 & A2 & A3 & A4). repeat split; auto. intros n Hr. apply A4. cbn. exact (ul_room_weaken UL b n Hr). Qed.

  Lemma touches_handle b h rp id rp' id' : Hdl b h rp id -> Hdl b h rp' id' -> key rp id rp' id'.
  Proof. intros H1 H2. exact (ul_hdl_fun UL _ _ _ _ _ _ H1 H2). Qed.

  Lemma NeutralR_step b c b' r : Inv b -> bstep b c = (b', r) -> neutral b c -> NeutralR b b'.
  Proof. intros Hi E Hn x Hx. pose proof (proj2 (ul_neutral UL b c Hi Hn) x Hx) as H. now rewrite E in H. Qed.

  Lemma NeutralL_step b c b' r : Inv b -> bstep b c = (b', r) -> neutral b c -> NeutralL b b'.
  Proof. intros Hi E Hn y Hy. pose proof (proj1 (ul_neutral UL b c Hi Hn) y Hy) as H. now rewrite E in H. Qed.

  Lemma NeutralR_trans b b' b'' : NeutralR b b' -> NeutralR b' b'' -> NeutralR b b''.
  Proof. intros H1 H2 x Hx. auto. Qed.

  (* an accessor on a writer of an open session *)
  Lemma quiet_step (K : bytes -> bytes -> Prop) b c b' r : Inv b -> bstep b c = (b', r) ->
    match c with WClose _ | WSize _ | WChunkSize _ | WID _ => True | _ => False end ->
    Frame K b b' /\ NeutralR b b' /\ NeutralL b b'.
  Proof.
    intros Hi E Hc. split; [|split].
    - apply (Frame_step_eq K b c b' r Hi E); [destruct c; try contradiction; exact I|]. intros rp id Ht. destruct c; try contradiction.
    - apply (NeutralR_step b c b' r Hi E). destruct c; try contradiction; exact I.
    - apply (NeutralL_step b c b' r Hi E). destruct c; try contradiction; exact I.
  Qed.

  Lemma not_start_resume b rp id rcv off hint : Upl b rp id rcv -> not_start (PushBlobChunkedResume rp id off hint).
  Proof. intros Hu. pose proof (ul_nonempty UL _ _ _ _ Hu). cbn. destruct id; [congruence | exact I]. Qed.

  Lemma touches_resume b rp id off hint b' vw rp' id' :
    bstep b (PushBlobChunkedResume rp id off hint) = (b', Ok vw) -> Hdl b' (wid_of vw) rp id ->
    touches b (PushBlobChunkedResume rp id off hint) rp' id' -> key rp id rp' id'.
  Proof. intros E Hh Ht. cbn [touches] in Ht. rewrite E in Ht. cbn [fst snd] in Ht. exact (ul_hdl_fun UL _ _ _ _ _ _ Hh Ht). Qed.

  Lemma Frame_fresh k b b' rp id : FrameN k (key rp id) b b' -> (forall rcv, ~ Upl b rp id rcv) -> FrameN k nokey b b'.
  Proof.
    intros (A1 & A2 & A3 & A4) Hf. split; [exact A1|]. split; [exact A2|]. split; [|exact A4]. intros rp' id' rcv _ Hu.
    apply A3; [|exact Hu]. intros [-> ->]. exact (Hf _ Hu).
  Qed.

  Lemma Frame_upl k (K : bytes -> bytes -> Prop) b b' rp id rcv : FrameN k K b b' -> ~ K rp id -> Upl b rp id rcv -> Upl b' rp id rcv.
  Proof. intros (_ & _ & A3 & _). apply A3. Qed.

  Lemma Frame_hdl k (K : bytes -> bytes -> Prop) b b' h rp id : FrameN k K b b' -> Hdl b h rp id -> Hdl b' h rp id.
  Proof. intros (_ & A2 & _). apply A2. Qed.

  Lemma Frame_inv k (K : bytes -> bytes -> Prop) b b' : FrameN k K b b' -> Inv b'.
  Proof. intros (A1 & _). exact A1. Qed.

  Lemma Frame_room (K : bytes -> bytes -> Prop) b b' n : Frame K b b' -> Room n b -> Room n b'.
  Proof. intros (_ & _ & _ & A4). apply A4. Qed.

  Lemma Frame1_room (K : bytes -> bytes -> Prop) b b' n : FrameN 1 K b b' -> Room (S n) b -> Room n b'.
  Proof. intros (_ & _ & _ & A4). apply A4. Qed.

  (* ---------------------------------------------------------- the backend calls of one request, from the laws *)

  (* a resumed writer of an open session, then maybe one Write *)
  Lemma chain_resume_write b rp id rcv data : Inv b -> Upl b rp id rcv ->
    exists b1 vw, bstep b (PushBlobChunkedResume rp id (blen rcv) (blen data)) = (b1, Ok vw)
      /\ Hdl b1 (wid_of vw) rp id /\ Upl b1 rp id rcv /\ Frame (key rp id) b b1 /\ NeutralR b b1
      /\ exists b2 vn, bstep b1 (WWrite (wid_of vw) data) = (b2, Ok vn) /\ n_of vn = blen data
           /\ Hdl b2 (wid_of vw) rp id /\ Upl b2 rp id (rcv ++ data) /\ Frame (key rp id) b b2 /\ NeutralR b b2.
  Proof.
    intros Hi Hu.
    destruct (ul_resume UL b rp id rcv (blen rcv) (blen data) Hi Hu (or_intror eq_refl)) as (b1 & vw & E1 & Hh1 & Hu1).
    assert (F1 : Frame (key rp id) b b1) by (apply (Frame_step_eq _ b _ b1 _ Hi E1 (not_start_resume _ _ _ _ _ _ Hu)); intros rp' id'; exact (touches_resume _ _ _ _ _ _ _ rp' id' E1 Hh1)).
    assert (N1 : NeutralR b b1) by (apply (NeutralR_step b _ b1 _ Hi E1); exists rcv; exact Hu).
    pose proof (Frame_inv _ _ _ _ F1) as Hi1.
    exists b1, vw. repeat (split; [assumption|]).
    destruct (ul_write UL b1 (wid_of vw) rp id rcv data Hi1 Hh1 Hu1) as (b2 & vn & E2 & Hn & Hu2).
    assert (F2 : Frame (key rp id) b1 b2).
    { apply (Frame_step_eq _ b1 _ b2 _ Hi1 E2 I). intros rp' id' Ht. exact (touches_handle _ _ _ _ _ _ Hh1 Ht). }
    assert (N2 : NeutralR b1 b2) by (apply (NeutralR_step b1 _ b2 _ Hi1 E2); exact I).
    exists b2, vn. repeat (split; [assumption|]).
    split; [exact (Frame_hdl _ _ _ _ _ _ _ F2 Hh1)|]. split; [exact Hu2|].
    split; [exact (Frame_trans _ _ _ _ F1 F2) | exact (NeutralR_trans _ _ _ N1 N2)].
  Qed.

  (* PATCH: Resume, Write, Close, ID, Size *)
  Lemma chain_patch b rp id rcv data : Inv b -> Upl b rp id rcv ->
    exists b1 b2 b3 b4 b5 vw vn vc vid vs,
      bstep b (PushBlobChunkedResume rp id (blen rcv) (blen data)) = (b1, Ok vw) /\
      bstep b1 (WWrite (wid_of vw) data) = (b2, Ok vn) /\ n_of vn = blen data /\
      bstep b2 (WClose (wid_of vw)) = (b3, Ok vc) /\
      bstep b3 (WID (wid_of vw)) = (b4, Ok vid) /\ str_of vid = id /\
      bstep b4 (WSize (wid_of vw)) = (b5, Ok vs) /\
      Upl b5 rp id (rcv ++ data) /\ Frame (key rp id) b b5 /\ NeutralR b b5.
  Proof.
    intros Hi Hu.
    destruct (chain_resume_write b rp id rcv data Hi Hu)
      as (b1 & vw & E1 & _ & _ & _ & _ & b2 & vn & E2 & Hn & Hh2 & Hu2 & F2 & N2).
    pose proof (Frame_inv _ _ _ _ F2) as Hi2.
    destruct (ul_close UL b2 _ rp id _ Hi2 Hh2 Hu2) as (b3 & vc & E3).
    destruct (quiet_step nokey b2 _ b3 _ Hi2 E3 I) as (F3 & N3 & _).
    pose proof (Frame_inv _ _ _ _ F3) as Hi3.
    pose proof (Frame_hdl _ _ _ _ _ _ _ F3 Hh2) as Hh3. pose proof (Frame_upl _ _ _ _ _ _ _ F3 (fun x => x) Hu2) as Hu3.
    destruct (ul_id UL b3 _ rp id _ Hi3 Hh3 Hu3) as (b4 & vid & E4 & Hid).
    destruct (quiet_step nokey b3 _ b4 _ Hi3 E4 I) as (F4 & N4 & _).
    pose proof (Frame_inv _ _ _ _ F4) as Hi4.
    pose proof (Frame_hdl _ _ _ _ _ _ _ F4 Hh3) as Hh4. pose proof (Frame_upl _ _ _ _ _ _ _ F4 (fun x => x) Hu3) as Hu4.
    destruct (ul_size UL b4 _ rp id _ Hi4 Hh4 Hu4) as (b5 & vs & E5 & _).
    destruct (quiet_step nokey b4 _ b5 _ Hi4 E5 I) as (F5 & N5 & _).
    pose proof (Frame_upl _ _ _ _ _ _ _ F5 (fun x => x) Hu4) as Hu5.
    exists b1, b2, b3, b4, b5, vw, vn, vc, vid, vs. repeat (split; [assumption|]).
    split.
    - apply (Frame_trans _ _ _ _ F2). apply (Frame_weaken _ nokey); [intros ? ? []|].
      exact (Frame_trans _ _ _ _ F3 (Frame_trans _ _ _ _ F4 F5)).
    - exact (NeutralR_trans _ _ _ N2 (NeutralR_trans _ _ _ N3 (NeutralR_trans _ _ _ N4 N5))).
  Qed.

  (* GET <location>: Resume(-1), ID, Size, Close *)
  Lemma chain_info b rp id rcv : Inv b -> Upl b rp id rcv ->
    exists b1 b2 b3 b4 vw vid vs rc,
      bstep b (PushBlobChunkedResume rp id (-1) 0) = (b1, Ok vw) /\
      bstep b1 (WID (wid_of vw)) = (b2, Ok vid) /\ str_of vid = id /\
      bstep b2 (WSize (wid_of vw)) = (b3, Ok vs) /\ n_of vs = blen rcv /\
      bstep b3 (WClose (wid_of vw)) = (b4, rc) /\ rc <> Panic /\ rc <> OutOfFuel /\
      Upl b4 rp id rcv /\ Frame (key rp id) b b4 /\ NeutralR b b4.
  Proof.
    intros Hi Hu.
    destruct (ul_resume UL b rp id rcv (-1) 0 Hi Hu (or_introl eq_refl)) as (b1 & vw & E1 & Hh1 & Hu1).
    assert (F1 : Frame (key rp id) b b1) by (apply (Frame_step_eq _ b _ b1 _ Hi E1 (not_start_resume _ _ _ _ _ _ Hu)); intros rp' id'; exact (touches_resume _ _ _ _ _ _ _ rp' id' E1 Hh1)).
    assert (N1 : NeutralR b b1) by (apply (NeutralR_step b _ b1 _ Hi E1); exists rcv; exact Hu).
    pose proof (Frame_inv _ _ _ _ F1) as Hi1.
    destruct (ul_id UL b1 _ rp id _ Hi1 Hh1 Hu1) as (b2 & vid & E2 & Hid).
    destruct (quiet_step nokey b1 _ b2 _ Hi1 E2 I) as (F2 & N2 & _).
    pose proof (Frame_inv _ _ _ _ F2) as Hi2.
    pose proof (Frame_hdl _ _ _ _ _ _ _ F2 Hh1) as Hh2. pose proof (Frame_upl _ _ _ _ _ _ _ F2 (fun x => x) Hu1) as Hu2.
    destruct (ul_size UL b2 _ rp id _ Hi2 Hh2 Hu2) as (b3 & vs & E3 & Hn).
    destruct (quiet_step nokey b2 _ b3 _ Hi2 E3 I) as (F3 & N3 & _).
    pose proof (Frame_inv _ _ _ _ F3) as Hi3.
    pose proof (Frame_upl _ _ _ _ _ _ _ F3 (fun x => x) Hu2) as Hu3.
    destruct (bstep b3 (WClose (wid_of vw))) as [b4 rc] eqn:E4.
    pose proof (ul_close_any UL b3 (wid_of vw) Hi3) as Hc. rewrite E4 in Hc. cbn [snd] in Hc. destruct Hc as [Hc1 Hc2].
    destruct (quiet_step nokey b3 _ b4 _ Hi3 E4 I) as (F4 & N4 & _).
    pose proof (Frame_upl _ _ _ _ _ _ _ F4 (fun x => x) Hu3) as Hu4.
    exists b1, b2, b3, b4, vw, vid, vs, rc. repeat (split; [assumption|]).
    split.
    - apply (Frame_trans _ _ _ _ F1). apply (Frame_weaken _ nokey); [intros ? ? []|].
      exact (Frame_trans _ _ _ _ F2 (Frame_trans _ _ _ _ F3 F4)).
    - exact (NeutralR_trans _ _ _ N1 (NeutralR_trans _ _ _ N2 (NeutralR_trans _ _ _ N3 N4))).
  Qed.

  (* POST: after PushBlobChunked, ID, ChunkSize, Close *)
  Lemma chain_start b rp hint b1 vw : Inv b -> Room 1 b -> bstep b (PushBlobChunked rp hint) = (b1, Ok vw) ->
    exists id b2 b3 b4 vid vcs rc,
      good_upload_id id /\ (forall rcv, ~ Upl b rp id rcv) /\
      bstep b1 (WID (wid_of vw)) = (b2, Ok vid) /\ str_of vid = id /\
      bstep b2 (WChunkSize (wid_of vw)) = (b3, Ok vcs) /\ min_int64 <= n_of vcs <= max_int64 /\
      bstep b3 (WClose (wid_of vw)) = (b4, rc) /\ rc <> Panic /\ rc <> OutOfFuel /\
      Hdl b4 (wid_of vw) rp id /\ Upl b4 rp id [] /\ FrameN 1 nokey b b4 /\ NeutralR b1 b4.
  Proof.
    intros Hi Hroom E1.
    destruct (ul_start UL b rp hint b1 vw Hi Hroom E1) as (id & Hgid & Hh1 & Hu1 & Hfresh).
    assert (F1 : FrameN 1 nokey b b1) by (exact (Frame_start nokey b rp hint b1 _ Hi Hroom E1)).
    pose proof (Frame_inv _ _ _ _ F1) as Hi1.
    destruct (ul_id UL b1 _ rp id _ Hi1 Hh1 Hu1) as (b2 & vid & E2 & Hid).
    destruct (quiet_step nokey b1 _ b2 _ Hi1 E2 I) as (F2 & N2 & _).
    pose proof (Frame_inv _ _ _ _ F2) as Hi2.
    pose proof (Frame_hdl _ _ _ _ _ _ _ F2 Hh1) as Hh2. pose proof (Frame_upl _ _ _ _ _ _ _ F2 (fun x => x) Hu1) as Hu2.
    destruct (ul_chunksize UL b2 _ rp id _ Hi2 Hh2 Hu2) as (b3 & vcs & E3 & Hn).
    destruct (quiet_step nokey b2 _ b3 _ Hi2 E3 I) as (F3 & N3 & _).
    pose proof (Frame_inv _ _ _ _ F3) as Hi3.
    pose proof (Frame_hdl _ _ _ _ _ _ _ F3 Hh2) as Hh3. pose proof (Frame_upl _ _ _ _ _ _ _ F3 (fun x => x) Hu2) as Hu3.
    destruct (bstep b3 (WClose (wid_of vw))) as [b4 rc] eqn:E4.
    pose proof (ul_close_any UL b3 (wid_of vw) Hi3) as Hc. rewrite E4 in Hc. cbn [snd] in Hc. destruct Hc as [Hc1 Hc2].
    destruct (quiet_step nokey b3 _ b4 _ Hi3 E4 I) as (F4 & N4 & _).
    exists id, b2, b3, b4, vid, vcs, rc. repeat (split; [assumption|]).
    split; [exact (Frame_hdl _ _ _ _ _ _ _ F4 Hh3)|]. split; [exact (Frame_upl _ _ _ _ _ _ _ F4 (fun x => x) Hu3)|].
    split; [exact (Frame1_trans _ _ _ _ F1 (Frame_trans _ _ _ _ F2 (Frame_trans _ _ _ _ F3 F4)))|].
    exact (NeutralR_trans _ _ _ N2 (NeutralR_trans _ _ _ N3 N4)).
  Qed.

  (* ---------------------------------------------------------- the client's writer and its session *)

  Hypothesis no_locs : o_locs o = None.

  (* the bytes written so far = what the backend's upload has received ++ the pending chunk *)
  Definition WInvS (wr : writer) (b : St) (rp id data : bytes) : Prop :=
    exists rcv, Upl b rp id rcv /\ data = rcv ++ chunk_bytes wr /\ wr_flushed wr = blen rcv
                /\ wr_size wr = blen data /\ loc_at wr rp id /\ (wr_closed wr = true -> wr_close_err wr = None).

  Definition not_commit (wo : wop) : bool := match wo with WoCommit _ => false | _ => true end.
  Definition written_of (wo : wop) : bytes := match wo with WoWrite d => d | _ => [] end.

  Lemma blen_app (a b : bytes) : blen (a ++ b) = blen a + blen b.
  Proof. unfold blen. rewrite app_length. lia. Qed.

  Lemma blen_nonneg (a : bytes) : 0 <= blen a.
  Proof. unfold blen. lia. Qed.

  Lemma w64_small z : 0 <= z <= max_int64 -> w64 z = z.
  Proof. intros H. rewrite w64_wrap64. apply wrap64_small. unfold min_int64, max_int64 in *. lia. Qed.

  Lemma alloc_chunk_current wr : alloc_chunk current wr = Ok (chunk_bytes wr).
  Proof.
    unfold alloc_chunk, chunk_bytes. destruct (wr_chunk wr); [reflexivity|]. cbn [b_prealloc_capped current].
    destruct (Z.ltb_spec max_alloc (Z.min (wr_chunk_size wr) default_chunk_size)); [|reflexivity].
    unfold max_alloc, default_chunk_size in *. lia.
  Qed.

  Lemma chunk_bytes_flushed wr : match option_map (fun _ : bytes => @nil BinNums.N) (wr_chunk wr) with Some b => b | None => [] end = [].
  Proof. destruct (wr_chunk wr); reflexivity. Qed.

  (* blobWriter.flush of a non-empty chunk *)
  Lemma flush_winvs (w : W) wr rp id data buf :
    vrepo rp = true -> good_upload_id id -> Inv (sv_b (w_srv w)) ->
    WInvS wr (sv_b (w_srv w)) rp id data -> chunk_bytes wr ++ buf <> [] -> blen data + blen buf <= max_int64 ->
    exists w' wr',
      flush (srv St) serve env wr buf [] w = (w', Ok wr')
      /\ chunk_bytes wr' = [] /\ wr_flushed wr' = blen data + blen buf /\ wr_size wr' = wr_size wr
      /\ wr_chunk_size wr' = wr_chunk_size wr /\ wr_closed wr' = wr_closed wr /\ wr_close_err wr' = wr_close_err wr
      /\ loc_at wr' rp id /\ Upl (sv_b (w_srv w')) rp id (data ++ buf)
      /\ sv_outside (w_srv w') = sv_outside (w_srv w)
      /\ Frame (key rp id) (sv_b (w_srv w)) (sv_b (w_srv w')) /\ NeutralR (sv_b (w_srv w)) (sv_b (w_srv w')).
  Proof.
    intros Hr Hid Hi (rcv & Hu & Hd & Hf & Hs & Hat & Hce) Hne Hmax.
    destruct (chain_patch _ rp id rcv (chunk_bytes wr ++ buf) Hi Hu)
      as (b1 & b2 & b3 & b4 & b5 & vw & vn & vc & vid & vs & E1 & E2 & Hn & E3 & E4 & Hvid & E5 & Hu' & F & N).
    assert (Hlen : blen data + blen buf = blen rcv + blen (chunk_bytes wr ++ buf)) by (subst data; rewrite !blen_app; lia).
    destruct (flush_patch_at linked hash subject_of media enc dec_errors dec_names dec_index redirect St bstep o
                w wr rp id buf b1 b2 b3 b4 b5 vw vn vc vid vs) as (w' & E & Hw); try assumption; rewrite ?Hf, ?Hvid; try assumption.
    - apply blen_nonneg.
    - lia.
    - exists w'. eexists. split; [exact E|]. cbn [wr_chunk wr_flushed wr_size wr_chunk_size wr_closed wr_close_err wr_location].
      unfold chunk_bytes at 1. cbn [wr_chunk]. rewrite chunk_bytes_flushed, Hf, Hvid.
      repeat split; try reflexivity.
      + lia.
      + unfold loc_at. cbn [wr_location]. now apply loc_at_ref.
      + rewrite Hw. cbn [after sv_b]. subst data. rewrite <- app_assoc. exact Hu'.
      + rewrite Hw. reflexivity.
      + rewrite Hw. cbn [after sv_b]. apply F.
      + rewrite Hw. cbn [after sv_b]. apply F.
      + rewrite Hw. cbn [after sv_b]. apply F.
      + rewrite Hw. cbn [after sv_b]. apply F.
      + rewrite Hw. cbn [after sv_b]. exact N.
  Qed.

  (* what the caller sees: Write returns the count, Size the bytes written so far *)
  Definition wanswer (wr : writer) (data : bytes) (wo : wop) (r : wres) : Prop :=
    match wo with
    | WoWrite d => r = WrInt (Ok (blen d))
    | WoSize => r = WrInt (Ok (blen data))
    | WoChunkSize => r = WrInt (Ok (wr_chunk_size wr))
    | WoCancel | WoClose => r = WrInt (Ok 0)
    | WoCommit _ => True
    end.

  Lemma winvs_op (w : W) wr rp id data wo :
    vrepo rp = true -> good_upload_id id -> Inv (sv_b (w_srv w)) ->
    WInvS wr (sv_b (w_srv w)) rp id data -> not_commit wo = true -> blen data + blen (written_of wo) <= max_int64 ->
    exists w' wr' r,
      wop_ wr wo w = (w', (wr', r))
      /\ WInvS wr' (sv_b (w_srv w')) rp id (data ++ written_of wo)
      /\ wanswer wr data wo r
      /\ sv_outside (w_srv w') = sv_outside (w_srv w)
      /\ Frame (key rp id) (sv_b (w_srv w)) (sv_b (w_srv w')) /\ NeutralR (sv_b (w_srv w)) (sv_b (w_srv w'))
      /\ wr_closed wr' = (match wo with WoClose => true | _ => wr_closed wr end)
      /\ (wo = WoClose -> wr_closed wr = false -> chunk_bytes wr' = [])
      /\ (chunk_bytes wr = [] -> written_of wo = [] -> chunk_bytes wr' = []).
  Proof.
    intros Hr Hid Hi HI Hp Hmax. pose proof HI as (rcv & Hu & Hd & Hf & Hs & Hat & Hce).
    assert (Fr : Frame (key rp id) (sv_b (w_srv w)) (sv_b (w_srv w))) by now apply Frame_refl.
    assert (Nr : NeutralR (sv_b (w_srv w)) (sv_b (w_srv w))) by (intros x Hx; exact Hx).
    destruct wo as [buf| |dg| | |]; try discriminate Hp; cbn [writer_op written_of wanswer] in *.
    - (* Write *)
      unfold writer_write.
      assert (Hsz : w64 (wr_size wr + blenZ buf) = blen (data ++ buf)).
      { rewrite Hs, blen_app. change (blenZ buf) with (blen buf). apply w64_small.
        pose proof (blen_nonneg data). pose proof (blen_nonneg buf). lia. }
      destruct (wr_chunk_size wr <? blenZ (chunk_bytes wr) + blenZ buf) eqn:Ebig.
      + destruct (list_eq_dec BinNat.N.eq_dec (chunk_bytes wr ++ buf) []) as [Enil|Hne].
        * (* nothing at all to send (a negative chunk size): flush is a no-op *)
          apply app_eq_nil in Enil as [Ec ->]. unfold flush. rewrite Ec. cbn [is_empty andb blenZ length Z.of_nat Z.add Z.eqb].
          unfold ret. do 3 eexists. split; [reflexivity|]. rewrite app_nil_r.
          split; [|csplit; try reflexivity; try assumption; try (intros X; discriminate X); auto].
          exists rcv. cbn [set_size wr_chunk wr_flushed wr_size wr_location wr_closed wr_close_err].
          unfold loc_at, chunk_bytes in *. cbn [set_size wr_chunk wr_location]. csplit; try assumption.
          change (blenZ []) with 0. rewrite Z.add_0_r, Hs. apply w64_small.
          pose proof (blen_nonneg data). change (blen []) with 0 in Hmax. lia.
        * destruct (flush_winvs w wr rp id data buf Hr Hid Hi HI Hne Hmax)
            as (w' & wr' & E & Hc' & Hf' & Hs' & Hcs & Hcl & Hcerr & Hat' & Hu' & Ho & F & N).
          rewrite E. do 3 eexists. split; [reflexivity|].
          split; [|csplit; try reflexivity; try assumption; try (intros X; discriminate X)].
          -- exists (data ++ buf). unfold loc_at, chunk_bytes in *. cbn [set_size wr_chunk wr_flushed wr_size wr_location wr_closed wr_close_err].
             rewrite Hc', app_nil_r, Hs', Hsz, Hf', blen_app, Hcl, Hcerr. csplit; try assumption; reflexivity.
          -- intros _ _. unfold chunk_bytes in *. cbn [set_size wr_chunk]. exact Hc'.
      + (* the bytes go into the chunk *)
        rewrite alloc_chunk_current. do 3 eexists. split; [reflexivity|].
        split; [|csplit; try reflexivity; try assumption; try (intros X; discriminate X)].
        * exists rcv. unfold loc_at, chunk_bytes at 1. cbn [wr_chunk wr_flushed wr_size wr_location wr_closed wr_close_err].
          csplit; try assumption. subst data. now rewrite app_assoc.
        * intros Ec Eb. unfold chunk_bytes at 1. cbn [wr_chunk]. now rewrite Ec, Eb.
    - (* Close *)
      rewrite app_nil_r. unfold writer_close. destruct (wr_closed wr) eqn:Ecl.
      + rewrite (Hce eq_refl). do 3 eexists. split; [reflexivity|].
        split; [exact HI|]. csplit; try reflexivity; try assumption; auto. discriminate.
      + destruct (list_eq_dec BinNat.N.eq_dec (chunk_bytes wr) []) as [Ec|Hne].
        * unfold flush. rewrite Ec. cbn [is_empty andb blenZ length Z.of_nat Z.add Z.eqb]. unfold ret.
          do 3 eexists. split; [reflexivity|].
          split; [|csplit; try reflexivity; try assumption; try (intros X; discriminate X); auto].
          exists rcv. unfold loc_at, chunk_bytes in *. cbn [set_closed wr_chunk wr_flushed wr_size wr_location wr_closed wr_close_err].
          csplit; try assumption; try reflexivity.
        * destruct (flush_winvs w wr rp id data [] Hr Hid Hi HI) as (w' & wr' & E & Hc' & Hf' & Hs' & Hcs & Hcl & Hcerr & Hat' & Hu' & Ho & F & N);
            [rewrite app_nil_r; exact Hne | change (blen []) with 0 in *; lia|].
          rewrite E. rewrite app_nil_r in Hu'. change (blen []) with 0 in Hf'.
          do 3 eexists. split; [reflexivity|].
          split; [|csplit; try reflexivity; try assumption; try (intros X; discriminate X)].
          -- exists data. unfold loc_at, chunk_bytes in *. cbn [set_closed wr_chunk wr_flushed wr_size wr_location wr_closed wr_close_err].
             rewrite Hc', app_nil_r, Hs', Hf', Z.add_0_r. csplit; try assumption; reflexivity.
          -- intros _ _. unfold chunk_bytes in *. cbn [set_closed wr_chunk]. exact Hc'.
          -- intros _ _. unfold chunk_bytes in *. cbn [set_closed wr_chunk]. exact Hc'.
    - (* Size *)
      rewrite app_nil_r. do 3 eexists. split; [reflexivity|]. split; [exact HI|].
      csplit; try reflexivity; try assumption; auto; try discriminate. now rewrite Hs.
    - (* ChunkSize *)
      rewrite app_nil_r. do 3 eexists. split; [reflexivity|]. split; [exact HI|].
      csplit; try reflexivity; try assumption; auto; try discriminate.
    - (* Cancel: the client's Cancel does nothing *)
      rewrite app_nil_r. do 3 eexists. split; [reflexivity|]. split; [exact HI|].
      csplit; try reflexivity; try assumption; auto; try discriminate.
  Qed.

  (* blobWriter.Commit, with the Commit the caller of the backend makes on the same content *)
  Lemma commit_winvs (w : W) wr rp id data dg x h1 id1 x' v1 :
    vrepo rp = true -> good_upload_id id -> Inv (sv_b (w_srv w)) ->
    WInvS wr (sv_b (w_srv w)) rp id data -> vdigest linked dg = true -> blen data <= max_int64 ->
    Inv x -> sim x (sv_b (w_srv w)) -> Hdl x h1 rp id1 -> Upl x rp id1 data ->
    bstep x (WCommit h1 dg) = (x', Ok v1) ->
    d_digest (desc_of v1) = dg /\ d_size (desc_of v1) = blen data /\
    exists w' wr',
      wop_ wr (WoCommit dg) w
      = (w', (wr', WrDesc (Ok {| d_media := octet_stream; d_digest := dg; d_size := blen data; d_artifact := [] |})))
      /\ sv_outside (w_srv w') = sv_outside (w_srv w)
      /\ Frame (key rp id) (sv_b (w_srv w)) (sv_b (w_srv w')) /\ sim x' (sv_b (w_srv w')).
  Proof.
    intros Hr Hid Hi (rcv & Hu & Hd & Hf & Hs & Hat & Hce) Hvd Hmax Hix Hsim Hh1 Hu1 Ex.
    set (b := sv_b (w_srv w)) in *.
    pose proof (blen_nonneg rcv) as Hr0. pose proof (blen_nonneg (chunk_bytes wr)) as Hc0.
    assert (Hlen : blen data = blen rcv + blen (chunk_bytes wr)) by (subst data; apply blen_app).
    destruct (chain_resume_write b rp id rcv (chunk_bytes wr) Hi Hu)
      as (b1 & vw & E1 & Hh1' & Hu1' & F1 & N1 & b2 & vn & E2 & Hn & Hh2 & Hu2 & F2 & N2).
    cbn [writer_op].
    destruct (list_eq_dec BinNat.N.eq_dec (chunk_bytes wr) []) as [Ec|Hne].
    - (* nothing pending *)
      rewrite Ec in *. rewrite app_nil_r in Hd. subst data. change (blen []) with 0 in E1.
      pose proof (Frame_inv _ _ _ _ F1) as Hi1.
      destruct (ul_commit UL x b1 h1 (wid_of vw) rp id1 id rcv dg x' v1 Hix Hi1 (N1 _ Hsim) Hh1 Hu1 Hh1' Hu1' Ex)
        as (Hdg & Hsz & b3 & v2 & E3 & Hdg2 & Hsim3).
      assert (F3 : Frame (key rp id) b1 b3).
      { apply (Frame_step_eq _ b1 _ b3 _ Hi1 E3 I). intros rp' id' Ht. exact (touches_handle _ _ _ _ _ _ Hh1' Ht). }
      pose proof (Frame_inv _ _ _ _ F3) as Hi3.
      destruct (bstep b3 (WClose (wid_of vw))) as [b4 rc] eqn:E4.
      pose proof (ul_close_any UL b3 (wid_of vw) Hi3) as Hc. rewrite E4 in Hc. cbn [snd] in Hc. destruct Hc as [Hc1 Hc2].
      destruct (quiet_step (key rp id) b3 _ b4 _ Hi3 E4 I) as (F4 & N4 & _).
      split; [exact Hdg|]. split; [exact Hsz|].
      destruct (commit_empty_at linked hash subject_of media enc dec_errors dec_names dec_index redirect St bstep o
                  w wr rp id dg b1 b3 b4 vw v2 rc) as (w' & wr' & E & _ & _ & Hw); try assumption; rewrite ?Hf; try assumption.
      + lia.
      + now rewrite Hdg2.
      + rewrite E. exists w', wr'. rewrite Hs. split; [reflexivity|]. rewrite Hw. cbn [after sv_b sv_outside].
        split; [reflexivity|]. split; [exact (Frame_trans _ _ _ _ F1 (Frame_trans _ _ _ _ F3 F4)) | exact (N4 _ Hsim3)].
    - (* a last chunk goes with the PUT *)
      pose proof (Frame_inv _ _ _ _ F2) as Hi2. rewrite <- Hd in Hu2.
      destruct (ul_commit UL x b2 h1 (wid_of vw) rp id1 id data dg x' v1 Hix Hi2 (N2 _ Hsim) Hh1 Hu1 Hh2 Hu2 Ex)
        as (Hdg & Hsz & b3 & v2 & E3 & Hdg2 & Hsim3).
      assert (F3 : Frame (key rp id) b2 b3).
      { apply (Frame_step_eq _ b2 _ b3 _ Hi2 E3 I). intros rp' id' Ht. exact (touches_handle _ _ _ _ _ _ Hh2 Ht). }
      pose proof (Frame_inv _ _ _ _ F3) as Hi3.
      destruct (bstep b3 (WClose (wid_of vw))) as [b4 rc] eqn:E4.
      pose proof (ul_close_any UL b3 (wid_of vw) Hi3) as Hc. rewrite E4 in Hc. cbn [snd] in Hc. destruct Hc as [Hc1 Hc2].
      destruct (quiet_step (key rp id) b3 _ b4 _ Hi3 E4 I) as (F4 & N4 & _).
      split; [exact Hdg|]. split; [exact Hsz|].
      destruct (commit_at linked hash subject_of media enc dec_errors dec_names dec_index redirect St bstep o
                  w wr rp id dg b1 b2 b3 b4 vw vn v2 rc) as (w' & wr' & E & _ & _ & Hw); try assumption; rewrite ?Hf; try assumption.
      + lia.
      + now rewrite Hdg2.
      + rewrite E. exists w', wr'. rewrite Hs. split; [reflexivity|]. rewrite Hw. cbn [after sv_b sv_outside].
        split; [reflexivity|]. split; [exact (Frame_trans _ _ _ _ F2 (Frame_trans _ _ _ _ F3 F4)) | exact (N4 _ Hsim3)].
  Qed.

  (* ---------------------------------------------------------- the one-call methods leave the sessions alone *)

  Hypothesis media_json : media json_ct = json_ct.
  Hypothesis json_errors_rt : forall w, dec_errors (enc (JErr w)) = Some [w].
  Hypothesis json_index_rt : forall l, dec_index (enc (JIndex l)) = Some l.
  Hypothesis json_tags_rt : forall name l, dec_names true (enc (JTags name l)) = Some l.
  Hypothesis json_catalog_rt : forall l, dec_names false (enc (JCatalog l)) = Some l.
  Hypothesis bufsz_pos : (1 <= cc_bufsz cc)%nat.

  (* blobWriter.Commit when the backend refuses: the same refusal as the Commit the caller of the
     backend makes on the same content; what was pending has reached the backend, the client's
     writer is as before -- the session is not used again *)
  Lemma commit_err_winvs (w : W) wr rp id data dg x h1 id1 x' e :
    vrepo rp = true -> good_upload_id id -> Inv (sv_b (w_srv w)) ->
    WInvS wr (sv_b (w_srv w)) rp id data -> vdigest linked dg = true -> blen data <= max_int64 ->
    Inv x -> sim x (sv_b (w_srv w)) -> Hdl x h1 rp id1 -> Upl x rp id1 data ->
    bstep x (WCommit h1 dg) = (x', Err e) ->
    exists w',
      wop_ wr (WoCommit dg) w = (w', (wr, WrDesc (Err (Wrap commit_wrap (wire_error enc false e)))))
      /\ sv_outside (w_srv w') = sv_outside (w_srv w)
      /\ Frame (key rp id) (sv_b (w_srv w)) (sv_b (w_srv w')) /\ sim x' (sv_b (w_srv w')).
  Proof.
    intros Hr Hid Hi (rcv & Hu & Hd & Hf & Hs & Hat & Hce) Hvd Hmax Hix Hsim Hh1 Hu1 Ex.
    set (b := sv_b (w_srv w)) in *.
    pose proof (blen_nonneg rcv) as Hr0. pose proof (blen_nonneg (chunk_bytes wr)) as Hc0.
    assert (Hlen : blen data = blen rcv + blen (chunk_bytes wr)) by (subst data; apply blen_app).
    destruct (chain_resume_write b rp id rcv (chunk_bytes wr) Hi Hu)
      as (b1 & vw & E1 & Hh1' & Hu1' & F1 & N1 & b2 & vn & E2 & Hn & Hh2 & Hu2 & F2 & N2).
    cbn [writer_op].
    destruct (list_eq_dec BinNat.N.eq_dec (chunk_bytes wr) []) as [Ec|Hne].
    - rewrite Ec in *. rewrite app_nil_r in Hd. subst data. change (blen []) with 0 in E1.
      pose proof (Frame_inv _ _ _ _ F1) as Hi1.
      destruct (ul_commit_err UL x b1 h1 (wid_of vw) rp id1 id rcv dg x' e Hix Hi1 (N1 _ Hsim) Hh1 Hu1 Hh1' Hu1' Ex)
        as ((Hce1 & Hlen8) & b3 & E3 & Hsim3).
      assert (F3 : Frame (key rp id) b1 b3).
      { apply (Frame_step_eq _ b1 _ b3 _ Hi1 E3 I). intros rp' id' Ht. exact (touches_handle _ _ _ _ _ _ Hh1' Ht). }
      pose proof (Frame_inv _ _ _ _ F3) as Hi3.
      destruct (bstep b3 (WClose (wid_of vw))) as [b4 rc] eqn:E4.
      pose proof (ul_close_any UL b3 (wid_of vw) Hi3) as Hc. rewrite E4 in Hc. cbn [snd] in Hc. destruct Hc as [Hc1 Hc2].
      destruct (quiet_step (key rp id) b3 _ b4 _ Hi3 E4 I) as (F4 & N4 & _).
      destruct (commit_empty_err_at linked hash subject_of media enc dec_errors dec_names dec_index redirect St bstep o
                  media_json json_errors_rt w wr rp id dg b1 b3 b4 vw e rc) as (w' & E & Hw); try assumption; rewrite ?Hf; try assumption.
      + lia.
      + rewrite E. exists w'. split; [reflexivity|]. rewrite Hw. cbn [after sv_b sv_outside].
        split; [reflexivity|]. split; [exact (Frame_trans _ _ _ _ F1 (Frame_trans _ _ _ _ F3 F4)) | exact (N4 _ Hsim3)].
    - pose proof (Frame_inv _ _ _ _ F2) as Hi2. rewrite <- Hd in Hu2.
      destruct (ul_commit_err UL x b2 h1 (wid_of vw) rp id1 id data dg x' e Hix Hi2 (N2 _ Hsim) Hh1 Hu1 Hh2 Hu2 Ex)
        as ((Hce1 & Hlen8) & b3 & E3 & Hsim3).
      assert (F3 : Frame (key rp id) b2 b3).
      { apply (Frame_step_eq _ b2 _ b3 _ Hi2 E3 I). intros rp' id' Ht. exact (touches_handle _ _ _ _ _ _ Hh2 Ht). }
      pose proof (Frame_inv _ _ _ _ F3) as Hi3.
      destruct (bstep b3 (WClose (wid_of vw))) as [b4 rc] eqn:E4.
      pose proof (ul_close_any UL b3 (wid_of vw) Hi3) as Hc. rewrite E4 in Hc. cbn [snd] in Hc. destruct Hc as [Hc1 Hc2].
      destruct (quiet_step (key rp id) b3 _ b4 _ Hi3 E4 I) as (F4 & N4 & _).
      destruct (commit_err_at linked hash subject_of media enc dec_errors dec_names dec_index redirect St bstep o
                  media_json json_errors_rt w wr rp id dg b1 b2 b3 b4 vw vn e rc) as (w' & E & Hw); try assumption; rewrite ?Hf; try assumption.
      + lia.
      + rewrite E. exists w'. split; [reflexivity|]. rewrite Hw. cbn [after sv_b sv_outside].
        split; [reflexivity|]. split; [exact (Frame_trans _ _ _ _ F2 (Frame_trans _ _ _ _ F3 F4)) | exact (N4 _ Hsim3)].
  Qed.

  Notation wf := (wf_op linked hash subject_of).
  Notation conf := (conf_answer linked hash enc o).
  Notation omitv := (omit o).
  Notation SS L := (L linked hash subject_of media enc dec_errors dec_names dec_index redirect St bstep o cc).
  Notation okstep := (ok_step linked hash subject_of enc St bstep o cc).
  Notation RelP := (Rel St Inv sim).

  Lemma bstep_fun b c b' r b'' r' : bstep b c = (b', r) -> bstep b c = (b'', r') -> b'' = b' /\ r' = r.
  Proof. intros E1 E2. rewrite E1 in E2. injection E2 as <- <-. auto. Qed.

  Lemma bstep_fun_ok b c b' v b'' v' : bstep b c = (b', Ok v) -> bstep b c = (b'', Ok v') -> b'' = b' /\ v' = v.
  Proof. intros E1 E2. rewrite E1 in E2. injection E2 as <- <-. auto. Qed.

  Lemma plain_untouched b c rp id : plain_op c = true -> ~ touches b c rp id.
  Proof. destruct c; try discriminate; intros _ H; exact H. Qed.

  Lemma Frame_plain b c b' r : Inv b -> plain_op c = true -> bstep b c = (b', r) -> Frame nokey b b'.
  Proof. intros Hi Hp E. apply (Frame_step_eq nokey b c b' r Hi E); [destruct c; try discriminate Hp; exact I|]. intros rp id Ht. exact (plain_untouched b c rp id Hp Ht). Qed.

  (* the upload session PushBlob is over HTTP opens a session of its own and leaves the others alone *)
  Lemma session_frame b rp dg data b8 tr : Inv b -> Room 1 b -> session_of St bstep b rp dg data b8 tr -> FrameN 1 nokey b b8.
  Proof.
    intros Hi Hroom Hse.
    assert (G : forall c1 c2 c3 c4 c5 c7 vw vid vcs rc vw2 vd n,
      bstep b (PushBlobChunked rp 0) = (c1, Ok vw) ->
      bstep c1 (WID (wid_of vw)) = (c2, Ok vid) ->
      bstep c2 (WChunkSize (wid_of vw)) = (c3, Ok vcs) ->
      bstep c3 (WClose (wid_of vw)) = (c4, rc) ->
      bstep c4 (PushBlobChunkedResume rp (str_of vid) 0 n) = (c5, Ok vw2) ->
      (exists c6, (c6 = c5 \/ exists vn, bstep c5 (WWrite (wid_of vw2) data) = (c6, Ok vn)) /\
                  bstep c6 (WCommit (wid_of vw2) dg) = (c7, Ok vd)) ->
      forall rc2, bstep c7 (WClose (wid_of vw2)) = (b8, rc2) -> FrameN 1 nokey b b8).
    { intros c1 c2 c3 c4 c5 c7 vw vid vcs rc vw2 vd n E1 E2 E3 E4 E5 (c6 & E6 & E7) rc2 E8.
      destruct (chain_start b rp 0 c1 vw Hi Hroom E1)
        as (id & c2' & c3' & c4' & vid' & vcs' & rc' & Hgid & Hfresh & E2' & Hvid & E3' & _ & E4' & _ & _ & Hh4 & Hu4 & F4 & _).
      destruct (bstep_fun_ok _ _ _ _ _ _ E2 E2') as [-> ->]. destruct (bstep_fun_ok _ _ _ _ _ _ E3 E3') as [-> ->].
      destruct (bstep_fun _ _ _ _ _ _ E4 E4') as [-> _]. rewrite Hvid in E5.
      pose proof (Frame_inv _ _ _ _ F4) as Hi4.
      apply (Frame_fresh 1 b b8 rp id); [|exact Hfresh].
      apply (Frame1_trans _ _ c4); [apply (Frame_weaken _ nokey); [intros ? ? []|exact F4]|].
      assert (Hh5 : Hdl c5 (wid_of vw2) rp id).
      { destruct (ul_resume UL c4 rp id [] 0 n Hi4 Hu4 (or_intror eq_refl)) as (b' & vw' & E & Hh & _).
        destruct (bstep_fun_ok _ _ _ _ _ _ E5 E) as [-> ->]. exact Hh. }
      assert (F5 : Frame (key rp id) c4 c5) by (apply (Frame_step_eq _ c4 _ c5 _ Hi4 E5 (not_start_resume _ _ _ _ _ _ Hu4)); intros rp' id'; exact (touches_resume _ _ _ _ _ _ _ rp' id' E5 Hh5)).
      pose proof (Frame_inv _ _ _ _ F5) as Hi5.
      assert (F6 : Frame (key rp id) c5 c6 /\ Hdl c6 (wid_of vw2) rp id).
      { destruct E6 as [-> | (vn & E6)]; [split; [now apply Frame_refl | exact Hh5]|].
        assert (F : Frame (key rp id) c5 c6).
        { apply (Frame_step_eq _ c5 _ c6 _ Hi5 E6 I). intros rp' id' Ht. exact (touches_handle _ _ _ _ _ _ Hh5 Ht). }
        split; [exact F | exact (Frame_hdl _ _ _ _ _ _ _ F Hh5)]. }
      destruct F6 as [F6 Hh6]. pose proof (Frame_inv _ _ _ _ F6) as Hi6.
      assert (F7 : Frame (key rp id) c6 c7).
      { apply (Frame_step_eq _ c6 _ c7 _ Hi6 E7 I). intros rp' id' Ht. exact (touches_handle _ _ _ _ _ _ Hh6 Ht). }
      pose proof (Frame_inv _ _ _ _ F7) as Hi7.
      assert (F8 : Frame (key rp id) c7 b8) by (apply (Frame_step_eq _ c7 _ b8 _ Hi7 E8 I); intros ? ? []).
      exact (Frame_trans _ _ _ _ F5 (Frame_trans _ _ _ _ F6 (Frame_trans _ _ _ _ F7 F8))). }
    destruct data as [|d0 data'].
    - destruct Hse as (c1 & c2 & c3 & c4 & c5 & c7 & vw & vid & vcs & rc & vw2 & vd2 & rc2 &
                       E1 & E2 & _ & E3 & E4 & _ & _ & E5 & E7 & E8 & _).
      refine (G c1 c2 c3 c4 c5 c7 vw vid vcs rc vw2 vd2 0 E1 E2 E3 E4 E5 _ rc2 E8).
      exists c5. split; [left; reflexivity | exact E7].
    - destruct Hse as (c1 & c2 & c3 & c4 & c5 & c6 & c7 & vw & vid & vcs & rc & vw2 & vn & vd2 & rc2 &
                       E1 & E2 & _ & E3 & E4 & _ & _ & E5 & E6 & _ & E7 & E8 & _).
      refine (G c1 c2 c3 c4 c5 c7 vw vid vcs rc vw2 vd2 _ E1 E2 E3 E4 E5 _ rc2 E8).
      exists c6. split; [right; exists vn; exact E6 | exact E7].
  Qed.

  Lemma plain_writers st c : plain_op c = true -> st_writers (fst (stack st c)) = st_writers st.
  Proof.
    intros Hp. unfold stack_bstep.
    assert (G : st_writers (fst (raw_step linked hash subject_of media enc dec_errors dec_names dec_index redirect bstep o cc st c))
                = st_writers st).
    { unfold raw_step. destruct c; try discriminate Hp; cbn [fst];
        repeat match goal with
               | |- context [let '(_, _) := ?m in _] => destruct m
               end; reflexivity. }
    destruct (raw_step linked hash subject_of media enc dec_errors dec_names dec_index redirect bstep o cc st c) as [st' r].
    cbn [fst] in G. destruct (sv_outside (st_srv st')); cbn [fst st_writers]; exact G.
  Qed.

  (* Proofs/StackHistory.v [one_step], for what it does not say: the backend behind the stack has
     received calls that leave every open session as it was *)
  Lemma one_step_frame b1 st c :
    RelP b1 st -> Room 1 (sv_b (st_srv st)) -> okstep b1 c (snd (bstep b1 c)) ->
    FrameN 1 nokey (sv_b (st_srv st)) (sv_b (st_srv (fst (stack st c)))).
  Proof.
    intros (Hi1 & Hi2 & Hsim & Hcl) Hroom (Hpl & Hwf & Hsz0 & Hside).
    set (b2 := sv_b (st_srv st)) in *.
    pose proof (cf_inv _ _ _ _ _ _ _ Inv sim CF b1 c Hi1) as Hi1'.
    assert (Hplb : plain_op (bop c) = true).
    { destruct c; try discriminate Hpl; try reflexivity. cbn [bop]. destruct (whole_range o0 o1); reflexivity. }
    destruct (one_call c) eqn:H1.
    - destruct (cf_step _ _ _ _ _ _ _ Inv sim CF b1 b2 c Hi1 Hi2 Hsim H1 Hwf) as (Hs & Hsim').
      pose proof (cf_answer _ _ _ _ _ _ _ Inv sim CF b2 c Hi2 H1 Hwf) as Hconf.
      pose proof (cf_inv _ _ _ _ _ _ _ Inv sim CF b2 (bop c) Hi2) as Hi2'.
      destruct (bstep b2 (bop c)) as [b2' r2] eqn:Eb2. cbn [fst snd] in *.
      specialize (Hconf (sizes_sim hash subject_of media enc dec_errors dec_index redirect c _ r2 Hs Hsz0)).
      assert (Href : referrers_ok o c).
      { destruct c; try exact I. exact Hside. }
      assert (Hcase : tag_small o c r2 \/
                      exists rp t v, c = GetTag rp t /\ r2 = Ok v /\ omitv = true /\ in_mem_threshold < blen (data_of v)).
      { destruct c; try (left; exact I). destruct r2 as [v| | |]; try (left; exact I).
        destruct (omitv) eqn:Eo; [|left; cbn [tag_small]; intros; congruence].
        destruct (Z.leb_spec (blen (data_of v)) in_mem_threshold) as [Hle|Hgt].
        - left. intros _. exact Hle.
        - right. exists r, t, v. auto. }
      pose proof (Frame_plain b2 (bop c) b2' r2 Hi2 Hplb Eb2) as F2.
      destruct Hcase as [Hts | (rp & t & v & -> & -> & Hom & Hth)].
      + rewrite (SS step_one media_json json_errors_rt json_index_rt no_locs bufsz_pos st c b2' r2 H1 Hwf Hcl Eb2 Hconf Hts Href).
        cbn [fst stepped st_srv sv_b]. exact (Frame_to1 _ _ _ F2).
      + cbn [bop] in *. cbn [conf_answer conf_ok] in Hconf.
        destruct Hconf as (Hvd & (Hsz & Hmax & Hco) & Hm & _).
        destruct (cf_tag_head _ _ _ _ _ _ _ Inv sim CF b2 rp t b2' v Hi2 Hwf Eb2) as (v1 & Eh & Hdg & Hds).
        destruct (bstep b2' (ResolveTag rp t)) as [b2'' rh] eqn:Eb3. cbn [snd] in Eh. subst rh.
        rewrite (SS step_GetTag_large bufsz_pos st rp t b2' v b2'' v1 Hom Hwf Hcl Eb2 Hvd Hsz
                   Hmax Hth Eb3); rewrite ?Hdg, ?Hds; try assumption.
        cbn [fst stepped st_srv sv_b]. apply Frame_to1. apply (Frame_trans _ _ _ _ F2).
        exact (Frame_plain b2' (ResolveTag rp t) b2'' _ Hi2' eq_refl Eb3).
    - destruct (is_listing c) eqn:Hl.
      + destruct (cf_step_list _ _ _ _ _ _ _ Inv sim CF b1 b2 c Hi1 Hi2 Hsim Hl) as (Hs & Hsim').
        assert (Hside' : page_size_ok o cc /\ (1 <= cc_fuel cc)%nat /\ lists_small enc St bstep cc b1 c
                         /\ match snd (bstep b1 c) with Ok v => (length (items_of v) < cc_fuel cc)%nat | _ => True end).
        { destruct c; try discriminate Hl; exact Hside. }
        destruct Hside' as (Hpg & Hfu & Hsm & Hlen).
        destruct (cf_list _ _ _ _ _ _ _ Inv sim CF b2 c Hi2 Hl) as [(e & Hfe & Hre) | (full & Hpw)].
        * destruct (bstep b2 c) as [b2' a] eqn:Eb2. cbn [fst snd] in *.
          rewrite (SS step_list_err media_json json_errors_rt Hpg st c b2' a e Hl Hwf Hcl Hfu Eb2 Hfe Hre).
          cbn [fst stepped st_srv sv_b]. exact (Frame_to1 _ _ _ (Frame_plain b2 c b2' a Hi2 Hpl Eb2)).
        * pose proof Hpw as (Hback & _ & _).
          assert (Estart : list_call c (list_start c) = c) by (destruct c; try discriminate Hl; reflexivity).
          pose proof (Hback (list_start c)) as Eb2. rewrite Estart in Eb2. fold b2 in Eb2.
          rewrite Eb2 in Hs, Hsim'. cbn [fst snd] in *. rewrite Hs in Hlen. cbn [items_of] in Hlen.
          assert (Hps : pages_small enc cc (list_doc c) full).
          { intros s0. specialize (Hback s0).
            assert (Hl0 : is_listing (list_call c s0) = true) by (destruct c; try discriminate Hl; reflexivity).
            destruct (cf_step_list _ _ _ _ _ _ _ Inv sim CF b1 b2 (list_call c s0) Hi1 Hi2 Hsim Hl0) as (Hs0 & _).
            fold b2 in Hback. rewrite Hback in Hs0. cbn [snd] in Hs0.
            exact (Hsm s0 _ Hs0). }
          destruct (SS step_list_ok json_tags_rt json_catalog_rt Hpg st c full Hl Hwf Hcl Hpw Hps Hlen) as (starts & E).
          rewrite E. cbn [fst stepped st_srv sv_b]. apply Frame_to1. now apply Frame_refl.
      + destruct c as [rp d|rp d o0 o1|rp d|rp t|rp d|rp d|rp t|rp de content|rp hint|rp id off hint|from to d|rp t content med|rp d|rp d|rp t|st0|rp st0|rp d art|h data|h|h|h|h|h d|h];
          try discriminate H1; try discriminate Hl; try discriminate Hpl.
        destruct Hside as (vd & Erd).
        destruct (bstep b1 (PushBlob rp de content)) as [b1' rd] eqn:Eb1. cbn [fst snd] in *. subst rd.
        destruct (cf_session _ _ _ _ _ _ _ Inv sim CF b1 b2 rp de content b1' vd Hi1 Hi2 Hsim Hwf Eb1) as (Hde & b8 & tr & Hse & Hsim').
        pose proof (session_frame b2 rp (d_digest de) content b8 tr Hi2 Hroom Hse) as F8.
        destruct content as [|c0 content'].
        { destruct Hse as (c1 & c2 & c3 & c4 & c5 & c7 & vw & vid & vcs & rc & vw2 & vd2 & rc2 &
                           E1 & E2 & Hid & E3 & E4 & Hc1 & Hc2 & E5 & E7 & E8 & Hc3 & Hc4 & ->).
          rewrite (SS step_PushBlob_empty no_locs st rp de c1 c2 c3 c4 c5 c7 b8 vw vid vcs rc vw2 vd2 rc2 Hwf Hcl
                     E1 E2 Hid E3 E4 Hc1 Hc2 E5 E7 E8 Hc3 Hc4).
          cbn [fst stepped st_srv sv_b]. exact F8. }
        assert (Hpos : 1 <= blen (c0 :: content')) by (unfold blen; cbn [length]; lia).
        destruct Hse as (c1 & c2 & c3 & c4 & c5 & c6 & c7 & vw & vid & vcs & rc & vw2 & vn & vd2 & rc2 &
                         E1 & E2 & Hid & E3 & E4 & Hc1 & Hc2 & E5 & E6 & Hn & E7 & E8 & Hc3 & Hc4 & ->).
        rewrite (SS step_PushBlob no_locs st rp de (c0 :: content') c1 c2 c3 c4 c5 c6 c7 b8 vw vid vcs rc vw2 vn vd2 rc2 Hwf Hcl Hpos
                   E1 E2 Hid E3 E4 Hc1 Hc2 E5 E6 Hn E7 E8 Hc3 Hc4).
        cbn [fst stepped st_srv sv_b]. exact F8.
  Qed.

  (* ---------------------------------------------------------- the relation between the two runs *)

  (* a live session: its repository, its ID at the backend called directly, its ID at the backend
     behind the stack, and what the history says about the client's writer *)
  Record view := mkview { v_rp : bytes; v_id1 : bytes; v_id2 : bytes; v_cl : bool; v_cn : bool }.

  (* a session: its handle in the direct run, its handle in the run through the stack *)
  Record srec := mksrec { r_h1 : wid; r_h2 : wid; r_v : option view }.

  Definition sst_of (r : srec) : sst :=
    match r_v r with None => SDead | Some v => SLive (v_cl v) (v_cn v) end.

  Definition sess_ok (b1 : St) (st : sstate St) (r : srec) : Prop :=
    match r_v r with
    | None => True
    | Some v =>
        vrepo (v_rp v) = true /\ good_upload_id (v_id2 v) /\
        exists data wr, blen data <= max_int64 /\
          Hdl b1 (r_h1 r) (v_rp v) (v_id1 v) /\ Upl b1 (v_rp v) (v_id1 v) data /\
          nth_error (st_writers st) (N.to_nat (r_h2 r)) = Some wr /\
          WInvS wr (sv_b (st_srv st)) (v_rp v) (v_id2 v) data /\
          wr_closed wr = v_cl v /\ (v_cn v = true -> chunk_bytes wr = [])
    end.

  Definition distinct (L : list srec) : Prop :=
    forall i j ri rj vi vj, i <> j -> nth_error L i = Some ri -> nth_error L j = Some rj ->
      r_v ri = Some vi -> r_v rj = Some vj ->
      ~ key (v_rp vi) (v_id1 vi) (v_rp vj) (v_id1 vj) /\ ~ key (v_rp vi) (v_id2 vi) (v_rp vj) (v_id2 vj).

  Definition RelW (n : nat) (b1 : St) (st : sstate St) (L : list srec) : Prop :=
    RelP b1 st /\ (Room n b1 /\ Room n (sv_b (st_srv st))) /\ NoDup (map r_h2 L)
    /\ (forall j rj, nth_error L j = Some rj -> (N.to_nat (r_h2 rj) < length (st_writers st))%nat)
    /\ (forall j rj, nth_error L j = Some rj -> sess_ok b1 st rj) /\ distinct L.

  (* ---------------------------------------------------------- the side condition *)

  Definition ok_hop (b : St) (tb : list wid) (ss : list sst) (e : hop) : Prop :=
    match e with
    | HOp c => okstep b c (snd (bstep b c))
    | HStart rp hint =>
        vrepo rp = true /\ match snd (bstep b (PushBlobChunked rp hint)) with Ok _ | Err _ => True | _ => False end
    | HW s wo =>
        (exists cl cn, nth_error ss s = Some (SLive cl cn)) /\
        forall h rp id data, nth_error tb s = Some h -> Hdl b h rp id -> Upl b rp id data ->
          blen data + blen (written_of wo) <= max_int64 /\
          match wo with
          | WoCommit dg =>
              vdigest linked dg = true /\ match snd (bstep b (WCommit h dg)) with Ok _ | Err _ => True | _ => False end
          | _ => True
          end
    | HID s => exists cl cn, nth_error ss s = Some (SLive cl cn)
    | HResume s rp off hint =>
        (exists cl, nth_error ss s = Some (SLive cl true)) /\
        forall h rp' id data, nth_error tb s = Some h -> Hdl b h rp' id -> Upl b rp' id data ->
          rp' = rp /\ ((off = -1 /\ blen data <> 1) \/ off = blen data)
    end.

  Fixpoint wadmissible (b : St) (tb : list wid) (ss : list sst) (h : list hop) : Prop :=
    match h with
    | [] => True
    | e :: h' =>
        ok_hop b tb ss e /\
        let '(b', tb', r) := hstep bstep b tb e in wadmissible b' tb' (next_sst ss e r) h'
    end.

  (* ---------------------------------------------------------- the relation on answers *)

  Definition hres_equiv (e : hop) (rd rv : bres) : Prop :=
    match e with
    | HOp c => bres_equiv c rd rv
    | HResume _ _ _ _ | HID _ => (exists v, rd = Ok v) /\ (exists v, rv = Ok v)
    | HStart _ _ =>
        match rd, rv with
        | Ok _, Ok _ => True
        | Err d, Err v => err_equiv false d v
        | _, _ => False
        end
    | HW _ wo =>
        match rd, rv with
        | Ok vd, Ok vv =>
            match wo with
            | WoWrite _ | WoSize => n_of vv = n_of vd
            | WoCommit _ => desc_equiv false true (desc_of vd) (desc_of vv)
            | _ => True
            end
        | Err d, Err v => match wo with WoCommit _ => err_equiv false d v | _ => False end
        | _, _ => False
        end
    end.

  (* ---------------------------------------------------------- sessions that a step does not act on *)

  Lemma sess_ok_keep k1 k2 b1 b1' st st' (K1 K2 : bytes -> bytes -> Prop) r :
    FrameN k1 K1 b1 b1' -> FrameN k2 K2 (sv_b (st_srv st)) (sv_b (st_srv st')) ->
    nth_error (st_writers st') (N.to_nat (r_h2 r)) = nth_error (st_writers st) (N.to_nat (r_h2 r)) ->
    (forall v, r_v r = Some v -> ~ K1 (v_rp v) (v_id1 v) /\ ~ K2 (v_rp v) (v_id2 v)) ->
    sess_ok b1 st r -> sess_ok b1' st' r.
  Proof.
    intros F1 F2 Hw Hk. unfold sess_ok. destruct (r_v r) as [v|]; [|auto].
    destruct (Hk v eq_refl) as [Hk1 Hk2].
    intros (Hr & Hid & data & wr & Hmax & Hh & Hu & Hn & (rcv & Hu2 & Hrest) & Hfl).
    split; [exact Hr|]. split; [exact Hid|]. exists data, wr. split; [exact Hmax|].
    split; [exact (Frame_hdl _ _ _ _ _ _ _ F1 Hh)|]. split; [exact (Frame_upl _ _ _ _ _ _ _ F1 Hk1 Hu)|].
    split; [now rewrite Hw|]. split; [|exact Hfl].
    exists rcv. split; [exact (Frame_upl _ _ _ _ _ _ _ F2 Hk2 Hu2) | exact Hrest].
  Qed.

  Lemma clean_start st : clean st -> sv_outside (w_srv (start St st)) = false.
  Proof. intros H. exact H. Qed.

  Lemma N_to_nat_neq (a b : wid) : a <> b -> N.to_nat a <> N.to_nat b.
  Proof. intros H E. apply H. now apply N2Nat.inj. Qed.

  Lemma NoDup_map_neq (L : list srec) i j ri rj : NoDup (map r_h2 L) -> i <> j ->
    nth_error L i = Some ri -> nth_error L j = Some rj -> r_h2 ri <> r_h2 rj.
  Proof.
    intros Hnd Hij Hi Hj E. apply Hij.
    assert (Hi' : nth_error (map r_h2 L) i = Some (r_h2 ri)) by (rewrite nth_error_map', Hi; reflexivity).
    assert (Hj' : nth_error (map r_h2 L) j = Some (r_h2 rj)) by (rewrite nth_error_map', Hj; reflexivity).
    rewrite <- E in Hj'. apply (proj1 (NoDup_nth_error (map r_h2 L)) Hnd i j); [|congruence].
    apply nth_error_Some. congruence.
  Qed.

  (* ---------------------------------------------------------- the writer operations of [stack_bstep] *)

  Notation raw := (raw_step linked hash subject_of media enc dec_errors dec_names dec_index redirect bstep o cc).

  Lemma stack_of_raw st c st' r : raw st c = (st', r) -> sv_outside (st_srv st') = false -> stack st c = (st', r).
  Proof. intros E Ho. unfold stack_bstep. rewrite E, Ho. reflexivity. Qed.

  Lemma stack_wid st h wr rp id : clean st -> nth_error (st_writers st) (N.to_nat h) = Some wr ->
    vrepo rp = true -> good_upload_id id -> loc_at wr rp id ->
    stack st (WID h) = (st, Ok (VStr (upath rp id))).
  Proof.
    intros Hcl Hn Hr Hid Hl. apply stack_of_raw; [|exact Hcl]. unfold raw_step. rewrite Hn.
    now rewrite (id_at wr rp id Hr Hid Hl).
  Qed.

  Definition wop_result (wo : wop) (r : wres) : bres :=
    match wo with WoClose | WoCancel => unit_of (wres_bres r) | _ => wres_bres r end.

  Lemma stack_on_writer st h wr wo w' wr' r : nth_error (st_writers st) (N.to_nat h) = Some wr ->
    wop_ wr wo (start St st) = (w', (wr', r)) -> sv_outside (w_srv w') = false ->
    stack st (wop_op h wo) = (mksstate (w_srv w') (set_nth (N.to_nat h) wr' (st_writers st)), wop_result wo r).
  Proof.
    intros Hn E Ho. apply stack_of_raw; [|exact Ho].
    destruct wo; cbn [wop_op raw_step wop_result]; unfold on_writer; rewrite Hn, E; reflexivity.
  Qed.

  Lemma stack_new_writer st c (m : M (srv St) writer) w' wr :
    raw st c = new_writer St st (m (start St st)) ->
    m (start St st) = (w', Ok wr) -> sv_outside (w_srv w') = false ->
    stack st c = (mksstate (w_srv w') (st_writers st ++ [wr]), Ok (VWriter (N.of_nat (length (st_writers st))))).
  Proof.
    intros Hraw E Ho. apply stack_of_raw; [|exact Ho]. rewrite Hraw, E. reflexivity.
  Qed.

  Lemma stack_new_writer_err st c (m : M (srv St) writer) w' e :
    raw st c = new_writer St st (m (start St st)) ->
    m (start St st) = (w', Err e) -> sv_outside (w_srv w') = false ->
    stack st c = (mksstate (w_srv w') (st_writers st), Err e).
  Proof.
    intros Hraw E Ho. apply stack_of_raw; [|exact Ho]. rewrite Hraw, E. reflexivity.
  Qed.

  Lemma start_srv st : sv_b (w_srv (start St st)) = sv_b (st_srv st).
  Proof. reflexivity. Qed.

  (* ---------------------------------------------------------- one step of both runs *)

  Definition step_goal (n : nat) (b1 : St) (st : sstate St) (L : list srec) (e : hop) (L' : list srec) : Prop :=
    let d := hstep bstep b1 (map r_h1 L) e in
    let v := hstep stack st (map r_h2 L) e in
    hres_equiv e (snd d) (snd v)
    /\ snd (fst d) = map r_h1 L' /\ snd (fst v) = map r_h2 L'
    /\ next_sst (map sst_of L) e (snd d) = map sst_of L'
    /\ RelW n (fst (fst d)) (fst (fst v)) L'.

  Lemma RelW_weaken n b1 st L : RelW (S n) b1 st L -> RelW n b1 st L.
  Proof.
    intros (HR & (R1 & R2) & Hrest). split; [exact HR|]. split; [|exact Hrest].
    split; [exact (ul_room_weaken UL _ _ R1) | exact (ul_room_weaken UL _ _ R2)].
  Qed.

  Lemma step_plain n b1 st L c : RelW (S n) b1 st L -> okstep b1 c (snd (bstep b1 c)) -> step_goal n b1 st L (HOp c) L.
  Proof.
    intros (HR & (R1 & R2) & Hnd & Hbd & Hok & Hdi) Hstep. unfold step_goal. cbn [hstep].
    pose proof (SS one_step Inv sim CF media_json json_errors_rt json_index_rt json_tags_rt json_catalog_rt no_locs bufsz_pos
                  b1 st c HR Hstep) as (Heq & HR').
    pose proof (one_step_frame b1 st c HR (Room_le _ 1 (S n) ltac:(lia) R2) Hstep) as F2.
    assert (Hpl : plain_op c = true) by (destruct Hstep as (H & _); exact H).
    pose proof (plain_writers st c Hpl) as Hws.
    destruct HR as (Hi1 & _).
    destruct (bstep b1 c) as [b1' rd] eqn:E1. destruct (stack st c) as [st' rv] eqn:E2. cbn [fst snd] in *.
    pose proof (Frame_plain b1 c b1' rd Hi1 Hpl E1) as F1.
    split; [exact Heq|]. split; [reflexivity|]. split; [reflexivity|]. split; [reflexivity|].
    split; [exact HR'|]. split; [split; [exact (ul_room_weaken UL _ _ (Frame_room _ _ _ _ F1 R1)) | exact (Frame1_room _ _ _ _ F2 R2)]|].
    split; [exact Hnd|]. split; [intros j rj Hj; rewrite Hws; eauto|]. split; [|exact Hdi].
    intros j rj Hj. apply (sess_ok_keep _ _ b1 b1' st st' nokey nokey rj F1 F2); [now rewrite Hws | intros v _; split; intros [] | eauto].
  Qed.

  (* ---------------------------------------------------------- a step that acts on one session *)

  Definition same_keys (v v' : view) : Prop := v_rp v' = v_rp v /\ v_id1 v' = v_id1 v /\ v_id2 v' = v_id2 v.

  Lemma distinct_set L s r v r' : distinct L -> nth_error L s = Some r -> r_v r = Some v ->
    (forall v', r_v r' = Some v' -> same_keys v v') -> distinct (set_nth s r' L).
  Proof.
    intros Hd Hs Hv Hk i j ri rj vi vj Hij Hi Hj Hvi Hvj. rewrite nth_error_set_nth in Hi, Hj.
    destruct (Nat.eqb_spec i s) as [->|Hi_s], (Nat.eqb_spec j s) as [->|Hj_s]; try congruence.
    - rewrite Hs in Hi. injection Hi as <-. destruct (Hk vi Hvi) as (E1 & E2 & E3). rewrite E1, E2, E3.
      exact (Hd s j r rj v vj Hij Hs Hj Hv Hvj).
    - rewrite Hs in Hj. injection Hj as <-. destruct (Hk vj Hvj) as (E1 & E2 & E3). rewrite E1, E2, E3.
      exact (Hd i s ri r vi v Hij Hi Hs Hvi Hv).
    - exact (Hd i j ri rj vi vj Hij Hi Hj Hvi Hvj).
  Qed.

  Lemma RelW_update n b1 st L s r v b1' st' r' :
    RelW n b1 st L -> nth_error L s = Some r -> r_v r = Some v ->
    Frame (key (v_rp v) (v_id1 v)) b1 b1' -> Frame (key (v_rp v) (v_id2 v)) (sv_b (st_srv st)) (sv_b (st_srv st')) ->
    sim b1' (sv_b (st_srv st')) -> clean st' ->
    (forall h, (N.to_nat h < length (st_writers st))%nat -> h <> r_h2 r ->
       nth_error (st_writers st') (N.to_nat h) = nth_error (st_writers st) (N.to_nat h)) ->
    (length (st_writers st) <= length (st_writers st'))%nat ->
    (r_h2 r' = r_h2 r \/ ~ In (r_h2 r') (map r_h2 L)) -> (N.to_nat (r_h2 r') < length (st_writers st'))%nat ->
    sess_ok b1' st' r' -> (forall v', r_v r' = Some v' -> same_keys v v') ->
    RelW n b1' st' (set_nth s r' L).
  Proof.
    intros (HR & (R1 & R2) & Hnd & Hbd & Hok & Hdi) Hs Hv F1 F2 Hsim Hcl Hws Hlen Hh2 Hb2 Hok' Hk.
    split; [|split; [|split; [|split; [|split]]]].
    - split; [exact (Frame_inv _ _ _ _ F1)|]. split; [exact (Frame_inv _ _ _ _ F2)|]. split; assumption.
    - split; [exact (Frame_room _ _ _ _ F1 R1) | exact (Frame_room _ _ _ _ F2 R2)].
    - rewrite map_set_nth. destruct Hh2 as [E|Hnin].
      + rewrite E, set_nth_same; [exact Hnd|]. rewrite nth_error_map', Hs. reflexivity.
      + now apply NoDup_set_nth_fresh.
    - intros j rj Hj. rewrite nth_error_set_nth in Hj. destruct (Nat.eqb_spec j s) as [->|Hjs].
      + rewrite Hs in Hj. injection Hj as <-. exact Hb2.
      + pose proof (Hbd j rj Hj). lia.
    - intros j rj Hj. rewrite nth_error_set_nth in Hj. destruct (Nat.eqb_spec j s) as [->|Hjs].
      + rewrite Hs in Hj. injection Hj as <-. exact Hok'.
      + apply (sess_ok_keep _ _ b1 b1' st st' _ _ rj F1 F2).
        * apply Hws; [exact (Hbd j rj Hj)|]. exact (NoDup_map_neq L j s rj r Hnd Hjs Hj Hs).
        * intros vj Hvj. destruct (Hdi s j r rj v vj (fun E => Hjs (eq_sym E)) Hs Hj Hv Hvj) as [N1 N2]. split; assumption.
        * exact (Hok j rj Hj).
    - exact (distinct_set L s r v r' Hdi Hs Hv Hk).
  Qed.

  Lemma live_lookup L s cl cn : nth_error (map sst_of L) s = Some (SLive cl cn) ->
    exists r v, nth_error L s = Some r /\ r_v r = Some v /\ v_cl v = cl /\ v_cn v = cn.
  Proof.
    rewrite nth_error_map'. destruct (nth_error L s) as [r|]; [|discriminate]. cbn [option_map]. unfold sst_of.
    destruct (r_v r) as [v|] eqn:Ev; [|discriminate]. intros H. injection H as <- <-. exists r, v. auto.
  Qed.

  Lemma set_nth_writer (ws : list writer) h h' wr' : h' <> h ->
    nth_error (set_nth (N.to_nat h) wr' ws) (N.to_nat h') = nth_error ws (N.to_nat h').
  Proof.
    intros Hne. rewrite nth_error_set_nth. destruct (Nat.eqb_spec (N.to_nat h') (N.to_nat h)) as [E|]; [|reflexivity].
    apply N2Nat.inj in E. congruence.
  Qed.

  (* a writer operation other than Commit at the backend called directly *)
  Lemma direct_w b h rp id data wo : Inv b -> Hdl b h rp id -> Upl b rp id data -> not_commit wo = true ->
    exists b' vd, bstep b (wop_op h wo) = (b', Ok vd)
      /\ Frame (key rp id) b b' /\ NeutralL b b'
      /\ (wo <> WoCancel -> Upl b' rp id (data ++ written_of wo))
      /\ match wo with WoWrite d => n_of vd = blen d | WoSize => n_of vd = blen data | _ => True end.
  Proof.
    intros Hi Hh Hu Hp.
    assert (Q : forall c b' r, bstep b c = (b', r) ->
                match c with WClose _ | WSize _ | WChunkSize _ | WID _ => True | _ => False end ->
                Frame (key rp id) b b' /\ NeutralL b b' /\ Upl b' rp id data).
    { intros c b' r E Hc. destruct (quiet_step nokey b c b' r Hi E Hc) as (F & _ & NL).
      split; [apply (Frame_weaken _ nokey); [intros ? ? []|exact F]|]. split; [exact NL|].
      exact (Frame_upl _ _ _ _ _ _ _ F (fun x => x) Hu). }
    destruct wo as [d| |dg| | |]; try discriminate Hp; cbn [wop_op written_of]; rewrite ?app_nil_r.
    - destruct (ul_write UL b h rp id data d Hi Hh Hu) as (b' & vn & E & Hn & Hu').
      exists b', vn. split; [exact E|].
      split; [apply (Frame_step_eq _ b _ b' _ Hi E I); intros rp' id' Ht; exact (touches_handle _ _ _ _ _ _ Hh Ht)|].
      split; [apply (NeutralL_step b _ b' _ Hi E); exact I|]. split; [intros _; exact Hu' | exact Hn].
    - destruct (ul_close UL b h rp id data Hi Hh Hu) as (b' & v & E). destruct (Q _ _ _ E I) as (F & NL & Hu').
      exists b', v. auto.
    - destruct (ul_size UL b h rp id data Hi Hh Hu) as (b' & v & E & Hn). destruct (Q _ _ _ E I) as (F & NL & Hu').
      exists b', v. auto.
    - destruct (ul_chunksize UL b h rp id data Hi Hh Hu) as (b' & v & E & Hn). destruct (Q _ _ _ E I) as (F & NL & Hu').
      exists b', v. auto.
    - destruct (ul_cancel UL b h rp id data Hi Hh Hu) as (b' & v & E).
      exists b', v. split; [exact E|].
      split; [apply (Frame_step_eq _ b _ b' _ Hi E I); intros rp' id' Ht; exact (touches_handle _ _ _ _ _ _ Hh Ht)|].
      split; [apply (NeutralL_step b _ b' _ Hi E); exact I|]. split; [congruence | exact I].
  Qed.

  (* the record of a session after a writer operation *)
  Definition view_after (v : view) (wo : wop) : option view :=
    match wo with
    | WoWrite d => Some (mkview (v_rp v) (v_id1 v) (v_id2 v) (v_cl v) (v_cn v && is_empty d))
    | WoClose => Some (if v_cl v then v else mkview (v_rp v) (v_id1 v) (v_id2 v) true true)
    | WoCommit _ | WoCancel => None
    | WoSize | WoChunkSize => Some v
    end.

  Lemma sst_of_some h1 h2 v : sst_of (mksrec h1 h2 (Some v)) = SLive (v_cl v) (v_cn v).
  Proof. reflexivity. Qed.
  Lemma sst_of_none h1 h2 : sst_of (mksrec h1 h2 None) = SDead.
  Proof. reflexivity. Qed.

  Lemma next_sst_w L s r v wo rd : nth_error L s = Some r -> r_v r = Some v ->
    next_sst (map sst_of L) (HW s wo) rd = map sst_of (set_nth s (mksrec (r_h1 r) (r_h2 r) (view_after v wo)) L).
  Proof.
    intros Hs Hv. cbn [next_sst]. rewrite nth_error_map', Hs. cbn [option_map].
    assert (E0 : sst_of r = SLive (v_cl v) (v_cn v)) by (unfold sst_of; now rewrite Hv). rewrite E0.
    rewrite map_set_nth.
    assert (Hsame : set_nth s (SLive (v_cl v) (v_cn v)) (map sst_of L) = map sst_of L).
    { apply set_nth_same. rewrite nth_error_map', Hs. cbn [option_map]. now rewrite E0. }
    destruct wo; cbn [view_after]; rewrite ?sst_of_some, ?sst_of_none; cbn [v_cl v_cn]; try reflexivity; try (now rewrite Hsame).
    destruct (v_cl v) eqn:Ecl; cbn [v_cl v_cn]; [|reflexivity]. rewrite Ecl. now rewrite Hsame.
  Qed.

  Lemma step_w n b1 st L s wo : RelW (S n) b1 st L -> ok_hop b1 (map r_h1 L) (map sst_of L) (HW s wo) -> not_commit wo = true ->
    exists L', step_goal n b1 st L (HW s wo) L'.
  Proof.
    intros HRW ((cl & cn & Hlive) & Hside) Hp. pose proof HRW as (HR & (R1 & R2) & Hnd & Hbd & Hok & Hdi).
    destruct (live_lookup L s cl cn Hlive) as (r & v & Hs & Hv & Hcl & Hcn).
    pose proof (Hok s r Hs) as Hsess. unfold sess_ok in Hsess. rewrite Hv in Hsess.
    destruct Hsess as (Hrp & Hid2 & data & wr & Hmax & Hh1 & Hu1 & Hn2 & HI & Hwcl & Hwcn).
    destruct HR as (Hi1 & Hi2 & Hsim & Hclean).
    assert (Htb1 : nth_error (map r_h1 L) s = Some (r_h1 r)) by (rewrite nth_error_map', Hs; reflexivity).
    assert (Htb2 : nth_error (map r_h2 L) s = Some (r_h2 r)) by (rewrite nth_error_map', Hs; reflexivity).
    destruct (Hside _ _ _ _ Htb1 Hh1 Hu1) as (Hbound & _).
    destruct (direct_w b1 (r_h1 r) _ _ data wo Hi1 Hh1 Hu1 Hp) as (b1' & vd & E1 & F1 & NL & Hu1' & Hans1).
    destruct (winvs_op (start St st) wr _ _ data wo Hrp Hid2 Hi2 HI Hp Hbound)
      as (w' & wr' & rr & E2 & HI' & Hans2 & Ho & F2 & NR & Hcl' & Hclose' & Hclean').
    assert (Ho' : sv_outside (w_srv w') = false) by (rewrite Ho; exact Hclean).
    pose proof (stack_on_writer st (r_h2 r) wr wo w' wr' rr Hn2 E2 Ho') as E2'.
    set (r' := mksrec (r_h1 r) (r_h2 r) (view_after v wo)).
    exists (set_nth s r' L). unfold step_goal. cbn [hstep]. rewrite Htb1, Htb2, E1, E2'. cbn [fst snd].
    split; [|split; [|split; [|split]]].
    - (* the answers *)
      cbn [hres_equiv]. destruct wo; try discriminate Hp; cbn [wanswer wop_result] in *; subst rr; cbn [wres_bres unit_of n_of]; auto.
    - rewrite map_set_nth. symmetry. apply set_nth_same. exact Htb1.
    - rewrite map_set_nth. symmetry. apply set_nth_same. exact Htb2.
    - exact (next_sst_w L s r v wo (Ok vd) Hs Hv).
    - assert (Hlt : (N.to_nat (r_h2 r) < length (st_writers st))%nat) by (apply nth_error_Some; congruence).
      apply RelW_weaken. apply (RelW_update (S n) b1 st L s r v b1' _ r' HRW Hs Hv F1); cbn [st_srv st_writers r_h2 r'].
      + exact F2.
      + apply NR. apply NL. exact Hsim.
      + exact Ho'.
      + intros h _ Hne. now apply set_nth_writer.
      + now rewrite set_nth_length.
      + left; reflexivity.
      + now rewrite set_nth_length.
      + unfold sess_ok. cbn [r_v r' r_h1 r_h2 st_writers st_srv].
        assert (Hnew : nth_error (set_nth (N.to_nat (r_h2 r)) wr' (st_writers st)) (N.to_nat (r_h2 r)) = Some wr').
        { rewrite nth_error_set_nth, Nat.eqb_refl, Hn2. reflexivity. }
        assert (Hmax' : blen (data ++ written_of wo) <= max_int64) by (rewrite blen_app; exact Hbound).
        destruct wo as [d| |dg| | |]; try discriminate Hp; cbn [view_after written_of] in *; rewrite ?app_nil_r in *.
        * split; [exact Hrp|]. split; [exact Hid2|]. exists (data ++ d), wr'. cbn [v_rp v_id1 v_id2 v_cl v_cn].
          split; [exact Hmax'|]. split; [exact (Frame_hdl _ _ _ _ _ _ _ F1 Hh1)|]. split; [apply Hu1'; discriminate|].
          split; [exact Hnew|]. split; [exact HI'|]. split; [congruence|].
          intros Hc. apply andb_true_iff in Hc as [Hc1 Hc2]. apply Hclean'; [apply Hwcn; exact Hc1|].
          destruct d; [reflexivity | discriminate Hc2].
        * destruct (v_cl v) eqn:Ev.
          -- split; [exact Hrp|]. split; [exact Hid2|]. exists data, wr'.
             split; [exact Hmax|]. split; [exact (Frame_hdl _ _ _ _ _ _ _ F1 Hh1)|]. split; [apply Hu1'; discriminate|].
             split; [exact Hnew|]. split; [exact HI'|]. split; [congruence|].
             intros Hc. apply Hclean'; [apply Hwcn; exact Hc | reflexivity].
          -- cbn [v_rp v_id1 v_id2 v_cl v_cn]. split; [exact Hrp|]. split; [exact Hid2|]. exists data, wr'.
             split; [exact Hmax|]. split; [exact (Frame_hdl _ _ _ _ _ _ _ F1 Hh1)|]. split; [apply Hu1'; discriminate|].
             split; [exact Hnew|]. split; [exact HI'|]. split; [exact Hcl'|].
             intros _. apply Hclose'; [reflexivity | congruence].
        * split; [exact Hrp|]. split; [exact Hid2|]. exists data, wr'.
          split; [exact Hmax|]. split; [exact (Frame_hdl _ _ _ _ _ _ _ F1 Hh1)|]. split; [apply Hu1'; discriminate|].
          split; [exact Hnew|]. split; [exact HI'|]. split; [congruence|].
          intros Hc. apply Hclean'; [apply Hwcn; exact Hc | reflexivity].
        * split; [exact Hrp|]. split; [exact Hid2|]. exists data, wr'.
          split; [exact Hmax|]. split; [exact (Frame_hdl _ _ _ _ _ _ _ F1 Hh1)|]. split; [apply Hu1'; discriminate|].
          split; [exact Hnew|]. split; [exact HI'|]. split; [congruence|].
          intros Hc. apply Hclean'; [apply Hwcn; exact Hc | reflexivity].
        * exact I.
      + intros v' Hv'. cbn [r_v r'] in Hv'.
        destruct wo; try discriminate Hp; cbn [view_after] in Hv'; try (injection Hv' as <-); try discriminate Hv';
          try (repeat split; reflexivity).
        destruct (v_cl v); repeat split; reflexivity.
  Qed.

  Lemma step_commit n b1 st L s dg : RelW (S n) b1 st L -> ok_hop b1 (map r_h1 L) (map sst_of L) (HW s (WoCommit dg)) ->
    exists L', step_goal n b1 st L (HW s (WoCommit dg)) L'.
  Proof.
    intros HRW ((cl & cn & Hlive) & Hside). pose proof HRW as (HR & (R1 & R2) & Hnd & Hbd & Hok & Hdi).
    destruct (live_lookup L s cl cn Hlive) as (r & v & Hs & Hv & Hcl & Hcn).
    pose proof (Hok s r Hs) as Hsess. unfold sess_ok in Hsess. rewrite Hv in Hsess.
    destruct Hsess as (Hrp & Hid2 & data & wr & Hmax & Hh1 & Hu1 & Hn2 & HI & Hwcl & Hwcn).
    destruct HR as (Hi1 & Hi2 & Hsim & Hclean).
    assert (Htb1 : nth_error (map r_h1 L) s = Some (r_h1 r)) by (rewrite nth_error_map', Hs; reflexivity).
    assert (Htb2 : nth_error (map r_h2 L) s = Some (r_h2 r)) by (rewrite nth_error_map', Hs; reflexivity).
    destruct (Hside _ _ _ _ Htb1 Hh1 Hu1) as (_ & Hvd & Hres).
    destruct (bstep b1 (WCommit (r_h1 r) dg)) as [b1' rd] eqn:E1. cbn [snd] in Hres.
    assert (F1 : Frame (key (v_rp v) (v_id1 v)) b1 b1').
    { apply (Frame_step_eq _ b1 _ b1' _ Hi1 E1 I). intros rp' id' Ht. exact (touches_handle _ _ _ _ _ _ Hh1 Ht). }
    set (r' := mksrec (r_h1 r) (r_h2 r) None).
    assert (Hlt : (N.to_nat (r_h2 r) < length (st_writers st))%nat) by (apply nth_error_Some; congruence).
    (* what remains once the run through the stack is known *)
    assert (G : forall w' wr' rr, wop_ wr (WoCommit dg) (start St st) = (w', (wr', rr)) ->
              sv_outside (w_srv w') = sv_outside (w_srv (start St st)) ->
              Frame (key (v_rp v) (v_id2 v)) (sv_b (st_srv st)) (sv_b (w_srv w')) -> sim b1' (sv_b (w_srv w')) ->
              hres_equiv (HW s (WoCommit dg)) rd (wres_bres rr) ->
              step_goal n b1 st L (HW s (WoCommit dg)) (set_nth s r' L)).
    { intros w' wr' rr E2 Ho F2 Hsim' Heq.
      assert (Ho' : sv_outside (w_srv w') = false) by (rewrite Ho; exact Hclean).
      pose proof (stack_on_writer st (r_h2 r) wr (WoCommit dg) w' wr' _ Hn2 E2 Ho') as E2'.
      unfold step_goal. cbn [hstep wop_op] in *. rewrite Htb1, Htb2, E1, E2'. cbn [fst snd].
      split; [exact Heq|]. split; [|split; [|split]].
      - rewrite map_set_nth. symmetry. apply set_nth_same. exact Htb1.
      - rewrite map_set_nth. symmetry. apply set_nth_same. exact Htb2.
      - exact (next_sst_w L s r v (WoCommit dg) rd Hs Hv).
      - apply RelW_weaken. apply (RelW_update (S n) b1 st L s r v b1' _ r' HRW Hs Hv F1); cbn [st_srv st_writers r_h2 r' r_v].
        + exact F2.
        + exact Hsim'.
        + exact Ho'.
        + intros h _ Hne. now apply set_nth_writer.
        + now rewrite set_nth_length.
        + left; reflexivity.
        + now rewrite set_nth_length.
        + exact I.
        + discriminate. }
    exists (set_nth s r' L). destruct rd as [v1|e| |]; try contradiction.
    - destruct (commit_winvs (start St st) wr _ _ data dg b1 (r_h1 r) (v_id1 v) b1' v1 Hrp Hid2 Hi2 HI Hvd Hmax Hi1 Hsim Hh1 Hu1 E1)
        as (Hdg & Hsz & w' & wr' & E2 & Ho & F2 & Hsim').
      apply (G w' wr' _ E2 Ho F2 Hsim').
      cbn [hres_equiv wres_bres desc_of]. unfold desc_equiv. cbn [d_digest d_size]. rewrite Hdg, Hsz.
      split; [reflexivity|]. split; [reflexivity | discriminate].
    - destruct (ul_commit_err UL b1 b1 (r_h1 r) (r_h1 r) _ _ _ data dg b1' e Hi1 Hi1 (cf_refl _ _ _ _ _ _ _ _ _ CF b1 Hi1)
                  Hh1 Hu1 Hh1 Hu1 E1) as (Hrelay & _).
      destruct (commit_err_winvs (start St st) wr _ _ data dg b1 (r_h1 r) (v_id1 v) b1' e Hrp Hid2 Hi2 HI Hvd Hmax Hi1 Hsim Hh1 Hu1 E1)
        as (w' & E2 & Ho & F2 & Hsim').
      apply (G w' wr _ E2 Ho F2 Hsim').
      cbn [hres_equiv wres_bres]. apply (err_equiv_wire enc false e Hrelay).
  Qed.

  Lemma step_id n b1 st L s : RelW (S n) b1 st L -> ok_hop b1 (map r_h1 L) (map sst_of L) (HID s) ->
    exists L', step_goal n b1 st L (HID s) L'.
  Proof.
    intros HRW (cl & cn & Hlive). pose proof HRW as (HR & (R1 & R2) & Hnd & Hbd & Hok & Hdi).
    destruct (live_lookup L s cl cn Hlive) as (r & v & Hs & Hv & Hcl & Hcn).
    pose proof (Hok s r Hs) as Hsess. unfold sess_ok in Hsess. rewrite Hv in Hsess.
    destruct Hsess as (Hrp & Hid2 & data & wr & Hmax & Hh1 & Hu1 & Hn2 & HI & Hwcl & Hwcn).
    destruct HR as (Hi1 & Hi2 & Hsim & Hclean).
    assert (Htb1 : nth_error (map r_h1 L) s = Some (r_h1 r)) by (rewrite nth_error_map', Hs; reflexivity).
    assert (Htb2 : nth_error (map r_h2 L) s = Some (r_h2 r)) by (rewrite nth_error_map', Hs; reflexivity).
    destruct (ul_id UL b1 _ _ _ _ Hi1 Hh1 Hu1) as (b1' & vi & E1 & _).
    destruct (quiet_step nokey b1 _ b1' _ Hi1 E1 I) as (F1 & _ & NL).
    assert (Hloc : loc_at wr (v_rp v) (v_id2 v)) by (destruct HI as (? & _ & _ & _ & _ & H & _); exact H).
    pose proof (stack_wid st (r_h2 r) wr _ _ Hclean Hn2 Hrp Hid2 Hloc) as E2.
    assert (EL : set_nth s r L = L) by (apply set_nth_same; exact Hs).
    exists (set_nth s r L). unfold step_goal. cbn [hstep]. rewrite Htb1, Htb2, E1, E2. cbn [fst snd].
    split; [|split; [|split; [|split]]].
    - cbn [hres_equiv]. split; eexists; reflexivity.
    - now rewrite EL.
    - now rewrite EL.
    - cbn [next_sst]. now rewrite EL.
    - apply RelW_weaken. apply (RelW_update (S n) b1 st L s r v b1' st r HRW Hs Hv).
      + apply (Frame_weaken _ nokey); [intros ? ? []|exact F1].
      + now apply Frame_refl.
      + apply NL. exact Hsim.
      + exact Hclean.
      + reflexivity.
      + lia.
      + left; reflexivity.
      + apply nth_error_Some. congruence.
      + unfold sess_ok. rewrite Hv. split; [exact Hrp|]. split; [exact Hid2|]. exists data, wr.
        split; [exact Hmax|]. split; [exact (Frame_hdl _ _ _ _ _ _ _ F1 Hh1)|].
        split; [exact (Frame_upl _ _ _ _ _ _ _ F1 (fun x => x) Hu1)|]. auto.
      + intros v' Hv'. rewrite Hv in Hv'. injection Hv' as <-. repeat split; reflexivity.
  Qed.

  Lemma fresh_handle L (ws : list writer) :
    (forall j rj, nth_error L j = Some rj -> (N.to_nat (r_h2 rj) < length ws)%nat) ->
    ~ In (N.of_nat (length ws)) (map r_h2 L).
  Proof.
    intros Hbd Hin. apply in_map_iff in Hin as (rj & E & Hin). apply In_nth_error in Hin as (j & Hj).
    pose proof (Hbd j rj Hj) as H. rewrite E, Nat2N.id in H. lia.
  Qed.

  Lemma nth_error_snoc_old {A} (ws : list A) a i : (i < length ws)%nat -> nth_error (ws ++ [a]) i = nth_error ws i.
  Proof. intros H. now apply nth_error_app1. Qed.

  Lemma nth_error_snoc_new {A} (ws : list A) a : nth_error (ws ++ [a]) (length ws) = Some a.
  Proof. rewrite nth_error_app2, Nat.sub_diag by lia. reflexivity. Qed.

  Lemma step_resume n b1 st L s rp off hint : RelW (S n) b1 st L -> ok_hop b1 (map r_h1 L) (map sst_of L) (HResume s rp off hint) ->
    exists L', step_goal n b1 st L (HResume s rp off hint) L'.
  Proof.
    intros HRW ((cl & Hlive) & Hside). pose proof HRW as (HR & (R1 & R2) & Hnd & Hbd & Hok & Hdi).
    destruct (live_lookup L s cl true Hlive) as (r & v & Hs & Hv & Hcl & Hcn).
    pose proof (Hok s r Hs) as Hsess. unfold sess_ok in Hsess. rewrite Hv in Hsess.
    destruct Hsess as (Hrp & Hid2 & data & wr & Hmax & Hh1 & Hu1 & Hn2 & HI & Hwcl & Hwcn).
    destruct HR as (Hi1 & Hi2 & Hsim & Hclean).
    assert (Htb1 : nth_error (map r_h1 L) s = Some (r_h1 r)) by (rewrite nth_error_map', Hs; reflexivity).
    assert (Htb2 : nth_error (map r_h2 L) s = Some (r_h2 r)) by (rewrite nth_error_map', Hs; reflexivity).
    destruct (Hside _ _ _ _ Htb1 Hh1 Hu1) as (Erp & Hoff). subst rp.
    pose proof (blen_nonneg data) as Hd0.
    assert (Hoff' : off = -1 \/ off = blen data) by (destruct Hoff as [[E _]|E]; rewrite E; auto).
    (* the direct run: ID, then the resume *)
    destruct (ul_id UL b1 _ _ _ _ Hi1 Hh1 Hu1) as (x1 & vi & E1 & Hvi).
    destruct (quiet_step nokey b1 _ x1 _ Hi1 E1 I) as (F1 & _ & NL1).
    pose proof (Frame_inv _ _ _ _ F1) as Hix1. pose proof (Frame_upl _ _ _ _ _ _ _ F1 (fun x => x) Hu1) as Hux1.
    destruct (ul_resume UL x1 _ _ data off hint Hix1 Hux1 Hoff') as (x2 & vw & E1' & Hhx2 & Hux2).
    assert (F1' : Frame (key (v_rp v) (v_id1 v)) x1 x2) by (apply (Frame_step_eq _ x1 _ x2 _ Hix1 E1' (not_start_resume _ _ _ _ _ _ Hux1)); intros rp' id'; exact (touches_resume _ _ _ _ _ _ _ rp' id' E1' Hhx2)).
    assert (NL1' : NeutralL x1 x2) by (apply (NeutralL_step x1 _ x2 _ Hix1 E1'); exists data; exact Hux1).
    assert (F1t : Frame (key (v_rp v) (v_id1 v)) b1 x2).
    { apply (Frame_trans _ _ x1); [apply (Frame_weaken _ nokey); [intros ? ? []|exact F1] | exact F1']. }
    (* the run through the stack: ID is the location, the resume makes a new client-side writer *)
    destruct HI as (rcv & Hu2 & Hd & Hf & Hsz & Hloc & Hce).
    rewrite (Hwcn Hcn), app_nil_r in Hd. subst rcv.
    pose proof (stack_wid st (r_h2 r) wr _ _ Hclean Hn2 Hrp Hid2 Hloc) as E2.
    set (ws := st_writers st) in *. set (b2 := sv_b (st_srv st)) in *.
    assert (G : exists w' wrn,
      push_blob_chunked_resume (srv St) serve env (v_rp v) (upath (v_rp v) (v_id2 v)) off hint (start St st) = (w', Ok wrn)
      /\ sv_outside (w_srv w') = false /\ Frame (key (v_rp v) (v_id2 v)) b2 (sv_b (w_srv w')) /\ NeutralR b2 (sv_b (w_srv w'))
      /\ Upl (sv_b (w_srv w')) (v_rp v) (v_id2 v) data /\ chunk_bytes wrn = [] /\ wr_flushed wrn = blen data
      /\ wr_size wrn = blen data /\ loc_at wrn (v_rp v) (v_id2 v) /\ wr_closed wrn = false).
    { destruct Hoff as [[E Hne1]|E]; rewrite E in *; clear E.
      - destruct (chain_info b2 _ _ data Hi2 Hu2)
          as (c1 & c2 & c3 & c4 & vw2 & vid & vs & rc & C1 & C2 & Hvid & C3 & Hvs & C4 & Hc1 & Hc2 & Hu4 & F4 & N4).
        destruct (resume_info linked hash subject_of media enc dec_errors dec_names dec_index redirect St bstep o
                    (start St st) (v_rp v) (v_rp v) (v_id2 v) hint c1 c2 c3 c4 vw2 vid vs rc) as (w' & E & Hw);
          try assumption; rewrite ?Hvid, ?Hvs; try assumption; try lia.
        exists w'. eexists. split; [exact E|]. rewrite Hw. cbn [after sv_b sv_outside].
        split; [exact Hclean|]. split; [exact F4|]. split; [exact N4|]. split; [exact Hu4|].
        split; [reflexivity|]. split; [exact Hvs|]. split; [exact Hvs|]. split; [|reflexivity].
        unfold loc_at. cbn [resumed wr_location]. rewrite Hvid. now apply loc_at_ref.
      - exists (start St st). eexists. split; [apply resume_at; assumption|]. cbn [start init_world w_srv sv_b sv_outside].
        split; [exact Hclean|]. split; [now apply Frame_refl|]. split; [intros x Hx; exact Hx|]. split; [exact Hu2|].
        split; [reflexivity|]. split; [reflexivity|]. split; [reflexivity|]. split; [|reflexivity].
        now apply resumed_loc_id. }
    destruct G as (w' & wrn & E2' & Ho' & F2 & NR & Hu2' & Hcn' & Hfn & Hsn & Hln & Hcln).
    pose proof (stack_new_writer st (PushBlobChunkedResume (v_rp v) (upath (v_rp v) (v_id2 v)) off hint)
                  (push_blob_chunked_resume (srv St) serve env (v_rp v) (upath (v_rp v) (v_id2 v)) off hint) w' wrn eq_refl E2' Ho') as E2''.
    fold ws in E2''.
    set (r' := mksrec (wid_of vw) (N.of_nat (length ws)) (Some (mkview (v_rp v) (v_id1 v) (v_id2 v) false true))).
    exists (set_nth s r' L). unfold step_goal. cbn [hstep]. rewrite Htb1, Htb2, E1, E2. cbn [str_of]. rewrite Hvi, E1', E2''.
    cbn [fst snd wid_of].
    split; [|split; [|split; [|split]]].
    - cbn [hres_equiv]. split; eexists; reflexivity.
    - now rewrite map_set_nth.
    - now rewrite map_set_nth.
    - cbn [next_sst]. now rewrite map_set_nth.
    - apply RelW_weaken. apply (RelW_update (S n) b1 st L s r v x2 _ r' HRW Hs Hv F1t); cbn [st_srv st_writers r_h2 r' r_v r_h1]; fold ws.
      + exact F2.
      + apply NR. apply NL1'. apply NL1. exact Hsim.
      + exact Ho'.
      + intros h Hlt _. now apply nth_error_snoc_old.
      + rewrite app_length. lia.
      + right. apply fresh_handle. exact Hbd.
      + rewrite Nat2N.id, app_length. cbn [length]. lia.
      + unfold sess_ok. subst r'. cbn [r_v r_h1 r_h2 v_rp v_id1 v_id2 v_cl v_cn st_writers st_srv].
        split; [exact Hrp|]. split; [exact Hid2|]. exists data, wrn. split; [exact Hmax|].
        split; [exact Hhx2|]. split; [exact Hux2|]. rewrite Nat2N.id. split; [apply nth_error_snoc_new|].
        split; [|split; [exact Hcln | intros _; exact Hcn']].
        exists data. rewrite Hcn', app_nil_r. repeat split; try assumption. rewrite Hcln. discriminate.
      + intros v' Hv'. injection Hv' as <-. repeat split; reflexivity.
  Qed.

  Lemma NoDup_snoc {A} (l : list A) a : NoDup l -> ~ In a l -> NoDup (l ++ [a]).
  Proof.
    induction l as [|b l IH]; intros Hn Hin; cbn [app]; [constructor; [intros []|constructor]|].
    inversion Hn as [|? ? Hb Hl]; subst. constructor.
    - intros H. apply in_app_or in H as [H|[H|[]]]; [exact (Hb H)|]. subst. apply Hin. left; reflexivity.
    - apply IH; [exact Hl|]. intros H. apply Hin. right; exact H.
  Qed.

  Lemma step_start n b1 st L rp hint : RelW (S n) b1 st L -> ok_hop b1 (map r_h1 L) (map sst_of L) (HStart rp hint) ->
    exists L', step_goal n b1 st L (HStart rp hint) L'.
  Proof.
    intros HRW (Hrp & Hres). pose proof HRW as (HR & (R1 & R2) & Hnd & Hbd & Hok & Hdi).
    destruct HR as (Hi1 & Hi2 & Hsim & Hclean).
    destruct (bstep b1 (PushBlobChunked rp hint)) as [b1' rd] eqn:E1. cbn [snd] in Hres.
    destruct rd as [v1|e| |]; try contradiction.
    2:{ (* refused on both sides *)
      destruct (ul_start_err UL b1 (sv_b (st_srv st)) rp hint 0 b1' e Hi1 Hi2 Hsim E1) as ((Hce & Hlen8) & b2' & E2a & Hsim').
      pose proof (Frame_start nokey b1 rp hint b1' _ Hi1 (Room_le _ 1 (S n) ltac:(lia) R1) E1) as F1.
      pose proof (Frame_start nokey (sv_b (st_srv st)) rp 0 b2' _ Hi2 (Room_le _ 1 (S n) ltac:(lia) R2) E2a) as F2.
      destruct (start_err linked hash subject_of media enc dec_errors dec_names dec_index redirect St bstep o
                  media_json json_errors_rt (start St st) rp hint b2' e Hrp E2a Hce Hlen8) as (w' & E2 & Hw).
      assert (Ho' : sv_outside (w_srv w') = false) by (rewrite Hw; exact Hclean).
      pose proof (stack_new_writer_err st (PushBlobChunked rp hint) (push_blob_chunked (srv St) serve env rp hint) w' _ eq_refl E2 Ho') as E2'.
      assert (Eb2' : sv_b (w_srv w') = b2') by (rewrite Hw; reflexivity).
      exists L. unfold step_goal. cbn [hstep]. rewrite E1, E2'. cbn [fst snd].
      split; [cbn [hres_equiv]; exact (err_equiv_wire enc false e (conj Hce Hlen8))|].
      split; [reflexivity|]. split; [reflexivity|]. split; [reflexivity|].
      split; [|split; [|split; [|split; [|split]]]]; cbn [st_srv st_writers].
      - split; [exact (Frame_inv _ _ _ _ F1)|]. cbn [st_srv]. rewrite Eb2'. split; [exact (Frame_inv _ _ _ _ F2)|]. split; [exact Hsim' | exact Ho'].
      - rewrite Eb2'. split; [exact (Frame1_room _ _ _ _ F1 R1) | exact (Frame1_room _ _ _ _ F2 R2)].
      - exact Hnd.
      - exact Hbd.
      - intros j rj Hj. apply (sess_ok_keep 1 1 b1 b1' st _ nokey nokey rj F1); cbn [st_srv st_writers].
        + rewrite Eb2'. exact F2.
        + reflexivity.
        + intros v _. split; intros [].
        + exact (Hok j rj Hj).
      - exact Hdi. }
    destruct (ul_start UL b1 rp hint b1' v1 Hi1 (Room_le _ 1 (S n) ltac:(lia) R1) E1) as (id1 & _ & Hh1 & Hu1 & Hfresh1).
    assert (F1 : FrameN 1 nokey b1 b1') by (exact (Frame_start nokey b1 rp hint b1' _ Hi1 (Room_le _ 1 (S n) ltac:(lia) R1) E1)).
    set (b2 := sv_b (st_srv st)) in *. set (ws := st_writers st) in *.
    destruct (ul_start_sim UL b1 b2 rp hint 0 b1' v1 Hi1 Hi2 Hsim E1) as (b2a & v2 & E2a & Hsim').
    destruct (chain_start b2 rp 0 b2a v2 Hi2 (Room_le _ 1 (S n) ltac:(lia) R2) E2a)
      as (id2 & b2b & b2c & b2d & vid & vcs & rc & Hgid & Hfresh2 & C2 & Hvid & C3 & Hcs & C4 & Hc1 & Hc2 & Hh2 & Hu2 & F2 & NR).
    destruct (transparent_PushBlobChunked_start linked hash subject_of media enc dec_errors dec_names dec_index redirect St bstep o
                (start St st) rp hint b2a b2b b2c b2d v2 vid vcs rc) as (w' & E2 & Hw); try assumption; rewrite ?Hvid; try assumption.
    assert (Ho' : sv_outside (w_srv w') = false) by (rewrite Hw; exact Hclean).
    rewrite Hvid in E2.
    pose proof (stack_new_writer st (PushBlobChunked rp hint) (push_blob_chunked (srv St) serve env rp hint) w' _ eq_refl E2 Ho') as E2'.
    fold ws in E2'.
    set (r' := mksrec (wid_of v1) (N.of_nat (length ws)) (Some (mkview rp id1 id2 false true))).
    exists (L ++ [r']). unfold step_goal. cbn [hstep]. rewrite E1, E2'. cbn [fst snd wid_of].
    split; [|split; [|split; [|split]]].
    - cbn [hres_equiv]. split; eexists; reflexivity.
    - now rewrite map_app.
    - now rewrite map_app.
    - cbn [next_sst]. now rewrite map_app.
    - assert (Eb2' : sv_b (w_srv w') = b2d) by (rewrite Hw; reflexivity).
      split; [|split; [|split; [|split; [|split]]]]; cbn [st_srv st_writers].
      + split; [exact (Frame_inv _ _ _ _ F1)|]. cbn [st_srv]. rewrite Eb2'. split; [exact (Frame_inv _ _ _ _ F2)|].
        split; [apply NR; exact Hsim' | exact Ho'].
      + rewrite Eb2'. split; [exact (Frame1_room _ _ _ _ F1 R1) | exact (Frame1_room _ _ _ _ F2 R2)].
      + rewrite map_app. cbn [map r_h2 r']. apply NoDup_snoc; [exact Hnd|]. apply fresh_handle. exact Hbd.
      + intros j rj Hj. rewrite app_length. cbn [length]. rewrite nth_error_snoc in Hj.
        destruct (Nat.ltb_spec j (length L)); [pose proof (Hbd j rj Hj); lia|].
        destruct (Nat.eqb j (length L)); [|discriminate]. injection Hj as <-. cbn [r_h2 r']. rewrite Nat2N.id. lia.
      + intros j rj Hj. rewrite nth_error_snoc in Hj. destruct (Nat.ltb_spec j (length L)).
        * apply (sess_ok_keep 1 1 b1 b1' st _ nokey nokey rj F1); cbn [st_srv st_writers]; fold ws.
          -- rewrite Eb2'. exact F2.
          -- apply nth_error_snoc_old. exact (Hbd j rj Hj).
          -- intros v _. split; intros [].
          -- exact (Hok j rj Hj).
        * destruct (Nat.eqb j (length L)); [|discriminate]. injection Hj as <-.
          unfold sess_ok. subst r'. cbn [r_v r_h1 r_h2 v_rp v_id1 v_id2 v_cl v_cn st_writers st_srv].
          split; [exact Hrp|]. split; [exact Hgid|]. exists []. eexists. split; [unfold blen, max_int64; cbn; lia|].
          split; [exact Hh1|]. split; [exact Hu1|]. rewrite Nat2N.id. split; [apply nth_error_snoc_new|].
          split; [|split; [reflexivity | intros _; reflexivity]].
          exists []. rewrite Eb2'. cbn [chunk_bytes wr_chunk wr_flushed wr_size wr_closed wr_close_err app].
          repeat split; try assumption; try reflexivity; try discriminate.
          unfold loc_at. cbn [wr_location]. now apply loc_at_ref.
      + (* the new session is none of the open ones *)
        assert (Hold : forall j rj vj, nth_error L j = Some rj -> r_v rj = Some vj ->
                   ~ key rp id1 (v_rp vj) (v_id1 vj) /\ ~ key rp id2 (v_rp vj) (v_id2 vj)).
        { intros j rj vj Hj Hvj. pose proof (Hok j rj Hj) as Hs. unfold sess_ok in Hs. rewrite Hvj in Hs.
          destruct Hs as (_ & _ & data & wr & _ & _ & Hu & _ & (rcv & Hur & _) & _).
          split; intros [Ea Eb]; rewrite Ea, Eb in *; [exact (Hfresh1 _ Hu) | exact (Hfresh2 _ Hur)]. }
        intros i j ri rj vi vj Hij Hi Hj Hvi Hvj. rewrite nth_error_snoc in Hi, Hj.
        destruct (Nat.ltb_spec i (length L)), (Nat.ltb_spec j (length L)).
        * exact (Hdi i j ri rj vi vj Hij Hi Hj Hvi Hvj).
        * destruct (Nat.eqb j (length L)); [|discriminate]. injection Hj as <-. cbn [r_v r'] in Hvj. injection Hvj as <-.
          cbn [v_rp v_id1 v_id2]. destruct (Hold i ri vi Hi Hvi) as [N1 N2].
          split; intros [Ea Eb]; [apply N1 | apply N2]; split; congruence.
        * destruct (Nat.eqb i (length L)); [|discriminate]. injection Hi as <-. cbn [r_v r'] in Hvi. injection Hvi as <-.
          cbn [v_rp v_id1 v_id2]. exact (Hold j rj vj Hj Hvj).
        * destruct (Nat.eqb_spec i (length L)), (Nat.eqb_spec j (length L)); try discriminate. congruence.
  Qed.

  (* ---------------------------------------------------------- the theorem *)

  Lemma whop_step n b1 st L e : RelW (S n) b1 st L -> ok_hop b1 (map r_h1 L) (map sst_of L) e -> exists L', step_goal n b1 st L e L'.
  Proof.
    intros HRW Hok. destruct e as [c|rp hint|s rp off hint|s wo|s].
    - exists L. now apply step_plain.
    - now apply step_start.
    - now apply step_resume.
    - destruct wo as [d| |dg| | |]; try (apply step_w; [assumption | assumption | reflexivity]). now apply step_commit.
    - now apply step_id.
  Qed.

  (* For every history over sessions that is admissible from related states: answer by answer the
     run through the stack is equivalent to the direct run, the two runs keep the same sessions,
     and they end in related states (the backend states [sim]-related, every live session with the
     same content on both sides). *)
  Theorem whistory_transparent_from : forall h b1 st L,
    RelW (length h) b1 st L -> wadmissible b1 (map r_h1 L) (map sst_of L) h ->
    let d := hrun bstep b1 (map r_h1 L) h in
    let v := hrun stack st (map r_h2 L) h in
    Forall3 hres_equiv h (snd d) (snd v)
    /\ exists L', snd (fst d) = map r_h1 L' /\ snd (fst v) = map r_h2 L' /\ RelW 0 (fst (fst d)) (fst (fst v)) L'.
  Proof.
    induction h as [|e h IH]; intros b1 st L HRW Ha; cbn [hrun length] in *.
    - split; [constructor|]. exists L. auto.
    - destruct Ha as (Hok & Ha). destruct (whop_step _ b1 st L e HRW Hok) as (L1 & Heq & Ht1 & Ht2 & Hss & HRW1).
      destruct (hstep bstep b1 (map r_h1 L) e) as [[b1' tb1'] rd]. destruct (hstep stack st (map r_h2 L) e) as [[st' tb2'] rv].
      cbn [fst snd] in *. subst tb1' tb2'. rewrite Hss in Ha.
      destruct (IH b1' st' L1 HRW1 Ha) as (Hall & L' & E1 & E2 & HRW').
      destruct (hrun bstep b1' (map r_h1 L1) h) as [[bf tf] rds]. destruct (hrun stack st' (map r_h2 L1) h) as [[stf tf2] rvs].
      cbn [fst snd] in *. split; [constructor; assumption|]. exists L'. auto.
  Qed.

  Lemma RelW_init n b : Inv b -> Room n b -> RelW n b (sstate0 b) [].
  Proof.
    intros Hi Hroom. split; [|split; [split; exact Hroom|split; [constructor|split; [|split]]]].
    - repeat split; try assumption. apply (cf_refl _ _ _ _ _ _ _ _ _ CF b Hi).
    - intros j rj Hj. destruct j; discriminate Hj.
    - intros j rj Hj. destruct j; discriminate Hj.
    - intros i j ri rj vi vj _ Hi'. destruct i; discriminate Hi'.
  Qed.

  Theorem whistory_transparent b h :
    Inv b -> Room (length h) b -> wadmissible b [] [] h ->
    let d := hrun bstep b [] h in
    let v := hrun stack (sstate0 b) [] h in
    Forall3 hres_equiv h (snd d) (snd v)
    /\ length (snd (fst d)) = length (snd (fst v))
    /\ sim (fst (fst d)) (sv_b (st_srv (fst (fst v))))
    /\ clean (fst (fst v)).
  Proof.
    intros Hi Hroom Ha. destruct (whistory_transparent_from h b (sstate0 b) [] (RelW_init _ b Hi Hroom) Ha) as (Hall & L' & E1 & E2 & HRW).
    cbn [map] in *. cbv zeta. split; [exact Hall|]. rewrite E1, E2, !map_length. split; [reflexivity|].
    destruct HRW as ((_ & _ & Hsim & Hcl) & _). auto.
  Qed.

  (* ========================================================== histories in which a PushBlob fails

     PushBlob over HTTP is an upload session: when the backend refuses the content at the closing
     Commit, the session - and in ocimem the repository it made - stays behind.  The backend behind
     the stack then is not [sim]-related to the backend called directly, but to a SHADOW of it: the
     direct state with the refused sessions run on it ([shadow_next]).  The shadow differs from the
     direct state by content-free repositories only ([Slack]; the laws [SlackLaws] are about
     direct calls alone), and what that can change in an answer is [slack_ans]: an unknown
     repository against an empty one. *)

  Definition not_found (e : gerr) : Prop := marshal_status e = 404.

  Definition slack_ans (c : op) (rd rm : bres) : Prop :=
    rd = rm \/
    match c with
    | Repositories _ => exists l l', rd = Ok (VList l None) /\ rm = Ok (VList l' None) /\ incl l l'
    | Tags _ _ => (exists e, rd = Ok (VList [] (Some e)) /\ not_found e) /\ rm = Ok (VList [] None)
    | Referrers _ _ _ => (exists e, rd = Ok (VDescs [] (Some e)) /\ not_found e) /\ rm = Ok (VDescs [] None)
    | _ => exists e e', rd = Err e /\ rm = Err e' /\ not_found e /\ not_found e'
    end.

  (* the answer of the backend called directly, the answer through the stack *)
  Definition slack_equiv (c : op) (rd rv : bres) : Prop := exists rm, slack_ans c rd rm /\ bres_equiv c rm rv.

  Variable Slack : St -> St -> Prop.

  (* the calls of an upload session that store nothing *)
  Definition stores_nothing (b : St) (c : op) : Prop :=
    match c with
    | PushBlobChunked _ _ | PushBlobChunkedResume _ _ _ _ | WWrite _ _ | WClose _ | WSize _ | WChunkSize _ | WID _
    | WCancel _ => True
    | WCommit _ _ => exists e, snd (bstep b c) = Err e
    | _ => False
    end.

  Record SlackLaws : Prop := {
    sl_refl : forall b, Inv b -> Slack b b;
    sl_step : forall b bp c, Inv b -> Inv bp -> Slack b bp -> plain_op c = true -> wf c ->
        slack_ans c (snd (bstep b c)) (snd (bstep bp c)) /\ Slack (fst (bstep b c)) (fst (bstep bp c));
    sl_quiet : forall b bp c, Inv bp -> Slack b bp -> stores_nothing bp c -> Slack b (fst (bstep bp c));
    sl_push_fail : forall b bp r d data e, Inv b -> Slack b bp -> snd (bstep b (PushBlob r d data)) = Err e ->
        Slack (fst (bstep b (PushBlob r d data))) bp
  }.

  Hypothesis SL : SlackLaws.

  (* the upload session of a PushBlob whose Commit is refused, from b to b8 *)
  Definition session_err (b : St) (rp dg data : bytes) (b8 : St) (e : gerr) : Prop :=
    exists b1 b2 b3 b4 b5 b6 b7 vw vid vcs rc vw2 vn rc2,
      bstep b (PushBlobChunked rp 0) = (b1, Ok vw) /\
      bstep b1 (WID (wid_of vw)) = (b2, Ok vid) /\
      bstep b2 (WChunkSize (wid_of vw)) = (b3, Ok vcs) /\
      bstep b3 (WClose (wid_of vw)) = (b4, rc) /\
      bstep b4 (PushBlobChunkedResume rp (str_of vid) 0 (blen data)) = (b5, Ok vw2) /\
      bstep b5 (WWrite (wid_of vw2) data) = (b6, Ok vn) /\
      bstep b6 (WCommit (wid_of vw2) dg) = (b7, Err e) /\
      bstep b7 (WClose (wid_of vw2)) = (b8, rc2).

  (* the refused session run on the backend called directly and on the backend behind the stack:
     call by call the same *)
  Lemma session_err_sim bp b2 rp dg data bp8 e : Inv bp -> Inv b2 -> sim bp b2 -> Room 1 bp -> Room 1 b2 ->
    session_err bp rp dg data bp8 e ->
    relayable enc e /\ FrameN 1 nokey bp bp8 /\
    exists c1 c2 c3 c4 c5 c6 c7 c8 vw vid vcs rc vw2 vn rc2,
      bstep b2 (PushBlobChunked rp 0) = (c1, Ok vw) /\
      bstep c1 (WID (wid_of vw)) = (c2, Ok vid) /\ good_upload_id (str_of vid) /\
      bstep c2 (WChunkSize (wid_of vw)) = (c3, Ok vcs) /\
      bstep c3 (WClose (wid_of vw)) = (c4, rc) /\ rc <> Panic /\ rc <> OutOfFuel /\
      bstep c4 (PushBlobChunkedResume rp (str_of vid) 0 (blen data)) = (c5, Ok vw2) /\
      bstep c5 (WWrite (wid_of vw2) data) = (c6, Ok vn) /\ n_of vn = blen data /\
      bstep c6 (WCommit (wid_of vw2) dg) = (c7, Err e) /\
      bstep c7 (WClose (wid_of vw2)) = (c8, rc2) /\ rc2 <> Panic /\ rc2 <> OutOfFuel /\
      FrameN 1 nokey b2 c8 /\ sim bp8 c8.
  Proof.
    intros Hip Hi2 Hsim Hrp Hr2 (p1 & p2 & p3 & p4 & p5 & p6 & p7 & pvw & pvid & pvcs & prc & pvw2 & pvn & prc2 &
                                 P1 & P2 & P3 & P4 & P5 & P6 & P7 & P8).
    (* the direct side, from the laws *)
    destruct (chain_start bp rp 0 p1 pvw Hip Hrp P1)
      as (idp & p2' & p3' & p4' & pvid' & pvcs' & prc' & _ & Hfp & P2' & Hpvid & P3' & _ & P4' & _ & _ & Hhp4 & Hup4 & Fp4 & _).
    destruct (bstep_fun_ok _ _ _ _ _ _ P2 P2') as [-> ->]. destruct (bstep_fun_ok _ _ _ _ _ _ P3 P3') as [-> ->].
    destruct (bstep_fun _ _ _ _ _ _ P4 P4') as [-> _]. rewrite Hpvid in P5.
    pose proof (Frame_inv _ _ _ _ Fp4) as Hip4.
    destruct (ul_resume UL p4 rp idp [] 0 (blen data) Hip4 Hup4 (or_intror eq_refl)) as (p5' & pvw2' & P5' & Hhp5 & Hup5).
    destruct (bstep_fun_ok _ _ _ _ _ _ P5 P5') as [-> ->].
    assert (Fp5 : Frame (key rp idp) p4 p5) by (apply (Frame_step_eq _ p4 _ p5 _ Hip4 P5 (not_start_resume _ _ _ _ _ _ Hup4)); intros rp' id'; exact (touches_resume _ _ _ _ _ _ _ rp' id' P5 Hhp5)).
    pose proof (Frame_inv _ _ _ _ Fp5) as Hip5.
    destruct (ul_write UL p5 _ rp idp [] data Hip5 Hhp5 Hup5) as (p6' & pvn' & P6' & _ & Hup6).
    destruct (bstep_fun_ok _ _ _ _ _ _ P6 P6') as [-> ->]. cbn [app] in Hup6.
    assert (Fp6 : Frame (key rp idp) p5 p6).
    { apply (Frame_step_eq _ p5 _ p6 _ Hip5 P6 I). intros rp' id' Ht. exact (touches_handle _ _ _ _ _ _ Hhp5 Ht). }
    pose proof (Frame_inv _ _ _ _ Fp6) as Hip6. pose proof (Frame_hdl _ _ _ _ _ _ _ Fp6 Hhp5) as Hhp6.
    assert (Fp7 : Frame (key rp idp) p6 p7).
    { apply (Frame_step_eq _ p6 _ p7 _ Hip6 P7 I). intros rp' id' Ht. exact (touches_handle _ _ _ _ _ _ Hhp6 Ht). }
    pose proof (Frame_inv _ _ _ _ Fp7) as Hip7.
    destruct (quiet_step (key rp idp) p7 _ bp8 _ Hip7 P8 I) as (Fp8 & _ & NLp8).
    (* the side of the stack, in step *)
    destruct (ul_start_sim UL bp b2 rp 0 0 p1 pvw Hip Hi2 Hsim P1) as (c1 & vw & C1 & Hs1).
    destruct (chain_start b2 rp 0 c1 vw Hi2 Hr2 C1)
      as (id2 & c2 & c3 & c4 & vid & vcs & rc & Hgid & Hf2 & C2 & Hvid & C3 & _ & C4 & Hc1 & Hc2 & Hh4 & Hu4 & F4 & N14).
    pose proof (Frame_inv _ _ _ _ F4) as Hi4.
    (* accessors on the direct side do not change what [sim] compares *)
    assert (NLp14 : NeutralL p1 p4).
    { pose proof (Frame_inv _ _ _ _ (Frame_start nokey bp rp 0 p1 _ Hip Hrp P1)) as Hip1.
      destruct (quiet_step nokey p1 _ p2 _ Hip1 P2 I) as (Fa & _ & La). pose proof (Frame_inv _ _ _ _ Fa) as Hip2.
      destruct (quiet_step nokey p2 _ p3 _ Hip2 P3 I) as (Fb & _ & Lb). pose proof (Frame_inv _ _ _ _ Fb) as Hip3.
      destruct (quiet_step nokey p3 _ p4 _ Hip3 P4 I) as (_ & _ & Lc). intros y Hy. auto. }
    assert (Hs4 : sim p4 c4) by (apply N14; apply NLp14; exact Hs1).
    destruct (ul_resume UL c4 rp id2 [] 0 (blen data) Hi4 Hu4 (or_intror eq_refl)) as (c5 & vw2 & C5 & Hh5 & Hu5).
    assert (F5 : Frame (key rp id2) c4 c5) by (apply (Frame_step_eq _ c4 _ c5 _ Hi4 C5 (not_start_resume _ _ _ _ _ _ Hu4)); intros rp' id'; exact (touches_resume _ _ _ _ _ _ _ rp' id' C5 Hh5)).
    pose proof (Frame_inv _ _ _ _ F5) as Hi5.
    assert (Hs5 : sim p5 c5).
    { apply (NeutralR_step c4 _ c5 _ Hi4 C5); [exists []; exact Hu4|]. apply (NeutralL_step p4 _ p5 _ Hip4 P5); [exists []; exact Hup4 | exact Hs4]. }
    destruct (ul_write UL c5 _ rp id2 [] data Hi5 Hh5 Hu5) as (c6 & vn & C6 & Hn & Hu6). cbn [app] in Hu6.
    assert (F6 : Frame (key rp id2) c5 c6).
    { apply (Frame_step_eq _ c5 _ c6 _ Hi5 C6 I). intros rp' id' Ht. exact (touches_handle _ _ _ _ _ _ Hh5 Ht). }
    pose proof (Frame_inv _ _ _ _ F6) as Hi6. pose proof (Frame_hdl _ _ _ _ _ _ _ F6 Hh5) as Hh6.
    assert (Hs6 : sim p6 c6).
    { apply (NeutralR_step c5 _ c6 _ Hi5 C6 I). apply (NeutralL_step p5 _ p6 _ Hip5 P6 I). exact Hs5. }
    destruct (ul_commit_err UL p6 c6 _ _ rp idp id2 data dg p7 e Hip6 Hi6 Hs6 Hhp6 Hup6 Hh6 Hu6 P7) as (Hrelay & c7 & C7 & Hs7).
    assert (F7 : Frame (key rp id2) c6 c7).
    { apply (Frame_step_eq _ c6 _ c7 _ Hi6 C7 I). intros rp' id' Ht. exact (touches_handle _ _ _ _ _ _ Hh6 Ht). }
    pose proof (Frame_inv _ _ _ _ F7) as Hi7.
    destruct (bstep c7 (WClose (wid_of vw2))) as [c8 rc2] eqn:C8.
    pose proof (ul_close_any UL c7 (wid_of vw2) Hi7) as Hc. rewrite C8 in Hc. cbn [snd] in Hc. destruct Hc as [Hc3 Hc4].
    destruct (quiet_step (key rp id2) c7 _ c8 _ Hi7 C8 I) as (F8 & N8 & _).
    split; [exact Hrelay|]. split.
    - apply (Frame_fresh 1 bp bp8 rp idp); [|exact Hfp].
      apply (Frame1_trans _ _ p4); [apply (Frame_weaken _ nokey); [intros ? ? []|exact Fp4]|].
      exact (Frame_trans _ _ _ _ Fp5 (Frame_trans _ _ _ _ Fp6 (Frame_trans _ _ _ _ Fp7 Fp8))).
    - exists c1, c2, c3, c4, c5, c6, c7, c8, vw, vid, vcs, rc, vw2, vn, rc2. rewrite Hvid.
      repeat (split; [assumption|]). split.
      + apply (Frame_fresh 1 b2 c8 rp id2); [|exact Hf2].
        apply (Frame1_trans _ _ c4); [apply (Frame_weaken _ nokey); [intros ? ? []|exact F4]|].
        exact (Frame_trans _ _ _ _ F5 (Frame_trans _ _ _ _ F6 (Frame_trans _ _ _ _ F7 F8))).
      + apply N8. apply NLp8. exact Hs7.
  Qed.

  (* the refused PushBlob through the stack *)
  Lemma push_fail_step bp st rp d data bp8 e :
    RelP bp st -> Room 1 bp -> Room 1 (sv_b (st_srv st)) -> wf (PushBlob rp d data) -> data <> [] ->
    session_err bp rp (d_digest d) data bp8 e ->
    exists st', stack st (PushBlob rp d data) = (st', Err (wire_error enc false e))
                /\ RelP bp8 st' /\ FrameN 1 nokey bp bp8 /\ FrameN 1 nokey (sv_b (st_srv st)) (sv_b (st_srv st')).
  Proof.
    intros (Hip & Hi2 & Hsim & Hcl) Hrp Hr2 (Hr & Hd & Hsz & Hmax) Hne Hse.
    destruct (session_err_sim bp (sv_b (st_srv st)) rp (d_digest d) data bp8 e Hip Hi2 Hsim Hrp Hr2 Hse)
      as ((Hce & Hlen8) & Fp & c1 & c2 & c3 & c4 & c5 & c6 & c7 & c8 & vw & vid & vcs & rc & vw2 & vn & rc2 &
          C1 & C2 & Hgid & C3 & C4 & Hc1 & Hc2 & C5 & C6 & Hn & C7 & C8 & Hc3 & Hc4 & F8 & Hs8).
    assert (Hpos : 1 <= blen data <= max_int64).
    { split; [|exact Hmax]. unfold blen. destruct data; [congruence | cbn [length]; lia]. }
    destruct (transparent_PushBlob_err_commit linked hash subject_of media enc dec_errors dec_names dec_index redirect St bstep o cc
                media_json json_errors_rt (start St st) rp d data c1 c2 c3 c4 c5 c6 c7 c8 vw vid vcs rc vw2 vn e rc2
                Hr Hd Hsz Hpos C1 C2 Hgid C3 C4 Hc1 Hc2 C5 C6 Hn C7 C8 Hc3 Hc4 Hce Hlen8) as (w' & E & Hw).
    rewrite after_after in Hw.
    eexists. split; [exact (SS step_of_call st (PushBlob rp d data) _ w' _ c8 _ eq_refl Hcl E Hw)|].
    cbn [stepped st_srv sv_b]. split; [|split; [exact Fp | exact F8]].
    split; [exact (Frame_inv _ _ _ _ Fp)|]. split; [exact (Frame_inv _ _ _ _ F8)|]. split; [exact Hs8 | reflexivity].
  Qed.

  (* the shadow of the direct run: a refused PushBlob leaves its upload session behind *)
  Definition refused (b : St) (c : op) : option (bytes * desc * bytes * gerr) :=
    match c with
    | PushBlob rp d data => match snd (bstep b c) with Err e => Some (rp, d, data, e) | _ => None end
    | _ => None
    end.

  Definition shadow_ok (bp : St) (c : op) (bp' : St) : Prop :=
    match refused bp c with
    | Some (rp, d, data, e) => plain_op c = true /\ wf c /\ data <> [] /\ session_err bp rp (d_digest d) data bp' e
    | None => okstep bp c (snd (bstep bp c)) /\ bp' = fst (bstep bp c)
    end.

  (* admissible along the shadow [bps] (its states after each operation) *)
  Fixpoint shadow_adm (bp : St) (h : list op) (bps : list St) : Prop :=
    match h, bps with
    | [], [] => True
    | c :: h', bp' :: bps' => shadow_ok bp c bp' /\ shadow_adm bp' h' bps'
    | _, _ => False
    end.

  Lemma slack_one b bp st c bp' n :
    Inv b -> Slack b bp -> RelP bp st -> Room (S n) bp -> Room (S n) (sv_b (st_srv st)) -> shadow_ok bp c bp' ->
    slack_equiv c (snd (bstep b c)) (snd (stack st c))
    /\ Inv (fst (bstep b c)) /\ Slack (fst (bstep b c)) bp' /\ RelP bp' (fst (stack st c))
    /\ Room n bp' /\ Room n (sv_b (st_srv (fst (stack st c)))).
  Proof.
    intros Hib Hsl HR Rp R2 Hok. pose proof HR as (Hip & Hi2 & Hsim & Hcl).
    pose proof (Room_le _ 1 (S n) ltac:(lia) Rp) as Rp1. pose proof (Room_le _ 1 (S n) ltac:(lia) R2) as R21.
    unfold shadow_ok in Hok. destruct (refused bp c) as [[[[rp d] data] e]|] eqn:Eref.
    - (* a refused PushBlob *)
      destruct c; try discriminate Eref. cbn [refused] in Eref.
      destruct (snd (bstep bp (PushBlob r de content))) as [|e0| |] eqn:Ebp; try discriminate Eref. injection Eref as -> -> -> ->.
      destruct Hok as (Hpl & Hwf & Hne & Hse).
      destruct (push_fail_step bp st rp d data bp' e HR Rp1 R21 Hwf Hne Hse) as (st' & E & HR' & Fp & F2).
      destruct (sl_step SL b bp (PushBlob rp d data) Hib Hip Hsl Hpl Hwf) as (Hans & _).
      rewrite Ebp in Hans. rewrite E. cbn [fst snd].
      assert (Hrelay : relayable enc e).
      { destruct (session_err_sim bp (sv_b (st_srv st)) rp (d_digest d) data bp' e Hip Hi2 Hsim Rp1 R21 Hse) as (H & _). exact H. }
      split; [exists (Err e); split; [exact Hans | exact (err_equiv_wire enc false e Hrelay)]|].
      split; [now apply inv_step|]. split.
      + (* the direct run stored nothing; the shadow ran calls that store nothing *)
        assert (Hd : exists e1, snd (bstep b (PushBlob rp d data)) = Err e1).
        { destruct Hans as [->|(e1 & e2 & -> & _)]; eauto. }
        destruct Hd as (e1 & Hd). pose proof (sl_push_fail SL b bp rp d data e1 Hib Hsl Hd) as Hsl0.
        destruct Hse as (p1 & p2 & p3 & p4 & p5 & p6 & p7 & pvw & pvid & pvcs & prc & pvw2 & pvn & prc2 &
                         P1 & P2 & P3 & P4 & P5 & P6 & P7 & P8).
        assert (Q : forall x c0 x' r0, Inv x -> Slack (fst (bstep b (PushBlob rp d data))) x -> bstep x c0 = (x', r0) ->
                      stores_nothing x c0 -> Inv x' /\ Slack (fst (bstep b (PushBlob rp d data))) x').
        { intros x c0 x' r0 Hx Hsx Ex Hq. pose proof (sl_quiet SL _ x c0 Hx Hsx Hq) as H. pose proof (inv_step x c0 Hx) as H0.
          rewrite Ex in H, H0. auto. }
        destruct (Q _ _ _ _ Hip Hsl0 P1 I) as (I1 & S1). destruct (Q _ _ _ _ I1 S1 P2 I) as (I2 & S2).
        destruct (Q _ _ _ _ I2 S2 P3 I) as (I3 & S3). destruct (Q _ _ _ _ I3 S3 P4 I) as (I4 & S4).
        destruct (Q _ _ _ _ I4 S4 P5 I) as (I5 & S5). destruct (Q _ _ _ _ I5 S5 P6 I) as (I6 & S6).
        assert (Hq7 : stores_nothing p6 (WCommit (wid_of pvw2) (d_digest d))) by (cbn [stores_nothing]; rewrite P7; cbn [snd]; eauto).
        destruct (Q _ _ _ _ I6 S6 P7 Hq7) as (I7 & S7).
        exact (proj2 (Q _ _ _ _ I7 S7 P8 I)).
      + split; [exact HR'|]. split; [exact (Frame1_room _ _ _ _ Fp Rp) | exact (Frame1_room _ _ _ _ F2 R2)].
    - (* every other operation: the shadow makes the same call *)
      destruct Hok as (Hstep & ->).
      pose proof (SS one_step Inv sim CF media_json json_errors_rt json_index_rt json_tags_rt json_catalog_rt no_locs bufsz_pos
                    bp st c HR Hstep) as (Heq & HR').
      pose proof (one_step_frame bp st c HR R21 Hstep) as F2.
      assert (Hpl : plain_op c = true) by (destruct Hstep as (H & _); exact H).
      assert (Hwf : wf c) by (destruct Hstep as (_ & H & _); exact H).
      destruct (sl_step SL b bp c Hib Hip Hsl Hpl Hwf) as (Hans & Hsl').
      split; [exists (snd (bstep bp c)); auto|]. split; [now apply inv_step|]. split; [exact Hsl'|]. split; [exact HR'|].
      split; [|exact (Frame1_room _ _ _ _ F2 R2)].
      destruct (bstep bp c) as [bp1 rp1] eqn:Ebp. cbn [fst].
      exact (ul_room_weaken UL _ _ (Frame_room _ _ _ _ (Frame_plain bp c bp1 rp1 Hip Hpl Ebp) Rp)).
  Qed.

  (* The property's theorem with refused PushBlobs inside the histories (one-call methods): answer by
     answer the two runs agree up to [slack_equiv]; at the end the backend behind the stack is
     [sim]-related to the shadow, which differs from the backend called directly by content-free
     repositories only. *)
  Theorem history_transparent_slack_from : forall h bps b bp st,
    Inv b -> Slack b bp -> RelP bp st -> Room (length h) bp -> Room (length h) (sv_b (st_srv st)) ->
    shadow_adm bp h bps ->
    Forall3 slack_equiv h (snd (brun bstep b h)) (snd (brun stack st h))
    /\ Slack (fst (brun bstep b h)) (last bps bp)
    /\ RelP (last bps bp) (fst (brun stack st h)).
  Proof.
    induction h as [|c h IH]; intros bps b bp st Hib Hsl HR Rp R2 Ha; destruct bps as [|bp' bps]; try contradiction;
      cbn [brun length] in *.
    - split; [constructor|]. cbn [last]. auto.
    - destruct Ha as (Hok & Ha).
      destruct (slack_one b bp st c bp' (length h) Hib Hsl HR Rp R2 Hok) as (Heq & Hib' & Hsl' & HR' & Rp' & R2').
      destruct (bstep b c) as [b' rd]. destruct (stack st c) as [st' rv]. cbn [fst snd] in *.
      destruct (IH bps b' bp' st' Hib' Hsl' HR' Rp' R2' Ha) as (Hall & Hslf & HRf).
      destruct (brun bstep b' h) as [bf rds]. destruct (brun stack st' h) as [stf rvs]. cbn [fst snd] in *.
      split; [constructor; assumption|].
      assert (El : last (bp' :: bps) bp = last bps bp').
      { clear. revert bp'. induction bps as [|x l IHl]; intros bp'; [reflexivity|]. cbn [last] in *. destruct l; [reflexivity|]. apply IHl. }
      rewrite El. auto.
  Qed.

  Theorem history_transparent_slack b h bps :
    Inv b -> Room (length h) b -> shadow_adm b h bps ->
    Forall3 slack_equiv h (snd (brun bstep b h)) (snd (brun stack (sstate0 b) h))
    /\ Slack (fst (brun bstep b h)) (last bps b)
    /\ sim (last bps b) (sv_b (st_srv (fst (brun stack (sstate0 b) h)))).
  Proof.
    intros Hi Hroom Ha.
    destruct (history_transparent_slack_from h bps b b (sstate0 b) Hi (sl_refl SL b Hi)
                (Rel_init linked hash subject_of enc St bstep o Inv sim CF b Hi) Hroom Hroom Ha) as (H1 & H2 & (_ & _ & H3 & _)).
    auto.
  Qed.

End Writers.

Print Assumptions whistory_transparent_from.
Print Assumptions whistory_transparent.
Print Assumptions history_transparent_slack.
