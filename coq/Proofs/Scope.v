(* Proofs about Model/Scope.v (C09). *)
From Coq Require Import String.
From OCI Require Import Model.Scope.

(* ================================================================== *)
(* 0. Order and equality on triples                                    *)
(* ================================================================== *)

Lemma rs_eqb_eq a b : rs_eqb a b = true <-> a = b.
Proof.
  destruct a as [t1 r1 a1], b as [t2 r2 a2]. unfold rs_eqb. cbn.
  rewrite !andb_true_iff, !beqb_eq. split.
  - intros [[-> ->] ->]. reflexivity.
  - intros H. injection H as -> -> ->. auto.
Qed.

Lemma rs_eqb_refl a : rs_eqb a a = true.
Proof. now apply rs_eqb_eq. Qed.

Lemma rs_eqb_neq a b : rs_eqb a b = false <-> a <> b.
Proof.
  split; intros H.
  - intros E. apply rs_eqb_eq in E. congruence.
  - destruct (rs_eqb a b) eqn:E; auto. apply rs_eqb_eq in E. contradiction.
Qed.

Lemma rs_cmp_lt_iff a b :
  rs_cmp a b = Lt <->
  blt (rtype a) (rtype b) \/
  (rtype a = rtype b /\ (blt (rres a) (rres b) \/ (rres a = rres b /\ blt (ract a) (ract b)))).
Proof.
  unfold rs_cmp, blt.
  destruct (bcmp (rtype a) (rtype b)) eqn:E1.
  - apply bcmp_eq in E1. destruct (bcmp (rres a) (rres b)) eqn:E2.
    + apply bcmp_eq in E2. split; [intros H; right; split; auto; right; split; auto|].
      intros [H|[_ [H|[_ H]]]]; congruence.
    + split; [intros _; right; split; auto | auto].
    + split; [discriminate|]. intros [H|[_ [H|[H _]]]]; try congruence.
      rewrite H, bcmp_refl in E2. discriminate.
  - split; [auto | auto].
  - split; [discriminate|]. intros [H|[H _]]; try congruence.
    rewrite H, bcmp_refl in E1. discriminate.
Qed.

Lemma rs_cmp_total : total_cmp rs_cmp.
Proof.
  split.
  - intros a b. unfold rs_cmp. split.
    + destruct (bcmp (rtype a) (rtype b)) eqn:E1; try discriminate.
      destruct (bcmp (rres a) (rres b)) eqn:E2; try discriminate. intros E3.
      apply bcmp_eq in E1, E2, E3. destruct a, b; cbn in *; congruence.
    + intros <-. now rewrite !bcmp_refl.
  - intros a b. unfold rs_cmp.
    rewrite (bcmp_antisym (rtype a) (rtype b)), (bcmp_antisym (rres a) (rres b)),
            (bcmp_antisym (ract a) (ract b)).
    destruct (bcmp (rtype a) (rtype b)), (bcmp (rres a) (rres b)), (bcmp (ract a) (ract b)); reflexivity.
  - intros a b c. rewrite !rs_cmp_lt_iff.
    intros [H1|[E1 H1]] [H2|[E2 H2]].
    + left. eapply blt_trans; eauto.
    + left. now rewrite <- E2.
    + left. now rewrite E1.
    + right. split; [congruence|].
      destruct H1 as [H1|[F1 H1]], H2 as [H2|[F2 H2]].
      * left. eapply blt_trans; eauto.
      * left. now rewrite <- F2.
      * left. now rewrite F1.
      * right. split; [congruence|]. eapply blt_trans; eauto.
Qed.

Lemma rs_lt_irrefl a : ~ rs_lt a a.
Proof. apply (lt_irrefl rs_cmp rs_cmp_total). Qed.

Lemma rs_lt_trans a b c : rs_lt a b -> rs_lt b c -> rs_lt a c.
Proof. apply (lt_trans rs_cmp rs_cmp_total). Qed.

Lemma rs_sorted_unique l1 l2 :
  StronglySorted rs_lt l1 -> StronglySorted rs_lt l2 -> (forall v, In v l1 <-> In v l2) -> l1 = l2.
Proof. apply (sorted_lt_unique rs_cmp rs_cmp_total). Qed.

Lemma b_sorted_unique (l1 l2 : list bytes) :
  StronglySorted blt l1 -> StronglySorted blt l2 -> (forall v, In v l1 <-> In v l2) -> l1 = l2.
Proof. apply (sorted_lt_unique bcmp bcmp_total). Qed.

Lemma blt_nil_cons c a : blt [] (c :: a).
Proof. reflexivity. Qed.

Lemma not_blt_nil a : ~ blt a [].
Proof. destruct a; cbv; discriminate. Qed.

Lemma blt_nil_iff a : blt [] a <-> a <> [].
Proof. destruct a; split; intros H; try reflexivity; try discriminate; congruence. Qed.

(* ================================================================== *)
(* 1. Known scopes, their key and bit; what an entry expands to        *)
(* ================================================================== *)

Lemma pka_cases a :
  (a = ActionPull /\ parse_known_action a = 1) \/
  (a = ActionPush /\ parse_known_action a = 2) \/
  (a <> ActionPull /\ a <> ActionPush /\ parse_known_action a = 0).
Proof.
  unfold parse_known_action.
  destruct (beqb a ActionPull) eqn:E1; [apply beqb_eq in E1; auto|].
  destruct (beqb a ActionPush) eqn:E2; [apply beqb_eq in E2; auto|].
  apply beqb_neq in E1, E2. auto.
Qed.

(* repository name under which a known scope is stored, and its bit *)
Definition kkey (r : rscope) : bytes := if beqb (rtype r) TypeRegistry then [] else rres r.
Definition kbit (r : rscope) : N := if beqb (rtype r) TypeRegistry then 1 else parse_known_action (ract r).

Lemma is_known_cases r :
  is_known r = true <->
  r = CatalogScope \/
  (rtype r = TypeRepository /\ rres r <> [] /\ (ract r = ActionPull \/ ract r = ActionPush)).
Proof.
  unfold is_known.
  destruct (beqb (rtype r) TypeRepository) eqn:E1.
  - apply beqb_eq in E1. rewrite andb_true_iff, !negb_true_iff, beqb_neq. split.
    + intros [H1 H2]. right. repeat split; auto. apply N.eqb_neq in H2.
      destruct (pka_cases (ract r)) as [[? ?]|[[? ?]|(_ & _ & ?)]]; auto. contradiction.
    + intros [->|(_ & H1 & H2)]; [discriminate|]. split; auto.
      destruct H2 as [-> | ->]; reflexivity.
  - apply beqb_neq in E1. destruct (beqb (rtype r) TypeRegistry) eqn:E2.
    + rewrite rs_eqb_eq. split; auto. intros [H|(H & _)]; auto. contradiction.
    + apply beqb_neq in E2. split; [discriminate|]. intros [->|(H & _)]; [now contradiction E2 | contradiction].
Qed.

Lemma catalog_known : is_known CatalogScope = true.
Proof. reflexivity. Qed.

Lemma known_repo_facts r :
  is_known r = true -> r <> CatalogScope ->
  rtype r = TypeRepository /\ rres r <> [] /\ kkey r = rres r /\ kbit r = parse_known_action (ract r)
  /\ (kbit r = 1 \/ kbit r = 2) /\ r = RS TypeRepository (rres r) (known_action_string (kbit r)).
Proof.
  intros H Hn. apply is_known_cases in H as [->|(H1 & H2 & H3)]; [contradiction|].
  unfold kkey, kbit. rewrite H1. cbn [beqb TypeRepository TypeRegistry s]. cbn.
  repeat split; auto.
  - destruct H3 as [-> | ->]; auto.
  - destruct r as [t n a]. cbn in *. subst. destruct H3 as [-> | ->]; reflexivity.
Qed.

Lemma known_key_nil r : is_known r = true -> (kkey r = [] <-> r = CatalogScope).
Proof.
  intros H. split.
  - intros Hk. destruct (rs_eqb r CatalogScope) eqn:E; [now apply rs_eqb_eq|].
    apply rs_eqb_neq in E. destruct (known_repo_facts r H E) as (_ & H2 & H3 & _). congruence.
  - intros ->. reflexivity.
Qed.

Lemma mask_cases repo m : mask_ok (repo, m) -> m = 2 \/ m = 4 \/ m = 6.
Proof. cbn. destruct (beqb repo []); auto. Qed.

Lemma in_expand repo m r :
  mask_ok (repo, m) ->
  (In r (expand (repo, m)) <-> is_known r = true /\ kkey r = repo /\ N.testbit m (kbit r) = true).
Proof.
  intros Hm. unfold expand. cbn [mask_ok] in Hm. destruct (beqb repo []) eqn:E.
  - apply beqb_eq in E. subst. cbn [In]. split.
    + intros [<-|[]]. repeat split.
    + intros (H1 & H2 & _). left. symmetry. now apply known_key_nil.
  - apply beqb_neq in E. split.
    + intros Hi.
      assert (exists k, (k = 1 \/ k = 2) /\ N.testbit m k = true /\ r = RS TypeRepository repo (known_action_string k)) as (k & Hk & Hb & ->).
      { destruct Hm as [->|[->| ->]]; cbn in Hi; intuition (subst; eauto). }
      assert (Hkn : is_known (RS TypeRepository repo (known_action_string k)) = true).
      { apply is_known_cases. right. cbn. repeat split; auto. destruct Hk as [-> | ->]; auto. }
      repeat split; auto.
      * unfold kbit. cbn. destruct Hk as [-> | ->]; exact Hb.
    + intros (H1 & H2 & H3).
      assert (Hn : r <> CatalogScope) by (intros ->; cbn in H2; congruence).
      destruct (known_repo_facts r H1 Hn) as (_ & _ & Hk & _ & Hb & Hr).
      rewrite Hk in H2. rewrite Hr, H2.
      destruct Hm as [->|[->| ->]], Hb as [Hb|Hb]; rewrite Hb in *; cbn in H3; try discriminate; cbn; auto.
Qed.

Lemma in_known_list es r :
  Forall mask_ok es ->
  (In r (known_list es) <-> is_known r = true /\ exists m, In (kkey r, m) es /\ N.testbit m (kbit r) = true).
Proof.
  intros Hm. unfold known_list. rewrite in_flat_map. rewrite Forall_forall in Hm. split.
  - intros ([repo m] & He & Hi). apply in_expand in Hi; auto. destruct Hi as (H1 & <- & H3). eauto.
  - intros (H1 & m & He & Hb). exists (kkey r, m). split; auto. apply in_expand; auto.
Qed.

Lemma known_list_known es r : Forall mask_ok es -> In r (known_list es) -> is_known r = true.
Proof. intros Hm Hi. now apply in_known_list in Hi. Qed.

(* order of known scopes = order of (key, bit) *)
Lemma known_lt_key a b :
  is_known a = true -> is_known b = true -> rs_lt a b ->
  blt (kkey a) (kkey b) \/ (kkey a = kkey b /\ kkey a <> []).
Proof.
  intros Ha Hb Hl.
  destruct (rs_eqb a CatalogScope) eqn:Ea; [apply rs_eqb_eq in Ea | apply rs_eqb_neq in Ea];
    (destruct (rs_eqb b CatalogScope) eqn:Eb; [apply rs_eqb_eq in Eb | apply rs_eqb_neq in Eb]).
  - subst. now apply rs_lt_irrefl in Hl.
  - subst. destruct (known_repo_facts b Hb Eb) as (_ & H2 & H3 & _). left. rewrite H3.
    now apply blt_nil_iff.
  - subst. destruct (known_repo_facts a Ha Ea) as (H1 & _). exfalso.
    apply rs_cmp_lt_iff in Hl. rewrite H1 in Hl. cbn in Hl.
    destruct Hl as [H|[H _]]; [cbv in H|]; discriminate.
  - destruct (known_repo_facts a Ha Ea) as (A1 & A2 & A3 & _).
    destruct (known_repo_facts b Hb Eb) as (B1 & B2 & B3 & _).
    rewrite A3, B3. apply rs_cmp_lt_iff in Hl. rewrite A1, B1 in Hl.
    destruct Hl as [H|[_ [H|[H _]]]]; auto. now apply blt_irrefl in H.
Qed.

(* ================================================================== *)
(* 2. NewScope                                                         *)
(* ================================================================== *)

Definition opt_list (c : option (bytes * N)) : list (bytes * N) :=
  match c with Some e => [e] | None => [] end.

(* the entry being built (last appended) and the grouping the loop performs after it *)
Fixpoint grp (cur : option (bytes * N)) (rss : list rscope) : list (bytes * N) :=
  match rss with
  | [] => opt_list cur
  | rs :: rest =>
      if negb (is_known rs) then grp cur rest
      else if beqb (rtype rs) TypeRegistry then
        opt_list cur ++ grp (Some ([], N.shiftl 1 pullAction)) rest
      else
        let mask := N.shiftl 1 (parse_known_action (ract rs)) in
        match cur with
        | Some (last, a) =>
            if beqb last (rres rs) then grp (Some (last, N.lor a mask)) rest
            else opt_list cur ++ grp (Some (rres rs, mask)) rest
        | None => grp (Some (rres rs, mask)) rest
        end
  end.

Definition hd_entry (rr : list bytes) (ra : list N) : option (bytes * N) :=
  match rr, ra with
  | x :: _, y :: _ => Some (x, y)
  | _, _ => None
  end.

Lemma rev_hd_entry rr ra :
  length rr = length ra ->
  rev rr = rev (tl rr) ++ map fst (opt_list (hd_entry rr ra)) /\
  rev ra = rev (tl ra) ++ map snd (opt_list (hd_entry rr ra)).
Proof.
  destruct rr as [|x rr], ra as [|y ra]; cbn; try discriminate; intros _; split; auto using app_nil_r.
Qed.

Lemma new_loop_grp rss : forall rr ra ro,
  length rr = length ra ->
  new_loop rss rr ra ro =
    (rev (tl rr) ++ map fst (grp (hd_entry rr ra) rss),
     rev (tl ra) ++ map snd (grp (hd_entry rr ra) rss),
     rev ro ++ filter (fun r => negb (is_known r)) rss).
Proof.
  induction rss as [|rs rest IH]; intros rr ra ro Hl.
  - cbn. destruct (rev_hd_entry rr ra Hl) as [-> ->]. now rewrite app_nil_r.
  - cbn [new_loop grp filter]. destruct (negb (is_known rs)) eqn:Ek.
    + rewrite IH by auto. cbn [rev]. now rewrite <- app_assoc.
    + destruct (beqb (rtype rs) TypeRegistry) eqn:Et.
      * rewrite IH by (cbn; auto). cbn [tl hd_entry].
        destruct (rev_hd_entry rr ra Hl) as [-> ->]. now rewrite !map_app, <- !app_assoc.
      * destruct rr as [|last rr], ra as [|a ra]; try discriminate.
        -- rewrite IH by (cbn; auto). reflexivity.
        -- cbn [hd_entry]. destruct (beqb last (rres rs)) eqn:El.
           ++ rewrite IH by (cbn in *; auto). reflexivity.
           ++ rewrite IH by (cbn in *; auto). cbn [tl hd_entry rev opt_list].
              now rewrite !map_app, <- !app_assoc.
Qed.

Definition key_lt (a b : bytes * N) : Prop := blt (fst a) (fst b).

Definition wf_entries (es : list (bytes * N)) : Prop :=
  StronglySorted key_lt es /\ Forall mask_ok es.

(* what the open entry must satisfy with respect to the scopes still to come *)
Definition cur_ok (cur : option (bytes * N)) (rss : list rscope) : Prop :=
  forall repo m, cur = Some (repo, m) ->
    mask_ok (repo, m) /\
    forall r, In r rss -> is_known r = true -> blt repo (kkey r) \/ (repo = kkey r /\ repo <> []).

Lemma mask_new r : is_known r = true -> mask_ok (kkey r, N.shiftl 1 (kbit r)).
Proof.
  intros H. destruct (rs_eqb r CatalogScope) eqn:E.
  - apply rs_eqb_eq in E. subst. reflexivity.
  - apply rs_eqb_neq in E. destruct (known_repo_facts r H E) as (_ & H2 & H3 & _ & H5 & _).
    rewrite H3. cbn. apply beqb_neq in H2. rewrite H2. destruct H5 as [-> | ->]; cbn; auto.
Qed.

Lemma mask_lor repo m r :
  mask_ok (repo, m) -> is_known r = true -> kkey r = repo -> repo <> [] ->
  mask_ok (repo, N.lor m (N.shiftl 1 (kbit r))).
Proof.
  intros Hm Hk <- Hn. cbn in *. apply beqb_neq in Hn. rewrite Hn in *.
  assert (kbit r = 1 \/ kbit r = 2) as [-> | ->].
  { destruct (rs_eqb r CatalogScope) eqn:E.
    - apply rs_eqb_eq in E. subst. auto.
    - apply rs_eqb_neq in E. now destruct (known_repo_facts r Hk E) as (_ & _ & _ & _ & H5 & _). }
  all: destruct Hm as [->|[->| ->]]; cbn; auto.
Qed.

Lemma testbit_new k j : (k = 1 \/ k = 2) -> (j = 1 \/ j = 2) -> N.testbit (N.shiftl 1 k) j = true <-> j = k.
Proof. intros [-> | ->] [-> | ->]; cbn; split; congruence. Qed.

Lemma kbit_12 r : is_known r = true -> kbit r = 1 \/ kbit r = 2.
Proof.
  intros Hk. destruct (rs_eqb r CatalogScope) eqn:E.
  - apply rs_eqb_eq in E. subst. auto.
  - apply rs_eqb_neq in E. now destruct (known_repo_facts r Hk E) as (_ & _ & _ & _ & H5 & _).
Qed.

(* a known scope is determined by its key and bit *)
Lemma known_key_bit a b :
  is_known a = true -> is_known b = true -> kkey a = kkey b -> kbit a = kbit b -> a = b.
Proof.
  intros Ha Hb Hk Hbit.
  destruct (rs_eqb a CatalogScope) eqn:Ea; [apply rs_eqb_eq in Ea | apply rs_eqb_neq in Ea];
    (destruct (rs_eqb b CatalogScope) eqn:Eb; [apply rs_eqb_eq in Eb | apply rs_eqb_neq in Eb]).
  - congruence.
  - subst a. symmetry in Hk. apply known_key_nil in Hk; auto; try contradiction.
  - subst b. apply known_key_nil in Hk; auto; try contradiction.
  - destruct (known_repo_facts a Ha Ea) as (_ & _ & A3 & _ & _ & A6).
    destruct (known_repo_facts b Hb Eb) as (_ & _ & B3 & _ & _ & B6).
    rewrite A6, B6. congruence.
Qed.

Lemma in_expand_new r v :
  is_known r = true -> (In v (expand (kkey r, N.shiftl 1 (kbit r))) <-> v = r).
Proof.
  intros Hk. rewrite in_expand by now apply mask_new. split.
  - intros (H1 & H2 & H3). apply known_key_bit; auto.
    apply testbit_new in H3; auto using kbit_12.
  - intros ->. repeat split; auto. apply testbit_new; auto using kbit_12.
Qed.

Lemma in_expand_lor repo m r v :
  mask_ok (repo, m) -> is_known r = true -> kkey r = repo -> repo <> [] ->
  (In v (expand (repo, N.lor m (N.shiftl 1 (kbit r)))) <-> In v (expand (repo, m)) \/ v = r).
Proof.
  intros Hm Hk Hkey Hn.
  rewrite in_expand by now apply mask_lor. rewrite in_expand by auto.
  rewrite N.lor_spec, orb_true_iff. split.
  - intros (H1 & H2 & [H3|H3]); auto. right. apply known_key_bit; auto; [congruence|].
    apply testbit_new in H3; auto using kbit_12.
  - intros [(H1 & H2 & H3)| ->]; auto. repeat split; auto. right. apply testbit_new; auto using kbit_12.
Qed.

Lemma grp_spec rss : forall cur,
  StronglySorted rs_lt rss -> cur_ok cur rss ->
  wf_entries (grp cur rss) /\
  (forall repo m, cur = Some (repo, m) -> forall e, In e (grp cur rss) -> repo = fst e \/ blt repo (fst e)) /\
  (forall v, In v (known_list (grp cur rss)) <->
             (exists e, cur = Some e /\ In v (expand e)) \/ (In v rss /\ is_known v = true)).
Proof.
  induction rss as [|rs rest IH]; intros cur Hs Hc.
  - cbn [grp]. repeat split.
    + destruct cur; repeat constructor.
    + destruct cur as [[repo m]|]; repeat constructor. now apply (Hc repo m).
    + intros repo m -> e [<-|[]]. now left.
    + destruct cur as [e|]; cbn; rewrite ?app_nil_r; [eauto | tauto].
    + intros [(e & -> & Hi)|[[] _]]. cbn. now rewrite app_nil_r.
  - inversion Hs as [|? ? Hs' Hf]; subst. rewrite Forall_forall in Hf.
    assert (Hc_rest : cur_ok cur rest).
    { intros repo m E. destruct (Hc repo m E) as [H1 H2]. split; auto. intros r Hr. apply H2. now right. }
    (* the step that opens a fresh entry for rs *)
    assert (Hfresh : is_known rs = true ->
              cur_ok (Some (kkey rs, N.shiftl 1 (kbit rs))) rest).
    { intros Hk repo m E. injection E as <- <-. split; [now apply mask_new|].
      intros r Hr Hkr. apply known_lt_key; auto. }
    cbn [grp]. destruct (is_known rs) eqn:Ek; cbn [negb].
    2:{ destruct (IH cur Hs' Hc_rest) as (W & L & M). repeat split; try apply W; auto.
        - intros Hv. apply M in Hv as [Hv|[Hv1 Hv2]]; auto. right. split; auto. now right.
        - intros [Hv|[[<-|Hv1] Hv2]]; [apply M; auto | congruence | apply M; auto]. }
    assert (Hopen : forall G,
              G = opt_list cur ++ grp (Some (kkey rs, N.shiftl 1 (kbit rs))) rest ->
              (forall repo m, cur = Some (repo, m) -> blt repo (kkey rs)) ->
              wf_entries G /\
              (forall repo m, cur = Some (repo, m) -> forall e, In e G -> repo = fst e \/ blt repo (fst e)) /\
              (forall v, In v (known_list G) <->
                 (exists e, cur = Some e /\ In v (expand e)) \/ (In v (rs :: rest) /\ is_known v = true))).
    { intros G -> Hlt. destruct (IH _ Hs' (Hfresh eq_refl)) as ((W1 & W2) & L & M).
      assert (Hlow : forall e, In e (grp (Some (kkey rs, N.shiftl 1 (kbit rs))) rest) ->
                       kkey rs = fst e \/ blt (kkey rs) (fst e)) by (intros e; now apply (L _ _ eq_refl)).
      repeat split.
      - destruct cur as [[repo m]|]; cbn [opt_list app]; auto. constructor; auto.
        apply Forall_forall. intros e He. unfold key_lt. cbn [fst].
        specialize (Hlt repo m eq_refl). destruct (Hlow e He) as [<-|H]; auto. eapply blt_trans; eauto.
      - destruct cur as [[repo m]|]; cbn [opt_list app]; auto. constructor; auto. now apply (Hc repo m).
      - intros repo m -> e [<-|He]; [now left|]. right. specialize (Hlt repo m eq_refl).
        destruct (Hlow e He) as [<-|H]; auto. eapply blt_trans; eauto.
      - unfold known_list. rewrite flat_map_app, in_app_iff. fold (known_list (grp (Some (kkey rs, N.shiftl 1 (kbit rs))) rest)).
        intros [Hv|Hv].
        + left. destruct cur as [e|]; cbn in Hv; [|contradiction]. rewrite app_nil_r in Hv. eauto.
        + apply M in Hv as [(e & E & Hv)|[Hv1 Hv2]].
          * injection E as <-. apply in_expand_new in Hv; auto. subst. right. split; auto. now left.
          * right. split; auto. now right.
      - unfold known_list. rewrite flat_map_app, in_app_iff. fold (known_list (grp (Some (kkey rs, N.shiftl 1 (kbit rs))) rest)).
        intros [(e & -> & Hv)|[[<-|Hv1] Hv2]].
        + left. cbn. now rewrite app_nil_r.
        + right. apply M. left. eexists; split; eauto. now apply in_expand_new.
        + right. apply M. auto. }
    destruct (beqb (rtype rs) TypeRegistry) eqn:Et.
    + (* CatalogScope *)
      assert (rs = CatalogScope) as Hcat.
      { apply is_known_cases in Ek as [?|(H & _)]; auto. apply beqb_eq in Et. rewrite H in Et. discriminate. }
      assert (cur = None) as ->.
      { destruct cur as [[repo m]|]; auto. exfalso.
        destruct (Hc repo m eq_refl) as [_ H]. destruct (H rs (or_introl eq_refl) Ek) as [H1|[H1 H2]];
          subst rs; cbn in *; [now apply not_blt_nil in H1 | congruence]. }
      subst rs. exact (Hopen _ eq_refl ltac:(discriminate)).
    + assert (Hn : rs <> CatalogScope) by (intros ->; discriminate).
      destruct (known_repo_facts rs Ek Hn) as (R1 & R2 & R3 & R4 & R5 & R6).
      rewrite <- R4, <- R3.
      destruct cur as [[last a]|].
      * destruct (beqb last (kkey rs)) eqn:El.
        -- apply beqb_eq in El. subst last. destruct (Hc _ _ eq_refl) as [Hm Hrest].
           assert (Hc' : cur_ok (Some (kkey rs, N.lor a (N.shiftl 1 (kbit rs)))) rest).
           { intros repo m E. injection E as <- <-. split; [apply mask_lor; auto; congruence|].
             intros r Hr. apply Hrest. now right. }
           destruct (IH _ Hs' Hc') as (W & L & M). repeat split; try apply W.
           ++ intros repo m E. injection E as <- <-. now apply (L _ _ eq_refl).
           ++ intros Hv. apply M in Hv as [(e & E & Hv)|[Hv1 Hv2]].
              ** injection E as <-. apply in_expand_lor in Hv; auto; [|congruence].
                 destruct Hv as [Hv| ->]; [left; eauto | right; split; auto; now left].
              ** right. split; auto. now right.
           ++ intros [(e & E & Hv)|[[<-|Hv1] Hv2]]; apply M.
              ** injection E as <-. left. eexists; split; eauto. apply in_expand_lor; auto. congruence.
              ** left. eexists; split; eauto. apply in_expand_lor; auto. congruence.
              ** auto.
        -- apply beqb_neq in El. apply (Hopen _ eq_refl).
           intros repo m E. injection E as <- <-. destruct (Hc _ _ eq_refl) as [_ H].
           destruct (H rs (or_introl eq_refl) Ek) as [?|[? _]]; auto. contradiction.
      * apply (Hopen _ eq_refl). discriminate.
Qed.
