(* Concrete executions: the hypotheses of the C08 theorems are satisfiable by a non-trivial
   instance (hash = identity, everything valid), the delicate interleaving exists in the
   repaired model and is handled, and the two pre-repair behaviours are violations. *)
From Coq Require Import String Lia.
From OCI Require Import Model.ConcRun Model.ConcLegacy Proofs.Conc Proofs.ConcRun.

Definition xhash (b : bytes) : bytes := b.
Definition yes (_ : bytes) : bool := true.
Definition noimg (_ : bytes) : option image_manifest := None.
Definition noidx (_ : bytes) : option index_manifest := None.
Definition xcfg : config := {| immutable_tags := false |}.

Lemma xhash_inj a b : xhash a = xhash b -> a = b.
Proof. auto. Qed.

(* a fine-grained scheduler for the repaired model: one move = one cstep *)
Fixpoint crun (c : conf) (sched : list move) : option (conf * list (aev result)) :=
  match sched with
  | [] => Some (c, [])
  | MInv t o :: rest =>
      match nth_error (c_threads c) t with
      | Some th =>
          match t_cur th with
          | None =>
              match crun {| c_mem := c_mem c; c_threads := set_nth t {| t_cur := Some (o, PStart o) |} (c_threads c) |} rest with
              | Some (c', tr) => Some (c', AInv t o :: tr)
              | None => None
              end
          | Some _ => None
          end
      | None => None
      end
  | MSec t :: rest =>
      match step_thread xhash yes yes yes noimg noidx xcfg c t with
      | Some (c1, lp) =>
          match crun c1 rest with
          | Some (c', tr) => Some (c', (if lp then [ALin t] else []) ++ tr)
          | None => None
          end
      | None => None
      end
  | MRet t :: rest =>
      match nth_error (c_threads c) t with
      | Some th =>
          match t_cur th with
          | Some (o, PDone r) =>
              match crun {| c_mem := c_mem c; c_threads := set_nth t {| t_cur := None |} (c_threads c) |} rest with
              | Some (c', tr) => Some (c', ARes t r :: tr)
              | None => None
              end
          | _ => None
          end
      | None => None
      end
  end.

Lemma crun_sound sched : forall c c' tr,
  crun c sched = Some (c', tr) -> exists ms, csteps xhash yes yes yes noimg noidx xcfg c tr ms c'.
Proof.
  induction sched as [|mv rest IH]; intros c c' tr; cbn [crun].
  - intros H. injection H as <- <-. eexists. constructor.
  - destruct mv as [t o|t|t].
    + destruct (nth_error (c_threads c) t) as [th|] eqn:Ht; [|discriminate].
      destruct (t_cur th) eqn:Hc; [discriminate|].
      destruct (crun _ rest) as [[c1 tr1]|] eqn:E; [|discriminate].
      intros H. injection H as <- <-. destruct (IH _ _ _ E) as [ms Hs]. eexists.
      change (AInv t o :: tr1) with ([AInv t o] ++ tr1). econstructor; [|exact Hs].
      destruct c as [m ths]. eapply CInvoke; eauto.
    + destruct (step_thread _ _ _ _ _ _ _ c t) as [[c1 lp]|] eqn:S; [|discriminate].
      destruct (crun c1 rest) as [[c2 tr1]|] eqn:E; [|discriminate].
      intros H. injection H as <- <-. destruct (IH _ _ _ E) as [ms Hs]. eexists.
      econstructor; [exact (step_thread_sound _ _ _ _ _ _ _ _ _ _ _ S) | exact Hs].
    + destruct (nth_error (c_threads c) t) as [th|] eqn:Ht; [|discriminate].
      destruct (t_cur th) as [[o p]|] eqn:Hc; [|discriminate].
      destruct p; try discriminate.
      destruct (crun _ rest) as [[c1 tr1]|] eqn:E; [|discriminate].
      intros H. injection H as <- <-. destruct (IH _ _ _ E) as [ms Hs]. eexists.
      change (ARes t r :: tr1) with ([ARes t r] ++ tr1). econstructor; [|exact Hs].
      destruct c as [m ths]. eapply CReturn; eauto.
Qed.

Definition two_idle : conf := {| c_mem := init; c_threads := [{| t_cur := None |}; {| t_cur := None |}] |}.
Lemma two_idle_initial : initial two_idle.
Proof. split; [reflexivity | repeat constructor]. Qed.

Definition R0 : bytes := s "foo/bar".
Definition GOOD : bytes := s "good".

(* thread 0 uploads "good" and commits it; thread 1's Write lands between the digest check
   (section A) and the callback (section B) *)
Definition race_sched : list move :=
  [MInv 0 (PushBlobChunked R0 0); MSec 0; MRet 0;
   MInv 0 (WWrite 0 GOOD); MSec 0; MRet 0;
   MInv 0 (WCommit 0 GOOD); MSec 0;            (* A: digest matches *)
   MInv 1 (WWrite 0 (s "EVIL")); MSec 1; MRet 1;
   MSec 0;                                      (* B: the buffer grew *)
   MSec 0; MRet 0].                             (* C *)

Definition commit_race_outcome : Prop :=
  exists c' tr ms,
    initial two_idle /\ csteps xhash yes yes yes noimg noidx xcfg two_idle tr ms c' /\
    In (ARes 1 (Ok (RN 4))) tr /\                      (* the interfering Write succeeded *)
    In (ARes 0 (Err e_digest_mismatch)) tr /\          (* the Commit failed *)
    iblob (c_mem c') R0 GOOD = None /\                 (* nothing was stored *)
    aug_ok xhash yes yes yes noimg noidx xcfg result_eqb init [] tr = true.

Lemma commit_race_example : commit_race_outcome.
Proof.
  destruct (crun two_idle race_sched) as [[c' tr]|] eqn:E; [|vm_compute in E; discriminate].
  destruct (crun_sound _ _ _ _ E) as [ms Hs].
  exists c', tr, ms. split; [apply two_idle_initial|]. split; [exact Hs|].
  vm_compute in E. injection E as <- <-.
  repeat split; try (vm_compute; reflexivity); cbn; intuition.
Qed.

(* ---------------------------------------------------------------- the code before the repairs *)

Definition T : bytes := s "t".
Definition M1 : bytes := s "m1".
Definition M2 : bytes := s "m2".
Definition MT : bytes := s "x".

(* GetTag between its two sections; meanwhile the tag moves from m1 to m2 and m1 is deleted *)
Definition gettag_sched : list move :=
  [MInv 0 (PushManifest R0 T M1 MT); MSec 0; MRet 0;
   MInv 0 (PushManifest R0 [] M2 MT); MSec 0; MRet 0;
   MInv 1 (GetTag R0 T); MSec 1;                         (* ResolveTag: m1 *)
   MInv 0 (PushManifest R0 T M2 MT); MSec 0; MRet 0;     (* tag -> m2 *)
   MInv 0 (DeleteManifest R0 M1); MSec 0; MRet 0;        (* m1 gone, tag still live *)
   MSec 1; MRet 1].                                      (* GetManifest m1 *)

Definition legacy_gettag_missing : Prop :=
  exists c' ms done,
    lrun xhash yes yes yes noimg noidx xcfg (linit 2) gettag_sched = Some (c', ms, done) /\
    forallb (fun m => tag_liveb m R0 T) (skipn 3 ms) = true /\   (* from the first tagging on *)
    In (1%nat, GetTag R0 T, Err e_manifest_unknown) done.

Lemma legacy_gettag_witness : legacy_gettag_missing.
Proof.
  unfold legacy_gettag_missing.
  destruct (lrun xhash yes yes yes noimg noidx xcfg (linit 2) gettag_sched) as [[[c' ms] done]|] eqn:E;
    [|vm_compute in E; discriminate].
  exists c', ms, done. split; [reflexivity|]. vm_compute in E. injection E as <- <- <-.
  split; [vm_compute; reflexivity | cbn; intuition].
Qed.

Definition legacy_commit_sched : list move :=
  [MInv 0 (PushBlobChunked R0 0); MSec 0; MRet 0;
   MInv 0 (WWrite 0 GOOD); MSec 0; MRet 0;
   MInv 0 (WCommit 0 GOOD); MSec 0;
   MInv 1 (WWrite 0 (s "EVIL")); MSec 1; MRet 1;
   MSec 0; MSec 0; MRet 0].

Definition legacy_commit_mismatch : Prop :=
  exists c' ms done b,
    lrun xhash yes yes yes noimg noidx xcfg (linit 2) legacy_commit_sched = Some (c', ms, done) /\
    In (0%nat, WCommit 0 GOOD, Ok (RDesc (octet_desc GOOD 8))) done /\    (* Commit succeeded, size 8 *)
    iblob (l_mem c') R0 GOOD = Some b /\ xhash (b_data b) <> GOOD.

Lemma legacy_commit_witness : legacy_commit_mismatch.
Proof.
  unfold legacy_commit_mismatch.
  destruct (lrun xhash yes yes yes noimg noidx xcfg (linit 2) legacy_commit_sched) as [[[c' ms] done]|] eqn:E;
    [|vm_compute in E; discriminate].
  vm_compute in E. injection E as <- <- <-.
  eexists _, _, _, _. split; [reflexivity|]. split; [cbn; intuition|]. split; [vm_compute; reflexivity|].
  vm_compute. discriminate.
Qed.
