(* The client's blobReader drained by the caller (Model/Client.v [drain]): for a body that has
   the announced size and, when verified, hashes to the announced digest, the caller gets exactly
   the body and io.EOF; the server state behind the transport is not touched. *)
From Coq Require Import String.
From OCI Require Import Model.Stack.

Local Open Scope Z_scope.

Section Read.
  Variable Srv : Type.
  Variable ev : env.

  Notation W := (world Srv).

  Definition src_of (i : option nat) (rest : bytes) : source :=
    {| src_idx := i; src_rest := rest; src_fail := false |}.

  Definition digest_matches (br : blob_reader) (rest : bytes) : bool :=
    negb (br_verify br) || beqb (new_digest ev (br_alg br) (br_seen br ++ rest)) (d_digest (br_desc br)).

  Lemma drain_ok k : (1 <= k)%nat -> forall fuel rest i br acc (w : W),
    (length rest < fuel)%nat ->
    br_src br = src_of i rest ->
    br_n br + blenZ rest <= d_size (br_desc br) ->
    (br_verify br = true -> br_n br + blenZ rest = d_size (br_desc br)) ->
    digest_matches br rest = true ->
    exists w', drain Srv ev fuel br k acc w = (w', Ok (acc ++ rest, RdEOF)) /\ w_srv w' = w_srv w.
  Proof.
    intros Hk. induction fuel as [|fuel IH]; intros rest i br acc w Hf Hs Hle0 Hn Hd; [lia|].
    cbn [drain]. unfold blob_read, source_read. rewrite Hs. cbn [src_rest src_of src_fail src_idx].
    destruct rest as [|c rest].
    - (* io.EOF *)
      cbn [blenZ length] in *. unfold blenZ in *. cbn [length Z.of_nat] in *.
      rewrite Z.add_0_r in *. rewrite app_nil_r in *.
      unfold digest_matches in Hd. rewrite app_nil_r in Hd.
      destruct (br_verify br); cbn [negb orb] in *.
      + rewrite (Hn eq_refl), Z.eqb_refl. cbn [negb]. rewrite Hd. eexists. split; reflexivity.
      + destruct (Z.ltb_spec (d_size (br_desc br)) (br_n br)); [lia|]. eexists. split; reflexivity.
    - set (data := firstn k (c :: rest)). set (rest' := skipn k (c :: rest)).
      assert (Hsplit : c :: rest = data ++ rest') by (symmetry; apply firstn_skipn).
      assert (Hdl : (1 <= length data)%nat).
      { unfold data. rewrite firstn_length. cbn [length]. lia. }
      assert (Hlen : length (c :: rest) = (length data + length rest')%nat)
        by (rewrite Hsplit at 1; apply app_length).
      match goal with |- context [drain Srv ev fuel ?br' k ?acc' ?w'] =>
        destruct (IH rest' i br' acc' w') as (w2 & E & Hw2) end.
      + lia.
      + reflexivity.
      + cbn [br_n br_desc]. unfold blenZ in *. rewrite Hlen in Hle0. lia.
      + cbn [br_n br_desc br_verify]. intros Hv. specialize (Hn Hv). unfold blenZ in *. rewrite <- Hn, Hlen. lia.
      + unfold digest_matches in *. cbn [br_verify br_alg br_seen br_desc].
        rewrite <- app_assoc, <- Hsplit. exact Hd.
      + assert (Hle : d_size (br_desc br) <? br_n br + blenZ data = false).
        { apply Z.ltb_ge. unfold blenZ in *. rewrite Hlen in Hle0. lia. }
        rewrite Hle. rewrite E. rewrite <- app_assoc, <- Hsplit.
        eexists. split; [reflexivity|]. rewrite Hw2. destruct i; reflexivity.
  Qed.

  Lemma drain_all_ok k (br : blob_reader) i rest (w : W) :
    (1 <= k)%nat ->
    br_src br = src_of i rest ->
    br_n br + blenZ rest <= d_size (br_desc br) ->
    (br_verify br = true -> br_n br + blenZ rest = d_size (br_desc br)) ->
    digest_matches br rest = true ->
    exists w', drain_all Srv ev br k w = (w', Ok (br_desc br, rest, RdEOF)) /\ w_srv w' = w_srv w.
  Proof.
    intros Hk Hs Hle Hn Hd. unfold drain_all. rewrite Hs. cbn [src_rest src_of].
    destruct (drain_ok k Hk (S (length rest)) rest i br [] w) as (w' & E & Hw); try assumption; [lia|].
    rewrite E. eexists. split; [reflexivity | exact Hw].
  Qed.

End Read.
