(* C03 (d): the hypotheses of [n_hops_PushBlob] (Proofs/StackHops.v) are satisfiable: on the ocimem
   model PushBlob goes through three hops (client -> server three times over), the registry
   behind runs the one upload session and holds the blob. *)
From Coq Require Import String.
From OCI Require Import Obs.StackRun Proofs.Request Proofs.StackUpload Proofs.StackStep Proofs.StackMem Proofs.StackHops.

Local Open Scope Z_scope.

(* the session on a backend, by evaluation *)
Definition good_idb (id : bytes) : bool := match id with [] => false | _ => utf8_valid id end.

Definition try_session {X} (linked : alg -> bool) (step : backend X) (b : X) (rp dg data : bytes) : option X :=
  let '(b1, r1) := step b (PushBlobChunked rp 0) in
  match r1 with
  | Ok vw =>
    let '(b2, r2) := step b1 (WID (wid_of vw)) in
    match r2 with
    | Ok vid =>
      let '(b3, r3) := step b2 (WChunkSize (wid_of vw)) in
      match r3 with
      | Ok vcs =>
        let '(b4, rc) := step b3 (WClose (wid_of vw)) in
        let '(b5, r5) := step b4 (PushBlobChunkedResume rp (str_of vid) 0 (blen data)) in
        match r5 with
        | Ok vw2 =>
          let '(b6, r6) := step b5 (WWrite (wid_of vw2) data) in
          match r6 with
          | Ok vn =>
            let '(b7, r7) := step b6 (WCommit (wid_of vw2) dg) in
            match r7 with
            | Ok vd =>
              let '(b8, rc2) := step b7 (WClose (wid_of vw2)) in
              if good_idb (str_of vid) && (min_int64 <=? n_of vcs) && (n_of vcs <=? max_int64)
                 && (n_of vn =? blen data) && vdigest linked (d_digest (desc_of vd))
                 && match rc with Panic | OutOfFuel => false | _ => true end
                 && match rc2 with Panic | OutOfFuel => false | _ => true end
              then Some b8 else None
            | _ => None
            end
          | _ => None
          end
        | _ => None
        end
      | _ => None
      end
    | _ => None
    end
  | _ => None
  end.

Lemma try_session_ok {X} linked (step : backend X) b rp dg data b8 :
  try_session linked step b rp dg data = Some b8 -> session_ok linked step b rp dg data b8.
Proof.
  unfold try_session, session_ok.
  destruct (step b (PushBlobChunked rp 0)) as [b1 [vw| | |]] eqn:E1; try discriminate.
  destruct (step b1 (WID (wid_of vw))) as [b2 [vid| | |]] eqn:E2; try discriminate.
  destruct (step b2 (WChunkSize (wid_of vw))) as [b3 [vcs| | |]] eqn:E3; try discriminate.
  destruct (step b3 (WClose (wid_of vw))) as [b4 rc] eqn:E4.
  destruct (step b4 (PushBlobChunkedResume rp (str_of vid) 0 (blen data))) as [b5 [vw2| | |]] eqn:E5; try discriminate.
  destruct (step b5 (WWrite (wid_of vw2) data)) as [b6 [vn| | |]] eqn:E6; try discriminate.
  destruct (step b6 (WCommit (wid_of vw2) dg)) as [b7 [vd| | |]] eqn:E7; try discriminate.
  destruct (step b7 (WClose (wid_of vw2))) as [b8' rc2] eqn:E8.
  destruct (good_idb (str_of vid) && (min_int64 <=? n_of vcs) && (n_of vcs <=? max_int64)
            && (n_of vn =? blen data) && vdigest linked (d_digest (desc_of vd))
            && match rc with Panic | OutOfFuel => false | _ => true end
            && match rc2 with Panic | OutOfFuel => false | _ => true end) eqn:Ec; [|discriminate].
  intros H. injection H as <-.
  repeat (apply andb_true_iff in Ec as [Ec ?]).
  exists b1, b2, b3, b4, b5, b6, b7, vw, vid, vcs, rc, vw2, vn, vd, rc2.
  repeat split; try assumption; try lia.
  - unfold good_idb in Ec. destruct (str_of vid); [discriminate | discriminate].
  - unfold good_idb in Ec. destruct (str_of vid); [discriminate | exact Ec].
  - destruct rc; congruence.
  - destruct rc; congruence.
  - destruct rc2; congruence.
  - destruct rc2; congruence.
Qed.

Module HopsExample.
  Import Smoke.

  Notation so := (soracles_of orc []).
  Notation mback := (mstep orc).

  Definition three : list hcfg := [(default_opts, default_ccfg); (default_opts, default_ccfg); (default_opts, default_ccfg)].

  Definition tower : backend (hst state three) :=
    hops (so_linked so) (so_hash so) (so_subject so) media0 enc0 dec_errors0 dec_names0 dec_index0 redirect0 state mback three.

  Definition start3 : hst state three := sstate0 (sstate0 (sstate0 init)).

  Definition stored : state :=
    match try_session (so_linked so) mback init repo1 (dg blob1) blob1 with Some b8 => b8 | None => init end.

  Lemma stored_session : try_session (so_linked so) mback init repo1 (dg blob1) blob1 = Some stored.
  Proof. vm_compute. reflexivity. Qed.

  Example three_hops_PushBlob :
    snd (tower start3 (PushBlob repo1 (bdesc blob1) blob1)) = Ok (VDesc (bdesc blob1))
    /\ innermost state three (fst (tower start3 (PushBlob repo1 (bdesc blob1) blob1))) = stored.
  Proof.
    destruct (n_hops_PushBlob (so_linked so) (so_hash so) (so_subject so) media0 enc0 dec_errors0 dec_names0 dec_index0 redirect0
                state mback default_opts default_ccfg [(default_opts, default_ccfg); (default_opts, default_ccfg)]
                start3 repo1 (bdesc blob1) blob1 stored) as (H1 & H2 & _).
    - cbn [wf_op]. repeat split; try (vm_compute; reflexivity); vm_compute; discriminate.
    - vm_compute. discriminate.
    - repeat constructor.
    - cbn. repeat split.
    - apply try_session_ok. exact stored_session.
    - split; assumption.
  Qed.

  (* the registry behind holds the blob *)
  Example three_hops_stored :
    snd (mback stored (GetBlob repo1 (dg blob1))) = Ok (VRead {| d_media := s "application/octet-stream"; d_digest := dg blob1; d_size := 100; d_artifact := [] |} blob1).
  Proof. vm_compute. reflexivity. Qed.
End HopsExample.

Print Assumptions HopsExample.three_hops_PushBlob.
