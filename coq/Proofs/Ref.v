(* Proofs about Model/Ref.v (C17). *)
From Coq Require Import String.
From OCI Require Import Base.Outcome Base.Regex Model.Ref.

Local Open Scope N_scope.

(* ================================================================== *)
(* small list facts                                                    *)
(* ================================================================== *)

Lemma blen_pos w : (0 <? blen w)%Z = nonempty w.
Proof. destruct w; reflexivity. Qed.

Lemma nonempty_false w : nonempty w = false <-> w = [].
Proof. destruct w; cbn; split; congruence. Qed.

Lemma nonempty_true w : nonempty w = true <-> w <> [].
Proof. destruct w; cbn; split; congruence. Qed.

Lemma span_spec p w : forall a b, span p w = (a, b) ->
  w = a ++ b /\ forallb p a = true /\ (b = [] \/ exists c b', b = c :: b' /\ p c = false).
Proof.
  induction w as [|c w IH]; cbn; intros a b H.
  - injection H as <- <-. auto.
  - destruct (p c) eqn:Ep.
    + destruct (span p w) as [a' b']. injection H as <- <-.
      destruct (IH _ _ eq_refl) as [-> [Hf Hb]]. cbn. rewrite Ep. auto.
    + injection H as <- <-. cbn. split; auto. split; auto. right. eauto.
Qed.

Lemma span_unique p a b :
  forallb p a = true -> (b = [] \/ exists c b', b = c :: b' /\ p c = false) ->
  span p (a ++ b) = (a, b).
Proof.
  intros Ha Hb. induction a as [|c a IH]; cbn.
  - destruct Hb as [->|[c [b' [-> Hc]]]]; cbn; [reflexivity|]. now rewrite Hc.
  - cbn in Ha. apply andb_true_iff in Ha as [Hc Ha]. rewrite Hc, (IH Ha). reflexivity.
Qed.

Lemma cut_byte_app c l r : ~ In c l -> cut_byte c (l ++ c :: r) = Some (l, r).
Proof.
  induction l as [|d l IH]; cbn; intros H.
  - now rewrite N.eqb_refl.
  - destruct (N.eqb_spec d c); [exfalso; auto|]. rewrite IH; auto.
Qed.

Lemma forallb_not_in (p : N -> bool) c w : forallb p w = true -> p c = false -> ~ In c w.
Proof.
  intros H Hc Hin. rewrite forallb_forall in H. specialize (H _ Hin). congruence.
Qed.

(* ================================================================== *)
(* checkTag                                                            *)
(* ================================================================== *)

Definition tag_char (c : N) : bool := is_word c || (c =? b_dot) || (c =? b_dash).

Lemma check_tag_loop_spec w :
  check_tag_loop w = if forallb tag_char w then Ok tt else Err TBadChar.
Proof.
  induction w as [|c w IH]; cbn; [reflexivity|]. unfold tag_char at 1.
  destruct (is_word c), (c =? b_dot), (c =? b_dash); cbn; auto.
Qed.

(* the defect the fix: commit removes *)
Lemma check_tag_unrepaired_panics : check_tag_unrepaired [] = Panic.
Proof. reflexivity. Qed.

(* the repaired function differs from the old one on the empty string only *)
Lemma check_tag_repair_conservative w :
  w <> [] -> check_tag w = check_tag_unrepaired w.
Proof.
  intros H. unfold check_tag, check_tag_unrepaired. destruct w as [|c w]; [congruence|].
  replace (blen (c :: w) =? 0)%Z with false; [reflexivity|].
  symmetry. apply Z.eqb_neq. unfold blen. cbn [length]. lia.
Qed.

(* checkTag, characterised: the naive reading of the OCI tag grammar
   [a-zA-Z0-9_][a-zA-Z0-9._-]{0,127} *)
Definition tag_spec (w : bytes) : bool :=
  match w with
  | [] => false
  | c :: rest => is_word c && forallb tag_char rest && (blen w <=? 128)%Z
  end.

Lemma check_tag_spec w :
  check_tag w = Ok tt <-> tag_spec w = true.
Proof.
  unfold check_tag, tag_spec. destruct w as [|c w].
  - cbn. split; discriminate.
  - replace (blen (c :: w) =? 0)%Z with false
      by (symmetry; apply Z.eqb_neq; unfold blen; cbn [length]; lia).
    rewrite check_tag_loop_spec.
    destruct (128 <? blen (c :: w))%Z eqn:El.
    + apply Z.ltb_lt in El. replace (blen (c :: w) <=? 128)%Z with false
        by (symmetry; apply Z.leb_gt; lia).
      rewrite andb_false_r. split; discriminate.
    + apply Z.ltb_ge in El. replace (blen (c :: w) <=? 128)%Z with true
        by (symmetry; apply Z.leb_le; lia).
      rewrite andb_true_r. destruct (is_word c); cbn; [|split; discriminate].
      destruct (forallb tag_char w); split; congruence.
Qed.

Lemma check_tag_total w : exists r, check_tag w = Ok tt /\ r = true \/ (exists e, check_tag w = Err e) /\ r = false.
Proof.
  unfold check_tag. destruct w as [|c w].
  - cbn. exists false. right. eauto.
  - replace (blen (c :: w) =? 0)%Z with false
      by (symmetry; apply Z.eqb_neq; unfold blen; cbn [length]; lia).
    rewrite check_tag_loop_spec.
    destruct (128 <? blen (c :: w))%Z; [exists false; right; eauto|].
    destruct (negb (is_word c)); [exists false; right; eauto|].
    destruct (forallb tag_char w); [exists true; left; auto | exists false; right; eauto].
Qed.

Lemma check_tag_no_panic w : check_tag w <> Panic /\ check_tag w <> OutOfFuel.
Proof.
  destruct (check_tag_total w) as [r [[H _]|[[e H] _]]]; rewrite H; split; discriminate.
Qed.

Lemma is_valid_tag_spec w : is_valid_tag w = Ok (tag_spec w).
Proof.
  unfold is_valid_tag. destruct (tag_spec w) eqn:E.
  - apply check_tag_spec in E. now rewrite E.
  - destruct (check_tag_total w) as [r [[H _]|[[e H] _]]].
    + apply check_tag_spec in H. congruence.
    + now rewrite H.
Qed.

Lemma tag_spec_chars w : tag_spec w = true -> nonempty w = true /\ forallb tag_char w = true /\ (blen w <= 128)%Z.
Proof.
  unfold tag_spec. destruct w as [|c w]; [discriminate|]. intros H.
  apply andb_true_iff in H as [H H3]. apply andb_true_iff in H as [H1 H2].
  split; [reflexivity|]. split; [|now apply Z.leb_le]. cbn. unfold tag_char at 1. now rewrite H1, H2.
Qed.

Lemma tag_char_not c : tag_char c = true -> c <> b_at /\ c <> b_slash /\ c <> b_colon /\ c <> b_nl.
Proof.
  intros H. repeat split; intros ->; vm_compute in H; discriminate.
Qed.

(* ================================================================== *)
(* alphabets of the grammar                                            *)
(* ================================================================== *)

Lemma host_nonempty h : matches hostPat h = true -> h <> [].
Proof. intros H ->. vm_compute in H. discriminate. Qed.

Lemma host_no_slash h : matches hostPat h = true -> ~ In b_slash h.
Proof. intros H. eapply matches_not_in; eauto. Qed.

Lemma repo_nonempty r : matches repoPat r = true -> r <> [].
Proof. intros H ->. vm_compute in H. discriminate. Qed.

Lemma repo_chars r c : matches repoPat r = true -> In c r -> alpha repoName c = true.
Proof.
  intros H Hin. apply matches_sem, matches_alphabet in H. rewrite Forall_forall in H. auto.
Qed.

Lemma repo_no_colon_at r :
  matches repoPat r = true ->
  forallb (fun c => negb (c =? b_colon) && negb (c =? b_at)) r = true.
Proof.
  intros H. apply forallb_forall. intros c Hin. pose proof (repo_chars _ _ H Hin) as Ha.
  destruct (N.eqb_spec c b_colon) as [->|_]; [vm_compute in Ha; discriminate|].
  destruct (N.eqb_spec c b_at) as [->|_]; [vm_compute in Ha; discriminate|]. reflexivity.
Qed.

(* ================================================================== *)
(* go-digest                                                           *)
(* ================================================================== *)

Lemma alg_of_name a g : alg_of a = Some g -> a = alg_name g.
Proof.
  unfold alg_of. destruct (beqb a (s "sha256")) eqn:E1; [|destruct (beqb a (s "sha384")) eqn:E2;
    [|destruct (beqb a (s "sha512")) eqn:E3]]; intros H; try discriminate; injection H as <-;
    now apply beqb_eq.
Qed.

Section WithLinked.
  Variable linked : alg -> bool.

  Lemma digest_validate_total d :
    digest_validate linked d = Ok tt \/ exists e, digest_validate linked d = Err e.
  Proof.
    unfold digest_validate. destruct (cut_byte b_colon d) as [[a e]|]; [|eauto].
    destruct (negb (nonempty a) || negb (nonempty e)); [eauto|].
    destruct (negb (available linked a)).
    - destruct (negb (matches digestRegexp d)); eauto.
    - unfold alg_validate. destruct (alg_of a); [|eauto].
      destruct (negb _); [eauto|]. destruct (matches _ _); eauto.
  Qed.

  Lemma is_valid_digest_total d : exists b, is_valid_digest linked d = Ok b.
  Proof.
    unfold is_valid_digest. destruct (digest_validate_total d) as [H|[e H]]; rewrite H; eauto.
  Qed.

  Lemma is_valid_digest_true d :
    is_valid_digest linked d = Ok true <-> digest_validate linked d = Ok tt.
  Proof.
    unfold is_valid_digest. destruct (digest_validate linked d) as [[]|e| |]; split; congruence.
  Qed.

  (* a digest that validates is  <name of a linked algorithm> : <2*size lower-case hex> *)
  Lemma digest_validate_ok d :
    digest_validate linked d = Ok tt ->
    exists g e, d = alg_name g ++ b_colon :: e /\ linked g = true /\
                length e = (alg_size g * 2)%nat /\ matches (encodedRe g) e = true.
  Proof.
    unfold digest_validate. destruct (cut_byte b_colon d) as [[a e]|] eqn:Ec; [|discriminate].
    apply cut_byte_some in Ec as [-> _].
    destruct (negb (nonempty a) || negb (nonempty e)); [discriminate|].
    unfold available, alg_validate. destruct (alg_of a) as [g|] eqn:Eg; cbn [negb].
    2:{ destruct (negb (matches digestRegexp _)); discriminate. }
    apply alg_of_name in Eg. subst a.
    destruct (linked g) eqn:El; cbn [negb].
    2:{ destruct (negb (matches digestRegexp _)); discriminate. }
    destruct (Nat.eqb (alg_size g * 2) (length e)) eqn:En; cbn [negb]; [|discriminate].
    apply Nat.eqb_eq in En. destruct (matches (encodedRe g) e) eqn:Em; [|discriminate].
    intros _. exists g, e. auto.
  Qed.

  Lemma valid_digest_capture d : digest_validate linked d = Ok tt -> digest_capture_ok d = true.
  Proof.
    intros H. apply digest_validate_ok in H as [g [e [-> [_ [_ Hm]]]]].
    unfold digest_capture_ok. apply andb_true_iff. split; [destruct g; reflexivity|].
    rewrite forallb_app. apply andb_true_iff. split; [destruct g; reflexivity|].
    cbn [forallb]. apply andb_true_iff. split; [reflexivity|].
    apply forallb_forall. intros c Hin.
    apply matches_sem, matches_alphabet in Hm. rewrite Forall_forall in Hm. specialize (Hm _ Hin).
    destruct (N.eqb_spec c b_nl) as [->|_]; [|reflexivity].
    destruct g; vm_compute in Hm; discriminate.
  Qed.

  (* ================================================================== *)
  (* the split                                                           *)
  (* ================================================================== *)

  (* the string a quadruple of captures was cut from *)
  Definition join (h r t d : bytes) : bytes :=
    (if nonempty h then h ++ [b_slash] else []) ++ r
    ++ (if nonempty t then b_colon :: t else []) ++ (if nonempty d then b_at :: d else []).

  Lemma to_string_join h r t d : to_string (mkref h r t d) = join h r t d.
  Proof. unfold to_string, join. cbn. now rewrite !blen_pos. Qed.

  Definition tag_capture_ok (t : bytes) : bool := forallb (fun c => negb (c =? b_at)) t.

  Lemma split_suffix_some a t d :
    split_suffix a = Some (t, d) ->
    a = (if nonempty t then b_colon :: t else []) ++ (if nonempty d then b_at :: d else []) /\
    tag_capture_ok t = true /\ (d = [] \/ digest_capture_ok d = true).
  Proof.
    unfold split_suffix. destruct a as [|c a]; [intros H; injection H as <- <-; cbn; auto|].
    destruct (N.eqb_spec c b_colon) as [->|Hc].
    - destruct (span _ a) as [t' b] eqn:Es. apply span_spec in Es as [-> [Ht Hb]].
      destruct (nonempty t') eqn:Ent; cbn [negb]; [|discriminate].
      destruct b as [|c' d'].
      + intros H; injection H as <- <-. rewrite Ent. cbn. rewrite app_nil_r. auto.
      + destruct Hb as [Hb|[c'' [b' [E Hc']]]]; [discriminate|]. injection E as <- <-.
        apply negb_false_iff, N.eqb_eq in Hc'. subst c'.
        destruct (digest_capture_ok d') eqn:Ed; [|discriminate].
        intros H; injection H as <- <-. rewrite Ent.
        assert (nonempty d' = true) as -> by (unfold digest_capture_ok in Ed; now apply andb_true_iff in Ed).
        cbn. auto.
    - destruct (N.eqb_spec c b_at) as [->|Hc2]; [|discriminate].
      destruct (digest_capture_ok a) eqn:Ed; [|discriminate].
      intros H; injection H as <- <-.
      assert (nonempty a = true) as -> by (unfold digest_capture_ok in Ed; now apply andb_true_iff in Ed).
      cbn. auto.
  Qed.

  (* conversely: the suffix built from captures of the right shape is split back *)
  Lemma split_suffix_join t d :
    tag_capture_ok t = true -> (d = [] \/ digest_capture_ok d = true) ->
    split_suffix ((if nonempty t then b_colon :: t else []) ++ (if nonempty d then b_at :: d else []))
    = Some (t, d).
  Proof.
    intros Ht Hd. unfold split_suffix.
    assert (Hd' : d = [] \/ (nonempty d = true /\ digest_capture_ok d = true)).
    { destruct Hd as [->|Hd]; auto. right. split; auto. unfold digest_capture_ok in Hd.
      now apply andb_true_iff in Hd. }
    destruct (nonempty t) eqn:Ent.
    - cbn [app]. rewrite N.eqb_refl.
      destruct Hd' as [->|[Hn Hd']].
      + cbn [nonempty]. rewrite app_nil_r.
        rewrite <- (app_nil_r t) at 1. rewrite span_unique; auto. now rewrite Ent.
      + rewrite Hn. rewrite span_unique; auto.
        * rewrite Ent. cbn. now rewrite Hd'.
        * right. exists b_at, d. auto.
    - apply nonempty_false in Ent. subst t. cbn [app].
      destruct Hd' as [->|[Hn Hd']]; [reflexivity|]. rewrite Hn.
      change (b_at =? b_colon) with false. rewrite N.eqb_refl. cbn. now rewrite Hd'.
  Qed.

  Lemma split_rest_some w r t d :
    split_rest w = Some (r, t, d) ->
    w = r ++ (if nonempty t then b_colon :: t else []) ++ (if nonempty d then b_at :: d else []) /\
    matches repoName r = true /\ tag_capture_ok t = true /\ (d = [] \/ digest_capture_ok d = true).
  Proof.
    unfold split_rest. destruct (span _ w) as [r' a] eqn:Es. apply span_spec in Es as [-> [Hr Ha]].
    destruct (matches repoName r') eqn:Em; cbn [negb]; [|discriminate].
    destruct (split_suffix a) as [[t' d']|] eqn:Ess; [|discriminate].
    intros H; injection H as <- <- <-. apply split_suffix_some in Ess as [-> [Ht Hd]]. auto.
  Qed.

  Lemma split_rest_join r t d :
    matches repoName r = true -> tag_capture_ok t = true -> (d = [] \/ digest_capture_ok d = true) ->
    split_rest (r ++ (if nonempty t then b_colon :: t else []) ++ (if nonempty d then b_at :: d else []))
    = Some (r, t, d).
  Proof.
    intros Hr Ht Hd. unfold split_rest. rewrite span_unique.
    - rewrite Hr. cbn [negb]. now rewrite split_suffix_join.
    - now apply repo_no_colon_at.
    - destruct (nonempty t); [right; exists b_colon; eexists; split; [reflexivity|reflexivity]|].
      destruct (nonempty d); [right; exists b_at; eexists; split; [reflexivity|reflexivity]|].
      now left.
  Qed.

  Lemma find_submatch_some w h r t d :
    find_submatch w = Some (h, r, t, d) ->
    w = join h r t d /\ (h = [] \/ matches domainAndPort h = true) /\ matches repoName r = true /\
    tag_capture_ok t = true /\ (d = [] \/ digest_capture_ok d = true).
  Proof.
    unfold find_submatch, split_with_host.
    destruct (cut_byte b_slash w) as [[h' rest]|] eqn:Ec.
    - apply cut_byte_some in Ec as [-> Hn].
      destruct (matches domainAndPort h') eqn:Eh.
      + destruct (split_rest rest) as [[[r' t'] d']|] eqn:Er.
        * intros H; injection H as <- <- <- <-. apply split_rest_some in Er as [-> [Hr [Ht Hd]]].
          unfold join. pose proof (host_nonempty _ Eh) as Hne. apply nonempty_true in Hne.
          rewrite Hne, <- app_assoc. cbn. auto 6.
        * destruct (split_rest (h' ++ b_slash :: rest)) as [[[r' t'] d']|] eqn:Er2; [|discriminate].
          intros H; injection H as <- <- <- <-. apply split_rest_some in Er2 as [E [Hr [Ht Hd]]].
          unfold join. cbn. auto 6.
      + destruct (split_rest (h' ++ b_slash :: rest)) as [[[r' t'] d']|] eqn:Er2; [|discriminate].
        intros H; injection H as <- <- <- <-. apply split_rest_some in Er2 as [E [Hr [Ht Hd]]].
        unfold join. cbn. auto 6.
    - destruct (split_rest w) as [[[r' t'] d']|] eqn:Er2; [|discriminate].
      intros H; injection H as <- <- <- <-. apply split_rest_some in Er2 as [E [Hr [Ht Hd]]].
      unfold join. cbn. auto 6.
  Qed.

  (* captures of the right shape with a host: the host alternative finds them again *)
  Lemma find_submatch_join_host h r t d :
    matches domainAndPort h = true -> matches repoName r = true ->
    tag_capture_ok t = true -> (d = [] \/ digest_capture_ok d = true) ->
    find_submatch (join h r t d) = Some (h, r, t, d).
  Proof.
    intros Hh Hr Ht Hd. unfold find_submatch, split_with_host, join.
    pose proof (host_nonempty _ Hh) as Hne. apply nonempty_true in Hne. rewrite Hne.
    rewrite <- app_assoc. cbn [app]. rewrite cut_byte_app by now apply host_no_slash.
    rewrite Hh. now rewrite split_rest_join.
  Qed.

  (* captures of the right shape without a host are found again unless the host alternative
     applies to the same string (its first path element looks like a host) *)
  Lemma find_submatch_join_nohost r t d :
    matches repoName r = true -> tag_capture_ok t = true -> (d = [] \/ digest_capture_ok d = true) ->
    split_with_host (join [] r t d) = None ->
    find_submatch (join [] r t d) = Some ([], r, t, d).
  Proof.
    intros Hr Ht Hd Hn. unfold find_submatch. rewrite Hn. unfold join. cbn [nonempty app].
    now rewrite split_rest_join.
  Qed.

  (* ================================================================== *)
  (* ParseRelative / Parse                                               *)
  (* ================================================================== *)

  Lemma parse_relative_ok w ref :
    parse_relative linked w = Ok ref ->
    exists h r t d, ref = mkref h r t d /\ find_submatch w = Some (h, r, t, d) /\
      (d = [] \/ digest_validate linked d = Ok tt) /\
      (t = [] \/ check_tag t = Ok tt) /\ (blen r <= 255)%Z.
  Proof.
    unfold parse_relative. destruct (find_submatch w) as [[[[h r] t] d]|]; [|discriminate].
    rewrite !blen_pos. intros H. exists h, r, t, d.
    assert (Hd : d = [] \/ digest_validate linked d = Ok tt).
    { destruct (nonempty d) eqn:En; [|left; now apply nonempty_false].
      right. destruct (digest_validate linked d) as [[]|e| |]; cbn in H; try discriminate; reflexivity. }
    assert (H' : (do _ <- (if nonempty t then lift_err ETag (check_tag t) else Ok tt);
                  if (255 <? blen r)%Z then Err ERepoTooLong else Ok (mkref h r t d)) = Ok ref).
    { destruct (nonempty d); [|exact H].
      destruct (digest_validate linked d) as [[]|e| |]; cbn in H; try discriminate; exact H. }
    clear H.
    assert (Ht : t = [] \/ check_tag t = Ok tt).
    { destruct (nonempty t) eqn:En; [|left; now apply nonempty_false].
      right. destruct (check_tag t) as [[]|e| |]; cbn in H'; try discriminate; reflexivity. }
    assert (H'' : (if (255 <? blen r)%Z then Err ERepoTooLong else Ok (mkref h r t d)) = Ok ref).
    { destruct (nonempty t); [|exact H'].
      destruct (check_tag t) as [[]|e| |]; cbn in H'; try discriminate; exact H'. }
    clear H'. destruct (255 <? blen r)%Z eqn:El; [discriminate|]. apply Z.ltb_ge in El.
    injection H'' as <-. auto 6.
  Qed.

  Lemma parse_relative_build h r t d :
    find_submatch (join h r t d) = Some (h, r, t, d) ->
    (d = [] \/ digest_validate linked d = Ok tt) ->
    (t = [] \/ check_tag t = Ok tt) -> (blen r <= 255)%Z ->
    parse_relative linked (join h r t d) = Ok (mkref h r t d).
  Proof.
    intros Hf Hd Ht Hl. unfold parse_relative. rewrite Hf, !blen_pos.
    assert ((if nonempty d then lift_err EDigest (digest_validate linked d) else Ok tt) = Ok tt) as ->.
    { destruct Hd as [->|Hd]; [reflexivity|]. rewrite Hd. now destruct (nonempty d). }
    cbn [rbind].
    assert ((if nonempty t then lift_err ETag (check_tag t) else Ok tt) = Ok tt) as ->.
    { destruct Ht as [->|Ht]; [reflexivity|]. rewrite Ht. now destruct (nonempty t). }
    cbn [rbind]. replace (255 <? blen r)%Z with false; [reflexivity|].
    symmetry. apply Z.ltb_ge. lia.
  Qed.

  (* ---------- totality ---------- *)

  Lemma parse_relative_total w :
    (exists ref, parse_relative linked w = Ok ref) \/ (exists e, parse_relative linked w = Err e).
  Proof.
    unfold parse_relative. destruct (find_submatch w) as [[[[h r] t] d]|]; [|eauto].
    destruct (0 <? blen d)%Z.
    - destruct (digest_validate_total d) as [H|[e H]]; rewrite H; cbn; [|eauto].
      destruct (0 <? blen t)%Z.
      + destruct (check_tag_total t) as [b [[H' _]|[[e H'] _]]]; rewrite H'; cbn; [|eauto].
        destruct (255 <? blen r)%Z; eauto.
      + cbn. destruct (255 <? blen r)%Z; eauto.
    - cbn. destruct (0 <? blen t)%Z.
      + destruct (check_tag_total t) as [b [[H' _]|[[e H'] _]]]; rewrite H'; cbn; [|eauto].
        destruct (255 <? blen r)%Z; eauto.
      + cbn. destruct (255 <? blen r)%Z; eauto.
  Qed.

  Lemma parse_total w :
    (exists ref, parse linked w = Ok ref) \/ (exists e, parse linked w = Err e).
  Proof.
    unfold parse. destruct (parse_relative_total w) as [[ref H]|[e H]]; rewrite H; cbn; [|eauto].
    destruct (negb (nonempty (r_host ref))); eauto.
  Qed.

  Theorem parsing_never_panics w :
    parse_relative linked w <> Panic /\ parse_relative linked w <> OutOfFuel /\
    parse linked w <> Panic /\ parse linked w <> OutOfFuel.
  Proof.
    destruct (parse_relative_total w) as [[r H]|[e H]], (parse_total w) as [[r' H']|[e' H']];
      rewrite H, H'; repeat split; discriminate.
  Qed.

  Theorem predicates_total w :
    (exists b, is_valid_host w = Ok b) /\ (exists b, is_valid_repository w = Ok b) /\
    (exists b, is_valid_tag w = Ok b) /\ (exists b, is_valid_digest linked w = Ok b).
  Proof.
    repeat split; try (eexists; reflexivity).
    - rewrite is_valid_tag_spec. eauto.
    - apply is_valid_digest_total.
  Qed.

  (* the empty string in particular: every predicate answers false *)
  Lemma predicates_on_empty :
    is_valid_host [] = Ok false /\ is_valid_repository [] = Ok false /\
    is_valid_tag [] = Ok false /\ is_valid_digest linked [] = Ok false.
  Proof. repeat split; reflexivity. Qed.

  (* ---------- parse then print ---------- *)

  Theorem parse_print w ref : parse_relative linked w = Ok ref -> to_string ref = w.
  Proof.
    intros H. apply parse_relative_ok in H as [h [r [t [d [-> [Hf _]]]]]].
    apply find_submatch_some in Hf as [-> _]. apply to_string_join.
  Qed.

  Lemma parse_ok w ref : parse linked w = Ok ref -> parse_relative linked w = Ok ref /\ r_host ref <> [].
  Proof.
    unfold parse. destruct (parse_relative linked w) as [r| | |]; cbn; try discriminate.
    destruct (nonempty (r_host r)) eqn:En; cbn; [|discriminate]. intros H; injection H as <-.
    split; auto. now apply nonempty_true.
  Qed.

  Theorem parse_print_abs w ref : parse linked w = Ok ref -> to_string ref = w /\ r_host ref <> [].
  Proof. intros H. apply parse_ok in H as [H Hn]. split; auto. now apply parse_print. Qed.

  (* ---------- the parts of a parsed reference are valid ---------- *)

  Theorem parts_valid w ref :
    parse_relative linked w = Ok ref ->
    (r_host ref = [] \/ is_valid_host (r_host ref) = Ok true) /\
    is_valid_repository (r_repo ref) = Ok true /\ (blen (r_repo ref) <= 255)%Z /\
    (r_tag ref = [] \/ is_valid_tag (r_tag ref) = Ok true /\ (blen (r_tag ref) <= 128)%Z) /\
    (r_digest ref = [] \/ is_valid_digest linked (r_digest ref) = Ok true).
  Proof.
    intros H. apply parse_relative_ok in H as [h [r [t [d [-> [Hf [Hd [Ht Hl]]]]]]]].
    apply find_submatch_some in Hf as [_ [Hh [Hr _]]]. cbn [r_host r_repo r_tag r_digest].
    repeat split.
    - destruct Hh as [->|Hh]; auto. right. unfold is_valid_host, hostPat. now rewrite Hh.
    - unfold is_valid_repository, repoPat. now rewrite Hr.
    - exact Hl.
    - destruct Ht as [->|Ht]; auto. right. rewrite is_valid_tag_spec.
      apply check_tag_spec in Ht. rewrite Ht. split; auto. now apply tag_spec_chars in Ht.
    - destruct Hd as [->|Hd]; auto. right. now apply is_valid_digest_true.
  Qed.

  (* ---------- print then parse ---------- *)

  Lemma valid_tag_capture t : check_tag t = Ok tt -> tag_capture_ok t = true.
  Proof.
    intros H. apply check_tag_spec, tag_spec_chars in H as [_ [H _]].
    unfold tag_capture_ok. apply forallb_forall. intros c Hin.
    rewrite forallb_forall in H. specialize (H _ Hin). apply tag_char_not in H as [H _].
    apply negb_true_iff. now apply N.eqb_neq.
  Qed.

  Theorem print_parse h r t d :
    is_valid_host h = Ok true ->
    is_valid_repository r = Ok true -> (blen r <= 255)%Z ->
    (t = [] \/ is_valid_tag t = Ok true) ->
    (d = [] \/ is_valid_digest linked d = Ok true) ->
    parse_relative linked (to_string (mkref h r t d)) = Ok (mkref h r t d) /\
    parse linked (to_string (mkref h r t d)) = Ok (mkref h r t d).
  Proof.
    intros Hh Hr Hl Ht Hd.
    unfold is_valid_host in Hh. injection Hh as Hh. unfold is_valid_repository in Hr. injection Hr as Hr.
    assert (Ht' : t = [] \/ check_tag t = Ok tt).
    { destruct Ht as [->|Ht]; auto. right. rewrite is_valid_tag_spec in Ht. injection Ht as Ht.
      now apply check_tag_spec. }
    assert (Hd' : d = [] \/ digest_validate linked d = Ok tt).
    { destruct Hd as [->|Hd]; auto. right. now apply is_valid_digest_true. }
    assert (P : parse_relative linked (to_string (mkref h r t d)) = Ok (mkref h r t d)).
    { rewrite to_string_join. apply parse_relative_build; auto.
      apply find_submatch_join_host; auto.
      - destruct Ht' as [->|Ht']; [reflexivity | now apply valid_tag_capture].
      - destruct Hd' as [->|Hd']; auto. right. now apply valid_digest_capture. }
    split; auto. unfold parse. rewrite P. cbn [rbind r_host].
    pose proof (host_nonempty _ Hh) as Hne. apply nonempty_true in Hne. now rewrite Hne.
  Qed.

  (* without a host the round trip holds exactly when the host alternative does not
     apply to the printed string *)
  Theorem print_parse_hostless r t d :
    is_valid_repository r = Ok true -> (blen r <= 255)%Z ->
    (t = [] \/ is_valid_tag t = Ok true) ->
    (d = [] \/ is_valid_digest linked d = Ok true) ->
    split_with_host (to_string (mkref [] r t d)) = None ->
    parse_relative linked (to_string (mkref [] r t d)) = Ok (mkref [] r t d).
  Proof.
    intros Hr Hl Ht Hd Hn.
    unfold is_valid_repository in Hr. injection Hr as Hr.
    assert (Ht' : t = [] \/ check_tag t = Ok tt).
    { destruct Ht as [->|Ht]; auto. right. rewrite is_valid_tag_spec in Ht. injection Ht as Ht.
      now apply check_tag_spec. }
    assert (Hd' : d = [] \/ digest_validate linked d = Ok tt).
    { destruct Hd as [->|Hd]; auto. right. now apply is_valid_digest_true. }
    rewrite to_string_join in *. apply parse_relative_build; auto.
    apply find_submatch_join_nohost; auto.
    - destruct Ht' as [->|Ht']; [reflexivity | now apply valid_tag_capture].
    - destruct Hd' as [->|Hd']; auto. right. now apply valid_digest_capture.
  Qed.

  (* ---------- the router's validators ---------- *)

  Theorem router_same_predicates w :
    router_valid_repo w = is_valid_repository w /\
    router_valid_digest linked w = is_valid_digest linked w /\
    root_is_valid_repo_name w = is_valid_repository w /\
    root_is_valid_tag w = is_valid_tag w /\
    root_is_valid_digest linked w = is_valid_digest linked w /\
    router_manifest_ref linked w =
      Ok (match is_valid_digest linked w, is_valid_tag w with
          | Ok true, _ => RDigest
          | _, Ok true => RTag
          | _, _ => RNotFound
          end).
  Proof.
    repeat split. unfold router_manifest_ref.
    destruct (is_valid_digest_total w) as [b ->]. rewrite is_valid_tag_spec. cbn.
    destruct b; [reflexivity|]. now destruct (tag_spec w).
  Qed.

End WithLinked.
