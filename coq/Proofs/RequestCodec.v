(* The URL codec theorem (C03, first mechanism): what Request.construct renders, url.Parse and
   the server's parse read back, for every well-formed request of every kind.
     url_codec            construct ; url.Parse ; parse  =  norm
     url_codec_injective  two well-formed requests with the same method + URL have the same norm
     construct_ok         Construct succeeds (and returns what construct returns); must_construct_ok
     url_codec_routing_words / wf_needed   evaluated examples (routing words as names; each
                          hypothesis of wf_request is needed)
     parse_construct      the converse: what parse returns is well formed, a fixed point of norm,
                          and is rendered back to itself (given parser_canonical);
                          parse_construct_refuted: the two parser outputs that are not
   wf_request, norm, parser_canonical are in Model/RequestCodecSpec.v.
   The core is the lemma route: for a path a/w/l whose last two elements contain no slash,
   neither CutSuffix applies and the two cutLast calls return l and w whatever a contains;
   the alphabets of digests, tags and base64url text (no slash; a digest has a colon, a tag
   has none) then select the branch of the switch. *)
From Coq Require Import String.
From OCI Require Import Base.Outcome Base.Base64 Base.Regex Model.Ref Model.Errors Model.Request
  Model.RequestCodecSpec Proofs.Ref Proofs.Request.

Local Open Scope N_scope.

(* ================================================================ byte classes *)

(* every byte of a repository name, a digest, a tag, base64url text, a decimal *)
Definition safe (c : N) : bool := unreserved c || (c =? 47) || (c =? 58).

Lemma unreserved_iff c : unreserved c = true <->
  (97 <= c <= 122) \/ (65 <= c <= 90) \/ (48 <= c <= 57) \/ c = 45 \/ c = 95 \/ c = 46 \/ c = 126.
Proof. unfold unreserved. rewrite !orb_true_iff, !andb_true_iff, !N.leb_le, !N.eqb_eq. tauto. Qed.

Lemma safe_iff c : safe c = true <->
  (97 <= c <= 122) \/ (65 <= c <= 90) \/ (48 <= c <= 57) \/ c = 45 \/ c = 95 \/ c = 46 \/ c = 126
  \/ c = 47 \/ c = 58.
Proof. unfold safe. rewrite !orb_true_iff, unreserved_iff, !N.eqb_eq. tauto. Qed.

Lemma unreserved_safe c : unreserved c = true -> safe c = true.
Proof. unfold safe. now intros ->. Qed.

Lemma safe_props c : safe c = true ->
  is_ctl c = false /\ c <> 35 /\ c <> 37 /\ c <> 38 /\ c <> 43 /\ c <> 59 /\ c <> 61 /\ c <> 63.
Proof.
  intros H. apply safe_iff in H. unfold is_ctl. split; [|lia].
  apply orb_false_iff. split; [apply N.ltb_ge | apply N.eqb_neq]; lia.
Qed.

Lemma safe_not_in a c : forallb safe a = true ->
  (c = 35 \/ c = 37 \/ c = 38 \/ c = 43 \/ c = 59 \/ c = 61 \/ c = 63) -> ~ In c a.
Proof.
  intros H Hc Hin. rewrite forallb_forall in H. apply H, safe_props in Hin. lia.
Qed.

Lemma forallb_impl {A} (p q : A -> bool) l :
  (forall a, p a = true -> q a = true) -> forallb p l = true -> forallb q l = true.
Proof. intros Hpq H. rewrite forallb_forall in *. auto. Qed.

(* bytes url.Parse accepts in a query: not a control byte, not the fragment separator *)
Definition qsafe (c : N) : bool := negb (is_ctl c) && negb (c =? 35).

Lemma safe_qsafe c : safe c = true -> qsafe c = true.
Proof.
  intros H. apply safe_props in H as (H1 & H2 & _). unfold qsafe. rewrite H1.
  apply N.eqb_neq in H2. now rewrite H2.
Qed.

Lemma qsafe_props c : qsafe c = true -> is_ctl c = false /\ c <> 35.
Proof.
  unfold qsafe. intros H. apply andb_true_iff in H as [H1 H2].
  apply negb_true_iff in H1, H2. apply N.eqb_neq in H2. auto.
Qed.

(* ---------- repository names ---------- *)

Lemma repo_safe repo : vrepo repo = true -> forallb safe repo = true.
Proof.
  intros H. apply forallb_forall. intros c Hc. apply safe_iff.
  pose proof (repo_bytes_ok repo c H Hc). lia.
Qed.

Lemma vrepo_nonempty repo : vrepo repo = true -> repo <> [].
Proof. intros H. apply repo_nonempty. now apply vrepo_matches. Qed.

(* ---------- tags ---------- *)

Lemma vtag_spec t : vtag t = true -> tag_spec t = true.
Proof. unfold vtag. rewrite is_valid_tag_spec. now destruct (tag_spec t). Qed.

Lemma tag_char_unreserved c : tag_char c = true -> unreserved c = true.
Proof.
  unfold tag_char, is_word, b_us, b_dot, b_dash. intros H. apply unreserved_iff.
  rewrite !orb_true_iff, !andb_true_iff, !N.leb_le, !N.eqb_eq in H. lia.
Qed.

Lemma vtag_chars t : vtag t = true -> forallb unreserved t = true /\ t <> [].
Proof.
  intros H. apply vtag_spec, tag_spec_chars in H as (Hn & Hc & _). split.
  - eapply forallb_impl; [|exact Hc]. exact tag_char_unreserved.
  - now apply nonempty_true.
Qed.

Lemma unreserved_no c a : forallb unreserved a = true -> (c = 47 \/ c = 58) -> ~ In c a.
Proof.
  intros H Hc Hin. rewrite forallb_forall in H. apply H, unreserved_iff in Hin. lia.
Qed.

(* ---------- base64url text ---------- *)

Lemma b64u_alpha_unreserved c : b64u_alpha c = true -> unreserved c = true.
Proof. intros H. apply b64u_alpha_cases in H. apply unreserved_iff. lia. Qed.

(* ---------- digests ---------- *)

Lemma alpha_rep n a c : alpha (Rep n a) c = true -> alpha a c = true.
Proof.
  induction n as [|n IH]; cbn [Rep alpha]; [discriminate|].
  intros H. apply orb_true_iff in H as [H|H]; auto.
Qed.

Section Digests.
  Variable linked : alg -> bool.

  Lemma vdigest_shape d : vdigest linked d = true ->
    exists g e, d = alg_name g ++ 58 :: e /\
                forall c, In c e -> (97 <= c <= 102) \/ (48 <= c <= 57).
  Proof.
    unfold vdigest. intros H.
    assert (Hv : is_valid_digest linked d = Ok true).
    { destruct (is_valid_digest linked d) as [[|]| | |]; congruence. }
    apply is_valid_digest_true, digest_validate_ok in Hv as (g & e & -> & _ & _ & Hm).
    exists g, e. split; [reflexivity|]. intros c Hc.
    apply matches_sem, matches_alphabet in Hm. rewrite Forall_forall in Hm.
    specialize (Hm c Hc). unfold encodedRe in Hm. apply alpha_rep in Hm.
    cbn in Hm. unfold cls_mem, in_range in Hm. cbn in Hm.
    assert (X : forall b : bool, (if b then true else false) = b) by (intros []; reflexivity).
    rewrite !X in Hm. rewrite ?orb_false_r in Hm.
    rewrite ?orb_true_iff, ?andb_true_iff, ?N.leb_le in Hm. lia.
  Qed.

  Lemma vdigest_chars d : vdigest linked d = true ->
    forallb safe d = true /\ ~ In 47 d /\ In 58 d /\ d <> [].
  Proof.
    intros H. apply vdigest_shape in H as (g & e & -> & He).
    assert (Hs : forallb safe e = true).
    { apply forallb_forall. intros c Hc. apply safe_iff. specialize (He c Hc). lia. }
    assert (Hn : ~ In 47 e). { intros Hc. specialize (He _ Hc). lia. }
    repeat split.
    - rewrite forallb_app. cbn [forallb]. rewrite Hs. now destruct g.
    - intros Hin. apply in_app_or in Hin as [Hin|[Hin|Hin]]; [|discriminate|auto].
      destruct g; cbn in Hin; intuition discriminate.
    - apply in_or_app. right. now left.
    - destruct g; discriminate.
  Qed.

  (* a string without a colon is not a digest *)
  Lemma vdigest_needs_colon w : ~ In 58 w -> vdigest linked w = false.
  Proof.
    intros H. unfold vdigest, is_valid_digest, digest_validate.
    apply cut_byte_none in H. unfold b_colon. now rewrite H.
  Qed.
End Digests.

(* ================================================================ url.Parse *)

Lemma existsb_false_forall {A} (p : A -> bool) l : (forall a, In a l -> p a = false) -> existsb p l = false.
Proof.
  intros H. apply not_true_is_false. intros Hx. apply existsb_exists in Hx as (a & Ha & Hx).
  rewrite (H a Ha) in Hx. discriminate.
Qed.

Lemma unescape_safe plus a : forallb safe a = true -> unescape plus a = Some a.
Proof.
  intros H. apply unescape_plain. eapply forallb_impl; [|exact H]. cbv beta. intros c Hc.
  apply safe_props in Hc as (_ & _ & H37 & _ & H43 & _).
  apply N.eqb_neq in H37, H43. rewrite H37, H43. now destruct plus.
Qed.

Definition v2 : bytes := s "/v2/".

Lemma v2_safe : forallb safe v2 = true.
Proof. reflexivity. Qed.

(* a path of safe bytes, and optionally "?" and a query of acceptable bytes *)
Lemma url_parse_path_query p q :
  forallb safe p = true -> forallb qsafe q = true ->
  url_parse_v2 (v2 ++ p ++ 63 :: q) = Ok (v2 ++ p, q).
Proof.
  intros Hp Hq.
  assert (Hvp : forallb safe (v2 ++ p) = true) by (now rewrite forallb_app, v2_safe, Hp).
  unfold url_parse_v2. unfold v2 at 1. rewrite has_prefix_app. cbn [negb]. unfold cut_or_all.
  rewrite app_assoc.
  assert (H35 : ~ In 35 ((v2 ++ p) ++ 63 :: q)).
  { intros Hin. apply in_app_or in Hin as [Hin|[Hin|Hin]]; [|discriminate|].
    - revert Hin. apply safe_not_in; auto.
    - rewrite forallb_forall in Hq. apply Hq, qsafe_props in Hin. tauto. }
  rewrite (cut_byte_absent 35 _ H35). cbv beta iota.
  rewrite existsb_false_forall.
  2:{ intros c Hin. apply in_app_or in Hin as [Hin|[Hin|Hin]].
      - rewrite forallb_forall in Hvp. now apply Hvp, safe_props in Hin.
      - now subst c.
      - rewrite forallb_forall in Hq. now apply Hq, qsafe_props in Hin. }
  cbn [unescape]. rewrite cut_byte_app by (apply safe_not_in; auto 10).
  cbv beta iota. now rewrite unescape_safe.
Qed.

Lemma url_parse_path p :
  forallb safe p = true -> url_parse_v2 (v2 ++ p) = Ok (v2 ++ p, []).
Proof.
  intros Hp.
  assert (Hvp : forallb safe (v2 ++ p) = true) by (now rewrite forallb_app, v2_safe, Hp).
  unfold url_parse_v2. unfold v2 at 1. rewrite has_prefix_app. cbn [negb]. unfold cut_or_all.
  rewrite (cut_byte_absent 35) by (apply safe_not_in; auto 10). cbv beta iota.
  rewrite existsb_false_forall.
  2:{ intros c Hin. rewrite forallb_forall in Hvp. now apply Hvp, safe_props in Hin. }
  cbn [unescape]. rewrite (cut_byte_absent 63) by (apply safe_not_in; auto 10).
  cbv beta iota. now rewrite unescape_safe.
Qed.

(* the optional query of listParams *)
Definition optq (q : bytes) : bytes := match q with [] => [] | _ => 63 :: q end.

Lemma url_parse_optq p q :
  forallb safe p = true -> forallb qsafe q = true ->
  url_parse_v2 (v2 ++ p ++ optq q) = Ok (v2 ++ p, q).
Proof.
  intros Hp Hq. destruct q as [|c q]; [|now apply url_parse_path_query].
  cbn [optq]. rewrite app_nil_r. now apply url_parse_path.
Qed.

(* ================================================================ url.ParseQuery *)

Lemma contains_byte_false c a : ~ In c a -> contains_byte c a = false.
Proof.
  intros H. unfold contains_byte. apply existsb_false_forall. intros d Hd.
  apply N.eqb_neq. intros ->. contradiction.
Qed.

Lemma split_byte_aux_absent c a : forall cur, ~ In c a -> split_byte_aux c a cur = [rev cur ++ a].
Proof.
  induction a as [|d a IH]; intros cur H; cbn [split_byte_aux].
  - now rewrite app_nil_r.
  - destruct (N.eqb_spec d c) as [->|_]; [exfalso; apply H; now left|].
    rewrite IH by (intros Hin; apply H; now right). cbn [rev]. now rewrite <- app_assoc.
Qed.

Lemma split_byte_aux_app c a b : forall cur, ~ In c a ->
  split_byte_aux c (a ++ c :: b) cur = (rev cur ++ a) :: split_byte_aux c b [].
Proof.
  induction a as [|d a IH]; intros cur H; cbn [split_byte_aux app].
  - rewrite N.eqb_refl. now rewrite app_nil_r.
  - destruct (N.eqb_spec d c) as [->|_]; [exfalso; apply H; now left|].
    rewrite IH by (intros Hin; apply H; now right). cbn [rev]. now rewrite <- app_assoc.
Qed.

Lemma parse_query_nonempty q : q <> [] ->
  parse_query q = fold_left (fun acc piece => parse_query_piece piece acc) (split_byte 38 q) ([], false).
Proof. destruct q; [congruence | reflexivity]. Qed.

Lemma pq_piece_gen piece k v k' v' m e :
  piece <> [] -> contains_byte 59 piece = false -> cut_or_all 61 piece = (k, v) ->
  query_unescape k = Some k' -> query_unescape v = Some v' ->
  parse_query_piece piece (m, e) = (m ++ [(k', v')], e).
Proof.
  intros Hne H59 Hcut Hk Hv. unfold parse_query_piece. rewrite H59.
  destruct piece as [|c0 piece]; [congruence|]. rewrite Hcut. cbv beta iota. now rewrite Hk, Hv.
Qed.

(* one piece "key=value" *)
Lemma pq_piece k v k' v' m e :
  ~ In 59 k -> ~ In 59 v -> ~ In 61 k ->
  query_unescape k = Some k' -> query_unescape v = Some v' ->
  parse_query_piece (k ++ 61 :: v) (m, e) = (m ++ [(k', v')], e).
Proof.
  intros H1 H2 H3 Hk Hv. apply pq_piece_gen with (k := k) (v := v); auto.
  - destruct k; discriminate.
  - apply contains_byte_false. intros Hin. apply in_app_or in Hin as [Hin|[Hin|Hin]]; auto. discriminate.
  - unfold cut_or_all. now rewrite cut_byte_app.
Qed.

Lemma parse_query_one k v k' v' :
  ~ In 59 k -> ~ In 59 v -> ~ In 61 k -> ~ In 38 k -> ~ In 38 v ->
  query_unescape k = Some k' -> query_unescape v = Some v' ->
  parse_query (k ++ 61 :: v) = ([(k', v')], false).
Proof.
  intros H1 H2 H3 H4 H5 Hk Hv. rewrite parse_query_nonempty by (destruct k; discriminate).
  unfold split_byte. rewrite split_byte_aux_absent.
  2:{ intros Hin. apply in_app_or in Hin as [Hin|[Hin|Hin]]; auto. discriminate. }
  cbn [rev app fold_left]. now rewrite (pq_piece k v k' v').
Qed.

Lemma parse_query_two k1 v1 k1' v1' k2 v2 k2' v2' :
  ~ In 59 k1 -> ~ In 59 v1 -> ~ In 61 k1 -> ~ In 38 k1 -> ~ In 38 v1 ->
  ~ In 59 k2 -> ~ In 59 v2 -> ~ In 61 k2 -> ~ In 38 k2 -> ~ In 38 v2 ->
  query_unescape k1 = Some k1' -> query_unescape v1 = Some v1' ->
  query_unescape k2 = Some k2' -> query_unescape v2 = Some v2' ->
  parse_query ((k1 ++ 61 :: v1) ++ 38 :: k2 ++ 61 :: v2) = ([(k1', v1'); (k2', v2')], false).
Proof.
  intros A1 A2 A3 A4 A5 B1 B2 B3 B4 B5 Hk1 Hv1 Hk2 Hv2.
  rewrite parse_query_nonempty by (destruct k1; discriminate).
  unfold split_byte. rewrite split_byte_aux_app.
  2:{ intros Hin. apply in_app_or in Hin as [Hin|[Hin|Hin]]; auto. discriminate. }
  rewrite split_byte_aux_absent.
  2:{ intros Hin. apply in_app_or in Hin as [Hin|[Hin|Hin]]; auto. discriminate. }
  cbn [rev app fold_left].
  rewrite (pq_piece k1 v1 k1' v1') by auto. cbn [app]. now rewrite (pq_piece k2 v2 k2' v2').
Qed.

(* ================================================================ QueryEscape / QueryUnescape *)

Lemma hex_digit v : v < 16 ->
  ishex (upperhex v) = true /\ unhex (upperhex v) = v /\ unreserved (upperhex v) = true.
Proof.
  intros H.
  assert (E : v = 0 \/ v = 1 \/ v = 2 \/ v = 3 \/ v = 4 \/ v = 5 \/ v = 6 \/ v = 7 \/ v = 8 \/ v = 9
              \/ v = 10 \/ v = 11 \/ v = 12 \/ v = 13 \/ v = 14 \/ v = 15) by lia.
  repeat (destruct E as [->|E]; [vm_compute; auto|]). subst. vm_compute; auto.
Qed.

Definition byte_list (l : bytes) : bool := forallb (fun c => c <? 256) l.

Lemma query_escape_roundtrip l : byte_list l = true -> query_unescape (query_escape l) = Some l.
Proof.
  unfold query_unescape, query_escape, byte_list.
  induction l as [|c l IH]; [reflexivity|]. cbn [forallb]. intros H.
  apply andb_true_iff in H as [Hc Hl]. apply N.ltb_lt in Hc. specialize (IH Hl).
  cbn [escape andb].
  destruct (N.eqb_spec c 32) as [->|H32].
  { cbn [unescape]. change (43 =? 37) with false. cbv iota. rewrite IH. reflexivity. }
  unfold should_escape_query. destruct (unreserved c) eqn:Eu; cbn [negb].
  - apply unreserved_iff in Eu. cbn [unescape].
    replace (c =? 37) with false by (symmetry; apply N.eqb_neq; lia). rewrite IH.
    replace (c =? 43) with false by (symmetry; apply N.eqb_neq; lia). reflexivity.
  - assert (H1 : c / 16 < 16) by (apply N.div_lt_upper_bound; lia).
    assert (H2 : c mod 16 < 16) by (apply N.mod_lt; lia).
    destruct (hex_digit _ H1) as (X1 & Y1 & _), (hex_digit _ H2) as (X2 & Y2 & _).
    cbn [unescape]. change (37 =? 37) with true. cbv iota. rewrite X1, X2, IH, Y1, Y2. cbn [andb].
    do 2 f_equal. pose proof (N.div_mod' c 16). lia.
Qed.

(* what QueryEscape emits *)
Definition esc_byte (c : N) : bool := unreserved c || (c =? 43) || (c =? 37).

Lemma query_escape_alpha l : byte_list l = true -> forallb esc_byte (query_escape l) = true.
Proof.
  unfold query_escape, byte_list.
  induction l as [|c l IH]; [reflexivity|]. cbn [forallb]. intros H.
  apply andb_true_iff in H as [Hc Hl]. apply N.ltb_lt in Hc. specialize (IH Hl).
  cbn [escape andb].
  destruct (N.eqb_spec c 32) as [->|H32]; [cbn [forallb]; now rewrite IH|].
  unfold should_escape_query. destruct (unreserved c) eqn:Eu; cbn [negb forallb].
  - unfold esc_byte at 1. now rewrite Eu, IH.
  - assert (H1 : c / 16 < 16) by (apply N.div_lt_upper_bound; lia).
    assert (H2 : c mod 16 < 16) by (apply N.mod_lt; lia).
    destruct (hex_digit _ H1) as (_ & _ & Z1), (hex_digit _ H2) as (_ & _ & Z2).
    unfold esc_byte at 1 2 3. now rewrite Z1, Z2, IH.
Qed.

Lemma esc_byte_props c : esc_byte c = true -> qsafe c = true /\ c <> 38 /\ c <> 59 /\ c <> 61.
Proof.
  unfold esc_byte. rewrite !orb_true_iff, unreserved_iff, !N.eqb_eq. intros H.
  split; [|lia]. unfold qsafe, is_ctl. apply andb_true_iff. split; apply negb_true_iff.
  - apply orb_false_iff. split; [apply N.ltb_ge | apply N.eqb_neq]; lia.
  - apply N.eqb_neq. lia.
Qed.

Lemma esc_not_in a c : forallb esc_byte a = true -> (c = 38 \/ c = 59 \/ c = 61) -> ~ In c a.
Proof.
  intros H Hc Hin. rewrite forallb_forall in H. apply H, esc_byte_props in Hin. lia.
Qed.

Lemma query_escape_plain a : forallb unreserved a = true -> query_escape a = a.
Proof.
  unfold query_escape. induction a as [|c a IH]; [reflexivity|]. cbn [forallb]. intros H.
  apply andb_true_iff in H as [Hc Ha]. cbn [escape andb]. unfold should_escape_query. rewrite Hc.
  cbn [negb]. apply unreserved_iff in Hc.
  replace (c =? 32) with false by (symmetry; apply N.eqb_neq; lia). now rewrite IH.
Qed.

(* ================================================================ fmt.Sprint / strconv.Atoi *)

Lemma dec_Z_nonneg n : (0 <= n)%Z ->
  forallb is_digit (dec_Z n) = true /\ digits_val (dec_Z n) 0 = Some n /\ dec_Z n <> [].
Proof.
  intros H. destruct n as [|p|p]; [repeat split; discriminate| |lia].
  exact (dec_N_spec (Npos p)).
Qed.

Lemma is_digit_unreserved c : is_digit c = true -> unreserved c = true.
Proof. intros H. apply is_digit_range in H. apply unreserved_iff. lia. Qed.

Lemma parse_int_digit_head c l : is_digit c = true ->
  parse_int (c :: l) = match digits_val (c :: l) 0 with
                       | None => None
                       | Some v => if ((min_int64 <=? v) && (v <=? max_int64))%Z then Some v else None
                       end.
Proof.
  intros H. apply is_digit_range in H.
  assert (E : c = 48 \/ c = 49 \/ c = 50 \/ c = 51 \/ c = 52 \/ c = 53 \/ c = 54 \/ c = 55 \/ c = 56 \/ c = 57) by lia.
  repeat (destruct E as [->|E]; [reflexivity|]). subst. reflexivity.
Qed.

Lemma parse_int_dec n : (0 <= n <= max_int64)%Z -> parse_int (dec_Z n) = Some n.
Proof.
  intros [H0 H1]. destruct (dec_Z_nonneg n H0) as (D & V & NE).
  destruct (dec_Z n) as [|c l]; [congruence|]. cbn [forallb] in D. apply andb_true_iff in D as [Dc _].
  rewrite (parse_int_digit_head c l Dc), V.
  replace (min_int64 <=? n)%Z with true by (symmetry; apply Z.leb_le; unfold min_int64; lia).
  replace (n <=? max_int64)%Z with true by (symmetry; now apply Z.leb_le). reflexivity.
Qed.

(* ================================================================ listParams / setListQueryParams *)

Ltac lit_notin := let H := fresh in intros H; vm_compute in H; intuition discriminate.

Definition lp_values (r : request) : values :=
  (if (0 <=? q_listn r)%Z then [(s "n", dec_Z (q_listn r))] else [])
  ++ match q_last r with [] => [] | l => [(s "last", l)] end.

Lemma list_params_eq r : list_params r = optq (values_encode (lp_values r)).
Proof.
  unfold list_params, lp_values. destruct (0 <=? q_listn r)%Z, (q_last r); reflexivity.
Qed.

Lemma digits_safe d : forallb is_digit d = true -> forallb unreserved d = true /\ forallb safe d = true.
Proof.
  intros H. assert (U : forallb unreserved d = true).
  { eapply forallb_impl; [|exact H]. exact is_digit_unreserved. }
  split; [exact U|]. eapply forallb_impl; [|exact U]. exact unreserved_safe.
Qed.

Lemma list_params_parse r : list_ok r = true ->
  exists q urlq, list_params r = optq q /\ forallb qsafe q = true /\
    parse_query q = (urlq, false) /\
    qget (s "n") urlq = (if (0 <=? q_listn r)%Z then dec_Z (q_listn r) else []) /\
    qget (s "last") urlq = q_last r.
Proof.
  unfold list_ok. intros H. apply andb_true_iff in H as [_ Hl]. fold (byte_list (q_last r)) in Hl.
  rewrite list_params_eq. unfold lp_values.
  pose proof (query_escape_roundtrip _ Hl) as Hrt.
  pose proof (query_escape_alpha _ Hl) as Hal.
  assert (Hqs : forallb qsafe (query_escape (q_last r)) = true).
  { eapply forallb_impl; [|exact Hal]. intros c Hc. now apply esc_byte_props in Hc. }
  destruct (0 <=? q_listn r)%Z eqn:En.
  - apply Z.leb_le in En. destruct (dec_Z_nonneg _ En) as (D & _ & _).
    destruct (digits_safe _ D) as (DU & DS). set (d := dec_Z (q_listn r)) in *.
    assert (Hdq : forallb qsafe d = true).
    { eapply forallb_impl; [|exact DS]. exact safe_qsafe. }
    destruct (q_last r) as [|c0 l0] eqn:El.
    + exists (s "n" ++ 61 :: d), [(s "n", d)]. repeat split.
      * cbn [app]. change (values_encode [(s "n", d)]) with (s "n" ++ 61 :: query_escape d).
        now rewrite (query_escape_plain d DU).
      * rewrite forallb_app. cbn [forallb]. now rewrite Hdq.
      * apply parse_query_one; try lit_notin; try solve [apply (safe_not_in d); auto 10]; try reflexivity.
        now apply unescape_safe.
    + set (l := c0 :: l0) in *. set (e := query_escape l) in *.
      exists ((s "last" ++ 61 :: e) ++ 38 :: s "n" ++ 61 :: d), [(s "last", l); (s "n", d)]. repeat split.
      * cbn [app]. change (values_encode [(s "n", d); (s "last", l)])
          with ((s "last" ++ 61 :: query_escape l) ++ 38 :: s "n" ++ 61 :: query_escape d).
        now rewrite (query_escape_plain d DU).
      * rewrite !forallb_app. cbn [forallb]. rewrite forallb_app. cbn [forallb]. now rewrite Hdq, Hqs.
      * apply parse_query_two; try lit_notin; try solve [apply (safe_not_in d); auto 10];
          try solve [apply (esc_not_in e); auto]; try reflexivity; auto.
        now apply unescape_safe.
  - destruct (q_last r) as [|c0 l0] eqn:El.
    + exists [], []. repeat split.
    + set (l := c0 :: l0) in *. set (e := query_escape l) in *.
      exists (s "last" ++ 61 :: e), [(s "last", l)]. repeat split.
      * rewrite forallb_app. cbn [forallb]. now rewrite Hqs.
      * apply parse_query_one; try lit_notin; try solve [apply (esc_not_in e); auto]; try reflexivity; auto.
Qed.

Lemma slqp_ok rq urlq n last : (n <= max_int64)%Z ->
  qget (s "n") urlq = (if (0 <=? n)%Z then dec_Z n else []) -> qget (s "last") urlq = last ->
  set_list_query_params rq urlq = Ok (set_last last (set_listn (norm_listn n) rq)).
Proof.
  intros Hmax Hn Hl. unfold set_list_query_params. rewrite Hn, Hl. unfold norm_listn.
  destruct (0 <=? n)%Z eqn:En.
  - apply Z.leb_le in En. pose proof (parse_int_dec n (conj En Hmax)) as P.
    destruct (dec_Z_nonneg n En) as (_ & _ & NE).
    replace (n <? 0)%Z with false by (symmetry; apply Z.ltb_ge; lia).
    destruct (dec_Z n) as [|c l]; [congruence|]. rewrite P. reflexivity.
  - apply Z.leb_gt in En. replace (n <? 0)%Z with true by (symmetry; apply Z.ltb_lt; lia). reflexivity.
Qed.

(* ================================================================ the path surgery of parse *)

Lemma cut_suffix_some q a p : cut_suffix q a = Some p -> a = p ++ q.
Proof.
  intros H. assert (E : exists p' : bytes, a = p' ++ q).
  { unfold cut_suffix in H. destruct (has_suffix q a) eqn:Es; [|discriminate].
    unfold has_suffix in Es. apply has_prefix_spec in Es as [r Er].
    exists (rev r). apply (f_equal (@rev N)) in Er. rewrite rev_involutive, rev_app_distr, rev_involutive in Er.
    exact Er. }
  destruct E as [p' ->]. rewrite cut_suffix_app in H. now injection H as <-.
Qed.

Lemma cut_suffix_none (q a : bytes) : (forall p : bytes, a <> p ++ q) -> cut_suffix q a = None.
Proof.
  intros H. destruct (cut_suffix q a) as [p|] eqn:E; [|reflexivity].
  apply cut_suffix_some in E. exfalso. eapply H; eauto.
Qed.

Lemma cut_last_inj c (a b a' b' : bytes) : ~ In c b -> ~ In c b' -> a ++ c :: b = a' ++ c :: b' -> a = a' /\ b = b'.
Proof.
  intros Hb Hb' E. pose proof (cut_last_app c a b Hb) as H1. rewrite E, (cut_last_app c a' b' Hb') in H1.
  injection H1 as -> ->. auto.
Qed.

(* A path  a/w/l  whose last two elements w and l contain no slash, l non-empty, and which is
   not .../blobs/uploads: neither upload suffix applies, and the two cutLast calls return
   l and w.  This is the statement that the routing words cannot be confused: whatever
   the prefix a contains. *)
Lemma route (a w l : bytes) :
  ~ In 47 w -> ~ In 47 l -> l <> [] -> ~ (w = s "blobs" /\ l = s "uploads") ->
  let rest := a ++ 47 :: w ++ 47 :: l in
  beqb rest (s "_catalog") = false /\
  cut_suffix (s "/blobs/uploads/") rest = None /\
  cut_suffix (s "/blobs/uploads") rest = None /\
  cut_last 47 rest = Some (a ++ 47 :: w, l) /\
  cut_last 47 (a ++ 47 :: w) = Some (a, w).
Proof.
  intros Hw Hl Hne Hnot rest.
  assert (Er : rest = (a ++ 47 :: w) ++ 47 :: l) by (unfold rest; now rewrite <- app_assoc).
  repeat split.
  - apply beqb_neq. intros E. assert (Hin : In 47 rest) by (unfold rest; apply in_or_app; right; now left).
    rewrite E in Hin. revert Hin. lit_notin.
  - apply cut_suffix_none. intros p E. rewrite Er in E.
    change (s "/blobs/uploads/") with (s "/blobs/uploads" ++ [47]) in E. rewrite app_assoc in E.
    apply cut_last_inj in E as [_ E]; auto.
  - apply cut_suffix_none. intros p E. rewrite Er in E.
    change (s "/blobs/uploads") with (s "/blobs" ++ 47 :: s "uploads") in E. rewrite app_assoc in E.
    assert (N1 : ~ In 47 (s "uploads")) by lit_notin. assert (N2 : ~ In 47 (s "blobs")) by lit_notin.
    apply (cut_last_inj 47 _ _ _ _ Hl N1) in E as [E1 E2].
    change (s "/blobs") with ([47] ++ s "blobs") in E1. rewrite app_assoc in E1.
    change (p ++ [47]) with (p ++ 47 :: []) in E1. rewrite <- app_assoc in E1. cbn [app] in E1.
    apply (cut_last_inj 47 _ _ _ _ Hw N2) in E1 as [_ E1]. auto.
  - rewrite Er. now apply cut_last_app.
  - now apply cut_last_app.
Qed.

Section Codec.
  Variable linked : alg -> bool.

  (* entry of parse: a path /v2/<non-empty rest> *)
  Lemma parse_req_v2 m rest q urlq : rest <> [] -> parse_query q = (urlq, false) ->
    parse_req linked m (v2 ++ rest) q = parse_req_rest linked m rest urlq.
  Proof.
    intros Hne Hq. unfold parse_req. rewrite Hq. cbv beta iota.
    assert (E : beqb (v2 ++ rest) (s "/v2") || beqb (v2 ++ rest) (s "/v2/") = false).
    { apply orb_false_iff. split; apply beqb_neq; intros E; apply (f_equal (@length N)) in E;
        rewrite app_length in E; cbn in E; (destruct rest; [congruence | cbn in E; lia]). }
    rewrite E. unfold v2. now rewrite cut_prefix_app.
  Qed.


  Ltac lit_beqb :=
    repeat match goal with
    | |- context [beqb ?a ?b] =>
        let v := eval vm_compute in (beqb a b) in
        match v with
        | true => change (beqb a b) with true
        | false => change (beqb a b) with false
        end
    end.

  Ltac vstep :=
    repeat first
      [ rewrite valid_digest_eq | rewrite valid_repo_eq | rewrite valid_tag_eq
      | progress cbn [pred negb q_repo q_digest q_from q_kind q_tag q_upload set_repo set_digest set_from
                      set_kind set_upload set_tag set_listn set_last zero_request]
      | match goal with
        | H : ?x = true |- context [?x] => rewrite H
        | H : ?x = false |- context [?x] => rewrite H
        end ].

  (* the common part: enter parse with the path /v2/a/w/l and reach the switch on w *)
  Ltac route_go a w l Hw Hl Hne Hnot Hq :=
    let RT := fresh "RT" in let C := fresh "C" in let U1 := fresh "U" in let U2 := fresh "U" in
    let L1 := fresh "L" in let L2 := fresh "L" in let NE := fresh "NE" in
    pose proof (route a w l Hw Hl Hne Hnot) as RT; cbv zeta in RT; destruct RT as (C & U1 & U2 & L1 & L2);
    assert (NE : a ++ 47 :: w ++ 47 :: l <> []) by (destruct a; discriminate);
    rewrite (parse_req_v2 _ _ _ _ NE Hq);
    unfold parse_req_rest; cbv zeta; rewrite C, U1, U2, L1, L2; cbv beta iota; lit_beqb; cbv iota.

  Lemma pq_nil : parse_query [] = ([], false).
  Proof. reflexivity. Qed.

  Lemma not_uploads d : In 58 d -> ~ (s "blobs" = s "blobs" /\ d = s "uploads").
  Proof. intros H [_ E]. rewrite E in H. revert H. lit_notin. Qed.

  Lemma not_blobs (w l : bytes) : beqb w (s "blobs") = false -> ~ (w = s "blobs" /\ l = s "uploads").
  Proof. intros H [E _]. apply beqb_neq in H. contradiction. Qed.

  (* ---------- /v2/<repo>/blobs/<digest>, any method ---------- *)
  Lemma parse_blob m repo d : vrepo repo = true -> vdigest linked d = true ->
    parse_req linked m (v2 ++ repo ++ 47 :: s "blobs" ++ 47 :: d) [] =
    let rq := mkreq ReqPing repo d [] [] [] 0 [] in
    if beqb m m_GET then Ok (set_kind ReqBlobGet rq)
    else if beqb m m_HEAD then Ok (set_kind ReqBlobHead rq)
    else if beqb m m_DELETE then Ok (set_kind ReqBlobDelete rq)
    else Err (PSentinel PMethodNotAllowed).
  Proof.
    intros Hr Hd. destruct (vdigest_chars linked d Hd) as (Ds & D47 & D58 & Dne).
    assert (W : ~ In 47 (s "blobs")) by lit_notin.
    route_go repo (s "blobs") d W D47 Dne (not_uploads d D58) pq_nil.
    vstep. reflexivity.
  Qed.

  (* ---------- /v2/<repo>/referrers/<digest> ---------- *)
  Lemma parse_referrers m repo d : vrepo repo = true -> vdigest linked d = true ->
    parse_req linked m (v2 ++ repo ++ 47 :: s "referrers" ++ 47 :: d) [] =
    if negb (beqb m m_GET) then Err (PSentinel PMethodNotAllowed)
    else Ok (mkreq ReqReferrersList repo d [] [] [] (-1) []).
  Proof.
    intros Hr Hd. destruct (vdigest_chars linked d Hd) as (Ds & D47 & D58 & Dne).
    assert (W : ~ In 47 (s "referrers")) by lit_notin.
    route_go repo (s "referrers") d W D47 Dne (not_blobs (s "referrers") d eq_refl) pq_nil.
    vstep. reflexivity.
  Qed.

  (* ---------- /v2/<repo>/manifests/<digest> and /v2/<repo>/manifests/<tag> ---------- *)
  Definition by_manifest_method (m : bytes) (rq : request) : PR :=
    if beqb m m_GET then Ok (set_kind ReqManifestGet rq)
    else if beqb m m_HEAD then Ok (set_kind ReqManifestHead rq)
    else if beqb m m_PUT then Ok (set_kind ReqManifestPut rq)
    else if beqb m m_DELETE then Ok (set_kind ReqManifestDelete rq)
    else Err (PSentinel PMethodNotAllowed).

  Lemma parse_manifest_digest m repo d : vrepo repo = true -> vdigest linked d = true ->
    parse_req linked m (v2 ++ repo ++ 47 :: s "manifests" ++ 47 :: d) [] =
    by_manifest_method m (mkreq ReqPing repo d [] [] [] 0 []).
  Proof.
    intros Hr Hd. destruct (vdigest_chars linked d Hd) as (Ds & D47 & D58 & Dne).
    assert (W : ~ In 47 (s "manifests")) by lit_notin.
    route_go repo (s "manifests") d W D47 Dne (not_blobs (s "manifests") d eq_refl) pq_nil.
    vstep. reflexivity.
  Qed.

  Lemma parse_manifest_tag m repo t : vrepo repo = true -> vtag t = true ->
    parse_req linked m (v2 ++ repo ++ 47 :: s "manifests" ++ 47 :: t) [] =
    by_manifest_method m (mkreq ReqPing repo [] t [] [] 0 []).
  Proof.
    intros Hr Ht. destruct (vtag_chars t Ht) as (Tu & Tne).
    assert (T47 : ~ In 47 t) by (apply unreserved_no; auto).
    assert (T58 : ~ In 58 t) by (apply unreserved_no; auto).
    pose proof (vdigest_needs_colon linked t T58) as Hnd.
    assert (W : ~ In 47 (s "manifests")) by lit_notin.
    route_go repo (s "manifests") t W T47 Tne (not_blobs (s "manifests") t eq_refl) pq_nil.
    vstep. reflexivity.
  Qed.

  (* ---------- /v2/<repo>/tags/list?... ---------- *)
  Lemma parse_tags m repo q urlq n last : vrepo repo = true -> (n <= max_int64)%Z ->
    parse_query q = (urlq, false) ->
    qget (s "n") urlq = (if (0 <=? n)%Z then dec_Z n else []) -> qget (s "last") urlq = last ->
    parse_req linked m (v2 ++ repo ++ 47 :: s "tags" ++ 47 :: s "list") q =
    if negb (beqb m m_GET) then Err (PSentinel PMethodNotAllowed)
    else Ok (mkreq ReqTagsList repo [] [] [] [] (norm_listn n) last).
  Proof.
    intros Hr Hmax Hq Hn Hl.
    assert (W : ~ In 47 (s "tags")) by lit_notin. assert (W2 : ~ In 47 (s "list")) by lit_notin.
    assert (W3 : s "list" <> []) by discriminate.
    route_go repo (s "tags") (s "list") W W2 W3 (not_blobs (s "tags") (s "list") eq_refl) Hq.
    cbn [negb]. rewrite (slqp_ok _ urlq n last Hmax Hn Hl). vstep. reflexivity.
  Qed.

  (* ---------- /v2/_catalog?... ---------- *)
  Lemma parse_catalog q urlq n last : (n <= max_int64)%Z ->
    parse_query q = (urlq, false) ->
    qget (s "n") urlq = (if (0 <=? n)%Z then dec_Z n else []) -> qget (s "last") urlq = last ->
    parse_req linked m_GET (v2 ++ s "_catalog") q =
    Ok (mkreq ReqCatalogList [] [] [] [] [] (norm_listn n) last).
  Proof.
    intros Hmax Hq Hn Hl.
    assert (NE : s "_catalog" <> []) by discriminate.
    rewrite (parse_req_v2 _ _ _ _ NE Hq). unfold parse_req_rest. cbv zeta.
    lit_beqb. cbn [negb]. cbv iota. rewrite (slqp_ok _ urlq n last Hmax Hn Hl). reflexivity.
  Qed.

  (* ---------- /v2/<repo>/blobs/uploads/<base64url(id)> ---------- *)
  Lemma b64_text id : id <> [] -> utf8_valid id = true ->
    let e := b64u_encode id in
    forallb unreserved e = true /\ ~ In 47 e /\ e <> [] /\ b64u_decode e = Some id.
  Proof.
    intros Hne Hu e. pose proof (utf8_valid_bytes id Hu) as Hb.
    assert (U : forallb unreserved e = true).
    { eapply forallb_impl; [|exact (b64u_encode_alpha id Hb)]. exact b64u_alpha_unreserved. }
    repeat split; auto.
    - apply unreserved_no; auto.
    - now apply b64u_encode_nonempty.
    - now apply b64u_roundtrip.
  Qed.

  Lemma parse_upload m repo id q urlq : vrepo repo = true -> id <> [] -> utf8_valid id = true ->
    parse_query q = (urlq, false) ->
    parse_req linked m (v2 ++ (repo ++ s "/blobs") ++ 47 :: s "uploads" ++ 47 :: b64u_encode id) q =
    let rq := mkreq ReqPing repo [] [] [] id 0 [] in
    if beqb m m_GET then Ok (set_kind ReqBlobUploadInfo rq)
    else if beqb m m_PATCH then Ok (set_kind ReqBlobUploadChunk rq)
    else if beqb m m_PUT then
      let rq := set_digest (qget (s "digest") urlq) (set_kind ReqBlobCompleteUpload rq) in
      if vdigest linked (qget (s "digest") urlq) then Ok rq else Err (PSentinel PBadlyFormedDigest)
    else Err (PSentinel PMethodNotAllowed).
  Proof.
    intros Hr Hne Hu Hq. destruct (b64_text id Hne Hu) as (Eu & E47 & Ene & Edec).
    set (e := b64u_encode id) in *.
    assert (W : ~ In 47 (s "uploads")) by lit_notin.
    route_go (repo ++ s "/blobs") (s "uploads") e W E47 Ene (not_blobs (s "uploads") e eq_refl) Hq.
    rewrite cut_suffix_app. vstep. destruct e as [|e0 e1]; [congruence|]. rewrite Edec, Hu. cbn [negb].
    cbv zeta. vstep. destruct (vdigest linked (qget (s "digest") urlq)); reflexivity.
  Qed.

  (* ---------- POST /v2/<repo>/blobs/uploads/?... ---------- *)
  Ltac uploads_root repo Hq :=
    let NE := fresh "NE" in let C := fresh "C" in
    assert (NE : repo ++ s "/blobs/uploads/" <> []) by (destruct repo; discriminate);
    assert (C : beqb (repo ++ s "/blobs/uploads/") (s "_catalog") = false)
      by (apply beqb_neq; intros E;
          assert (Hin : In 47 (repo ++ s "/blobs/uploads/")) by (apply in_or_app; right; now left);
          rewrite E in Hin; revert Hin; lit_notin);
    rewrite (parse_req_v2 _ _ _ _ NE Hq);
    unfold parse_req_rest; cbv zeta; rewrite C, cut_suffix_app; cbv beta iota; vstep; lit_beqb;
    cbn [negb qget]; lit_beqb; cbv iota.

  Lemma parse_start repo : vrepo repo = true ->
    parse_req linked m_POST (v2 ++ repo ++ s "/blobs/uploads/") [] =
    Ok (mkreq ReqBlobStartUpload repo [] [] [] [] 0 []).
  Proof. intros Hr. uploads_root repo pq_nil. reflexivity. Qed.

  Lemma parse_upload_blob repo d q : vrepo repo = true -> vdigest linked d = true ->
    parse_query q = ([(s "digest", d)], false) ->
    parse_req linked m_POST (v2 ++ repo ++ s "/blobs/uploads/") q =
    Ok (mkreq ReqBlobUploadBlob repo d [] [] [] 0 []).
  Proof.
    intros Hr Hd Hq. destruct (vdigest_chars linked d Hd) as (_ & _ & _ & Dne).
    uploads_root repo Hq. destruct d as [|d0 d1]; [congruence|]. vstep. reflexivity.
  Qed.

  Lemma parse_mount repo d f q : vrepo repo = true -> vdigest linked d = true ->
    (f = [] \/ vrepo f = true) ->
    parse_query q = ([(s "mount", d); (s "from", f)], false) ->
    parse_req linked m_POST (v2 ++ repo ++ s "/blobs/uploads/") q =
    Ok (match f with
        | [] => mkreq ReqBlobStartUpload repo [] [] [] [] 0 []
        | _ => mkreq ReqBlobMount repo d [] f [] 0 []
        end).
  Proof.
    intros Hr Hd Hf Hq. destruct (vdigest_chars linked d Hd) as (_ & _ & _ & Dne).
    uploads_root repo Hq. destruct d as [|d0 d1]; [congruence|]. vstep.
    destruct f as [|f0 f1]; [reflexivity|]. destruct Hf as [Hf|Hf]; [discriminate|]. vstep. reflexivity.
  Qed.


  (* ================================================================ the theorem, kind by kind *)

  Definition codec_ok (r : request) : Prop :=
    exists path rawq,
      url_parse_v2 (snd (construct r)) = Ok (path, rawq) /\
      parse_req linked (fst (construct r)) path rawq = Ok (norm r).

  Lemma safe_two a w l : forallb safe a = true -> forallb safe w = true -> forallb safe l = true ->
    forallb safe (a ++ 47 :: w ++ 47 :: l) = true.
  Proof.
    intros Ha Hw Hl. rewrite forallb_app. cbn [forallb]. rewrite forallb_app. cbn [forallb].
    now rewrite Ha, Hw, Hl.
  Qed.

  Lemma upload_path_assoc (repo e : bytes) :
    repo ++ s "/blobs/uploads/" ++ e = (repo ++ s "/blobs") ++ 47 :: s "uploads" ++ 47 :: e.
  Proof. now rewrite <- app_assoc. Qed.

  Lemma upload_path_safe repo id : vrepo repo = true -> id <> [] -> utf8_valid id = true ->
    forallb safe (repo ++ s "/blobs/uploads/" ++ b64u_encode id) = true.
  Proof.
    intros Hr Hne Hu. destruct (b64_text id Hne Hu) as (Eu & _).
    rewrite !forallb_app, (repo_safe repo Hr). cbn [andb].
    rewrite (forallb_impl _ _ _ unreserved_safe Eu). reflexivity.
  Qed.

  Lemma upload_ok_split r : upload_ok r = true -> q_upload r <> [] /\ utf8_valid (q_upload r) = true.
  Proof.
    unfold upload_ok. intros H. apply andb_true_iff in H as [H1 H2]. split; auto. now apply nonempty_true.
  Qed.

  Ltac split_wf H :=
    repeat match type of H with
           | _ && _ = true => let H' := fresh "W" in apply andb_true_iff in H as [H H']
           end.

  Lemma codec_blobs k repo d t f u n l :
    k = ReqBlobGet \/ k = ReqBlobHead \/ k = ReqBlobDelete ->
    vrepo repo = true -> vdigest linked d = true -> codec_ok (mkreq k repo d t f u n l).
  Proof.
    intros Hk Hr Hd. destruct (vdigest_chars linked d Hd) as (Ds & _).
    exists (v2 ++ repo ++ 47 :: s "blobs" ++ 47 :: d), [].
    destruct Hk as [ -> | [ -> | -> ]]; (split;
      [ exact (url_parse_path _ (safe_two repo (s "blobs") d (repo_safe repo Hr) eq_refl Ds))
      | exact (parse_blob _ repo d Hr Hd) ]).
  Qed.

  Lemma codec_referrers repo d t f u n l :
    vrepo repo = true -> vdigest linked d = true -> codec_ok (mkreq ReqReferrersList repo d t f u n l).
  Proof.
    intros Hr Hd. destruct (vdigest_chars linked d Hd) as (Ds & _).
    exists (v2 ++ repo ++ 47 :: s "referrers" ++ 47 :: d), []. split.
    - exact (url_parse_path _ (safe_two repo (s "referrers") d (repo_safe repo Hr) eq_refl Ds)).
    - exact (parse_referrers m_GET repo d Hr Hd).
  Qed.

  Definition is_manifest_kind (k : kind) : Prop :=
    k = ReqManifestGet \/ k = ReqManifestHead \/ k = ReqManifestPut \/ k = ReqManifestDelete.

  Lemma codec_manifest_digest k repo d f u n l : is_manifest_kind k ->
    vrepo repo = true -> vdigest linked d = true -> codec_ok (mkreq k repo d [] f u n l).
  Proof.
    intros Hk Hr Hd. destruct (vdigest_chars linked d Hd) as (Ds & _).
    exists (v2 ++ repo ++ 47 :: s "manifests" ++ 47 :: d), [].
    destruct Hk as [->|[ -> | [ -> | -> ]]]; (split;
      [ exact (url_parse_path _ (safe_two repo (s "manifests") d (repo_safe repo Hr) eq_refl Ds))
      | exact (parse_manifest_digest _ repo d Hr Hd) ]).
  Qed.

  Lemma codec_manifest_tag k repo d t0 t1 f u n l : is_manifest_kind k ->
    vrepo repo = true -> vtag (t0 :: t1) = true -> codec_ok (mkreq k repo d (t0 :: t1) f u n l).
  Proof.
    intros Hk Hr Ht. destruct (vtag_chars _ Ht) as (Tu & _).
    pose proof (forallb_impl _ _ _ unreserved_safe Tu) as Ts.
    exists (v2 ++ repo ++ 47 :: s "manifests" ++ 47 :: t0 :: t1), [].
    destruct Hk as [->|[ -> | [ -> | -> ]]]; (split;
      [ exact (url_parse_path _ (safe_two repo (s "manifests") (t0 :: t1) (repo_safe repo Hr) eq_refl Ts))
      | exact (parse_manifest_tag _ repo (t0 :: t1) Hr Ht) ]).
  Qed.

  Lemma codec_upload k repo d t f u n l :
    k = ReqBlobUploadInfo \/ k = ReqBlobUploadChunk ->
    vrepo repo = true -> u <> [] -> utf8_valid u = true -> codec_ok (mkreq k repo d t f u n l).
  Proof.
    intros Hk Hr Hne Hu. pose proof (upload_path_safe repo u Hr Hne Hu) as Ps.
    exists (v2 ++ (repo ++ s "/blobs") ++ 47 :: s "uploads" ++ 47 :: b64u_encode u), [].
    rewrite <- upload_path_assoc.
    destruct Hk as [ -> | -> ]; (split;
      [ exact (url_parse_path _ Ps)
      | rewrite upload_path_assoc; exact (parse_upload _ repo u [] [] Hr Hne Hu pq_nil) ]).
  Qed.

  Lemma codec_complete repo d t f u n l :
    vrepo repo = true -> u <> [] -> utf8_valid u = true -> vdigest linked d = true ->
    codec_ok (mkreq ReqBlobCompleteUpload repo d t f u n l).
  Proof.
    intros Hr Hne Hu Hd. pose proof (upload_path_safe repo u Hr Hne Hu) as Ps.
    destruct (vdigest_chars linked d Hd) as (Ds & _).
    assert (Hq : parse_query (s "digest" ++ 61 :: d) = ([(s "digest", d)], false)).
    { apply parse_query_one; try lit_notin; try solve [apply (safe_not_in d); auto 10]; try reflexivity.
      now apply unescape_safe. }
    exists (v2 ++ (repo ++ s "/blobs") ++ 47 :: s "uploads" ++ 47 :: b64u_encode u), (s "digest" ++ 61 :: d).
    split.
    - cbn [construct q_kind snd]. unfold upload_path. cbn [q_repo q_upload q_digest].
      rewrite <- upload_path_assoc, <- app_assoc.
      apply (url_parse_path_query _ (s "digest" ++ 61 :: d) Ps).
      rewrite forallb_app. cbn [forallb]. rewrite (forallb_impl _ _ _ safe_qsafe Ds). reflexivity.
    - cbn [construct q_kind fst]. rewrite (parse_upload m_PUT repo u _ _ Hr Hne Hu Hq).
      cbv zeta. lit_beqb. cbv iota. cbn [qget]. lit_beqb. cbv iota. rewrite Hd. reflexivity.
  Qed.

  Lemma uploads_root_safe repo : vrepo repo = true -> forallb safe (repo ++ s "/blobs/uploads/") = true.
  Proof. intros Hr. now rewrite forallb_app, (repo_safe repo Hr). Qed.

  Lemma codec_start repo d t f u n l :
    vrepo repo = true -> codec_ok (mkreq ReqBlobStartUpload repo d t f u n l).
  Proof.
    intros Hr. exists (v2 ++ repo ++ s "/blobs/uploads/"), []. split.
    - exact (url_parse_path _ (uploads_root_safe repo Hr)).
    - exact (parse_start repo Hr).
  Qed.

  Lemma codec_upload_blob repo d t f u n l :
    vrepo repo = true -> vdigest linked d = true -> codec_ok (mkreq ReqBlobUploadBlob repo d t f u n l).
  Proof.
    intros Hr Hd. destruct (vdigest_chars linked d Hd) as (Ds & _).
    assert (Hq : parse_query (s "digest" ++ 61 :: d) = ([(s "digest", d)], false)).
    { apply parse_query_one; try lit_notin; try solve [apply (safe_not_in d); auto 10]; try reflexivity.
      now apply unescape_safe. }
    exists (v2 ++ repo ++ s "/blobs/uploads/"), (s "digest" ++ 61 :: d). split.
    - cbn [construct q_kind snd q_repo q_digest].
      change (repo ++ s "/blobs/uploads/?digest=" ++ d)
        with (repo ++ s "/blobs/uploads/" ++ 63 :: s "digest" ++ 61 :: d).
      rewrite (app_assoc repo).
      apply (url_parse_path_query _ (s "digest" ++ 61 :: d) (uploads_root_safe repo Hr)).
      rewrite forallb_app. cbn [forallb]. rewrite (forallb_impl _ _ _ safe_qsafe Ds). reflexivity.
    - exact (parse_upload_blob repo d _ Hr Hd Hq).
  Qed.

  Lemma codec_mount repo d t f u n l :
    vrepo repo = true -> vdigest linked d = true -> match f with [] => true | f' => vrepo f' end = true ->
    codec_ok (mkreq ReqBlobMount repo d t f u n l).
  Proof.
    intros Hr Hd Hf. destruct (vdigest_chars linked d Hd) as (Ds & _).
    assert (Fs : forallb safe f = true) by (destruct f; [reflexivity | now apply repo_safe]).
    assert (Hf' : f = [] \/ vrepo f = true) by (destruct f; auto).
    set (q := (s "mount" ++ 61 :: d) ++ 38 :: s "from" ++ 61 :: f).
    assert (Hq : parse_query q = ([(s "mount", d); (s "from", f)], false)).
    { apply parse_query_two; try lit_notin; try solve [apply (safe_not_in d); auto 10];
        try solve [apply (safe_not_in f); auto 10]; try reflexivity; now apply unescape_safe. }
    exists (v2 ++ repo ++ s "/blobs/uploads/"), q. split.
    - cbn [construct q_kind snd q_repo q_digest q_from].
      change (repo ++ s "/blobs/uploads/?mount=" ++ d ++ s "&from=" ++ f)
        with (repo ++ s "/blobs/uploads/" ++ 63 :: q).
      rewrite (app_assoc repo).
      apply (url_parse_path_query _ q (uploads_root_safe repo Hr)).
      unfold q. rewrite !forallb_app. cbn [forallb]. rewrite forallb_app. cbn [forallb].
      rewrite (forallb_impl _ _ _ safe_qsafe Ds), (forallb_impl _ _ _ safe_qsafe Fs). reflexivity.
    - cbn [construct q_kind fst]. rewrite (parse_mount repo d f q Hr Hd Hf' Hq).
      destruct f; reflexivity.
  Qed.

  Lemma list_ok_max r : list_ok r = true -> (q_listn r <= max_int64)%Z.
  Proof. unfold list_ok. intros H. apply andb_true_iff in H as [H _]. now apply Z.leb_le. Qed.

  Lemma codec_tags repo d t f u n l :
    vrepo repo = true -> list_ok (mkreq ReqTagsList repo d t f u n l) = true ->
    codec_ok (mkreq ReqTagsList repo d t f u n l).
  Proof.
    intros Hr Hl. set (r := mkreq ReqTagsList repo d t f u n l) in *.
    destruct (list_params_parse r Hl) as (q & urlq & Elp & Qs & Pq & Gn & Gl).
    pose proof (list_ok_max r Hl) as Hmax.
    exists (v2 ++ repo ++ 47 :: s "tags" ++ 47 :: s "list"), q. split.
    - cbn [construct q_kind snd r]. rewrite Elp. cbn [q_repo]. rewrite (app_assoc repo).
      apply (url_parse_optq (repo ++ 47 :: s "tags" ++ 47 :: s "list") q); auto.
      apply safe_two; auto. now apply repo_safe.
    - exact (parse_tags m_GET repo q urlq n l Hr Hmax Pq Gn Gl).
  Qed.

  Lemma codec_catalog repo d t f u n l :
    list_ok (mkreq ReqCatalogList repo d t f u n l) = true ->
    codec_ok (mkreq ReqCatalogList repo d t f u n l).
  Proof.
    intros Hl. set (r := mkreq ReqCatalogList repo d t f u n l) in *.
    destruct (list_params_parse r Hl) as (q & urlq & Elp & Qs & Pq & Gn & Gl).
    pose proof (list_ok_max r Hl) as Hmax.
    exists (v2 ++ s "_catalog"), q. split.
    - cbn [construct q_kind snd r]. rewrite Elp.
      apply (url_parse_optq (s "_catalog") q); auto.
    - exact (parse_catalog q urlq n l Hmax Pq Gn Gl).
  Qed.

  Theorem url_codec_sec r : wf_request linked r = true -> codec_ok r.
  Proof.
    destruct r as [k repo d t f u n l].
    destruct k; cbn [wf_request q_kind q_repo q_digest q_tag q_from q_upload]; intros H; split_wf H.
    - exists (s "/v2/"), []. split; reflexivity.
    - apply codec_blobs; auto.
    - apply codec_blobs; auto.
    - apply codec_blobs; auto.
    - now apply codec_start.
    - now apply codec_upload_blob.
    - apply codec_mount; auto. destruct f; auto.
    - destruct (upload_ok_split _ W). apply codec_upload; auto.
    - destruct (upload_ok_split _ W). apply codec_upload; auto.
    - destruct (upload_ok_split _ W0). now apply codec_complete.
    - destruct t as [|t0 t1]; [apply codec_manifest_digest | apply codec_manifest_tag]; unfold is_manifest_kind; auto.
    - destruct t as [|t0 t1]; [apply codec_manifest_digest | apply codec_manifest_tag]; unfold is_manifest_kind; auto.
    - destruct t as [|t0 t1]; [apply codec_manifest_digest | apply codec_manifest_tag]; unfold is_manifest_kind; auto.
    - destruct t as [|t0 t1]; [apply codec_manifest_digest | apply codec_manifest_tag]; unfold is_manifest_kind; auto 6.
    - now apply codec_tags.
    - now apply codec_referrers.
    - now apply codec_catalog.
  Qed.

End Codec.

(* ================================================================ the theorems *)

(* construct ; url.Parse ; parse = norm, for every well-formed request of every kind *)
Theorem url_codec : forall linked (r : request),
  wf_request linked r = true ->
  exists path rawq,
    url_parse_v2 (snd (construct r)) = Ok (path, rawq) /\
    parse_req linked (fst (construct r)) path rawq = Ok (norm r).
Proof. exact url_codec_sec. Qed.

(* two well-formed requests rendered to the same method + URL are the same up to norm *)
Theorem url_codec_injective : forall linked r1 r2,
  wf_request linked r1 = true -> wf_request linked r2 = true ->
  construct r1 = construct r2 -> norm r1 = norm r2.
Proof.
  intros linked r1 r2 H1 H2 E.
  destruct (url_codec linked r1 H1) as (p1 & q1 & U1 & P1).
  destruct (url_codec linked r2 H2) as (p2 & q2 & U2 & P2).
  rewrite E in U1, P1. rewrite U1 in U2. injection U2 as <- <-. rewrite P1 in P2. now injection P2.
Qed.

(* Construct (construct, then url.Parse and Parse as a check) succeeds on a well-formed
   request and returns what construct returns; MustConstruct does not panic *)
Theorem construct_ok : forall linked r, wf_request linked r = true ->
  Construct linked r = Ok (construct r).
Proof.
  intros linked r H. destruct (url_codec linked r H) as (p & q & U & P).
  unfold Construct. destruct (construct r) as [m u]. cbn [fst snd] in U, P. now rewrite U, P.
Qed.

Corollary must_construct_ok : forall linked r, wf_request linked r = true ->
  MustConstruct linked r = Ok (construct r).
Proof. intros linked r H. unfold MustConstruct. now rewrite (construct_ok linked r H). Qed.

(* ---------- the boolean form of the conclusion, for examples ---------- *)

Lemma kind_eqb_eq a b : kind_eqb a b = true -> a = b.
Proof. destruct a, b; intros H; try reflexivity; vm_compute in H; discriminate. Qed.

Lemma request_eqb_eq a b : request_eqb a b = true -> a = b.
Proof.
  destruct a as [k1 a1 a2 a3 a4 a5 n1 a6], b as [k2 b1 b2 b3 b4 b5 n2 b6]. unfold request_eqb. cbn [q_kind q_repo q_digest q_tag q_from q_upload q_listn q_last].
  intros H. repeat (apply andb_true_iff in H as [H ?]).
  apply kind_eqb_eq in H. repeat match goal with X : beqb _ _ = true |- _ => apply beqb_eq in X end.
  match goal with X : Z.eqb _ _ = true |- _ => apply Z.eqb_eq in X end. now subst.
Qed.

Lemma codec_holds_spec linked r : codec_holds linked r = true ->
  exists path rawq,
    url_parse_v2 (snd (construct r)) = Ok (path, rawq) /\
    parse_req linked (fst (construct r)) path rawq = Ok (norm r).
Proof.
  unfold codec_holds. destruct (url_parse_v2 (snd (construct r))) as [[p q]| | |]; try discriminate.
  destruct (parse_req linked (fst (construct r)) p q) as [r'| | |] eqn:E; try discriminate.
  intros H. apply request_eqb_eq in H. subst. eauto.
Qed.

(* ---------- repository names and tags that are routing words ---------- *)

Definition all_linked (a : alg) : bool := true.
Definition dg_example : bytes := s "sha256:e3b0c44298fc1c149afbf4c8996fb92427ae41e4649b934ca495991b7852b855".

Definition routing_word_requests : list request := [
  mkreq ReqBlobGet (s "a/blobs/uploads") dg_example [] [] [] 0 [];
  mkreq ReqBlobHead (s "blobs") dg_example [] [] [] 0 [];
  mkreq ReqBlobDelete (s "tags/list") dg_example [] [] [] 0 [];
  mkreq ReqBlobStartUpload (s "x/manifests") [] [] [] [] 0 [];
  mkreq ReqBlobUploadBlob (s "blobs/uploads") dg_example [] [] [] 0 [];
  mkreq ReqBlobMount (s "blobs/uploads") dg_example [] (s "uploads/blobs") [] 0 [];
  mkreq ReqBlobUploadInfo (s "blobs/uploads") [] [] [] (s "blobs/uploads/?digest=x#") 0 [];
  mkreq ReqBlobCompleteUpload (s "v2") dg_example [] [] (s "uploads") 0 [];
  mkreq ReqManifestGet (s "x/manifests") [] (s "uploads") [] [] 0 [];
  mkreq ReqManifestHead (s "blobs") [] (s "list") [] [] 0 [];
  mkreq ReqManifestPut (s "tags") [] (s "list") [] [] 0 [];
  mkreq ReqManifestDelete (s "blobs/uploads") [] (s "blobs") [] [] 0 [];
  mkreq ReqTagsList (s "tags") [] [] [] [] 3 (s "list");
  mkreq ReqTagsList (s "tags/list") [] [] [] [] (-7) (s "a b&n=9;e+f%g#h?/" ++ [0; 255; 127]);
  mkreq ReqReferrersList (s "referrers") dg_example [] [] [] 0 [];
  mkreq ReqCatalogList [] [] [] [] [] 9223372036854775807 (s "_catalog")
].

Example url_codec_routing_words :
  forallb (fun r => wf_request all_linked r && codec_holds all_linked r) routing_word_requests = true.
Proof. vm_compute. reflexivity. Qed.

(* the hypotheses of wf_request are used: without them the round trip fails *)
Example wf_needed :
  map (codec_holds all_linked) [
    mkreq ReqBlobUploadInfo (s "foo") [] [] [] [] 0 [];                       (* empty upload ID *)
    mkreq ReqTagsList (s "foo") [] [] [] [] 9223372036854775808 [];          (* ListN = MaxInt64+1 *)
    mkreq ReqBlobGet (s "foo") (s "uploads") [] [] [] 0 [];                  (* "digest" uploads *)
    mkreq ReqBlobGet (s "Foo") dg_example [] [] [] 0 [];                      (* invalid repository *)
    mkreq ReqManifestGet (s "foo") [] (s "a/b") [] [] 0 []                   (* tag with a slash *)
  ] = [false; false; false; false; false].
Proof. vm_compute. reflexivity. Qed.


(* ================================================================ the converse: parse, then construct *)

Lemma byte_list_app a b : byte_list (a ++ b) = byte_list a && byte_list b.
Proof. apply forallb_app. Qed.

Lemma byte_list_rev a : byte_list a = true -> byte_list (rev a) = true.
Proof.
  unfold byte_list. rewrite !forallb_forall. intros H c Hc. apply H. now apply in_rev.
Qed.

Lemma unhex_lt c : unhex c < 16.
Proof.
  unfold unhex.
  destruct ((48 <=? c) && (c <=? 57)) eqn:E1.
  { apply andb_true_iff in E1 as [A B]. apply N.leb_le in A, B. lia. }
  destruct ((97 <=? c) && (c <=? 102)) eqn:E2.
  { apply andb_true_iff in E2 as [A B]. apply N.leb_le in A, B. lia. }
  destruct ((65 <=? c) && (c <=? 70)) eqn:E3; [|lia].
  apply andb_true_iff in E3 as [A B]. apply N.leb_le in A, B. lia.
Qed.

Lemma unescape_bytes plus : forall n a b, (length a <= n)%nat ->
  byte_list a = true -> unescape plus a = Some b -> byte_list b = true.
Proof.
  induction n as [|n IH]; intros a b Hlen Ha H; destruct a as [|c r].
  - injection H as <-. reflexivity.
  - cbn in Hlen. lia.
  - injection H as <-. reflexivity.
  - cbn [length] in Hlen. unfold byte_list in Ha. cbn [forallb] in Ha. apply andb_true_iff in Ha as [Hc Hr].
    cbn [unescape] in H. destruct (c =? 37).
    + destruct r as [|h1 [|h2 r']]; try discriminate.
      destruct (ishex h1 && ishex h2); try discriminate.
      destruct (unescape plus r') as [t|] eqn:E; try discriminate. injection H as <-.
      cbn [forallb] in Hr. apply andb_true_iff in Hr as [_ Hr]. apply andb_true_iff in Hr as [_ Hr].
      cbn [length] in Hlen.
      unfold byte_list. cbn [forallb]. fold (byte_list t). rewrite (IH r' t) by (auto; lia).
      pose proof (unhex_lt h1). pose proof (unhex_lt h2).
      replace (unhex h1 * 16 + unhex h2 <? 256) with true by (symmetry; apply N.ltb_lt; lia). reflexivity.
    + destruct (unescape plus r) as [t|] eqn:E; try discriminate. injection H as <-.
      unfold byte_list. cbn [forallb]. fold (byte_list t). rewrite (IH r t) by (auto; lia).
      destruct (plus && (c =? 43)); [reflexivity | now rewrite Hc].
Qed.

Lemma cut_or_all_bytes c a l r : byte_list a = true -> cut_or_all c a = (l, r) ->
  byte_list l = true /\ byte_list r = true.
Proof.
  unfold cut_or_all. intros Ha H. destruct (cut_byte c a) as [[l' r']|] eqn:E.
  - injection H as <- <-. apply cut_byte_some in E as [-> _]. rewrite byte_list_app in Ha.
    apply andb_true_iff in Ha as [A B]. unfold byte_list in B. cbn [forallb] in B.
    apply andb_true_iff in B as [_ B]. auto.
  - injection H as <- <-. auto.
Qed.

Definition values_bytes (m : values) : Prop := Forall (fun kv => byte_list (snd kv) = true) m.

Lemma parse_query_piece_bytes piece m e : byte_list piece = true -> values_bytes m ->
  values_bytes (fst (parse_query_piece piece (m, e))).
Proof.
  intros Hp Hm. unfold parse_query_piece. destruct (contains_byte 59 piece); [exact Hm|].
  destruct piece as [|c0 p0] eqn:Ep; [exact Hm|]. rewrite <- Ep in *.
  destruct (cut_or_all 61 piece) as [k v] eqn:Ec.
  destruct (cut_or_all_bytes _ _ _ _ Hp Ec) as [Hk Hv].
  destruct (query_unescape k) as [k'|]; [|exact Hm].
  destruct (query_unescape v) as [v'|] eqn:Ev; [|exact Hm].
  cbn [fst]. apply Forall_app. split; [exact Hm|]. constructor; [|constructor]. cbn [snd].
  eapply (unescape_bytes true); eauto.
Qed.

Lemma split_byte_aux_bytes c a : forall cur, byte_list a = true -> byte_list cur = true ->
  Forall (fun p => byte_list p = true) (split_byte_aux c a cur).
Proof.
  induction a as [|d a IH]; intros cur Ha Hc; cbn [split_byte_aux].
  - constructor; [now apply byte_list_rev | constructor].
  - unfold byte_list in Ha. cbn [forallb] in Ha. apply andb_true_iff in Ha as [Hd Ha].
    destruct (d =? c).
    + constructor; [now apply byte_list_rev | now apply IH].
    + apply IH; auto. unfold byte_list. cbn [forallb]. now rewrite Hd.
Qed.

Lemma parse_query_bytes q : byte_list q = true -> values_bytes (fst (parse_query q)).
Proof.
  intros Hq. unfold parse_query. destruct q as [|c0 q0] eqn:Eq; [constructor|]. rewrite <- Eq in *.
  pose proof (split_byte_aux_bytes 38 q [] Hq eq_refl) as Hs. fold (split_byte 38 q) in Hs.
  assert (G : forall l acc, Forall (fun p => byte_list p = true) l -> values_bytes (fst acc) ->
              values_bytes (fst (fold_left (fun acc piece => parse_query_piece piece acc) l acc))).
  { induction l as [|p l IH]; intros acc Hl Ha; [exact Ha|]. cbn [fold_left].
    inversion Hl; subst. apply IH; auto. destruct acc as [m e]. now apply parse_query_piece_bytes. }
  apply G; auto. constructor.
Qed.

Lemma qget_bytes k m : values_bytes m -> byte_list (qget k m) = true.
Proof.
  induction 1 as [|[k' v] m Hv _ IH]; [reflexivity|]. cbn [qget]. destruct (beqb k k'); auto.
Qed.

Lemma parse_int_range a v : parse_int a = Some v -> (min_int64 <= v <= max_int64)%Z.
Proof.
  unfold parse_int.
  match goal with |- context [let '(_, _) := ?x in _] => destruct x as [neg ds] end.
  destruct ds; [discriminate|]. destruct (digits_val _ 0) as [w|]; [|discriminate].
  destruct ((min_int64 <=? _) && _)%Z eqn:E; [|discriminate]. intros H. injection H as <-.
  apply andb_true_iff in E as [A B]. apply Z.leb_le in A, B. auto.
Qed.

Lemma slqp_shape r u r' : set_list_query_params r u = Ok r' ->
  exists n, (n <= max_int64)%Z /\ r' = set_last (qget (s "last") u) (set_listn n r).
Proof.
  unfold set_list_query_params. destruct (qget (s "n") u) as [|c0 n0] eqn:En.
  - intros H. injection H as <-. exists (-1)%Z. split; [unfold max_int64; lia | reflexivity].
  - destruct (parse_int (c0 :: n0)) as [n|] eqn:Ep; [|discriminate]. intros H. injection H as <-.
    exists n. split; [now apply parse_int_range in Ep | reflexivity].
Qed.

Section Converse.
  Variable linked : alg -> bool.

  Definition conv_good (res : PR) : Prop :=
    match res with
    | Ok r => parser_canonical r = true -> wf_request linked r = true /\ norm r = r
    | _ => True
    end.

  Ltac cstep :=
    match goal with
    | |- conv_good (pred (valid_repo ?w) _) => rewrite (valid_repo_eq w); cbn [pred]
    | |- conv_good (pred (valid_digest _ ?w) _) => rewrite (valid_digest_eq linked w); cbn [pred]
    | |- conv_good (pred (valid_tag ?w) _) => rewrite (valid_tag_eq w); cbn [pred]
    | |- conv_good (if ?x then _ else _) => destruct x eqn:?
    | |- conv_good (match ?x with _ => _ end) => destruct x eqn:?
    | |- conv_good (Err _) => exact I
    end.

  Ltac unfold_req :=
    cbn [set_kind set_repo set_digest set_tag set_from set_upload set_listn set_last zero_request
         q_kind q_repo q_digest q_tag q_from q_upload q_listn q_last] in *.

  Ltac use_hyps :=
    repeat match goal with
           | H : ?x = true |- context [?x] => rewrite H
           | H : qget ?k ?u = _ |- context [qget ?k ?u] => rewrite H
           end.

  Lemma norm_listn_id n : (-1 <=? n)%Z = true -> norm_listn n = n.
  Proof.
    intros H. apply Z.leb_le in H. unfold norm_listn. destruct (n <? 0)%Z eqn:E; [|reflexivity].
    apply Z.ltb_lt in E. lia.
  Qed.

  Lemma list_leaf k repo n urlq : (k = ReqTagsList \/ k = ReqCatalogList) ->
    values_bytes urlq -> (n <= max_int64)%Z ->
    (k = ReqTagsList -> vrepo repo = true) -> (k = ReqCatalogList -> repo = []) ->
    let r := mkreq k repo [] [] [] [] n (qget (s "last") urlq) in
    parser_canonical r = true -> wf_request linked r = true /\ norm r = r.
  Proof.
    intros Hk Hvb Hn Hr1 Hr2 r Hc. unfold parser_canonical in Hc. apply andb_true_iff in Hc as [Hc _].
    cbn [q_listn r] in Hc.
    assert (L : list_ok r = true).
    { unfold list_ok. cbn [q_listn q_last r]. apply andb_true_iff. split; [now apply Z.leb_le|].
      exact (qget_bytes _ _ Hvb). }
    destruct Hk as [-> | ->].
    - unfold wf_request, norm. cbn [q_kind r q_repo q_listn q_last]. fold r.
      rewrite L, (norm_listn_id n Hc), (Hr1 eq_refl). split; reflexivity.
    - pose proof (Hr2 eq_refl) as E. subst repo.
      unfold wf_request, norm. cbn [q_kind r q_repo q_listn q_last]. fold r.
      rewrite L, (norm_listn_id n Hc). split; reflexivity.
  Qed.

  Theorem parse_req_conv m p q : byte_list q = true -> conv_good (parse_req linked m p q).
  Proof.
    intros Hq. pose proof (parse_query_bytes q Hq) as Hvb.
    unfold parse_req. destruct (parse_query q) as [urlq qerr]. cbn [fst] in Hvb.
    destruct qerr; [exact I|].
    destruct (beqb p (s "/v2") || beqb p (s "/v2/")).
    { intros _. split; reflexivity. }
    destruct (cut_prefix (s "/v2/") p) as [rest|]; [|exact I].
    unfold parse_req_rest.
    destruct (beqb rest (s "_catalog")).
    { destruct (negb (beqb m m_GET)); [exact I|].
      match goal with |- conv_good (match set_list_query_params ?r ?u with _ => _ end) =>
        destruct (set_list_query_params r u) as [r'|e| |] eqn:E end.
      - apply slqp_shape in E as (n & Hn & ->).
        unfold conv_good. unfold_req. apply (list_leaf ReqCatalogList [] n urlq); auto; discriminate.
      - intros _. split; reflexivity.
      - intros _. split; reflexivity.
      - intros _. split; reflexivity. }
    cbv zeta.
    repeat cstep.
    all: unfold conv_good.
    all: try exact I.
    all: try match goal with
             | H : set_list_query_params _ _ = Ok _ |- _ => apply slqp_shape in H as (nn & Hnn & ->)
             end.
    all: intros Hc.
    all: repeat match goal with
                | H : negb _ = false |- _ => apply negb_false_iff in H
                | H : negb _ = true |- _ => apply negb_true_iff in H
                end.
    all: unfold_req.
    all: try solve [apply (list_leaf ReqTagsList _ _ urlq); auto; discriminate].
    all: try match goal with
             | H : vtag ?w = true |- _ => destruct w; [apply vtag_nonempty in H; congruence|]
             end.
    all: unfold parser_canonical in Hc; unfold wf_request, norm, upload_ok; unfold_req.
    all: use_hyps.
    all: try solve [split; reflexivity].
    all: apply andb_true_iff in Hc as [_ Hc]; rewrite Hc; split; reflexivity.
  Qed.

End Converse.

(* What parse returns, construct renders back to the same request: a request returned by
   parse for a raw query of bytes is well formed and a fixed point of norm, provided ListN >= -1
   and (upload kinds) the upload ID is not empty -- the two things parse can produce that
   construct cannot print (parser_canonical, Model/RequestCodecSpec.v). *)
Theorem parse_construct : forall linked m p q r,
  byte_list q = true -> parse_req linked m p q = Ok r -> parser_canonical r = true ->
  wf_request linked r = true /\ norm r = r /\
  exists path rawq,
    url_parse_v2 (snd (construct r)) = Ok (path, rawq) /\
    parse_req linked (fst (construct r)) path rawq = Ok r.
Proof.
  intros linked m p q r Hq Hp Hc. pose proof (parse_req_conv linked m p q Hq) as G.
  rewrite Hp in G. destruct (G Hc) as [W N]. split; [exact W|]. split; [exact N|].
  destruct (url_codec linked r W) as (path & rawq & U & P). rewrite N in P. eauto.
Qed.

(* both side conditions are needed: parse accepts these two, and they do not come back
   (confirmed on the Go code: Parse gives UploadID "" for the path element %0A and Construct
   then fails with "method not allowed"; "?n=-5" gives ListN -5 which is rendered without n) *)
Example parse_construct_refuted :
  (exists r, parse_req all_linked m_GET (s "/v2/foo/blobs/uploads/" ++ [10]) [] = Ok r /\
             q_upload r = [] /\ Construct all_linked r = Err tt) /\
  (exists r, parse_req all_linked m_GET (s "/v2/_catalog") (s "n=-5") = Ok r /\
             q_listn r = (-5)%Z /\ q_listn (norm r) = (-1)%Z /\ codec_holds all_linked r = true).
Proof. split; eexists; (split; [vm_compute; reflexivity|]); vm_compute; auto. Qed.

Print Assumptions parse_construct.
Print Assumptions parse_construct_refuted.
Print Assumptions url_codec.
Print Assumptions url_codec_injective.
Print Assumptions construct_ok.
Print Assumptions must_construct_ok.
Print Assumptions codec_holds_spec.
Print Assumptions url_codec_routing_words.
Print Assumptions wf_needed.
