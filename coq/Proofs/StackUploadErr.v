(* C03 (c), error variants of PushBlob over the stack (Proofs/StackTransparent.v has the
   successful session only):

     transparent_PushBlob_err_start    the backend refuses PushBlobChunked (an unknown or invalid
                                       repository, say): the caller gets that error as the hop
                                       renders it; the backend has seen the one call
     transparent_PushBlob_err_commit   the session is opened and the content written, the backend
                                       refuses Commit (digest mismatch): the caller gets that
                                       error; the backend has seen the session up to Commit and the
                                       deferred Close -- the upload session stays behind *)
From Coq Require Import String.
From OCI Require Import Model.Stack Proofs.Request Proofs.StackBase Proofs.StackDesc Proofs.StackRead Proofs.StackRange.
From OCI Require Import Model.RequestCodecSpec Proofs.RequestCodec Proofs.StackUpload Proofs.StackTransparent.
From OCI Require Proofs.Errors Proofs.Server.

Local Open Scope Z_scope.

Section EmitErr.
  Variable linked : alg -> bool.
  Variable digest_of : bytes -> bytes.
  Variable subject_of : bytes -> option (option bytes).
  Variable enc : jval -> bytes.
  Variable redirect : bytes -> bytes -> bytes * bytes.
  Variable B : Type.
  Variable bstep : backend B.
  Variable o : opts.

  Notation H := (handle linked digest_of subject_of enc redirect B bstep o).

  Ltac fin :=
    cbn [h_b h_tr h_w fst snd set_hdr write_header write_body upd_w log rev app finish
         w_status w_hdrs w_body w_json rw0 as_desc as_read as_unit desc_of data_of negb].

  (* POST .../blobs/uploads/ when PushBlobChunked fails *)
  Lemma emit_start_upload_err b req r b1 e wr :
    parse_req linked (hq_method req) (hq_path req) (hq_rawquery req) = Ok r ->
    Request.q_kind r = Request.ReqBlobStartUpload ->
    bstep b (PushBlobChunked (q_repo r) 0) = (b1, Err e) ->
    serve_error go_sprefix go_cprefix e = Ok wr ->
    H b req = (b1, [ECall (PushBlobChunked (q_repo r) 0) (Err e)], Ok (err_resp enc [] wr)).
  Proof.
    intros Hp Hk H1 Hs. unfold Server.handle, Server.v2. rewrite Hp. unfold Server.dispatch. rewrite Hk.
    unfold handle_blob_start_upload, call. fin. rewrite H1. cbn [as_writer]. fin.
    rewrite (write_error_rw0 _ _ _ _ _ _ Hs). fin. reflexivity.
  Qed.

  (* the closing PUT when Commit fails: Resume, Write, Commit, the deferred Close, the error exit *)
  Lemma emit_complete_upload_err b req r b1 b2 b3 b4 start end_ vw vn e rc wr :
    parse_req linked (hq_method req) (hq_path req) (hq_rawquery req) = Ok r ->
    Request.q_kind r = Request.ReqBlobCompleteUpload ->
    chunk_range req = Ok (start, end_) -> hq_body req <> [] ->
    bstep b (PushBlobChunkedResume (q_repo r) (q_upload r) start (wrap64 (end_ - start))) = (b1, Ok vw) ->
    bstep b1 (WWrite (wid_of vw) (hq_body req)) = (b2, Ok vn) -> n_of vn = blen (hq_body req) ->
    bstep b2 (WCommit (wid_of vw) (q_digest r)) = (b3, Err e) ->
    bstep b3 (WClose (wid_of vw)) = (b4, rc) -> rc <> Panic -> rc <> OutOfFuel ->
    serve_error go_sprefix go_cprefix e = Ok wr ->
    H b req = (b4, [ECall (PushBlobChunkedResume (q_repo r) (q_upload r) start (wrap64 (end_ - start))) (Ok vw);
                    ECall (WWrite (wid_of vw) (hq_body req)) (Ok vn);
                    ECall (WCommit (wid_of vw) (q_digest r)) (Err e); ECall (WClose (wid_of vw)) rc],
               Ok (err_resp enc [] wr)).
  Proof.
    intros Hp Hk Hcr Hbody H1 H2 Hn H3 H4 Hnp Hnf Hs.
    unfold Server.handle, Server.v2. rewrite Hp. unfold Server.dispatch. rewrite Hk.
    unfold handle_blob_complete_upload. rewrite Hcr. unfold call. fin. rewrite H1. cbn [as_writer].
    unfold copy_body, call. destruct (hq_body req) as [|c0 body] eqn:Eb; [congruence|]. fin. rewrite H2.
    rewrite Hn, Z.eqb_refl. fin. rewrite H3. cbn [as_desc].
    unfold defer_close, call. fin. rewrite H4.
    destruct rc; try congruence; fin; rewrite (write_error_rw0 _ _ _ _ _ _ Hs); fin; reflexivity.
  Qed.
End EmitErr.

Section ClientErr.
  Variable linked : alg -> bool.
  Variable hash : bytes -> bytes -> bytes.
  Variable subject_of : bytes -> option (option bytes).
  Variable media : bytes -> bytes.
  Variable enc : jval -> bytes.
  Variable dec_errors : bytes -> option (list werr).
  Variable dec_names : bool -> bytes -> option (list bytes).
  Variable dec_index : bytes -> option (list desc).
  Variable redirect : bytes -> bytes -> bytes * bytes.
  Variable B : Type.
  Variable bstep : backend B.
  Variable o : opts.
  Variable cc : ccfg.

  Hypothesis media_json : media json_ct = json_ct.
  Hypothesis json_errors_rt : forall w, dec_errors (enc (JErr w)) = Some [w].

  Notation serve := (serve_stack linked hash subject_of enc redirect bstep o).
  Notation env := (stack_env linked hash media dec_errors dec_names dec_index).
  Notation call_ := (stack_call linked hash subject_of media enc dec_errors dec_names dec_index redirect bstep o cc).
  Notation W := (world (srv B)).
  Notation merr := (marshal_error go_sprefix go_cprefix).
  Notation werror := (wire_error enc).

  Lemma start_codec repo : vrepo repo = true ->
    codec_at linked (req_of (start_upload_rreq repo)) (mkreq Request.ReqBlobStartUpload repo [] [] [] [] 0 []).
  Proof.
    intros Hr. unfold start_upload_rreq.
    change (mkreq Request.ReqBlobStartUpload repo [] [] [] [] 0 [])
      with (norm (req_of (mk_rreq Http.ReqBlobStartUpload repo [] []))).
    apply codec_of_wf. unfold wf_request.
    cbn [Request.q_kind req_of kind_of mk_rreq Http.q_kind Http.q_repo Http.q_digest Http.q_tag Http.q_from
         Http.q_upload Http.q_n Http.q_last Request.q_repo Request.q_digest Request.q_tag Request.q_from].
    rewrite Hr. reflexivity.
  Qed.

  Lemma not_accepted st oks : 400 <= st <= 599 -> Forall (fun x => 200 <= x <= 299) oks -> oks <> [] ->
    status_accepted oks st = false.
  Proof.
    intros Hst Hok Hne. unfold status_accepted. destruct oks as [|o0 oks']; [congruence|].
    apply not_true_is_false. intros Hx. apply existsb_exists in Hx as (x & Hin & Hx).
    apply Z.eqb_eq in Hx. subst x. rewrite Forall_forall in Hok. apply Hok in Hin. lia.
  Qed.

  (* the backend refuses to open the upload *)
  Theorem transparent_PushBlob_err_start (w : W) repo d present rew data b1 e :
    vrepo repo = true ->
    bstep (sv_b (w_srv w)) (PushBlobChunked repo 0) = (b1, Err e) ->
    conf_err e -> blen (enc (JErr (r_err (merr e)))) <= 8192 ->
    exists w',
      call_ (CPushBlob repo d present rew data) w = (w', ODesc (Err (werror false e)))
      /\ w_srv w' = after B (w_srv w) b1 [ECall (PushBlobChunked repo 0) (Err e)].
  Proof.
    intros Hr H1 He Hlen.
    pose proof (start_codec repo Hr) as Hc.
    pose proof (codec_construct_ok _ _ _ Hc) as HC. destruct Hc as (p & rawq & Hu & Hp).
    rewrite construct_method in Hp.
    unfold stack_call, Client.run, push_blob, bind, new_request. cbn [e_construct_ok stack_env].
    unfold Stack.construct_ok. rewrite HC. unfold ret.
    change {| rq_method := kind_method (Http.q_kind (start_upload_rreq repo)); rq_url := UReq (start_upload_rreq repo);
              rq_header := []; rq_body := BNil; rq_clen := 0 |} with (request_of (start_upload_rreq repo)).
    pose proof He as [Hte Hst]. destruct (err_status_facts _ Hst) as (Hrd & Hnb & Hok).
    rewrite (client_do_stack linked hash subject_of media enc dec_errors dec_names dec_index redirect B bstep o
               (request_of (start_upload_rreq repo)) [202] w _ b1 [ECall (PushBlobChunked repo 0) (Err e)]
               (err_resp enc [] (merr e)) (to_server_req_of (start_upload_rreq repo) p rawq Hu)).
    2:{ apply (emit_start_upload_err linked (digest_of hash) subject_of enc redirect B bstep o
                 (sv_b (w_srv w)) (plain_req MPost p rawq) _ b1 e (merr e) Hp eq_refl H1 (conf_err_serve e He)). }
    2:{ exact Hrd. }
    cbv zeta. cbn [p_status err_resp r_status marshal_error]. rewrite Hok. cbn [negb].
    rewrite (not_accepted _ [202] Hst) by (try (repeat constructor; lia); discriminate).
    unfold fail_make_error.
    erewrite make_error_stack; try eassumption; try reflexivity; [|apply json_errors_rt].
    rewrite request_of_method. cbn [start_upload_rreq Http.q_kind kind_method meth_eqb].
    eexists. split; reflexivity.
  Qed.

  (* the session is opened, the content written, the backend refuses Commit *)
  Theorem transparent_PushBlob_err_commit (w : W) repo d data b1 b2 b3 b4 b5 b6 b7 b8 vw vid vcs rc vw2 vn e rc2 :
    vrepo repo = true -> vdigest linked (d_digest d) = true ->
    d_size d = blen data -> 1 <= blen data <= max_int64 ->
    bstep (sv_b (w_srv w)) (PushBlobChunked repo 0) = (b1, Ok vw) ->
    bstep b1 (WID (wid_of vw)) = (b2, Ok vid) -> good_upload_id (str_of vid) ->
    bstep b2 (WChunkSize (wid_of vw)) = (b3, Ok vcs) ->
    bstep b3 (WClose (wid_of vw)) = (b4, rc) -> rc <> Panic -> rc <> OutOfFuel ->
    bstep b4 (PushBlobChunkedResume repo (str_of vid) 0 (blen data)) = (b5, Ok vw2) ->
    bstep b5 (WWrite (wid_of vw2) data) = (b6, Ok vn) -> n_of vn = blen data ->
    bstep b6 (WCommit (wid_of vw2) (d_digest d)) = (b7, Err e) ->
    bstep b7 (WClose (wid_of vw2)) = (b8, rc2) -> rc2 <> Panic -> rc2 <> OutOfFuel ->
    conf_err e -> blen (enc (JErr (r_err (merr e)))) <= 8192 ->
    exists w',
      call_ (CPushBlob repo d true true data) w = (w', ODesc (Err (werror false e)))
      /\ w_srv w' = after B (after B (w_srv w) b4
                              [ECall (PushBlobChunked repo 0) (Ok vw); ECall (WID (wid_of vw)) (Ok vid);
                               ECall (WChunkSize (wid_of vw)) (Ok vcs); ECall (WClose (wid_of vw)) rc]) b8
                           [ECall (PushBlobChunkedResume repo (str_of vid) 0 (blen data)) (Ok vw2);
                            ECall (WWrite (wid_of vw2) data) (Ok vn);
                            ECall (WCommit (wid_of vw2) (d_digest d)) (Err e); ECall (WClose (wid_of vw2)) rc2].
  Proof.
    intros Hr Hd Hsz Hlen H1 H2 Hid H3 H4 Hc1 Hc2 H5 H6 Hn H7 H8 Hc3 Hc4 He Hlen8.
    set (id := str_of vid) in *. set (dg := d_digest d) in *.
    assert (Hne : data <> []) by (intros ->; cbn in Hlen; lia).
    pose proof (start_codec repo Hr) as Hc.
    pose proof (codec_construct_ok _ _ _ Hc) as HC. destruct Hc as (p & rawq & Hu & Hp).
    rewrite construct_method in Hp.
    unfold stack_call, Client.run, push_blob, bind, new_request. cbn [e_construct_ok stack_env].
    unfold Stack.construct_ok. rewrite HC. unfold ret.
    change {| rq_method := kind_method (Http.q_kind (start_upload_rreq repo)); rq_url := UReq (start_upload_rreq repo);
              rq_header := []; rq_body := BNil; rq_clen := 0 |} with (request_of (start_upload_rreq repo)).
    (* the POST *)
    rewrite (client_do_stack linked hash subject_of media enc dec_errors dec_names dec_index redirect B bstep o
               (request_of (start_upload_rreq repo)) [202] w _ b4
               [ECall (PushBlobChunked repo 0) (Ok vw); ECall (WID (wid_of vw)) (Ok vid);
                ECall (WChunkSize (wid_of vw)) (Ok vcs); ECall (WClose (wid_of vw)) rc]
               (mkresp 202 (hset H_chunk_min (dec_Z (n_of vcs)) (hset H_range (s "0-0") (hset H_location (upath repo id) [])))
                       [] None)
               (to_server_req_of (start_upload_rreq repo) p rawq Hu)).
    2:{ apply (emit_start_upload linked (digest_of hash) subject_of enc redirect B bstep o
                 (sv_b (w_srv w)) (plain_req MPost p rawq) _ Hp b1 b2 b3 b4 vw vid vcs rc
                 (upath repo id) eq_refl H1 H2 (location_ok linked repo id Hr Hid) H3 H4 Hc1 Hc2). }
    2:{ reflexivity. }
    cbv zeta. cbn [p_status]. change (status_accepted [202] 202) with true. cbn iota.
    unfold lift, location_from_response, rheader, got. cbn [hr_rs hr_req].
    rewrite rs_header_of_server_resp. cbn [p_hdrs]. change location_hdr with H_location. hdrs.
    assert (Hnel : is_empty (upath repo id) = false) by reflexivity. rewrite Hnel.
    cbn [e_url_ok stack_env]. unfold url_ok. rewrite (upath_parse repo id Hr Hid). cbn [negb].
    rewrite Hsz. destruct (Z.ltb_spec (blen data) 0); [lia|]. destruct (Z.eqb_spec (blen data) 0); [lia|].
    cbn [andb]. destruct data as [|c0 data'] eqn:Ed; [congruence|]. rewrite <- Ed in *.
    assert (Eb : body_of_reader true true data = BData data true) by (rewrite Ed; reflexivity).
    rewrite Eb. rewrite andb_false_r.
    cbv iota. change (blenZ data) with (blen data). rewrite Z.eqb_refl. cbn [negb]. rewrite andb_false_r.
    change {| rq_method := MPut; rq_url := UDigest (URef (rq_url (request_of (start_upload_rreq repo))) (upath repo id)) dg;
              rq_header := [(h_content_range, Http.range_string 0 (blen data)); (h_content_type, octet_stream)];
              rq_body := BData data true; rq_clen := blen data |}
      with (put_blob_request (rq_url (request_of (start_upload_rreq repo))) (upath repo id) dg (blen data) data).
    (* the PUT *)
    set (sput := mkhreq m_PUT (upath repo id) (s "digest=" ++ query_escape dg) []
                        (Request.range_string 0 (blen data)) octet_stream (blen data) data).
    assert (Hcr : chunk_range sput = Ok (0, blen data)) by (apply (chunk_range_whole sput (blen data) Hlen); reflexivity).
    assert (Hw64 : wrap64 (blen data - 0) = blen data)
      by (rewrite Z.sub_0_r; apply wrap64_small; unfold min_int64, max_int64 in *; lia).
    assert (H5' : bstep b4 (PushBlobChunkedResume repo id 0 (wrap64 (blen data - 0))) = (b5, Ok vw2))
      by (rewrite Hw64; exact H5).
    pose proof (emit_complete_upload_err linked (digest_of hash) subject_of enc redirect B bstep o
                  b4 sput _ b5 b6 b7 b8 0 (blen data) vw2 vn e rc2 (merr e)
                  (complete_parse linked repo id dg Hr Hid Hd) eq_refl Hcr Hne H5' H6 Hn H7 H8 Hc3 Hc4
                  (conf_err_serve e He)) as Eh.
    cbn [Request.q_repo Request.q_upload Request.q_digest] in Eh. rewrite Hw64 in Eh.
    pose proof He as [Hte Hst]. destruct (err_status_facts _ Hst) as (Hrd & Hnb & Hok).
    match goal with |- context [client_do (srv B) serve env ?rq [201] ?w1] =>
      rewrite (client_do_stack linked hash subject_of media enc dec_errors dec_names dec_index redirect B bstep o
                 rq [201] w1 sput b8
                 [ECall (PushBlobChunkedResume repo id 0 (blen data)) (Ok vw2); ECall (WWrite (wid_of vw2) data) (Ok vn);
                  ECall (WCommit (wid_of vw2) dg) (Err e); ECall (WClose (wid_of vw2)) rc2]
                 (err_resp enc [] (merr e))
                 (to_server_req_put_blob _ repo id dg data Hr Hid Hne))
    end.
    2:{ cbn [w_srv logged sv_b after]. exact Eh. }
    2:{ exact Hrd. }
    cbv zeta. cbn [p_status err_resp r_status marshal_error]. rewrite Hok. cbn [negb].
    rewrite (not_accepted _ [201] Hst) by (try (repeat constructor; lia); discriminate).
    unfold fail_make_error.
    erewrite make_error_stack; try eassumption; try reflexivity; [|apply json_errors_rt].
    cbn [rq_method put_blob_request meth_eqb]. eexists. split; reflexivity.
  Qed.
End ClientErr.

Print Assumptions transparent_PushBlob_err_start.
Print Assumptions transparent_PushBlob_err_commit.
