(* Proofs about Model/AuthFile.v (C19). *)
From Coq Require Import String.
From OCI Require Import Model.AuthFile.
From Coq Require Import Permutation.

(* ================================================================ maps *)

Lemma map_get_set_same {V} k (v : V) m : map_get k (map_set k v m) = Some v.
Proof.
  induction m as [|[k' v'] m IH]; cbn.
  - now rewrite beqb_refl.
  - destruct (beqb k k') eqn:E; cbn; rewrite E; auto.
Qed.

Lemma map_get_set_other {V} k k' (v : V) m : k' <> k -> map_get k' (map_set k v m) = map_get k' m.
Proof.
  intros Hn. induction m as [|[k2 v2] m IH]; cbn.
  - apply beqb_neq in Hn. now rewrite Hn.
  - destruct (beqb k k2) eqn:E; cbn.
    + apply beqb_eq in E. subst k2. apply beqb_neq in Hn. now rewrite Hn.
    + now rewrite IH.
Qed.

Lemma map_set_id {V} k (v : V) m : map_get k m = Some v -> map_set k v m = m.
Proof.
  induction m as [|[k' v'] m IH]; cbn; [discriminate|].
  destruct (beqb k k') eqn:E.
  - intros H. injection H as ->. reflexivity.
  - intros H. now rewrite IH.
Qed.

Lemma map_get_some_keys {V} k (v : V) m : map_get k m = Some v -> In k (keys m).
Proof.
  induction m as [|[k' v'] m IH]; cbn; [discriminate|].
  destruct (beqb k k') eqn:E.
  - apply beqb_eq in E. auto.
  - auto.
Qed.

Lemma map_get_none_keys {V} k (m : list (bytes * V)) : map_get k m = None <-> ~ In k (keys m).
Proof.
  induction m as [|[k' v'] m IH]; cbn; [tauto|].
  destruct (beqb k k') eqn:E.
  - apply beqb_eq in E. subst. split; [discriminate | intros H; exfalso; auto].
  - apply beqb_neq in E. rewrite IH. split; [intros H [H1|H1]; auto | tauto].
Qed.

Lemma map_get_In {V} k (v : V) m : map_get k m = Some v -> In (k, v) m.
Proof.
  induction m as [|[k' v'] m IH]; cbn; [discriminate|].
  destruct (beqb k k') eqn:E.
  - apply beqb_eq in E. intros H. injection H as ->. subst. auto.
  - auto.
Qed.

Lemma In_map_get {V} k (v : V) m : NoDup (keys m) -> In (k, v) m -> map_get k m = Some v.
Proof.
  induction m as [|[k' v'] m IH]; cbn; [tauto|]. intros Hnd [H|H].
  - injection H as -> ->. now rewrite beqb_refl.
  - inversion Hnd as [|? ? Hni Hnd']; subst.
    destruct (beqb k k') eqn:E.
    + apply beqb_eq in E. subst. exfalso. apply Hni. change k' with (fst (k', v)). now apply in_map.
    + auto.
Qed.

Lemma orig_iff {V} k (m : list (bytes * V)) : mem_bytes k (keys m) = true <-> exists v, map_get k m = Some v.
Proof.
  rewrite mem_bytes_In. split.
  - intros H. destruct (map_get k m) eqn:E; eauto. apply map_get_none_keys in E. contradiction.
  - intros [v H]. eapply map_get_some_keys; eauto.
Qed.

Lemma orig_false {V} k (m : list (bytes * V)) : mem_bytes k (keys m) = false <-> map_get k m = None.
Proof.
  rewrite map_get_none_keys, <- mem_bytes_In. destruct (mem_bytes k (keys m)); split; congruence.
Qed.

(* ================================================================ strings *)

Lemma url_host_no_slash u : ~ In 47 (url_host u).
Proof.
  unfold url_host.
  set (st := if has_prefix _ u then _ else _).
  destruct (cut_byte 47 st) as [[h r]|] eqn:E.
  - now apply cut_byte_some in E as [_ H].
  - now apply cut_byte_none in E.
Qed.

Lemma contains_slashslash_In a : contains slashslash a = true -> In 47 a.
Proof.
  induction a as [|c a IH]; cbn [contains].
  - cbn. discriminate.
  - intros H. apply orb_true_iff in H as [H|H].
    + unfold slashslash in H. cbn [has_prefix] in H. apply andb_true_iff in H as [H _].
      apply N.eqb_eq in H. now left.
    + right. auto.
Qed.

Lemma url_host_not_url u : contains slashslash (url_host u) = false.
Proof.
  destruct (contains slashslash (url_host u)) eqn:E; [|reflexivity].
  apply contains_slashslash_In in E. now apply url_host_no_slash in E.
Qed.

(* a URL-form key is never its own host *)
Lemma url_host_neq k : contains slashslash k = true -> url_host k <> k.
Proof.
  intros H E. rewrite <- E in H. now rewrite url_host_not_url in H.
Qed.

Lemma insert_sorted_length a l : length (insert_sorted a l) = S (length l).
Proof.
  induction l as [|b l IH]; cbn; [reflexivity|]. destruct (bleb a b); cbn; auto.
Qed.

Lemma sort_bytes_length l : length (sort_bytes l) = length l.
Proof.
  induction l as [|a l IH]; cbn; [reflexivity|]. now rewrite insert_sorted_length, IH.
Qed.

(* ================================================================ trimming *)

Lemma trim_left_byte_id c a : hd_error a <> Some c -> trim_left_byte c a = a.
Proof.
  destruct a as [|d a]; cbn; [reflexivity|]. intros H.
  destruct (N.eqb_spec d c); [subst; now elim H | reflexivity].
Qed.

Lemma trim_right_byte_id c a : hd_error (rev a) <> Some c -> trim_right_byte c a = a.
Proof.
  intros H. unfold trim_right_byte. rewrite trim_left_byte_id by assumption. apply rev_involutive.
Qed.

Lemma trim_byte_id c a : hd_error a <> Some c -> hd_error (rev a) <> Some c -> trim_byte c a = a.
Proof.
  intros H1 H2. unfold trim_byte. rewrite trim_right_byte_id by assumption. now apply trim_left_byte_id.
Qed.

(* ================================================================ decodeAuth *)

Lemma cut_byte_app c u r : ~ In c u -> cut_byte c (u ++ c :: r) = Some (u, r).
Proof.
  induction u as [|d u IH]; cbn; intros H.
  - now rewrite N.eqb_refl.
  - destruct (N.eqb_spec d c); [subst; exfalso; auto|].
    rewrite IH; auto.
Qed.

Lemma is_bytes_app a b : is_bytes a -> is_bytes b -> is_bytes (a ++ b).
Proof. intros. apply Forall_app. now split. Qed.

(* what decodeAuth does to base64(user:password), with no condition on the password *)
Lemma decode_auth_encoded u pw :
  is_bytes u -> is_bytes pw -> u <> [] -> ~ In 58 u ->
  decode_auth (b64_encode (u ++ 58 :: pw)) = Ok (u, trim_byte 0 pw).
Proof.
  intros Hu Hp Hne Hc. unfold decode_auth.
  rewrite b64_roundtrip.
  2:{ apply Forall_app. split; [assumption|]. constructor; [reflexivity | assumption]. }
  rewrite cut_byte_app by assumption.
  destruct u; [congruence|]. reflexivity.
Qed.

Lemma decode_auth_roundtrip u pw :
  is_bytes u -> is_bytes pw -> u <> [] -> ~ In 58 u ->
  hd_error pw <> Some 0 -> hd_error (rev pw) <> Some 0 ->
  decode_auth (b64_encode (u ++ 58 :: pw)) = Ok (u, pw).
Proof.
  intros Hu Hp Hne Hc H1 H2. rewrite decode_auth_encoded by assumption.
  now rewrite trim_byte_id.
Qed.

(* the property as written excludes only a TRAILING NUL: refuted by a leading one *)
Lemma decode_auth_leading_nul_refuted :
  exists u pw, is_bytes u /\ is_bytes pw /\ u <> [] /\ ~ In 58 u /\ hd_error (rev pw) <> Some 0 /\
               decode_auth (b64_encode (u ++ 58 :: pw)) <> Ok (u, pw).
Proof.
  exists (s "u"), (0 :: s "p"). repeat split.
  - repeat constructor.
  - repeat constructor.
  - discriminate.
  - cbn. intros [H|[]]. discriminate.
  - cbn. discriminate.
  - vm_compute. discriminate.
Qed.

Lemma decode_auth_shape a : match decode_auth a with Ok _ | Err _ => True | _ => False end.
Proof.
  unfold decode_auth. destruct (b64_decode a) as [sd|]; [|exact I].
  destruct (cut_byte 58 sd) as [[u p]|]; [|exact I]. destruct (negb (nonempty u)); exact I.
Qed.

(* ================================================================ decode_entry *)

(* the entry after the auth field has been decoded, if it can be *)
Definition decoded (ac : auth_config) : option auth_config :=
  match decode_entry [] ac with Ok a => Some a | _ => None end.

Lemma decode_entry_decoded addr ac :
  match decoded ac with
  | Some a => decode_entry addr ac = Ok a
  | None => exists e, decode_entry addr ac = Err e
  end.
Proof.
  unfold decoded, decode_entry. destruct (nonempty (ac_auth ac)); [|reflexivity].
  pose proof (decode_auth_shape (ac_auth ac)) as S.
  destruct (decode_auth (ac_auth ac)) as [[u p]|e| |]; try contradiction; eauto.
Qed.

Lemma decoded_fields ac a : decoded ac = Some a ->
  ac_derived a = ac_derived ac /\ ac_auth a = ac_auth ac /\ ac_idtok a = ac_idtok ac /\ ac_regtok a = ac_regtok ac.
Proof.
  unfold decoded, decode_entry. destruct (nonempty (ac_auth ac)).
  - destruct (decode_auth (ac_auth ac)) as [[u p]|e| |]; try discriminate.
    intros H. injection H as <-. cbn. auto.
  - intros H. injection H as <-. auto.
Qed.

Lemma decoded_noauth ac : ac_auth ac = [] -> decoded ac = Some ac.
Proof. unfold decoded, decode_entry. now intros ->. Qed.

Lemma decoded_auth ac : ac_auth ac <> [] ->
  decoded ac = match decode_auth (ac_auth ac) with
               | Ok (u, p) => Some (set_userpass ac u p)
               | _ => None
               end.
Proof.
  unfold decoded, decode_entry. intros H. destruct (ac_auth ac) as [|c r] eqn:E; [congruence|]. cbn [nonempty].
  destruct (decode_auth (c :: r)) as [[u p]|e| |]; reflexivity.
Qed.

(* decoding again changes nothing, whatever derivedFrom has become meanwhile *)
Lemma decoded_stable ac a d : decoded ac = Some a -> decoded (with_derived a d) = Some (with_derived a d).
Proof.
  unfold decoded, decode_entry. destruct (nonempty (ac_auth ac)) eqn:En.
  - destruct (decode_auth (ac_auth ac)) as [[u p]|e| |] eqn:Ed; try discriminate.
    intros H. injection H as <-. cbn. rewrite En, Ed. reflexivity.
  - intros H. injection H as <-. cbn. now rewrite En.
Qed.

Lemma with_derived_self a : with_derived a (ac_derived a) = a.
Proof. now destruct a. Qed.

Lemma with_derived_twice a d d' : with_derived (with_derived a d) d' = with_derived a d'.
Proof. reflexivity. Qed.

(* ================================================================ the loop invariant *)

Definition is_src (h k : bytes) : bool := contains slashslash k && beqb (url_host k) h.
Definition srcs (D : list bytes) (h : bytes) : list bytes := filter (is_src h) D.

(* the members of "auths" whose URL-form key names host h, in document order *)
Definition url_entries (m0 : amap) (h : bytes) : amap := filter (fun kv => is_src h (fst kv)) m0.

Lemma is_src_host h k : is_src h k = true -> h = url_host k /\ contains slashslash k = true.
Proof.
  unfold is_src. intros H. apply andb_true_iff in H as [H1 H2]. apply beqb_eq in H2. auto.
Qed.

Lemma srcs_app D x h : srcs (D ++ [x]) h = srcs D h ++ (if is_src h x then [x] else []).
Proof. unfold srcs. rewrite filter_app. reflexivity. Qed.

Lemma srcs_perm D D' h : Permutation D D' -> Permutation (srcs D h) (srcs D' h).
Proof.
  unfold srcs. induction 1; cbn.
  - constructor.
  - destruct (is_src h x); auto.
  - destruct (is_src h x), (is_src h y); auto using perm_swap.
  - eauto using perm_trans.
Qed.

Lemma srcs_keys (m : amap) h : srcs (keys m) h = keys (url_entries m h).
Proof.
  unfold srcs, url_entries, keys. induction m as [|[k a] m IH]; cbn [map filter fst]; [reflexivity|].
  destruct (is_src h k); cbn [map fst]; now rewrite IH.
Qed.

Section Loop.
  Variable m0 : amap.
  Hypothesis Hwf : wf_auths m0.

  Definition orig (k : bytes) : bool := mem_bytes k (keys m0).

  Lemma orig_derived k a : map_get k m0 = Some a -> ac_derived a = [].
  Proof.
    intros H. apply map_get_In in H. destruct Hwf as [_ Hd].
    rewrite Forall_forall in Hd. exact (Hd _ H).
  Qed.

  (* D: the original keys produced so far, in order; m: the map now *)
  Definition Inv (D : list bytes) (m : amap) : Prop :=
    (forall k a, map_get k m0 = Some a ->
        (In k D -> exists a', decoded a = Some a' /\ map_get k m = Some a')
        /\ (~ In k D -> map_get k m = Some a))
    /\
    (forall h, map_get h m0 = None ->
        match map_get h m with
        | None => srcs D h = []
        | Some x => exists k0 rest a0 a0',
            srcs D h = k0 :: rest /\ map_get k0 m0 = Some a0 /\ decoded a0 = Some a0'
            /\ with_derived x [] = a0' /\ length (ac_derived x) = length (srcs D h)
        end).

  Lemma Inv_init : Inv [] m0.
  Proof.
    split.
    - intros k a H. split; [intros []|auto].
    - intros h H. now rewrite H.
  Qed.

  (* an original key is produced and no derived entry is touched *)
  Lemma Inv_visit_plain D m x a a' :
    Inv D m -> map_get x m0 = Some a -> ~ In x D -> decoded a = Some a' ->
    (forall h, map_get h m0 = None -> is_src h x = false) ->
    Inv (D ++ [x]) (map_set x a' m).
  Proof.
    intros [I1 I2] Hx Hni Hd Hns. split.
    - intros k b Hk. destruct (bytes_eq_dec k x) as [->|Hne].
      + rewrite Hx in Hk. injection Hk as <-. split.
        * intros _. exists a'. split; [assumption | apply map_get_set_same].
        * intros H. exfalso. apply H. apply in_or_app. right. now left.
      + rewrite map_get_set_other by assumption. destruct (I1 k b Hk) as [A B]. split.
        * intros H. apply in_app_or in H as [H|[H|[]]]; [auto | congruence].
        * intros H. apply B. intros H'. apply H. apply in_or_app. now left.
    - intros h Hh. assert (h <> x) by congruence.
      rewrite map_get_set_other by assumption. rewrite srcs_app, (Hns h Hh), app_nil_r.
      apply I2. assumption.
  Qed.

  (* an original URL-form key x is produced and its host h is not an original key:
     the derived entry for h is created or extended *)
  Lemma Inv_visit_derive D m x a a' h y :
    Inv D m -> map_get x m0 = Some a -> ~ In x D -> decoded a = Some a' ->
    is_src h x = true -> map_get h m0 = None ->
    (match map_get h m with
     | None => y = with_derived a' (sort_bytes (ac_derived a' ++ [x]))
     | Some xh => y = with_derived xh (sort_bytes (ac_derived xh ++ [x]))
     end) ->
    Inv (D ++ [x]) (map_set h y (map_set x a' m)).
  Proof.
    intros [I1 I2] Hx Hni Hd Hsrc Hh Hy.
    assert (Hhx : h <> x) by congruence.
    split.
    - intros k b Hk. assert (k <> h) by congruence.
      rewrite map_get_set_other by assumption.
      destruct (bytes_eq_dec k x) as [->|Hne].
      + rewrite Hx in Hk. injection Hk as <-. split.
        * intros _. exists a'. split; [assumption | apply map_get_set_same].
        * intros H'. exfalso. apply H'. apply in_or_app. right. now left.
      + rewrite map_get_set_other by assumption. destruct (I1 k b Hk) as [A B]. split.
        * intros H'. apply in_app_or in H' as [H'|[H'|[]]]; [auto | congruence].
        * intros H'. apply B. intros H2. apply H'. apply in_or_app. now left.
    - intros h' Hh'. destruct (bytes_eq_dec h' h) as [->|Hne].
      + rewrite map_get_set_same. rewrite srcs_app, Hsrc.
        specialize (I2 h Hh). destruct (map_get h m) as [xh|] eqn:E.
        * destruct I2 as (k0 & rest & a0 & a0' & S1 & S2 & S3 & S4 & S5).
          exists k0, (rest ++ [x]), a0, a0'. subst y. cbn [ac_derived with_derived].
          repeat split; try assumption.
          -- now rewrite S1.
          -- rewrite sort_bytes_length, !app_length, S5. reflexivity.
        * assert (Da' : ac_derived a' = []).
          { destruct (decoded_fields _ _ Hd) as (F1 & _). now rewrite (orig_derived _ _ Hx) in F1. }
          exists x, [], a, a'. subst y. rewrite I2, Da'. cbn [app ac_derived with_derived sort_bytes insert_sorted].
          repeat split; try assumption.
          destruct a'; cbn in *. now subst.
      + rewrite map_get_set_other by assumption.
        assert (h' <> x) by congruence.
        rewrite map_get_set_other by assumption. rewrite srcs_app.
        replace (is_src h' x) with false.
        2:{ symmetry. destruct (is_src h' x) eqn:E; [|reflexivity].
            apply is_src_host in E as [E _]. apply is_src_host in Hsrc as [E' _]. congruence. }
        rewrite app_nil_r. apply I2. assumption.
  Qed.

  (* one iteration *)
  Lemma step_char D m x :
    Inv D m -> (orig x = true -> ~ In x D) ->
    match decode_step x m with
    | Ok m' => Inv (if orig x then D ++ [x] else D) m'
    | Err _ => exists a, map_get x m0 = Some a /\ decoded a = None
    | _ => False
    end.
  Proof.
    intros HI Hfresh. pose proof HI as [I1 I2]. unfold decode_step.
    destruct (map_get x m) as [ac|] eqn:Eg.
    2:{ (* not a key of the map *)
      destruct (orig x) eqn:Eo; [|assumption].
      apply orig_iff in Eo as [a Ha]. destruct (I1 x a Ha) as [A B].
      rewrite B in Eg by auto. discriminate. }
    destruct (map_get x m0) as [a|] eqn:E0.
    - (* an original key, not produced before *)
      assert (Eo : orig x = true) by (apply orig_iff; eauto).
      rewrite Eo. specialize (Hfresh Eo).
      destruct (I1 x a E0) as [_ B]. rewrite (B Hfresh) in Eg. injection Eg as <-.
      pose proof (decode_entry_decoded x a) as Hd.
      destruct (decoded a) as [a'|] eqn:Ed.
      2:{ destruct Hd as [e ->]. cbn. eauto. }
      rewrite Hd. cbn [rbind].
      destruct (contains slashslash x) eqn:Ec; cbn [negb].
      2:{ eapply Inv_visit_plain; eauto. intros h _. unfold is_src. now rewrite Ec. }
      destruct (beqb (url_host x) x) eqn:Eb.
      { apply beqb_eq in Eb. now apply url_host_neq in Eb. }
      set (h := url_host x).
      assert (Hsrc : is_src h x = true) by (unfold is_src; now rewrite Ec, beqb_refl).
      assert (Hhx : h <> x) by (now apply beqb_neq).
      rewrite (map_get_set_other x h a' m Hhx).
      destruct (map_get h m0) as [ah|] eqn:Eh0.
      + (* the host is an explicit entry: nothing derived *)
        destruct (I1 h ah Eh0) as [A B'].
        assert (exists y, map_get h m = Some y /\ ac_derived y = []) as (y & Ey & Edy).
        { destruct (in_dec bytes_eq_dec h D) as [Hi|Hi].
          - destruct (A Hi) as (y & Y1 & Y2). exists y. split; [assumption|].
            destruct (decoded_fields _ _ Y1) as (F & _). rewrite F. eapply orig_derived; eauto.
          - exists ah. split; [auto | eapply orig_derived; eauto]. }
        rewrite Ey, Edy. cbn.
        eapply Inv_visit_plain; eauto.
        intros h' Hh'. destruct (is_src h' x) eqn:E; [|reflexivity].
        apply is_src_host in E as [E _]. fold h in E. congruence.
      + (* the host is not an original key *)
        pose proof (I2 h Eh0) as J.
        destruct (map_get h m) as [xh|] eqn:Eh.
        * destruct J as (k0 & rest & a0 & a0' & S1 & S2 & S3 & S4 & S5).
          rewrite S5, S1. cbn [length Nat.eqb].
          eapply Inv_visit_derive; eauto. now rewrite Eh.
        * eapply Inv_visit_derive; eauto. now rewrite Eh.
    - (* a key created by the loop: producing it changes nothing *)
      assert (Eo : orig x = false) by (now apply orig_false).
      rewrite Eo. pose proof (I2 x E0) as J. rewrite Eg in J.
      destruct J as (k0 & rest & a0 & a0' & S1 & S2 & S3 & S4 & S5).
      assert (Hst : decoded ac = Some ac).
      { rewrite <- (with_derived_self ac). rewrite <- (with_derived_twice ac [] (ac_derived ac)).
        rewrite S4. eapply decoded_stable; eauto. }
      pose proof (decode_entry_decoded x ac) as Hd. rewrite Hst in Hd. rewrite Hd. cbn [rbind].
      rewrite (map_set_id _ _ _ Eg).
      assert (Hk0 : is_src x k0 = true).
      { assert (In k0 (srcs D x)) as Hin by (rewrite S1; now left).
        unfold srcs in Hin. now apply filter_In in Hin as [_ Hin]. }
      apply is_src_host in Hk0 as [-> _]. rewrite url_host_not_url. cbn. assumption.
  Qed.

  (* the whole loop *)
  Lemma loop_char sched : forall D m,
    Inv D m -> NoDup (D ++ filter orig sched) ->
    match decode_loop sched m with
    | Ok m' => Inv (D ++ filter orig sched) m'
    | Err _ => exists k a, map_get k m0 = Some a /\ decoded a = None
    | _ => False
    end.
  Proof.
    induction sched as [|x rest IH]; intros D m HI Hnd; cbn [decode_loop filter].
    - now rewrite app_nil_r.
    - assert (Hfresh : orig x = true -> ~ In x D).
      { intros Eo Hin. cbn [filter] in Hnd. rewrite Eo in Hnd.
        apply NoDup_remove_2 in Hnd. apply Hnd. apply in_or_app. now left. }
      pose proof (step_char D m x HI Hfresh) as Hs.
      destruct (decode_step x m) as [m'|e| |]; try contradiction; cbn [rbind].
      + cbn [filter] in Hnd. destruct (orig x) eqn:Eo.
        * specialize (IH (D ++ [x]) m' Hs). rewrite <- app_assoc in IH. cbn [app] in IH. exact (IH Hnd).
        * exact (IH D m' Hs Hnd).
      + destruct Hs as (a & H1 & H2). eauto.
  Qed.

  Lemma valid_sched_NoDup sched : valid_sched m0 sched -> NoDup (filter orig sched).
  Proof.
    intros H. destruct Hwf as [Hnd _]. eapply Permutation_NoDup; [symmetry; exact H | exact Hnd].
  Qed.

  (* What the map holds for every key after the loop, for every schedule Go may choose. *)
  Theorem decode_loop_char sched :
    valid_sched m0 sched ->
    match decode_loop sched m0 with
    | Ok m =>
        forall h,
          match map_get h m0 with
          | Some a => exists a', decoded a = Some a' /\ map_get h m = Some a'
          | None =>
              match url_entries m0 h with
              | [] => map_get h m = None
              | [(k, a)] => exists a' x, decoded a = Some a' /\ map_get h m = Some x
                                         /\ with_derived x [] = a' /\ length (ac_derived x) = 1%nat
              | _ :: _ :: _ => exists x, map_get h m = Some x /\ (2 <= length (ac_derived x))%nat
              end
          end
    | Err _ => exists k a, map_get k m0 = Some a /\ decoded a = None
    | _ => False
    end.
  Proof.
    intros Hv. pose proof (valid_sched_NoDup _ Hv) as Hnd.
    pose proof (loop_char sched [] m0 Inv_init Hnd) as H. cbn [app] in H.
    destruct (decode_loop sched m0) as [m|e| |]; try assumption.
    destruct H as [I1 I2]. intros h.
    destruct (map_get h m0) as [a|] eqn:E0.
    - destruct (I1 h a E0) as [A _]. apply A.
      eapply Permutation_in; [symmetry; exact Hv|]. eapply map_get_some_keys; eauto.
    - specialize (I2 h E0).
      assert (P : Permutation (srcs (filter orig sched) h) (srcs (keys m0) h)) by (apply srcs_perm; exact Hv).
      rewrite srcs_keys in P.
      pose proof (Permutation_length P) as L.
      destruct (map_get h m) as [x|] eqn:Em.
      + destruct I2 as (k0 & rest & a0 & a0' & S1 & S2 & S3 & S4 & S5).
        destruct (url_entries m0 h) as [|[k a] [|kv2 l]] eqn:Eu.
        * rewrite S1 in L. discriminate.
        * rewrite S1 in P, L. cbn in L. destruct rest; [|discriminate].
          apply Permutation_length_1 in P. cbn in P. subst k0.
          assert (In (k, a) m0) as Hin.
          { assert (In (k, a) (url_entries m0 h)) as Hi by (rewrite Eu; now left).
            unfold url_entries in Hi. now apply filter_In in Hi as [Hi _]. }
          destruct Hwf as [Hndk _]. rewrite (In_map_get _ _ _ Hndk Hin) in S2. injection S2 as <-.
          exists a0', x. repeat split; try assumption. now rewrite S5, S1.
        * exists x. split; [reflexivity|]. rewrite S5, L. cbn. lia.
      + rewrite I2 in L. destruct (url_entries m0 h); [reflexivity | discriminate].
  Qed.

  (* the converse for failure: a member whose auth field does not decode makes the loop fail *)
  Theorem decode_loop_fails sched :
    valid_sched m0 sched ->
    ((exists e, decode_loop sched m0 = Err e) <-> exists k a, map_get k m0 = Some a /\ decoded a = None).
  Proof.
    intros Hv. pose proof (decode_loop_char sched Hv) as H. split.
    - intros [e He]. now rewrite He in H.
    - intros (k & a & Hk & Hd).
      destruct (decode_loop sched m0) as [m|e| |]; try contradiction; eauto.
      specialize (H k). rewrite Hk in H. destruct H as (a' & H1 & _). congruence.
  Qed.
End Loop.

(* ================================================================ the table, read off the document *)

(* result of the table part of a lookup for one member of "auths" *)
Definition ref_entry (a : auth_config) : config_entry * eclass :=
  match decoded a with
  | Some a' => observe (auth_result a')
  | None => (zero_entry, EOther)          (* not reached: such a document does not load *)
  end.

(* The table part of a lookup as a function of the DOCUMENT alone (no loop, no order):
   the member whose key is the host; else the members whose URL-form key names the host -
   none: no information; one: that member; several: failure. *)
Definition ref_table (m0 : amap) (h : bytes) : config_entry * eclass :=
  match map_get h m0 with
  | Some a => ref_entry a
  | None =>
      match url_entries m0 h with
      | [] => (zero_entry, ENone)
      | [(_, a)] => ref_entry a
      | _ :: _ :: _ => (zero_entry, EOther)
      end
  end.

Lemma auth_result_derived1 x : (length (ac_derived x) <= 1)%nat -> auth_result x = auth_result (with_derived x []).
Proof.
  intros H. unfold auth_result. cbn [with_derived ac_idtok ac_user ac_derived ac_regtok ac_pass length].
  destruct (nonempty (ac_idtok x) && nonempty (ac_user x)); [reflexivity|].
  replace (1 <? length (ac_derived x))%nat with false; [reflexivity|].
  symmetry. apply Nat.ltb_ge. assumption.
Qed.

Lemma auth_result_collision x : (2 <= length (ac_derived x))%nat -> observe (auth_result x) = (zero_entry, EOther).
Proof.
  intros H. unfold auth_result.
  destruct (nonempty (ac_idtok x) && nonempty (ac_user x)); [reflexivity|].
  replace (1 <? length (ac_derived x))%nat with true; [reflexivity|].
  symmetry. apply Nat.ltb_lt. lia.
Qed.

Lemma decode_config_file_inv sched doc c :
  decode_config_file sched doc = Ok c ->
  decode_loop sched (cd_auths doc) = Ok (cd_auths c) /\ cd_store c = cd_store doc /\ cd_helpers c = cd_helpers doc.
Proof.
  unfold decode_config_file. destruct (decode_loop sched (cd_auths doc)); cbn; try discriminate.
  intros H. injection H as <-. auto.
Qed.

Theorem table_lookup_ref sched doc c :
  wf_auths (cd_auths doc) -> valid_sched (cd_auths doc) sched ->
  decode_config_file sched doc = Ok c ->
  forall h, observe (table_lookup c h) = ref_table (cd_auths doc) h.
Proof.
  intros Hwf Hv Hd h. apply decode_config_file_inv in Hd as (Hl & _ & _).
  pose proof (decode_loop_char _ Hwf sched Hv) as H. rewrite Hl in H. specialize (H h).
  unfold table_lookup, ref_table.
  destruct (map_get h (cd_auths doc)) as [a|].
  - destruct H as (a' & H1 & H2). rewrite H2. unfold ref_entry. now rewrite H1.
  - destruct (url_entries (cd_auths doc) h) as [|[k a] [|kv2 l]].
    + rewrite H. reflexivity.
    + destruct H as (a' & x & H1 & H2 & H3 & H4). rewrite H2. unfold ref_entry. rewrite H1.
      rewrite auth_result_derived1 by lia. now rewrite H3.
    + destruct H as (x & H1 & H2). rewrite H1. now apply auth_result_collision.
Qed.

(* the same with the helpers in front *)
Definition class_of_herr (e : herr) : eclass :=
  match e with HNil => ENone | HMissing => EMissing | HOther => EOther end.

Definition ref_lookup (doc : config_data) (run : runner_t) (h : bytes) : config_entry * eclass :=
  let '(helper, explicit) := helper_for doc h in
  if nonempty helper then
    let '(entry, err) := run helper h in
    if herr_eqb err HNil || explicit || negb (herr_eqb err HMissing)
    then (entry, class_of_herr err)
    else ref_table (cd_auths doc) h
  else ref_table (cd_auths doc) h.

Lemma observe_efr c run h :
  observe (entry_for_registry c run h) =
  let '(helper, explicit) := helper_for c h in
  if nonempty helper then
    let '(entry, err) := run helper h in
    if herr_eqb err HNil || explicit || negb (herr_eqb err HMissing)
    then (entry, class_of_herr err)
    else observe (table_lookup c h)
  else observe (table_lookup c h).
Proof.
  unfold entry_for_registry. destruct (helper_for c h) as [helper explicit].
  destruct (nonempty helper); [|reflexivity].
  destruct (run helper h) as [e err].
  destruct (herr_eqb err HNil || explicit || negb (herr_eqb err HMissing)); [|reflexivity].
  destruct err; reflexivity.
Qed.

Theorem lookup_ref sched doc c run :
  wf_auths (cd_auths doc) -> valid_sched (cd_auths doc) sched ->
  decode_config_file sched doc = Ok c ->
  forall h, observe (entry_for_registry c run h) = ref_lookup doc run h
            /\ runner_calls c h = runner_calls doc h.
Proof.
  intros Hwf Hv Hd h. pose proof (table_lookup_ref _ _ _ Hwf Hv Hd h) as T.
  apply decode_config_file_inv in Hd as (_ & Hs & Hh).
  assert (helper_for c h = helper_for doc h) as Eh by (unfold helper_for; now rewrite Hs, Hh).
  split.
  - rewrite observe_efr. unfold ref_lookup. rewrite Eh, T. reflexivity.
  - unfold runner_calls. now rewrite Eh.
Qed.

(* ---------- order independence ---------- *)

Theorem order_independent doc s1 s2 :
  wf_auths (cd_auths doc) -> valid_sched (cd_auths doc) s1 -> valid_sched (cd_auths doc) s2 ->
  match decode_config_file s1 doc, decode_config_file s2 doc with
  | Ok c1, Ok c2 =>
      forall run h, observe (entry_for_registry c1 run h) = observe (entry_for_registry c2 run h)
                    /\ runner_calls c1 h = runner_calls c2 h
  | Err _, Err _ => True
  | _, _ => False
  end.
Proof.
  intros Hwf H1 H2.
  pose proof (decode_loop_char _ Hwf s1 H1) as C1. pose proof (decode_loop_fails _ Hwf s1 H1) as F1.
  pose proof (decode_loop_char _ Hwf s2 H2) as C2. pose proof (decode_loop_fails _ Hwf s2 H2) as F2.
  destruct (decode_config_file s1 doc) as [c1|e1| |] eqn:E1;
  destruct (decode_config_file s2 doc) as [c2|e2| |] eqn:E2;
    unfold decode_config_file in E1, E2;
    destruct (decode_loop s1 (cd_auths doc)) as [m1|x1| |] eqn:L1; cbn in E1; try discriminate; try contradiction;
    destruct (decode_loop s2 (cd_auths doc)) as [m2|x2| |] eqn:L2; cbn in E2; try discriminate; try contradiction.
  - intros run h.
    assert (D1 : decode_config_file s1 doc = Ok c1) by (unfold decode_config_file; rewrite L1; exact E1).
    assert (D2 : decode_config_file s2 doc = Ok c2) by (unfold decode_config_file; rewrite L2; exact E2).
    destruct (lookup_ref _ _ _ run Hwf H1 D1 h) as [A1 B1].
    destruct (lookup_ref _ _ _ run Hwf H2 D2 h) as [A2 B2].
    split; congruence.
  - (* s1 succeeds, s2 fails: impossible *)
    destruct F2 as [F2 _]. destruct (F2 (ex_intro _ x2 eq_refl)) as (k & a & Hk & Hd).
    specialize (C1 k). rewrite Hk in C1. destruct C1 as (a' & Q & _). congruence.
  - destruct F1 as [F1 _]. destruct (F1 (ex_intro _ x1 eq_refl)) as (k & a & Hk & Hd).
    specialize (C2 k). rewrite Hk in C2. destruct C2 as (a' & Q & _). congruence.
  - exact I.
Qed.

Lemma filter_all_id {A} (f : A -> bool) l : (forall a, In a l -> f a = true) -> filter f l = l.
Proof.
  induction l as [|a l IH]; cbn; intros H; [reflexivity|].
  rewrite (H a) by now left. f_equal. apply IH. intros b Hb. apply H. now right.
Qed.

(* the schedule "permutation of the original keys + a visiting choice per derived key" is valid *)
Lemma go_sched_filter m0 perm visit :
  filter (fun k => mem_bytes k (keys m0)) (go_sched m0 perm visit) = filter (fun k => mem_bytes k (keys m0)) perm.
Proof.
  induction perm as [|k rest IH]; [reflexivity|].
  cbn [go_sched filter]. rewrite filter_app, IH.
  match goal with
  | |- context [filter ?f (if ?b then [?d] else [])] =>
      assert (E : filter f (if b then [d] else []) = [])
  end.
  { destruct (contains slashslash k); [|reflexivity]. cbn [andb].
    destruct (mem_bytes (url_host k) (keys m0)) eqn:E; [reflexivity|]. cbn [negb andb].
    destruct (visit (url_host k)); [|reflexivity]. cbn [filter]. now rewrite E. }
  rewrite E. reflexivity.
Qed.

Lemma go_sched_valid m0 perm visit : Permutation perm (keys m0) -> valid_sched m0 (go_sched m0 perm visit).
Proof.
  intros P. unfold valid_sched. rewrite go_sched_filter.
  replace (filter _ perm) with perm; [assumption|].
  symmetry. apply filter_all_id. intros k Hk.
  apply mem_bytes_In. eapply Permutation_in; eauto.
Qed.

(* the document order itself, derived keys never produced *)
Lemma doc_order_valid m0 : valid_sched m0 (keys m0).
Proof.
  unfold valid_sched. replace (filter _ (keys m0)) with (keys m0); [reflexivity|].
  symmetry. apply filter_all_id. intros k Hk. now apply mem_bytes_In.
Qed.

(* ---------- precedence (EntryForRegistry on any configData) ---------- *)

Definition helper_answer (r : config_entry * herr) : config_entry * option lookup_err :=
  (fst r, match snd r with HNil => None | e => Some (LEHelper e) end).

Lemma precedence_per_host c run h hp :
  map_get h (cd_helpers c) = Some hp -> hp <> [] ->
  entry_for_registry c run h = helper_answer (run hp h) /\ runner_calls c h = [(hp, h)].
Proof.
  intros H Hne. unfold entry_for_registry, runner_calls, helper_for. rewrite H.
  destruct hp; [congruence|]. cbn [nonempty]. destruct (run (n :: hp) h) as [e err].
  rewrite orb_true_r. cbn. destruct err; split; reflexivity.
Qed.

Lemma precedence_per_host_empty c run h :
  map_get h (cd_helpers c) = Some [] ->
  entry_for_registry c run h = table_lookup c h /\ runner_calls c h = [].
Proof. intros H. unfold entry_for_registry, runner_calls, helper_for. rewrite H. auto. Qed.

Lemma precedence_store c run h :
  map_get h (cd_helpers c) = None -> cd_store c <> [] -> snd (run (cd_store c) h) <> HMissing ->
  entry_for_registry c run h = helper_answer (run (cd_store c) h) /\ runner_calls c h = [(cd_store c, h)].
Proof.
  intros H Hne Hm. unfold entry_for_registry, runner_calls, helper_for. rewrite H.
  destruct (cd_store c) as [|b st]; [congruence|]. cbn [nonempty].
  destruct (run (b :: st) h) as [e err]. cbn in Hm. destruct err; try congruence; cbn; split; reflexivity.
Qed.

Lemma precedence_store_missing c run h :
  map_get h (cd_helpers c) = None -> cd_store c <> [] -> snd (run (cd_store c) h) = HMissing ->
  entry_for_registry c run h = table_lookup c h /\ runner_calls c h = [(cd_store c, h)].
Proof.
  intros H Hne Hm. unfold entry_for_registry, runner_calls, helper_for. rewrite H.
  destruct (cd_store c) as [|b st]; [congruence|]. cbn [nonempty].
  destruct (run (b :: st) h) as [e err]. cbn in Hm. subst err. cbn. auto.
Qed.

Lemma precedence_no_helper c run h :
  map_get h (cd_helpers c) = None -> cd_store c = [] ->
  entry_for_registry c run h = table_lookup c h /\ runner_calls c h = [].
Proof. intros H Hs. unfold entry_for_registry, runner_calls, helper_for. rewrite H, Hs. auto. Qed.

(* ---------- the table rules, as consequences of table_lookup_ref ---------- *)

Section Rules.
  Variables (sched : list bytes) (doc c : config_data).
  Hypothesis Hwf : wf_auths (cd_auths doc).
  Hypothesis Hv : valid_sched (cd_auths doc) sched.
  Hypothesis Hd : decode_config_file sched doc = Ok c.

  Lemma explicit_over_derived h a :
    map_get h (cd_auths doc) = Some a -> observe (table_lookup c h) = ref_entry a.
  Proof. intros H. rewrite (table_lookup_ref _ _ _ Hwf Hv Hd). unfold ref_table. now rewrite H. Qed.

  Lemma single_url_key h k a :
    map_get h (cd_auths doc) = None -> url_entries (cd_auths doc) h = [(k, a)] ->
    observe (table_lookup c h) = ref_entry a.
  Proof. intros H U. rewrite (table_lookup_ref _ _ _ Hwf Hv Hd). unfold ref_table. now rewrite H, U. Qed.

  Lemma collision_fails h :
    map_get h (cd_auths doc) = None -> (2 <= length (url_entries (cd_auths doc) h))%nat ->
    observe (table_lookup c h) = (zero_entry, EOther).
  Proof.
    intros H U. rewrite (table_lookup_ref _ _ _ Hwf Hv Hd). unfold ref_table. rewrite H.
    destruct (url_entries (cd_auths doc) h) as [|[? ?] [|? ?]]; cbn in U; try lia. reflexivity.
  Qed.

  Lemma no_entry h :
    map_get h (cd_auths doc) = None -> url_entries (cd_auths doc) h = [] ->
    observe (table_lookup c h) = (zero_entry, ENone).
  Proof. intros H U. rewrite (table_lookup_ref _ _ _ Hwf Hv Hd). unfold ref_table. now rewrite H, U. Qed.

  (* every member's auth field was decodable *)
  Lemma loaded_all_decoded k a : map_get k (cd_auths doc) = Some a -> exists a', decoded a = Some a'.
  Proof.
    intros H. apply decode_config_file_inv in Hd as (Hl & _ & _).
    pose proof (decode_loop_char _ Hwf sched Hv) as C. rewrite Hl in C. specialize (C k).
    rewrite H in C. destruct C as (a' & Q & _). eauto.
  Qed.
End Rules.

Theorem decode_fails_iff sched doc :
  wf_auths (cd_auths doc) -> valid_sched (cd_auths doc) sched ->
  ((exists e, decode_config_file sched doc = Err e)
   <-> exists k a, map_get k (cd_auths doc) = Some a /\ decoded a = None).
Proof.
  intros Hwf Hv. rewrite <- (decode_loop_fails _ Hwf sched Hv). unfold decode_config_file.
  destruct (decode_loop sched (cd_auths doc)); cbn; split; intros [e' H]; try discriminate; eauto.
Qed.

Lemma decode_config_file_shape sched doc :
  wf_auths (cd_auths doc) -> valid_sched (cd_auths doc) sched ->
  match decode_config_file sched doc with Ok _ | Err _ => True | _ => False end.
Proof.
  intros Hwf Hv. pose proof (decode_loop_char _ Hwf sched Hv) as C. unfold decode_config_file.
  destruct (decode_loop sched (cd_auths doc)); cbn; auto.
Qed.
