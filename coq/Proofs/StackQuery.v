(* The query string of a listing request ("n" and "last"), as listParams prints it, as
   url.ParseQuery reads it, and as ociserver's makeNextLink rewrites it. *)
From Coq Require Import String.
From OCI Require Import Model.Stack Proofs.Request Proofs.StackBase.
From OCI Require Import Model.RequestCodecSpec Proofs.RequestCodec.

Local Open Scope N_scope.

Definition k_n : bytes := s "n".
Definition k_last : bytes := s "last".

(* the query for page size d (decimal) and start point l *)
Definition lq (d l : bytes) : bytes :=
  match l with
  | [] => k_n ++ 61 :: d
  | _ => (k_last ++ 61 :: query_escape l) ++ 38 :: k_n ++ 61 :: d
  end.

Definition lvals (d l : bytes) : values :=
  [(k_n, d)] ++ match l with [] => [] | _ => [(k_last, l)] end.

(* what url.ParseQuery makes of it: in the order of the string *)
Definition lparsed (d l : bytes) : values :=
  match l with [] => [(k_n, d)] | _ => [(k_last, l); (k_n, d)] end.

Definition digits (d : bytes) : Prop := forallb is_digit d = true /\ d <> [].

Lemma lq_encode d l : digits d -> values_encode (lvals d l) = lq d l.
Proof.
  intros [Hd _]. destruct (digits_safe d Hd) as [U _]. unfold lvals, lq.
  destruct l as [|c0 l0].
  - change (values_encode ([(k_n, d)] ++ [])) with (k_n ++ 61 :: query_escape d).
    now rewrite (query_escape_plain d U).
  - change (values_encode ([(k_n, d)] ++ [(k_last, c0 :: l0)]))
      with ((k_last ++ 61 :: query_escape (c0 :: l0)) ++ 38 :: k_n ++ 61 :: query_escape d).
    now rewrite (query_escape_plain d U).
Qed.

Ltac lit_notin := let H := fresh in intros H; vm_compute in H; intuition discriminate.

Lemma lq_parse d l : digits d -> byte_list l = true -> parse_query (lq d l) = (lparsed d l, false).
Proof.
  intros [Hd Hne] Hl. destruct (digits_safe d Hd) as [U S].
  pose proof (query_escape_roundtrip _ Hl) as Hrt. pose proof (query_escape_alpha _ Hl) as Hal.
  unfold lq, lparsed. destruct l as [|c0 l0].
  - apply parse_query_one; try lit_notin; try solve [apply (safe_not_in d); auto 10]; try reflexivity.
    now apply unescape_safe.
  - set (l := c0 :: l0) in *. set (e := query_escape l) in *.
    apply parse_query_two; try lit_notin; try solve [apply (safe_not_in d); auto 10];
      try solve [apply (esc_not_in e); auto]; try reflexivity; auto.
    now apply unescape_safe.
Qed.

(* makeNextLink: Values.Set("last", x) on the parsed query gives the values of the next request *)
Lemma lq_set_last d l x : x <> [] -> qset k_last x (lparsed d l) = lvals d x.
Proof. intros Hx. destruct x as [|x0 xs]; [congruence|]. destruct l; reflexivity. Qed.

Lemma esc_byte_not62 c : esc_byte c = true -> c <> 62.
Proof.
  unfold esc_byte. intros H. apply orb_true_iff in H as [H|H]; [apply orb_true_iff in H as [H|H]|].
  - apply unreserved_iff in H. lia.
  - apply N.eqb_eq in H. lia.
  - apply N.eqb_eq in H. lia.
Qed.

Lemma lq_chars d l c : digits d -> byte_list l = true -> In c (lq d l) ->
  c <> 62 /\ c <> 35 /\ is_ctl c = false.
Proof.
  intros [Hd _] Hl Hin. destruct (digits_safe d Hd) as [U S].
  pose proof (query_escape_alpha _ Hl) as Hal.
  assert (Hdig : forall x, In x d -> x <> 62 /\ x <> 35 /\ is_ctl x = false).
  { intros x Hx. rewrite forallb_forall in Hd. apply Hd, is_digit_range in Hx. unfold is_ctl.
    repeat split; try lia. apply orb_false_iff. split; [apply N.ltb_ge | apply N.eqb_neq]; lia. }
  assert (Hesc : forall x, In x (query_escape l) -> x <> 62 /\ x <> 35 /\ is_ctl x = false).
  { intros x Hx. rewrite forallb_forall in Hal. pose proof (Hal x Hx) as He.
    pose proof (esc_byte_props x He) as (Hq & _). apply qsafe_props in Hq as [H1 H2].
    split; [now apply esc_byte_not62 | split; assumption]. }
  assert (Hlit : forall x, In x (k_n ++ [61]) \/ In x (k_last ++ [61]) \/ x = 38 -> x <> 62 /\ x <> 35 /\ is_ctl x = false).
  { intros x Hx. vm_compute in Hx. intuition (subst; repeat split; (discriminate || reflexivity)). }
  unfold lq in Hin. destruct l as [|c0 l0].
  - apply in_app_or in Hin as [Hin|[Hin|Hin]].
    + apply Hlit. left. apply in_or_app. now left.
    + apply Hlit. left. subst. apply in_or_app. right. now left.
    + now apply Hdig.
  - rewrite <- app_assoc in Hin. apply in_app_or in Hin as [Hin|Hin].
    + apply Hlit. right. left. apply in_or_app. now left.
    + cbn [app] in Hin. destruct Hin as [Hin|Hin].
      * apply Hlit. right. left. subst. apply in_or_app. right. now left.
      * apply in_app_or in Hin as [Hin|[Hin|Hin]].
        -- now apply Hesc.
        -- apply Hlit. now right; right.
        -- apply in_app_or in Hin as [Hin|[Hin|Hin]].
           ++ apply Hlit. left. apply in_or_app. now left.
           ++ apply Hlit. left. subst. apply in_or_app. right. now left.
           ++ now apply Hdig.
Qed.

Lemma lq_qsafe d l : digits d -> byte_list l = true -> forallb qsafe (lq d l) = true.
Proof.
  intros Hd Hl. apply forallb_forall. intros c Hc. destruct (lq_chars d l c Hd Hl Hc) as (_ & H35 & Hctl).
  unfold qsafe. rewrite Hctl. apply N.eqb_neq in H35. now rewrite H35.
Qed.

Lemma lq_nonempty d l : lq d l <> [].
Proof. unfold lq. destruct l; discriminate. Qed.

(* EscapedPath of a path of safe bytes is the path *)
Lemma path_escape_safe p : forallb safe p = true -> path_escape_mode p = p.
Proof.
  unfold path_escape_mode. induction p as [|c p IH]; [reflexivity|]. cbn [forallb]. intros H.
  apply andb_true_iff in H as [Hc Hp]. cbn [escape andb]. rewrite (IH Hp).
  unfold should_escape_path. unfold safe in Hc.
  destruct (unreserved c); [reflexivity|]. cbn [orb] in Hc.
  apply orb_true_iff in Hc as [Hc|Hc]; apply N.eqb_eq in Hc; subst; reflexivity.
Qed.

Lemma safe_chars p c : forallb safe p = true -> In c p -> c <> 62 /\ c <> 35 /\ c <> 63.
Proof.
  intros H Hin. rewrite forallb_forall in H. apply H in Hin. apply safe_iff in Hin. lia.
Qed.

(* the values of a listing request, in the terms of Proofs/RequestCodec.v *)
Lemma lp_values_lvals r : (0 <= q_listn r)%Z -> lp_values r = lvals (dec_Z (q_listn r)) (q_last r).
Proof.
  intros H. unfold lp_values, lvals. destruct (Z.leb_spec 0 (q_listn r)); [|lia]. destruct (q_last r); reflexivity.
Qed.

Lemma dec_digits z : (0 <= z)%Z -> digits (dec_Z z).
Proof. intros H. destruct (dec_Z_nonneg z H) as (D & _ & NE). split; assumption. Qed.

Print Assumptions lq_parse.
