(* C03 (c): transparency of the composed model, method by method.  For every backend [bstep],
   option set (without LocationsForDescriptor), backend state and well-formed arguments: the client
   method over the wire over the server makes the ONE backend call the caller made, leaves the
   backend in the state after that call, and returns the backend's answer on the projected
   observables (success, code / status class for HEAD carriers, descriptor digest / size / media
   type, bytes) provided that answer is conforming.

   The URL codec (parse of construct) is Proofs/RequestCodec.v's [url_codec], used as a lemma.
   Assumed (Section hypotheses, discharged for the concrete oracles of Obs/StackRun.v in
   Proofs/StackJson.v): mime.ParseMediaType maps "application/json" to itself; json.Unmarshal
   inverts json.Marshal on the error document / the two listing documents / the index. *)
From Coq Require Import String.
From OCI Require Import Model.Stack Proofs.Request Proofs.StackBase Proofs.StackDesc Proofs.StackRead Proofs.StackRange.
From OCI Require Import Model.RequestCodecSpec Proofs.RequestCodec Proofs.StackUpload.
From OCI Require Proofs.Errors.

Local Open Scope Z_scope.

Lemma codec_of_wf linked r : wf_request linked r = true -> codec_at linked r (norm r).
Proof. exact (url_codec linked r). Qed.

(* the request doRequest sends for q *)
Definition request_of (q : rreq) : Http.hreq :=
  let req := {| rq_method := kind_method (Http.q_kind q); rq_url := UReq q; rq_header := [];
                rq_body := BNil; rq_clen := 0 |} in
  match Http.q_kind q with
  | Http.ReqManifestGet | Http.ReqManifestHead =>
      {| rq_method := rq_method req; rq_url := rq_url req;
         rq_header := (h_accept, known_manifest_media_types) :: rq_header req;
         rq_body := rq_body req; rq_clen := rq_clen req |}
  | _ => req
  end.

(* a request without body and without Range / Content-Range / Content-Type, as the server reads it *)
Definition plain_req (m : meth) (p rawq : bytes) : Server.hreq :=
  mkhreq (meth_bytes m) p rawq [] [] [] 0 [].

Lemma request_of_method q : rq_method (request_of q) = kind_method (Http.q_kind q).
Proof. unfold request_of. destruct (Http.q_kind q); reflexivity. Qed.

Lemma to_server_req_of q p rawq :
  url_parse_v2 (snd (construct (req_of q))) = Ok (p, rawq) ->
  to_server_req (request_of q) = Ok (plain_req (kind_method (Http.q_kind q)) p rawq).
Proof.
  intros Hu. unfold to_server_req, request_of.
  destruct (Http.q_kind q); cbn [rq_url rq_method rq_header rq_body rq_clen interp_url]; rewrite Hu;
    reflexivity.
Qed.

Section Transparent.
  Variable linked : alg -> bool.
  Variable hash : bytes -> bytes -> bytes.
  Variable subject_of : bytes -> option (option bytes).
  Variable media : bytes -> bytes.
  Variable enc : jval -> bytes.
  Variable dec_errors : bytes -> option (list werr).
  Variable dec_names : bool -> bytes -> option (list bytes).
  Variable dec_index : bytes -> option (list desc).
  Variable redirect : bytes -> bytes -> bytes * bytes.
  Variable B : Type.
  Variable bstep : backend B.
  Variable o : opts.
  Variable cc : ccfg.

  Hypothesis media_json : media json_ct = json_ct.
  Hypothesis json_errors_rt : forall w, dec_errors (enc (JErr w)) = Some [w].

  Notation serve := (serve_stack linked hash subject_of enc redirect bstep o).
  Notation env := (stack_env linked hash media dec_errors dec_names dec_index).
  Notation shandle := (server_handle linked hash subject_of enc redirect B bstep o).
  Notation call_ := (stack_call linked hash subject_of media enc dec_errors dec_names dec_index redirect bstep o cc).
  Notation W := (world (srv B)).

  (* doRequest over the stack: one exchange, not redirected *)
  Lemma do_request_stack q oks (w : W) r' b' tr resp :
    codec_at linked (req_of q) r' ->
    (forall p rawq, parse_req linked (meth_bytes (kind_method (Http.q_kind q))) p rawq = Ok r' ->
       shandle (sv_b (w_srv w)) (plain_req (kind_method (Http.q_kind q)) p rawq) = (b', tr, Ok resp)) ->
    redirect_status (p_status resp) = false ->
    do_request (srv B) serve env q oks w =
      let rq := request_of q in
      let w1 := logged B w rq resp (after B (w_srv w) b' tr) in
      let r := got B w rq resp in
      if status_accepted oks (p_status resp)
      then (if is_ok_status (p_status resp) then (w1, Ok r) else fail_make_error (srv B) env r w1)
      else if negb (is_ok_status (p_status resp)) then fail_make_error (srv B) env r w1
      else (w1, Err (Plain (s "unexpected HTTP response code"))).
  Proof.
    intros Hc Hh Hr. pose proof (codec_construct_ok _ _ _ Hc) as HC.
    destruct Hc as (p & rawq & Hu & Hp). rewrite construct_method in Hp.
    specialize (Hh p rawq Hp).
    unfold do_request, new_request, bind. cbn [e_construct_ok stack_env]. unfold Stack.construct_ok. rewrite HC.
    unfold ret.
    assert (E : match Http.q_kind q with
                | Http.ReqManifestGet | Http.ReqManifestHead =>
                    with_header h_accept known_manifest_media_types
                      {| rq_method := kind_method (Http.q_kind q); rq_url := UReq q; rq_header := [];
                         rq_body := BNil; rq_clen := 0 |}
                | _ => {| rq_method := kind_method (Http.q_kind q); rq_url := UReq q; rq_header := [];
                          rq_body := BNil; rq_clen := 0 |}
                end = request_of q).
    { unfold request_of, with_header. destruct (Http.q_kind q); reflexivity. }
    rewrite E.
    rewrite (client_do_stack linked hash subject_of media enc dec_errors dec_names dec_index redirect B bstep o
               (request_of q) oks w _ b' tr resp (to_server_req_of q p rawq Hu)).
    2:{ exact Hh. }
    2:{ exact Hr. }
    cbv zeta. destruct (status_accepted oks (p_status resp)).
    - unfold Http.status, got. cbn [hr_rs]. rewrite rs_status_of_server_resp.
      destruct (is_ok_status (p_status resp)); reflexivity.
    - destruct (negb (is_ok_status (p_status resp))); reflexivity.
  Qed.

  (* ---------------------------------------------------------- conforming errors *)

  (* an error the server can serve (Error() does not panic) with a 4xx / 5xx status *)
  Definition conf_err (e : gerr) : Prop :=
    text_panics e = false /\ 400 <= marshal_status e <= 599.

  Notation merr := (marshal_error go_sprefix go_cprefix).

  Lemma conf_err_serve e : conf_err e -> serve_error go_sprefix go_cprefix e = Ok (merr e).
  Proof.
    intros [Ht [H0 H1]]. unfold serve_error. rewrite Ht. cbn [r_status marshal_error].
    destruct (Z.ltb_spec (marshal_status e) 100); [lia|].
    destruct (Z.ltb_spec 999 (marshal_status e)); [lia|]. reflexivity.
  Qed.

  Lemma err_status_facts st : 400 <= st <= 599 ->
    redirect_status st = false /\ no_body_status st = false /\ is_ok_status st = false.
  Proof.
    intros H. unfold redirect_status, no_body_status, is_ok_status.
    repeat match goal with |- context [?a =? ?b] => destruct (Z.eqb_spec a b); [lia|] end.
    destruct (Z.leb_spec 100 st); destruct (Z.leb_spec st 199); cbn; try lia.
    repeat split; try reflexivity.
    assert (Hq : Z.quot st 100 <> 2).
    { intros E. pose proof (Z.quot_rem' st 100) as Q. pose proof (Z.rem_bound_pos st 100 ltac:(lia) ltac:(lia)). lia. }
    destruct (Z.eqb_spec (Z.quot st 100) 2); [contradiction | reflexivity].
  Qed.

  (* the client's error for a served error [e]: the hop of Model/Errors.v *)
  Definition wire_error (head : bool) (e : gerr) : gerr :=
    hop go_sprefix go_cprefix (hopspec_of enc head (merr e)) e.

  Lemma client_error_hop head e : client_error enc head (merr e) = wire_error head e.
  Proof. reflexivity. Qed.

  (* an exchange that the server answers with the error exit *)
  Lemma do_request_stack_err q oks (w : W) r' b' tr hdrs0 e :
    codec_at linked (req_of q) r' ->
    (forall p rawq, parse_req linked (meth_bytes (kind_method (Http.q_kind q))) p rawq = Ok r' ->
       shandle (sv_b (w_srv w)) (plain_req (kind_method (Http.q_kind q)) p rawq)
       = (b', tr, Ok (err_resp enc hdrs0 (merr e)))) ->
    conf_err e -> Server.hget H_clen hdrs0 = None ->
    blen (enc (JErr (r_err (merr e)))) <= 8192 ->
    Forall (fun st => is_ok_status st = true) oks ->
    exists w', do_request (srv B) serve env q oks w = (w', Err (wire_error (meth_eqb (kind_method (Http.q_kind q)) MHead) e))
               /\ w_srv w' = after B (w_srv w) b' tr.
  Proof.
    intros Hc Hh [Ht Hst] Hcl Hlen Hoks.
    destruct (err_status_facts _ Hst) as (Hr & Hnb & Hok).
    rewrite (do_request_stack q oks w r' b' tr _ Hc Hh) by exact Hr.
    cbv zeta. cbn [p_status err_resp r_status marshal_error]. rewrite Hok. cbn [negb].
    assert (Hacc : status_accepted oks (marshal_status e) = false).
    { unfold status_accepted. destruct oks as [|o0 oks'].
      - destruct (Z.eqb_spec (marshal_status e) 200); [lia | reflexivity].
      - apply not_true_is_false. intros Hx. apply existsb_exists in Hx as (x & Hin & Hx).
        apply Z.eqb_eq in Hx. subst x. rewrite Forall_forall in Hoks. apply Hoks in Hin. congruence. }
    rewrite Hacc. unfold fail_make_error.
    erewrite make_error_stack; try eassumption.
    - rewrite request_of_method. eexists. split; [reflexivity|]. reflexivity.
    - apply json_errors_rt.
  Qed.

  (* ---------------------------------------------------------- resolve, delete: generic *)

  Lemma resolve_stack_ok q (w : W) r' b' tr hdrs d' :
    codec_at linked (req_of q) r' ->
    (forall p rawq, parse_req linked (meth_bytes (kind_method (Http.q_kind q))) p rawq = Ok r' ->
       shandle (sv_b (w_srv w)) (plain_req (kind_method (Http.q_kind q)) p rawq)
       = (b', tr, Ok (mkresp 200 hdrs [] None))) ->
    descriptor_from_response env current
      (in_hand (length (w_log w)) (request_of q) (kind_method (Http.q_kind q)) (mkresp 200 hdrs [] None))
      (Http.q_digest q) true true = Ok d' ->
    exists w', resolve (srv B) serve env current q w = (w', Ok d')
               /\ w_srv w' = after B (w_srv w) b' tr.
  Proof.
    intros Hc Hh Hd. unfold resolve, bind.
    erewrite (do_request_stack q [] w r'); [|exact Hc|exact Hh|reflexivity].
    cbv zeta. cbn [p_status status_accepted]. change (200 =? 200) with true.
    change (is_ok_status 200) with true. cbn iota. unfold lift.
    unfold got. rewrite request_of_method. unfold in_hand in Hd. rewrite Hd.
    cbn [flatten]. eexists. split; reflexivity.
  Qed.

  Lemma resolve_stack_err q (w : W) r' b' tr e :
    codec_at linked (req_of q) r' ->
    (forall p rawq, parse_req linked (meth_bytes (kind_method (Http.q_kind q))) p rawq = Ok r' ->
       shandle (sv_b (w_srv w)) (plain_req (kind_method (Http.q_kind q)) p rawq)
       = (b', tr, Ok (err_resp enc [] (merr e)))) ->
    conf_err e -> blen (enc (JErr (r_err (merr e)))) <= 8192 ->
    exists w', resolve (srv B) serve env current q w
               = (w', Err (wire_error (meth_eqb (kind_method (Http.q_kind q)) MHead) e))
               /\ w_srv w' = after B (w_srv w) b' tr.
  Proof.
    intros Hc Hh He Hlen. unfold resolve, bind.
    destruct (do_request_stack_err q [] w r' b' tr [] e Hc Hh He eq_refl Hlen (Forall_nil _)) as (w' & E & Hw).
    rewrite E. eexists. split; [reflexivity | exact Hw].
  Qed.

  Lemma delete_stack_ok q (w : W) r' b' tr :
    codec_at linked (req_of q) r' ->
    (forall p rawq, parse_req linked (meth_bytes (kind_method (Http.q_kind q))) p rawq = Ok r' ->
       shandle (sv_b (w_srv w)) (plain_req (kind_method (Http.q_kind q)) p rawq)
       = (b', tr, Ok (mkresp 202 [] [] None))) ->
    exists w', delete (srv B) serve env q w = (w', Ok tt) /\ w_srv w' = after B (w_srv w) b' tr.
  Proof.
    intros Hc Hh. unfold delete, bind.
    erewrite (do_request_stack q [202] w r'); [|exact Hc|exact Hh|reflexivity].
    cbv zeta. cbn [p_status]. change (status_accepted [202] 202) with true.
    change (is_ok_status 202) with true. cbn iota. unfold ret. eexists. split; reflexivity.
  Qed.

  Lemma delete_stack_err q (w : W) r' b' tr e :
    codec_at linked (req_of q) r' ->
    (forall p rawq, parse_req linked (meth_bytes (kind_method (Http.q_kind q))) p rawq = Ok r' ->
       shandle (sv_b (w_srv w)) (plain_req (kind_method (Http.q_kind q)) p rawq)
       = (b', tr, Ok (err_resp enc [] (merr e)))) ->
    conf_err e -> blen (enc (JErr (r_err (merr e)))) <= 8192 ->
    exists w', delete (srv B) serve env q w
               = (w', Err (wire_error (meth_eqb (kind_method (Http.q_kind q)) MHead) e))
               /\ w_srv w' = after B (w_srv w) b' tr.
  Proof.
    intros Hc Hh He Hlen. unfold delete, bind.
    assert (Hoks : Forall (fun st => is_ok_status st = true) [202]) by (constructor; [reflexivity | constructor]).
    destruct (do_request_stack_err q [202] w r' b' tr [] e Hc Hh He eq_refl Hlen Hoks) as (w' & E & Hw).
    rewrite E. eexists. split; [reflexivity | exact Hw].
  Qed.

  Ltac wf_codec :=
    match goal with
    | |- codec_at linked ?r ?r' =>
        change r' with (norm r); apply codec_of_wf; unfold wf_request; cbn [Request.q_kind req_of kind_of mk_rreq
          Http.q_kind Http.q_repo Http.q_digest Http.q_tag Http.q_from Http.q_upload Http.q_n Http.q_last
          Request.q_repo Request.q_digest Request.q_tag Request.q_from];
        repeat match goal with H : _ = true |- _ => rewrite H end; try reflexivity
    end.

  Notation EM := (fun L => L linked (digest_of hash) subject_of enc redirect B bstep o).

  (* ---------------------------------------------------------- ResolveBlob / ResolveManifest / ResolveTag *)

  (* what comes back for a backend descriptor: digest and size; the media type only for manifests *)
  Definition head_desc (manifest : bool) (d : desc) : desc :=
    {| d_media := if manifest then media_or_octet (d_media d) else octet_stream;
       d_digest := d_digest d; d_size := d_size d; d_artifact := [] |}.

  Definition conf_desc (d : desc) : Prop := vdigest linked (d_digest d) = true /\ int64 (d_size d).

  Theorem transparent_ResolveBlob_ok (w : W) repo dig b' v :
    vrepo repo = true -> vdigest linked dig = true ->
    bstep (sv_b (w_srv w)) (ResolveBlob repo dig) = (b', Ok v) -> conf_desc (desc_of v) ->
    exists w',
      call_ (CResolveBlob repo dig) w = (w', ODesc (Ok (head_desc false (desc_of v))))
      /\ w_srv w' = after B (w_srv w) b' [ECall (ResolveBlob repo dig) (Ok v)].
  Proof.
    intros Hr Hd Hb [Hvd Hsz]. unfold stack_call, Client.run, resolve_blob.
    destruct (resolve_stack_ok (mk_rreq Http.ReqBlobHead repo dig []) w
                (mkreq Request.ReqBlobHead repo dig [] [] [] 0 []) b'
                [ECall (ResolveBlob repo dig) (Ok v)] (hdrs_blob_head (desc_of v)) (head_desc false (desc_of v)))
      as (w' & E & Hw).
    - wf_codec.
    - intros p rawq Hp.
      apply (EM emit_blob_head (sv_b (w_srv w)) (plain_req MHead p rawq) _ Hp b' v eq_refl Hb).
    - apply descriptor_roundtrip_blob_head; assumption.
    - rewrite E. eexists. split; [reflexivity | exact Hw].
  Qed.

  Theorem transparent_ResolveBlob_err (w : W) repo dig b' e :
    vrepo repo = true -> vdigest linked dig = true ->
    bstep (sv_b (w_srv w)) (ResolveBlob repo dig) = (b', Err e) ->
    conf_err e -> blen (enc (JErr (r_err (merr e)))) <= 8192 ->
    exists w',
      call_ (CResolveBlob repo dig) w = (w', ODesc (Err (wire_error true e)))
      /\ w_srv w' = after B (w_srv w) b' [ECall (ResolveBlob repo dig) (Err e)].
  Proof.
    intros Hr Hd Hb He Hlen. unfold stack_call, Client.run, resolve_blob.
    destruct (resolve_stack_err (mk_rreq Http.ReqBlobHead repo dig []) w
                (mkreq Request.ReqBlobHead repo dig [] [] [] 0 []) b'
                [ECall (ResolveBlob repo dig) (Err e)] e) as (w' & E & Hw); try assumption.
    - wf_codec.
    - intros p rawq Hp.
      apply (EM emit_blob_head_err (sv_b (w_srv w)) (plain_req MHead p rawq) _ Hp b' e _ eq_refl Hb
               (conf_err_serve e He)).
    - rewrite E. eexists. split; [reflexivity | exact Hw].
  Qed.

  Lemma vtag_cons tag : vtag tag = true -> exists t0 tg, tag = t0 :: tg.
  Proof. destruct tag as [|t0 tg]; [intros H; apply vtag_nonempty in H; congruence | eauto]. Qed.

  (* ResolveManifest: under OmitDigestFromTagGetResponse the digest is not on the wire for a
     request by digest; the client then reports the digest it asked for *)
  Theorem transparent_ResolveManifest_ok (w : W) repo dig b' v :
    vrepo repo = true -> vdigest linked dig = true ->
    bstep (sv_b (w_srv w)) (ResolveManifest repo dig) = (b', Ok v) -> conf_desc (desc_of v) ->
    exists w',
      call_ (CResolveManifest repo dig) w
      = (w', ODesc (Ok {| d_media := media_or_octet (d_media (desc_of v));
                          d_digest := if o_omit_digest_from_tag_get o then dig else d_digest (desc_of v);
                          d_size := d_size (desc_of v); d_artifact := [] |}))
      /\ w_srv w' = after B (w_srv w) b' [ECall (ResolveManifest repo dig) (Ok v)].
  Proof.
    intros Hr Hd Hb [Hvd Hsz]. unfold stack_call, Client.run, resolve_manifest.
    edestruct (resolve_stack_ok (mk_rreq Http.ReqManifestHead repo dig []) w
                (mkreq Request.ReqManifestHead repo dig [] [] [] 0 []) b'
                [ECall (ResolveManifest repo dig) (Ok v)] (hdrs_manifest_head o false (desc_of v))
                {| d_media := media_or_octet (d_media (desc_of v));
                   d_digest := if o_omit_digest_from_tag_get o then dig else d_digest (desc_of v);
                   d_size := d_size (desc_of v); d_artifact := [] |})
      as (w' & E & Hw).
    - wf_codec.
    - intros p rawq Hp.
      apply (EM emit_manifest_head (sv_b (w_srv w)) (plain_req MHead p rawq) _ Hp b' v eq_refl Hb).
    - cbn [Http.q_kind mk_rreq kind_method Http.q_digest].
      rewrite (descriptor_roundtrip_manifest_head linked hash media dec_errors dec_names dec_index o _ _ false
                 (desc_of v) dig Hvd Hsz (or_introl Hd)).
      cbv zeta. rewrite orb_false_r.
      destruct (o_omit_digest_from_tag_get o); cbn [negb];
        [rewrite (vdigest_nonempty _ _ Hd) | rewrite (vdigest_nonempty _ _ Hvd)]; reflexivity.
    - rewrite E. eexists. split; [reflexivity | exact Hw].
  Qed.

  Theorem transparent_ResolveManifest_err (w : W) repo dig b' e :
    vrepo repo = true -> vdigest linked dig = true ->
    bstep (sv_b (w_srv w)) (ResolveManifest repo dig) = (b', Err e) ->
    conf_err e -> blen (enc (JErr (r_err (merr e)))) <= 8192 ->
    exists w',
      call_ (CResolveManifest repo dig) w = (w', ODesc (Err (wire_error true e)))
      /\ w_srv w' = after B (w_srv w) b' [ECall (ResolveManifest repo dig) (Err e)].
  Proof.
    intros Hr Hd Hb He Hlen. unfold stack_call, Client.run, resolve_manifest.
    destruct (resolve_stack_err (mk_rreq Http.ReqManifestHead repo dig []) w
                (mkreq Request.ReqManifestHead repo dig [] [] [] 0 []) b'
                [ECall (ResolveManifest repo dig) (Err e)] e) as (w' & E & Hw); try assumption.
    - wf_codec.
    - intros p rawq Hp.
      apply (EM emit_manifest_head_err (sv_b (w_srv w)) (plain_req MHead p rawq) _ Hp b' e _ eq_refl Hb
               (conf_err_serve e He)).
    - rewrite E. eexists. split; [reflexivity | exact Hw].
  Qed.

  Theorem transparent_ResolveTag_ok (w : W) repo tag b' v :
    vrepo repo = true -> vtag tag = true ->
    bstep (sv_b (w_srv w)) (ResolveTag repo tag) = (b', Ok v) -> conf_desc (desc_of v) ->
    exists w',
      call_ (CResolveTag repo tag) w = (w', ODesc (Ok (head_desc true (desc_of v))))
      /\ w_srv w' = after B (w_srv w) b' [ECall (ResolveTag repo tag) (Ok v)].
  Proof.
    intros Hr Ht Hb [Hvd Hsz]. destruct (vtag_cons tag Ht) as (t0 & tg & ->).
    unfold stack_call, Client.run, resolve_tag.
    edestruct (resolve_stack_ok (mk_rreq Http.ReqManifestHead repo [] (t0 :: tg)) w
                (mkreq Request.ReqManifestHead repo [] (t0 :: tg) [] [] 0 []) b'
                [ECall (ResolveTag repo (t0 :: tg)) (Ok v)] (hdrs_manifest_head o true (desc_of v)))
      as (w' & E & Hw).
    - wf_codec.
    - intros p rawq Hp.
      apply (EM emit_manifest_head (sv_b (w_srv w)) (plain_req MHead p rawq) _ Hp b' v eq_refl Hb).
    - cbn [Http.q_kind mk_rreq kind_method Http.q_digest].
      rewrite (descriptor_roundtrip_manifest_head linked hash media dec_errors dec_names dec_index o _ _ true
                 (desc_of v) [] Hvd Hsz (or_intror eq_refl)).
      cbv zeta. rewrite orb_true_r. rewrite (vdigest_nonempty _ _ Hvd). reflexivity.
    - rewrite E. eexists. split; [reflexivity | exact Hw].
  Qed.

  Theorem transparent_ResolveTag_err (w : W) repo tag b' e :
    vrepo repo = true -> vtag tag = true ->
    bstep (sv_b (w_srv w)) (ResolveTag repo tag) = (b', Err e) ->
    conf_err e -> blen (enc (JErr (r_err (merr e)))) <= 8192 ->
    exists w',
      call_ (CResolveTag repo tag) w = (w', ODesc (Err (wire_error true e)))
      /\ w_srv w' = after B (w_srv w) b' [ECall (ResolveTag repo tag) (Err e)].
  Proof.
    intros Hr Ht Hb He Hlen. destruct (vtag_cons tag Ht) as (t0 & tg & ->).
    unfold stack_call, Client.run, resolve_tag.
    destruct (resolve_stack_err (mk_rreq Http.ReqManifestHead repo [] (t0 :: tg)) w
                (mkreq Request.ReqManifestHead repo [] (t0 :: tg) [] [] 0 []) b'
                [ECall (ResolveTag repo (t0 :: tg)) (Err e)] e) as (w' & E & Hw); try assumption.
    - wf_codec.
    - intros p rawq Hp.
      apply (EM emit_manifest_head_err (sv_b (w_srv w)) (plain_req MHead p rawq) _ Hp b' e _ eq_refl Hb
               (conf_err_serve e He)).
    - rewrite E. eexists. split; [reflexivity | exact Hw].
  Qed.

  (* ---------------------------------------------------------- DeleteBlob / DeleteManifest / DeleteTag *)

  Theorem transparent_DeleteBlob_ok (w : W) repo dig b' v :
    vrepo repo = true -> vdigest linked dig = true ->
    bstep (sv_b (w_srv w)) (DeleteBlob repo dig) = (b', Ok v) ->
    exists w',
      call_ (CDeleteBlob repo dig) w = (w', OUnit (Ok tt))
      /\ w_srv w' = after B (w_srv w) b' [ECall (DeleteBlob repo dig) (Ok v)].
  Proof.
    intros Hr Hd Hb. unfold stack_call, Client.run, delete_blob.
    destruct (delete_stack_ok (mk_rreq Http.ReqBlobDelete repo dig []) w
                (mkreq Request.ReqBlobDelete repo dig [] [] [] 0 []) b'
                [ECall (DeleteBlob repo dig) (Ok v)]) as (w' & E & Hw).
    - wf_codec.
    - intros p rawq Hp.
      apply (EM emit_blob_delete (sv_b (w_srv w)) (plain_req MDelete p rawq) _ Hp b' v eq_refl Hb).
    - rewrite E. eexists. split; [reflexivity | exact Hw].
  Qed.

  Theorem transparent_DeleteBlob_err (w : W) repo dig b' e :
    vrepo repo = true -> vdigest linked dig = true ->
    bstep (sv_b (w_srv w)) (DeleteBlob repo dig) = (b', Err e) ->
    conf_err e -> blen (enc (JErr (r_err (merr e)))) <= 8192 ->
    exists w',
      call_ (CDeleteBlob repo dig) w = (w', OUnit (Err (wire_error false e)))
      /\ w_srv w' = after B (w_srv w) b' [ECall (DeleteBlob repo dig) (Err e)].
  Proof.
    intros Hr Hd Hb He Hlen. unfold stack_call, Client.run, delete_blob.
    destruct (delete_stack_err (mk_rreq Http.ReqBlobDelete repo dig []) w
                (mkreq Request.ReqBlobDelete repo dig [] [] [] 0 []) b'
                [ECall (DeleteBlob repo dig) (Err e)] e) as (w' & E & Hw); try assumption.
    - wf_codec.
    - intros p rawq Hp.
      apply (EM emit_blob_delete_err (sv_b (w_srv w)) (plain_req MDelete p rawq) _ Hp b' e _ eq_refl Hb
               (conf_err_serve e He)).
    - rewrite E. eexists. split; [reflexivity | exact Hw].
  Qed.

  Theorem transparent_DeleteManifest_ok (w : W) repo dig b' v :
    vrepo repo = true -> vdigest linked dig = true ->
    bstep (sv_b (w_srv w)) (DeleteManifest repo dig) = (b', Ok v) ->
    exists w',
      call_ (CDeleteManifest repo dig) w = (w', OUnit (Ok tt))
      /\ w_srv w' = after B (w_srv w) b' [ECall (DeleteManifest repo dig) (Ok v)].
  Proof.
    intros Hr Hd Hb. unfold stack_call, Client.run, delete_manifest.
    destruct (delete_stack_ok (mk_rreq Http.ReqManifestDelete repo dig []) w
                (mkreq Request.ReqManifestDelete repo dig [] [] [] 0 []) b'
                [ECall (DeleteManifest repo dig) (Ok v)]) as (w' & E & Hw).
    - wf_codec.
    - intros p rawq Hp.
      apply (EM emit_manifest_delete (sv_b (w_srv w)) (plain_req MDelete p rawq) _ Hp b' v eq_refl Hb).
    - rewrite E. eexists. split; [reflexivity | exact Hw].
  Qed.

  Theorem transparent_DeleteManifest_err (w : W) repo dig b' e :
    vrepo repo = true -> vdigest linked dig = true ->
    bstep (sv_b (w_srv w)) (DeleteManifest repo dig) = (b', Err e) ->
    conf_err e -> blen (enc (JErr (r_err (merr e)))) <= 8192 ->
    exists w',
      call_ (CDeleteManifest repo dig) w = (w', OUnit (Err (wire_error false e)))
      /\ w_srv w' = after B (w_srv w) b' [ECall (DeleteManifest repo dig) (Err e)].
  Proof.
    intros Hr Hd Hb He Hlen. unfold stack_call, Client.run, delete_manifest.
    destruct (delete_stack_err (mk_rreq Http.ReqManifestDelete repo dig []) w
                (mkreq Request.ReqManifestDelete repo dig [] [] [] 0 []) b'
                [ECall (DeleteManifest repo dig) (Err e)] e) as (w' & E & Hw); try assumption.
    - wf_codec.
    - intros p rawq Hp.
      apply (EM emit_manifest_delete_err (sv_b (w_srv w)) (plain_req MDelete p rawq) _ Hp b' e _ eq_refl Hb
               (conf_err_serve e He)).
    - rewrite E. eexists. split; [reflexivity | exact Hw].
  Qed.

  Theorem transparent_DeleteTag_ok (w : W) repo tag b' v :
    vrepo repo = true -> vtag tag = true ->
    bstep (sv_b (w_srv w)) (DeleteTag repo tag) = (b', Ok v) ->
    exists w',
      call_ (CDeleteTag repo tag) w = (w', OUnit (Ok tt))
      /\ w_srv w' = after B (w_srv w) b' [ECall (DeleteTag repo tag) (Ok v)].
  Proof.
    intros Hr Ht Hb. destruct (vtag_cons tag Ht) as (t0 & tg & ->).
    unfold stack_call, Client.run, delete_tag.
    destruct (delete_stack_ok (mk_rreq Http.ReqManifestDelete repo [] (t0 :: tg)) w
                (mkreq Request.ReqManifestDelete repo [] (t0 :: tg) [] [] 0 []) b'
                [ECall (DeleteTag repo (t0 :: tg)) (Ok v)]) as (w' & E & Hw).
    - wf_codec.
    - intros p rawq Hp.
      apply (EM emit_manifest_delete (sv_b (w_srv w)) (plain_req MDelete p rawq) _ Hp b' v eq_refl Hb).
    - rewrite E. eexists. split; [reflexivity | exact Hw].
  Qed.

  Theorem transparent_DeleteTag_err (w : W) repo tag b' e :
    vrepo repo = true -> vtag tag = true ->
    bstep (sv_b (w_srv w)) (DeleteTag repo tag) = (b', Err e) ->
    conf_err e -> blen (enc (JErr (r_err (merr e)))) <= 8192 ->
    exists w',
      call_ (CDeleteTag repo tag) w = (w', OUnit (Err (wire_error false e)))
      /\ w_srv w' = after B (w_srv w) b' [ECall (DeleteTag repo tag) (Err e)].
  Proof.
    intros Hr Ht Hb He Hlen. destruct (vtag_cons tag Ht) as (t0 & tg & ->).
    unfold stack_call, Client.run, delete_tag.
    destruct (delete_stack_err (mk_rreq Http.ReqManifestDelete repo [] (t0 :: tg)) w
                (mkreq Request.ReqManifestDelete repo [] (t0 :: tg) [] [] 0 []) b'
                [ECall (DeleteTag repo (t0 :: tg)) (Err e)] e) as (w' & E & Hw); try assumption.
    - wf_codec.
    - intros p rawq Hp.
      apply (EM emit_manifest_delete_err (sv_b (w_srv w)) (plain_req MDelete p rawq) _ Hp b' e _ eq_refl Hb
               (conf_err_serve e He)).
    - rewrite E. eexists. split; [reflexivity | exact Hw].
  Qed.

  (* ---------------------------------------------------------- MountBlob *)

  Lemma vrepo_cons rp : vrepo rp = true -> exists c0 rs, rp = c0 :: rs.
  Proof. destruct rp as [|c0 rs]; [vm_compute; discriminate | eauto]. Qed.

  (* The descriptor of a mount comes back with size 0 and without its media type: the 201
     response carries only Docker-Content-Digest (a documented TODO in ociclient.MountBlob). *)
  Theorem transparent_MountBlob_ok (w : W) from to dig b' v :
    o_locs o = None ->
    vrepo from = true -> vrepo to = true -> vdigest linked dig = true ->
    bstep (sv_b (w_srv w)) (MountBlob from to dig) = (b', Ok v) ->
    vdigest linked (d_digest (desc_of v)) = true ->
    exists w',
      call_ (CMountBlob from to dig) w
      = (w', ODesc (Ok {| d_media := octet_stream; d_digest := d_digest (desc_of v); d_size := 0; d_artifact := [] |}))
      /\ w_srv w' = after B (w_srv w) b' [ECall (MountBlob from to dig) (Ok v)].
  Proof.
    intros Hl Hf Ht Hd Hb Hvd. destruct (vrepo_cons from Hf) as (f0 & fs & ->).
    unfold stack_call, Client.run, mount_blob, bind.
    erewrite (do_request_stack (mount_rreq (f0 :: fs) to dig) [201; 202] w
                (mkreq Request.ReqBlobMount to dig [] (f0 :: fs) [] 0 [])).
    2:{ unfold mount_rreq. wf_codec. }
    2:{ intros p rawq Hp.
        apply (EM emit_blob_mount (sv_b (w_srv w)) (plain_req MPost p rawq) _ Hp b' v eq_refl Hl Hb). }
    2:{ reflexivity. }
    cbv zeta. cbn [p_status]. change (status_accepted [201; 202] 201) with true.
    change (is_ok_status 201) with true. cbn iota.
    unfold Http.status, got. cbn [hr_rs]. rewrite rs_status_of_server_resp. cbn [p_status].
    change (201 =? 202) with false. cbn iota. unfold lift.
    unfold descriptor_from_response, rheader, Http.status. cbn [hr_rs].
    rewrite ?rs_status_of_server_resp, ?rs_header_of_server_resp. cbn [p_status p_hdrs]. hdrs.
    cbn [is_empty rbind e_valid_digest stack_env]. rewrite !(vdigest_nonempty _ _ Hvd), Hvd.
    cbn [negb rbind andb]. rewrite ?(vdigest_nonempty _ _ Hvd).
    eexists. split; reflexivity.
  Qed.

  Theorem transparent_MountBlob_err (w : W) from to dig b' e :
    vrepo from = true -> vrepo to = true -> vdigest linked dig = true ->
    bstep (sv_b (w_srv w)) (MountBlob from to dig) = (b', Err e) ->
    conf_err e -> blen (enc (JErr (r_err (merr e)))) <= 8192 ->
    exists w',
      call_ (CMountBlob from to dig) w = (w', ODesc (Err (wire_error false e)))
      /\ w_srv w' = after B (w_srv w) b' [ECall (MountBlob from to dig) (Err e)].
  Proof.
    intros Hf Ht Hd Hb He Hlen. destruct (vrepo_cons from Hf) as (f0 & fs & ->).
    unfold stack_call, Client.run, mount_blob, bind.
    assert (Hoks : Forall (fun st => is_ok_status st = true) [201; 202])
      by (repeat constructor).
    destruct (do_request_stack_err (mount_rreq (f0 :: fs) to dig) [201; 202] w
                (mkreq Request.ReqBlobMount to dig [] (f0 :: fs) [] 0 []) b'
                [ECall (MountBlob (f0 :: fs) to dig) (Err e)] [] e) as (w' & E & Hw); try assumption.
    - unfold mount_rreq. wf_codec.
    - intros p rawq Hp.
      apply (EM emit_blob_mount_err (sv_b (w_srv w)) (plain_req MPost p rawq) _ Hp b' e _ eq_refl Hb
               (conf_err_serve e He)).
    - reflexivity.
    - rewrite E. eexists. split; [reflexivity | exact Hw].
  Qed.

  (* ---------------------------------------------------------- GetBlob / GetManifest / GetTag *)

  Lemma of_server_resp_get_full resp :
    no_body_status (p_status resp) = false ->
    declared_length (p_hdrs resp) = Some (blen (p_body resp)) ->
    of_server_resp MGet resp =
      {| rs_status := p_status resp; rs_header := p_hdrs resp; rs_clen := blen (p_body resp);
         rs_body := {| b_data := p_body resp; b_fail := false |} |}.
  Proof.
    intros Hn Hd. unfold of_server_resp. cbn [meth_eqb]. rewrite Hn, Hd. unfold blen.
    rewrite Nat2Z.id, firstn_all, Z.ltb_irrefl. reflexivity.
  Qed.

  Definition reader (i : option nat) (data : bytes) (alg : bytes) (d : desc) (verify : bool) : blob_reader :=
    {| br_src := src_of i data; br_n := 0; br_alg := alg; br_seen := []; br_desc := d; br_verify := verify |}.

  Lemma available_eq a : Stack.available linked a = Ref.available linked a.
  Proof. reflexivity. Qed.

  (* client.read for a response that carries its digest (or for which the caller knows it) *)
  Lemma client_read_stack_ok q (w : W) r' b' tr hdrs data d' alg enc_ :
    kind_method (Http.q_kind q) = MGet ->
    codec_at linked (req_of q) r' ->
    (forall p rawq, parse_req linked (meth_bytes MGet) p rawq = Ok r' ->
       shandle (sv_b (w_srv w)) (plain_req MGet p rawq) = (b', tr, Ok (mkresp 200 hdrs data None))) ->
    declared_length hdrs = Some (blen data) ->
    descriptor_from_response env current
      (in_hand (length (w_log w)) (request_of q) MGet (mkresp 200 hdrs data None)) (Http.q_digest q) true false = Ok d' ->
    cut_byte 58%N (d_digest d') = Some (alg, enc_) -> Ref.available linked alg = true ->
    exists w', client_read (srv B) serve env current q w
               = (w', Ok (reader (Some (length (w_log w))) data alg d' true))
               /\ w_srv w' = after B (w_srv w) b' tr.
  Proof.
    intros Hm Hc Hh Hdl Hd Hcut Hav. unfold client_read, bind.
    erewrite (do_request_stack q [] w r'); [|exact Hc|rewrite Hm; exact Hh|reflexivity].
    cbv zeta. cbn [p_status status_accepted]. change (200 =? 200) with true.
    change (is_ok_status 200) with true. cbn iota. unfold lift.
    unfold got. rewrite request_of_method, Hm. unfold in_hand in Hd. rewrite Hd. cbn [flatten].
    assert (Hne : is_empty (d_digest d') = false) by (destruct (d_digest d'); [discriminate | reflexivity]).
    rewrite Hne. unfold new_blob_reader, algorithm_of. rewrite Hcut. cbn [rbind]. unfold hash_new.
    cbn [e_available stack_env]. rewrite available_eq, Hav. cbn [rbind]. unfold source_of.
    rewrite (of_server_resp_get_full (mkresp 200 hdrs data None) eq_refl Hdl).
    cbn [hr_idx hr_rest hr_rs rs_body b_data b_fail]. eexists. split; reflexivity.
  Qed.

  Lemma client_read_stack_err k q (w : W) r' b' tr e :
    kind_method (Http.q_kind q) = MGet ->
    codec_at linked (req_of q) r' ->
    (forall p rawq, parse_req linked (meth_bytes MGet) p rawq = Ok r' ->
       shandle (sv_b (w_srv w)) (plain_req MGet p rawq) = (b', tr, Ok (err_resp enc [] (merr e)))) ->
    conf_err e -> blen (enc (JErr (r_err (merr e)))) <= 8192 ->
    exists w', read_and_drain (srv B) env (client_read (srv B) serve env current q) k w
               = (w', Err (wire_error false e))
               /\ w_srv w' = after B (w_srv w) b' tr.
  Proof.
    intros Hm Hc Hh He Hlen. unfold read_and_drain, client_read, bind.
    destruct (do_request_stack_err q [] w r' b' tr [] e Hc) as (w' & E & Hw); try assumption.
    - rewrite Hm. exact Hh.
    - reflexivity.
    - constructor.
    - rewrite E, Hm. eexists. split; [reflexivity | exact Hw].
  Qed.

  (* the content hashes to the digest, with the digest's own algorithm *)
  Definition content_of (dig data : bytes) : Prop :=
    exists alg hex, cut_byte 58%N dig = Some (alg, hex) /\ dig = alg ++ 58%N :: hash alg data.

  Lemma read_whole k (w : W) (m : M (srv B) blob_reader) w1 i data alg d :
    (1 <= k)%nat ->
    m w = (w1, Ok (reader i data alg d true)) ->
    d_size d = blen data -> d_digest d = alg ++ 58%N :: hash alg data ->
    exists w', read_and_drain (srv B) env m k w = (w', Ok (d, data, RdEOF)) /\ w_srv w' = w_srv w1.
  Proof.
    intros Hk Hm Hsz Hdg. unfold read_and_drain, bind. rewrite Hm.
    destruct (drain_all_ok (srv B) env k (reader i data alg d true) i data w1 Hk eq_refl) as (w' & E & Hw).
    - cbn [br_n br_desc reader]. unfold blenZ, blen in *. rewrite Hsz. lia.
    - intros _. cbn [br_n br_desc reader]. unfold blenZ. rewrite Hsz. reflexivity.
    - unfold digest_matches. cbn [br_verify br_alg br_seen br_desc reader negb orb app].
      unfold new_digest. cbn [e_hashhex stack_env]. rewrite Hdg. apply beqb_refl.
    - cbn [br_desc reader] in E. rewrite E. eexists. split; [reflexivity | exact Hw].
  Qed.

  Theorem transparent_GetBlob_ok (w : W) repo dig bufsz b' v :
    o_locs o = None -> (1 <= bufsz)%nat ->
    vrepo repo = true -> vdigest linked dig = true ->
    bstep (sv_b (w_srv w)) (GetBlob repo dig) = (b', Ok v) ->
    d_size (desc_of v) = blen (data_of v) -> blen (data_of v) <= max_int64 ->
    content_of dig (data_of v) ->
    exists w',
      call_ (CGetBlob repo dig bufsz) w
      = (w', ORead (Ok ({| d_media := media_or_octet (d_media (desc_of v)); d_digest := dig;
                           d_size := d_size (desc_of v); d_artifact := [] |}, data_of v, RdEOF)))
      /\ w_srv w' = after B (w_srv w) b' [ECall (GetBlob repo dig) (Ok v); ECloseR].
  Proof.
    intros Hl Hk Hr Hd Hb Hsz Hmax (alg & hex & Hcut & Hdg).
    assert (Hi : int64 (d_size (desc_of v))) by (rewrite Hsz; split; [apply Nat2Z.is_nonneg | exact Hmax]).
    destruct (vdigest_cut _ _ Hd) as (a & e_ & Hcut' & Hav & _). rewrite Hcut in Hcut'. injection Hcut' as <- <-.
    unfold stack_call, Client.run.
    edestruct (client_read_stack_ok (mk_rreq Http.ReqBlobGet repo dig []) w
                 (mkreq Request.ReqBlobGet repo dig [] [] [] 0 []) b' [ECall (GetBlob repo dig) (Ok v); ECloseR]
                 (hdrs_blob_get dig (desc_of v)) (data_of v)) as (w1 & E1 & Hw1).
    - reflexivity.
    - wf_codec.
    - intros p rawq Hp.
      apply (EM emit_blob_get (sv_b (w_srv w)) (plain_req MGet p rawq) _ Hp b' v eq_refl Hl eq_refl Hb).
    - rewrite <- Hsz. apply declared_clen; [exact Hi|]. unfold hdrs_blob_get. hdrs. reflexivity.
    - apply descriptor_roundtrip_blob_get; assumption.
    - exact Hcut.
    - exact Hav.
    - unfold get_blob.
      edestruct (read_whole bufsz w _ w1 _ (data_of v) alg _ Hk E1) as (w2 & E2 & Hw2);
        [| |rewrite E2; eexists; split; [reflexivity | rewrite Hw2; exact Hw1]].
      + exact Hsz.
      + exact Hdg.
  Qed.

  Theorem transparent_GetBlob_err (w : W) repo dig bufsz b' e :
    o_locs o = None -> vrepo repo = true -> vdigest linked dig = true ->
    bstep (sv_b (w_srv w)) (GetBlob repo dig) = (b', Err e) ->
    conf_err e -> blen (enc (JErr (r_err (merr e)))) <= 8192 ->
    exists w',
      call_ (CGetBlob repo dig bufsz) w = (w', ORead (Err (wire_error false e)))
      /\ w_srv w' = after B (w_srv w) b' [ECall (GetBlob repo dig) (Err e)].
  Proof.
    intros Hl Hr Hd Hb He Hlen. unfold stack_call, Client.run, get_blob.
    destruct (client_read_stack_err bufsz (mk_rreq Http.ReqBlobGet repo dig []) w
                (mkreq Request.ReqBlobGet repo dig [] [] [] 0 []) b'
                [ECall (GetBlob repo dig) (Err e)] e) as (w' & E & Hw); try assumption.
    - reflexivity.
    - wf_codec.
    - intros p rawq Hp.
      apply (EM emit_blob_get_err (sv_b (w_srv w)) (plain_req MGet p rawq) _ Hp b' e _ eq_refl Hl eq_refl Hb
               (conf_err_serve e He)).
    - rewrite E. eexists. split; [reflexivity | exact Hw].
  Qed.

  (* GetManifest by digest.  The backend's descriptor is asked to carry the requested digest
     (with OmitDigestFromTagGetResponse the client substitutes the requested one in any case). *)
  Theorem transparent_GetManifest_ok (w : W) repo dig bufsz b' v :
    (1 <= bufsz)%nat -> vrepo repo = true -> vdigest linked dig = true ->
    bstep (sv_b (w_srv w)) (GetManifest repo dig) = (b', Ok v) ->
    d_digest (desc_of v) = dig ->
    d_size (desc_of v) = blen (data_of v) -> blen (data_of v) <= max_int64 ->
    content_of dig (data_of v) ->
    exists w',
      call_ (CGetManifest repo dig bufsz) w
      = (w', ORead (Ok ({| d_media := media_or_octet (d_media (desc_of v)); d_digest := dig;
                           d_size := d_size (desc_of v); d_artifact := [] |}, data_of v, RdEOF)))
      /\ w_srv w' = after B (w_srv w) b' [ECall (GetManifest repo dig) (Ok v); ECloseR].
  Proof.
    intros Hk Hr Hd Hb Hdd Hsz Hmax (alg & hex & Hcut & Hdg).
    assert (Hi : int64 (d_size (desc_of v))) by (rewrite Hsz; split; [apply Nat2Z.is_nonneg | exact Hmax]).
    destruct (vdigest_cut _ _ Hd) as (a & e_ & Hcut' & Hav & _). rewrite Hcut in Hcut'. injection Hcut' as <- <-.
    unfold stack_call, Client.run.
    edestruct (client_read_stack_ok (mk_rreq Http.ReqManifestGet repo dig []) w
                 (mkreq Request.ReqManifestGet repo dig [] [] [] 0 []) b'
                 [ECall (GetManifest repo dig) (Ok v); ECloseR]
                 (hdrs_manifest_get o (desc_of v)) (data_of v)
                 {| d_media := media_or_octet (d_media (desc_of v)); d_digest := dig;
                    d_size := d_size (desc_of v); d_artifact := [] |}) as (w1 & E1 & Hw1).
    - reflexivity.
    - wf_codec.
    - intros p rawq Hp.
      apply (EM emit_manifest_get (sv_b (w_srv w)) (plain_req MGet p rawq) _ Hp b' v eq_refl Hb).
    - rewrite <- Hsz. apply declared_clen; [exact Hi|]. unfold hdrs_manifest_get. hdrs. reflexivity.
    - cbn [Http.q_digest mk_rreq].
      rewrite (descriptor_roundtrip_manifest_get linked hash media dec_errors dec_names dec_index o _ _
                 (desc_of v) (data_of v) dig); [|rewrite Hdd; exact Hd|exact Hi|left; exact Hd].
      rewrite Hdd. destruct (o_omit_digest_from_tag_get o); reflexivity.
    - exact Hcut.
    - exact Hav.
    - unfold get_manifest.
      edestruct (read_whole bufsz w _ w1 _ (data_of v) alg _ Hk E1) as (w2 & E2 & Hw2);
        [| |rewrite E2; eexists; split; [reflexivity | rewrite Hw2; exact Hw1]].
      + exact Hsz.
      + exact Hdg.
  Qed.

  Theorem transparent_GetManifest_err (w : W) repo dig bufsz b' e :
    vrepo repo = true -> vdigest linked dig = true ->
    bstep (sv_b (w_srv w)) (GetManifest repo dig) = (b', Err e) ->
    conf_err e -> blen (enc (JErr (r_err (merr e)))) <= 8192 ->
    exists w',
      call_ (CGetManifest repo dig bufsz) w = (w', ORead (Err (wire_error false e)))
      /\ w_srv w' = after B (w_srv w) b' [ECall (GetManifest repo dig) (Err e)].
  Proof.
    intros Hr Hd Hb He Hlen. unfold stack_call, Client.run, get_manifest.
    destruct (client_read_stack_err bufsz (mk_rreq Http.ReqManifestGet repo dig []) w
                (mkreq Request.ReqManifestGet repo dig [] [] [] 0 []) b'
                [ECall (GetManifest repo dig) (Err e)] e) as (w' & E & Hw); try assumption.
    - reflexivity.
    - wf_codec.
    - intros p rawq Hp.
      apply (EM emit_manifest_get_err (sv_b (w_srv w)) (plain_req MGet p rawq) _ Hp b' e _ eq_refl Hb
               (conf_err_serve e He)).
    - rewrite E. eexists. split; [reflexivity | exact Hw].
  Qed.

  (* GetTag when the server sends the digest *)
  Theorem transparent_GetTag_ok (w : W) repo tag bufsz b' v :
    o_omit_digest_from_tag_get o = false ->
    (1 <= bufsz)%nat -> vrepo repo = true -> vtag tag = true ->
    bstep (sv_b (w_srv w)) (GetTag repo tag) = (b', Ok v) ->
    vdigest linked (d_digest (desc_of v)) = true ->
    d_size (desc_of v) = blen (data_of v) -> blen (data_of v) <= max_int64 ->
    content_of (d_digest (desc_of v)) (data_of v) ->
    exists w',
      call_ (CGetTag repo tag bufsz) w
      = (w', ORead (Ok (head_desc true (desc_of v), data_of v, RdEOF)))
      /\ w_srv w' = after B (w_srv w) b' [ECall (GetTag repo tag) (Ok v); ECloseR].
  Proof.
    intros Hom Hk Hr Ht Hb Hvd Hsz Hmax (alg & hex & Hcut & Hdg).
    destruct (vtag_cons tag Ht) as (t0 & tg & ->).
    assert (Hi : int64 (d_size (desc_of v))) by (rewrite Hsz; split; [apply Nat2Z.is_nonneg | exact Hmax]).
    destruct (vdigest_cut _ _ Hvd) as (a & e_ & Hcut' & Hav & _). rewrite Hcut in Hcut'. injection Hcut' as <- <-.
    unfold stack_call, Client.run.
    edestruct (client_read_stack_ok (mk_rreq Http.ReqManifestGet repo [] (t0 :: tg)) w
                 (mkreq Request.ReqManifestGet repo [] (t0 :: tg) [] [] 0 []) b'
                 [ECall (GetTag repo (t0 :: tg)) (Ok v); ECloseR]
                 (hdrs_manifest_get o (desc_of v)) (data_of v) (head_desc true (desc_of v))) as (w1 & E1 & Hw1).
    - reflexivity.
    - wf_codec.
    - intros p rawq Hp.
      apply (EM emit_manifest_get (sv_b (w_srv w)) (plain_req MGet p rawq) _ Hp b' v eq_refl Hb).
    - rewrite <- Hsz. apply declared_clen; [exact Hi|]. unfold hdrs_manifest_get. hdrs. reflexivity.
    - cbn [Http.q_digest mk_rreq].
      rewrite (descriptor_roundtrip_manifest_get linked hash media dec_errors dec_names dec_index o _ _
                 (desc_of v) (data_of v) []); [|exact Hvd|exact Hi|right; reflexivity].
      rewrite Hom. reflexivity.
    - exact Hcut.
    - exact Hav.
    - unfold get_tag.
      edestruct (read_whole bufsz w _ w1 _ (data_of v) alg _ Hk E1) as (w2 & E2 & Hw2);
        [| |rewrite E2; eexists; split; [reflexivity | rewrite Hw2; exact Hw1]].
      + exact Hsz.
      + exact Hdg.
  Qed.

  Theorem transparent_GetTag_err (w : W) repo tag bufsz b' e :
    vrepo repo = true -> vtag tag = true ->
    bstep (sv_b (w_srv w)) (GetTag repo tag) = (b', Err e) ->
    conf_err e -> blen (enc (JErr (r_err (merr e)))) <= 8192 ->
    exists w',
      call_ (CGetTag repo tag bufsz) w = (w', ORead (Err (wire_error false e)))
      /\ w_srv w' = after B (w_srv w) b' [ECall (GetTag repo tag) (Err e)].
  Proof.
    intros Hr Ht Hb He Hlen. destruct (vtag_cons tag Ht) as (t0 & tg & ->).
    unfold stack_call, Client.run, get_tag.
    destruct (client_read_stack_err bufsz (mk_rreq Http.ReqManifestGet repo [] (t0 :: tg)) w
                (mkreq Request.ReqManifestGet repo [] (t0 :: tg) [] [] 0 []) b'
                [ECall (GetTag repo (t0 :: tg)) (Err e)] e) as (w' & E & Hw); try assumption.
    - reflexivity.
    - wf_codec.
    - intros p rawq Hp.
      apply (EM emit_manifest_get_err (sv_b (w_srv w)) (plain_req MGet p rawq) _ Hp b' e _ eq_refl Hb
               (conf_err_serve e He)).
    - rewrite E. eexists. split; [reflexivity | exact Hw].
  Qed.

  (* ---- GetTag under OmitDigestFromTagGetResponse ---- *)

  Lemma cut_sha256 x : cut_byte 58%N (sha256_name ++ 58%N :: x) = Some (sha256_name, x).
  Proof. reflexivity. Qed.

  Lemma available_sha256 : linked SHA256 = true -> Ref.available linked sha256_name = true.
  Proof. intros H. exact H. Qed.

  (* the first exchange of a tag GET whose response has no digest *)
  Lemma tag_get_exchange (w : W) repo t0 tg b' v :
    o_omit_digest_from_tag_get o = true ->
    vrepo repo = true -> vtag (t0 :: tg) = true ->
    bstep (sv_b (w_srv w)) (GetTag repo (t0 :: tg)) = (b', Ok v) ->
    vdigest linked (d_digest (desc_of v)) = true ->
    d_size (desc_of v) = blen (data_of v) -> blen (data_of v) <= max_int64 ->
    let q := mk_rreq Http.ReqManifestGet repo [] (t0 :: tg) in
    let resp := mkresp 200 (hdrs_manifest_get o (desc_of v)) (data_of v) None in
    do_request (srv B) serve env q [] w
    = (logged B w (request_of q) resp (after B (w_srv w) b' [ECall (GetTag repo (t0 :: tg)) (Ok v); ECloseR]),
       Ok (got B w (request_of q) resp))
    /\ descriptor_from_response env current (got B w (request_of q) resp) [] true false
       = Ok {| d_media := media_or_octet (d_media (desc_of v)); d_digest := [];
               d_size := d_size (desc_of v); d_artifact := [] |}
    /\ of_server_resp MGet resp
       = {| rs_status := 200; rs_header := hdrs_manifest_get o (desc_of v); rs_clen := blen (data_of v);
            rs_body := {| b_data := data_of v; b_fail := false |} |}.
  Proof.
    intros Hom Hr Ht Hb Hvd Hsz Hmax q resp.
    assert (Hi : int64 (d_size (desc_of v))) by (rewrite Hsz; split; [apply Nat2Z.is_nonneg | exact Hmax]).
    split; [|split].
    - rewrite (do_request_stack q [] w (mkreq Request.ReqManifestGet repo [] (t0 :: tg) [] [] 0 []) b'
                 [ECall (GetTag repo (t0 :: tg)) (Ok v); ECloseR] resp).
      + reflexivity.
      + subst q. wf_codec.
      + intros p rawq Hp.
        apply (EM emit_manifest_get (sv_b (w_srv w)) (plain_req MGet p rawq) _ Hp b' v eq_refl Hb).
      + reflexivity.
    - change (got B w (request_of q) resp) with (in_hand (length (w_log w)) (request_of q) MGet resp).
      unfold resp.
      rewrite (descriptor_roundtrip_manifest_get linked hash media dec_errors dec_names dec_index o _ _
                 (desc_of v) (data_of v) []); [|exact Hvd|exact Hi|right; reflexivity].
      rewrite Hom. reflexivity.
    - apply (of_server_resp_get_full resp eq_refl). cbn [p_hdrs p_body resp]. rewrite <- Hsz.
      apply declared_clen; [exact Hi|]. unfold hdrs_manifest_get. hdrs. reflexivity.
  Qed.

  (* a manifest up to the client's in-memory threshold: the digest is that of the bytes received,
     always sha256 (digest.FromBytes), whatever digest the backend's descriptor carries *)
  Theorem transparent_GetTag_omitted_small (w : W) repo tag bufsz b' v :
    o_omit_digest_from_tag_get o = true -> linked SHA256 = true ->
    (1 <= bufsz)%nat -> vrepo repo = true -> vtag tag = true ->
    bstep (sv_b (w_srv w)) (GetTag repo tag) = (b', Ok v) ->
    vdigest linked (d_digest (desc_of v)) = true ->
    d_size (desc_of v) = blen (data_of v) -> blen (data_of v) <= in_mem_threshold ->
    exists w',
      call_ (CGetTag repo tag bufsz) w
      = (w', ORead (Ok ({| d_media := media_or_octet (d_media (desc_of v));
                           d_digest := digest_of hash (data_of v);
                           d_size := d_size (desc_of v); d_artifact := [] |}, data_of v, RdEOF)))
      /\ w_srv w' = after B (w_srv w) b' [ECall (GetTag repo tag) (Ok v); ECloseR].
  Proof.
    intros Hom Hl Hk Hr Ht Hb Hvd Hsz Hth. destruct (vtag_cons tag Ht) as (t0 & tg & ->).
    assert (Hmax : blen (data_of v) <= max_int64) by (unfold in_mem_threshold, max_int64 in *; lia).
    destruct (tag_get_exchange w repo t0 tg b' v Hom Hr Ht Hb Hvd Hsz Hmax) as (E1 & E2 & E3).
    unfold stack_call, Client.run, get_tag.
    match goal with |- context [read_and_drain (srv B) env ?m bufsz w] => set (M0 := m) end.
    assert (EM0 : exists w1, M0 w = (w1, Ok (reader None (data_of v) sha256_name
                     {| d_media := media_or_octet (d_media (desc_of v)); d_digest := digest_of hash (data_of v);
                        d_size := d_size (desc_of v); d_artifact := [] |} true))
                  /\ w_srv w1 = after B (w_srv w) b' [ECall (GetTag repo (t0 :: tg)) (Ok v); ECloseR]).
    { unfold M0, client_read, bind. rewrite E1. unfold lift. cbn [Http.q_digest mk_rreq]. rewrite E2.
      cbn [flatten d_digest is_empty Http.q_kind mk_rreq is_manifest_get negb d_size].
      rewrite Hsz. destruct (Z.leb_spec (blen (data_of v)) in_mem_threshold) as [_|]; [|lia].
      unfold read_in_memory, read_limited, got. rewrite request_of_method.
      cbn [Http.q_kind mk_rreq kind_method hr_rest hr_rs d_size]. rewrite E3.
      cbn [rs_body b_data b_fail andb].
      assert (Hfn : firstn (Z.to_nat (blen (data_of v) + 1)) (data_of v) = data_of v).
      { apply firstn_all2. unfold blen. lia. }
      rewrite Hfn. unfold blenZ. fold (blen (data_of v)). rewrite Z.eqb_refl. cbn [negb].
      unfold new_blob_reader, algorithm_of, with_digest. cbn [d_digest d_media d_size d_artifact].
      unfold from_bytes, new_digest. rewrite cut_sha256. cbn [rbind]. unfold hash_new.
      cbn [e_available stack_env e_hashhex]. rewrite available_eq, (available_sha256 Hl). cbn [rbind].
      eexists. split; reflexivity. }
    destruct EM0 as (w1 & EM0 & Hw1).
    edestruct (read_whole bufsz w M0 w1 None (data_of v) sha256_name _ Hk EM0) as (w2 & E4 & Hw2);
      [| |rewrite E4; eexists; split; [reflexivity | rewrite Hw2; exact Hw1]].
    - exact Hsz.
    - reflexivity.
  Qed.

  (* a manifest above the threshold: the client asks again with HEAD (one more ResolveTag reaches
     the backend) and takes the descriptor of that answer *)
  Theorem transparent_GetTag_omitted_large (w : W) repo tag bufsz b' v b'' v1 :
    o_omit_digest_from_tag_get o = true ->
    (1 <= bufsz)%nat -> vrepo repo = true -> vtag tag = true ->
    bstep (sv_b (w_srv w)) (GetTag repo tag) = (b', Ok v) ->
    vdigest linked (d_digest (desc_of v)) = true ->
    d_size (desc_of v) = blen (data_of v) -> blen (data_of v) <= max_int64 ->
    in_mem_threshold < blen (data_of v) ->
    bstep b' (ResolveTag repo tag) = (b'', Ok v1) ->
    vdigest linked (d_digest (desc_of v1)) = true ->
    d_size (desc_of v1) = blen (data_of v) ->
    content_of (d_digest (desc_of v1)) (data_of v) ->
    exists w',
      call_ (CGetTag repo tag bufsz) w
      = (w', ORead (Ok (head_desc true (desc_of v1), data_of v, RdEOF)))
      /\ w_srv w' = after B (after B (w_srv w) b' [ECall (GetTag repo tag) (Ok v); ECloseR]) b''
                           [ECall (ResolveTag repo tag) (Ok v1)].
  Proof.
    intros Hom Hk Hr Ht Hb Hvd Hsz Hmax Hth Hb1 Hvd1 Hsz1 (alg & hex & Hcut & Hdg).
    destruct (vtag_cons tag Ht) as (t0 & tg & ->).
    destruct (tag_get_exchange w repo t0 tg b' v Hom Hr Ht Hb Hvd Hsz Hmax) as (E1 & E2 & E3).
    assert (Hi1 : int64 (d_size (desc_of v1))) by (rewrite Hsz1; split; [apply Nat2Z.is_nonneg | exact Hmax]).
    destruct (vdigest_cut _ _ Hvd1) as (a & e_ & Hcut' & Hav & _). rewrite Hcut in Hcut'. injection Hcut' as <- <-.
    unfold stack_call, Client.run, get_tag.
    match goal with |- context [read_and_drain (srv B) env ?m bufsz w] => set (M0 := m) end.
    assert (EM0 : exists w1, M0 w = (w1, Ok (reader (Some (length (w_log w))) (data_of v) alg
                                               (head_desc true (desc_of v1)) true))
                  /\ w_srv w1 = after B (after B (w_srv w) b' [ECall (GetTag repo (t0 :: tg)) (Ok v); ECloseR]) b''
                                       [ECall (ResolveTag repo (t0 :: tg)) (Ok v1)]).
    { unfold M0, client_read, bind. rewrite E1. unfold lift. cbn [Http.q_digest mk_rreq]. rewrite E2.
      cbn [flatten d_digest is_empty Http.q_kind mk_rreq is_manifest_get negb d_size].
      rewrite Hsz. destruct (Z.leb_spec (blen (data_of v)) in_mem_threshold) as [|_]; [lia|].
      change (with_kind Http.ReqManifestHead (mk_rreq Http.ReqManifestGet repo [] (t0 :: tg)))
        with (mk_rreq Http.ReqManifestHead repo [] (t0 :: tg)).
      match goal with |- context [do_request (srv B) serve env ?q1 [] ?w1] =>
        rewrite (do_request_stack q1 [] w1 (mkreq Request.ReqManifestHead repo [] (t0 :: tg) [] [] 0 []) b''
                   [ECall (ResolveTag repo (t0 :: tg)) (Ok v1)]
                   (mkresp 200 (hdrs_manifest_head o true (desc_of v1)) [] None))
      end.
      2:{ wf_codec. }
      2:{ intros p rawq Hp. cbn [w_srv logged sv_b after].
          apply (EM emit_manifest_head b' (plain_req MHead p rawq) _ Hp b'' v1 eq_refl Hb1). }
      2:{ reflexivity. }
      cbv zeta. cbn [p_status status_accepted]. change (200 =? 200) with true.
      change (is_ok_status 200) with true. cbn iota.
      match goal with |- context [descriptor_from_response env current (got B ?w1 ?rq1 ?rs1) [] true true] =>
        change (got B w1 rq1 rs1) with (in_hand (length (w_log w1)) rq1 MHead rs1)
      end.
      rewrite (descriptor_roundtrip_manifest_head linked hash media dec_errors dec_names dec_index o _ _ true
                 (desc_of v1) [] Hvd1 Hi1 (or_intror eq_refl)).
      cbv zeta. rewrite orb_true_r. rewrite (vdigest_nonempty _ _ Hvd1).
      unfold new_blob_reader, algorithm_of. cbn [d_digest]. rewrite Hcut. cbn [rbind]. unfold hash_new.
      cbn [e_available stack_env]. rewrite available_eq, Hav. cbn [rbind].
      unfold source_of, got. rewrite request_of_method.
      cbn [Http.q_kind mk_rreq kind_method hr_rest hr_rs hr_idx]. rewrite E3.
      cbn [rs_body b_data b_fail]. eexists. split; reflexivity. }
    destruct EM0 as (w1 & EM0 & Hw1).
    edestruct (read_whole bufsz w M0 w1 _ (data_of v) alg _ Hk EM0) as (w2 & E4 & Hw2);
      [| |rewrite E4; eexists; split; [reflexivity | rewrite Hw2; exact Hw1]].
    - exact Hsz1.
    - exact Hdg.
  Qed.

  (* ---------------------------------------------------------- PushManifest *)

  Lemma from_bytes_digest_of data : from_bytes env data = digest_of hash data.
  Proof. reflexivity. Qed.

  (* the PUT request of PushManifest *)
  Definition put_request (repo tag contents med : bytes) : Http.hreq :=
    {| rq_method := MPut; rq_url := UReq (mk_rreq Http.ReqManifestPut repo (digest_of hash contents) tag);
       rq_header := [(h_content_type, med)];
       rq_body := body_of_reader true true contents; rq_clen := blenZ contents |}.

  Lemma to_server_req_put repo tag contents med p rawq :
    url_parse_v2 (snd (construct (req_of (mk_rreq Http.ReqManifestPut repo (digest_of hash contents) tag)))) = Ok (p, rawq) ->
    to_server_req (put_request repo tag contents med)
    = Ok (mkhreq m_PUT p rawq [] [] med (blen contents) contents).
  Proof.
    intros Hu. unfold to_server_req, put_request. cbn [rq_url interp_url rq_body rq_header rq_method]. rewrite Hu.
    unfold outgoing_length. cbn [rq_body rq_clen].
    destruct contents as [|c0 cs].
    - cbn [body_of_reader negb body_bytes]. hdrs. reflexivity.
    - cbn [body_of_reader negb body_bytes]. unfold blenZ, blen.
      assert (Hpos : 0 < Z.of_nat (length (c0 :: cs))) by (cbn [length]; lia).
      destruct (Z.eqb_spec (Z.of_nat (length (c0 :: cs))) 0); [lia|].
      destruct (Z.ltb_spec 0 (Z.of_nat (length (c0 :: cs)))); [|lia].
      rewrite Z.eqb_refl. cbn [andb negb].
      destruct (Z.ltb_spec (Z.of_nat (length (c0 :: cs))) 0); [lia|]. hdrs. reflexivity.
  Qed.

  Definition manifest_desc (contents med : bytes) : desc :=
    {| d_media := med; d_digest := digest_of hash contents; d_size := blen contents; d_artifact := [] |}.

  Definition tag_or_valid_digest (tag contents : bytes) : Prop :=
    vtag tag = true \/ (tag = [] /\ vdigest linked (digest_of hash contents) = true).

  Lemma put_codec repo tag contents :
    vrepo repo = true -> tag_or_valid_digest tag contents ->
    codec_at linked (req_of (mk_rreq Http.ReqManifestPut repo (digest_of hash contents) tag))
      (mkreq Request.ReqManifestPut repo (match tag with [] => digest_of hash contents | _ => [] end) tag [] [] 0 []).
  Proof.
    intros Hr [Ht | [-> Hd]].
    - destruct (vtag_cons tag Ht) as (t0 & tg & ->). wf_codec.
    - wf_codec.
  Qed.

  (* PushManifest returns the descriptor the CLIENT computed (media type given, sha256 of the
     contents, their length); the backend's own descriptor does not travel *)
  Theorem transparent_PushManifest_ok (w : W) repo tag contents med b' v :
    o_locs o = None -> med <> [] ->
    vrepo repo = true -> tag_or_valid_digest tag contents ->
    subject_from_manifest subject_of med contents <> None ->
    bstep (sv_b (w_srv w)) (PushManifest repo tag contents med) = (b', Ok v) ->
    exists w',
      call_ (CPushManifest repo tag contents med) w = (w', ODesc (Ok (manifest_desc contents med)))
      /\ w_srv w' = after B (w_srv w) b' [ECall (PushManifest repo tag contents med) (Ok v)].
  Proof.
    intros Hl Hm Hr Htd Hsj Hb.
    pose proof (put_codec repo tag contents Hr Htd) as Hc.
    pose proof (codec_construct_ok _ _ _ Hc) as HC. destruct Hc as (p & rawq & Hu & Hp).
    unfold stack_call, Client.run, push_manifest.
    destruct med as [|m0 ms]; [congruence|]. cbn [is_empty].
    unfold bind, new_request. cbn [e_construct_ok stack_env]. unfold Stack.construct_ok.
    cbn [d_digest d_size d_media]. rewrite !from_bytes_digest_of, HC. unfold ret.
    change (with_header h_content_type (m0 :: ms) _) with (put_request repo tag contents (m0 :: ms)).
    assert (Hh : exists hdrs,
      shandle (sv_b (w_srv w)) (mkhreq m_PUT p rawq [] [] (m0 :: ms) (blen contents) contents)
      = (b', [ECall (PushManifest repo tag contents (m0 :: ms)) (Ok v)], Ok (mkresp 201 hdrs [] None))).
    { destruct (EM emit_manifest_put (sv_b (w_srv w)) (mkhreq m_PUT p rawq [] [] (m0 :: ms) (blen contents) contents)
                  _ Hp b' v eq_refl Hl) as (hdrs & E).
      - split; [destruct tag; [reflexivity | exact I] | exact Hsj].
      - destruct tag; exact Hb.
      - exists hdrs. destruct tag; exact E. }
    destruct Hh as (hdrs & Hh).
    erewrite client_do_stack; [|apply to_server_req_put; exact Hu|exact Hh|reflexivity].
    cbv zeta. cbn [p_status]. change (status_accepted [201] 201) with true. cbn iota.
    eexists. split; reflexivity.
  Qed.

  Theorem transparent_PushManifest_err (w : W) repo tag contents med b' e :
    med <> [] -> vrepo repo = true -> tag_or_valid_digest tag contents ->
    subject_from_manifest subject_of med contents <> None ->
    bstep (sv_b (w_srv w)) (PushManifest repo tag contents med) = (b', Err e) ->
    conf_err e -> blen (enc (JErr (r_err (merr e)))) <= 8192 ->
    exists w',
      call_ (CPushManifest repo tag contents med) w = (w', ODesc (Err (wire_error false e)))
      /\ w_srv w' = after B (w_srv w) b' [ECall (PushManifest repo tag contents med) (Err e)].
  Proof.
    intros Hm Hr Htd Hsj Hb He Hlen.
    pose proof (put_codec repo tag contents Hr Htd) as Hc.
    pose proof (codec_construct_ok _ _ _ Hc) as HC. destruct Hc as (p & rawq & Hu & Hp).
    unfold stack_call, Client.run, push_manifest.
    destruct med as [|m0 ms]; [congruence|]. cbn [is_empty].
    unfold bind, new_request. cbn [e_construct_ok stack_env]. unfold Stack.construct_ok.
    cbn [d_digest d_size d_media]. rewrite !from_bytes_digest_of, HC. unfold ret.
    change (with_header h_content_type (m0 :: ms) _) with (put_request repo tag contents (m0 :: ms)).
    assert (Hh :
      shandle (sv_b (w_srv w)) (mkhreq m_PUT p rawq [] [] (m0 :: ms) (blen contents) contents)
      = (b', [ECall (PushManifest repo tag contents (m0 :: ms)) (Err e)], Ok (err_resp enc [] (merr e)))).
    { pose proof (EM emit_manifest_put_err (sv_b (w_srv w))
                    (mkhreq m_PUT p rawq [] [] (m0 :: ms) (blen contents) contents) _ Hp b' e (merr e) eq_refl) as E.
      destruct tag; apply E; try (apply conf_err_serve; exact He); try exact Hb;
        (split; [first [reflexivity | exact I] | exact Hsj]). }
    destruct He as [Hte Hst]. destruct (err_status_facts _ Hst) as (Hrd & Hnb & Hok).
    erewrite client_do_stack; [|apply to_server_req_put; exact Hu|exact Hh|exact Hrd].
    cbv zeta. cbn [p_status err_resp r_status marshal_error]. rewrite Hok. cbn [negb].
    assert (Hacc : status_accepted [201] (marshal_status e) = false).
    { cbn [status_accepted existsb]. destruct (Z.eqb_spec (marshal_status e) 201); [lia | reflexivity]. }
    rewrite Hacc. unfold fail_make_error.
    erewrite make_error_stack; try eassumption; try reflexivity; [|apply json_errors_rt].
    cbn [rq_method put_request meth_eqb]. eexists. split; reflexivity.
  Qed.

  (* ---------------------------------------------------------- GetBlobRange *)

  Definition range_request (repo dig : bytes) (o0 o1 : Z) : Http.hreq :=
    {| rq_method := MGet; rq_url := UReq (mk_rreq Http.ReqBlobGet repo dig []);
       rq_header := [(h_range, range_header o0 o1)]; rq_body := BNil; rq_clen := 0 |}.

  Lemma to_server_req_range repo dig o0 o1 p rawq :
    url_parse_v2 (snd (construct (req_of (mk_rreq Http.ReqBlobGet repo dig [])))) = Ok (p, rawq) ->
    to_server_req (range_request repo dig o0 o1) = Ok (mkhreq m_GET p rawq (range_header o0 o1) [] [] 0 []).
  Proof.
    intros Hu. unfold to_server_req, range_request. cbn [rq_url interp_url rq_body rq_header rq_method]. rewrite Hu.
    unfold outgoing_length. cbn [rq_body body_bytes]. hdrs. reflexivity.
  Qed.

  (* the request the client sends for (o0, o1), when it sends a Range header at all *)
  Lemma get_blob_range_request repo dig o0 o1 (w : W) :
    (o0 =? 0) && (o1 <? 0) = false ->
    Stack.construct_ok linked (mk_rreq Http.ReqBlobGet repo dig []) = true ->
    get_blob_range (srv B) serve env current repo dig o0 o1 w
    = (let '(w1, r) := client_do (srv B) serve env (range_request repo dig o0 o1) [200; 206] w in
       match r with
       | Ok r =>
           (w1, match flatten (s "invalid descriptor in response")
                        (descriptor_from_response env current r dig true false) with
                | Ok d => new_blob_reader env (source_of r) d false
                | Err e => Err e
                | Panic => Panic
                | OutOfFuel => OutOfFuel
                end)
       | Err e => (w1, Err e)
       | Panic => (w1, Panic)
       | OutOfFuel => (w1, OutOfFuel)
       end).
  Proof.
    intros Hc Hok. unfold get_blob_range. rewrite Hc. unfold bind, new_request. cbn [e_construct_ok stack_env].
    rewrite Hok. unfold ret, with_header, range_request. cbn [rq_method rq_url rq_header rq_body rq_clen kind_method
      Http.q_kind mk_rreq].
    destruct (client_do (srv B) serve env _ [200; 206] w) as [w1 [r|e| |]]; try reflexivity.
    unfold lift. destruct (flatten _ _) as [d|e| |]; reflexivity.
  Qed.

  Theorem transparent_GetBlobRange_ok (w : W) repo dig o0 o1 bufsz b' v :
    o_locs o = None -> (1 <= bufsz)%nat ->
    vrepo repo = true -> vdigest linked dig = true ->
    expressible o0 o1 -> (o0 =? 0) && (o1 <? 0) = false ->
    bstep (sv_b (w_srv w)) (GetBlobRange repo dig o0 (server_end o1)) = (b', Ok v) ->
    int64 (d_size (desc_of v)) -> o0 <= d_size (desc_of v) ->
    blen (data_of v) = range_end (d_size (desc_of v)) (server_end o1) - o0 ->
    exists w',
      call_ (CGetBlobRange repo dig o0 o1 bufsz) w
      = (w', ORead (Ok ({| d_media := media_or_octet (d_media (desc_of v)); d_digest := dig;
                           d_size := d_size (desc_of v); d_artifact := [] |}, data_of v, RdEOF)))
      /\ w_srv w' = after B (w_srv w) b' [ECall (GetBlobRange repo dig o0 (server_end o1)) (Ok v); ECloseR].
  Proof.
    intros Hl Hk Hr Hd Hex Hnz Hb Hi Hle Hlen.
    assert (Hc : codec_at linked (req_of (mk_rreq Http.ReqBlobGet repo dig []))
                   (mkreq Request.ReqBlobGet repo dig [] [] [] 0 [])) by wf_codec.
    pose proof (codec_construct_ok _ _ _ Hc) as HC. destruct Hc as (p & rawq & Hu & Hp).
    destruct (vdigest_cut _ _ Hd) as (alg & e_ & Hcut & Hav & _).
    set (e' := range_end (d_size (desc_of v)) (server_end o1)) in *.
    assert (He' : o0 <= e' /\ e' <= d_size (desc_of v)).
    { pose proof (Nat2Z.is_nonneg (length (data_of v))) as Hnn. fold (blen (data_of v)) in Hnn.
      rewrite Hlen in Hnn. clear Hlen. subst e'. unfold range_end in *.
      destruct ((server_end o1 =? -1) || (d_size (desc_of v) <? server_end o1)) eqn:E; [lia|].
      apply orb_false_iff in E as [_ E]. apply Z.ltb_ge in E. lia. }
    unfold stack_call, Client.run, read_and_drain, bind.
    rewrite get_blob_range_request; [|exact Hnz|unfold Stack.construct_ok; now rewrite HC].
    rewrite (client_do_stack linked hash subject_of media enc dec_errors dec_names dec_index redirect B bstep o
               (range_request repo dig o0 o1) [200; 206] w _ b'
               [ECall (GetBlobRange repo dig o0 (server_end o1)) (Ok v); ECloseR]
               (mkresp 206 (hdrs_blob_range dig (desc_of v) o0 e') (data_of v) None)
               (to_server_req_range repo dig o0 o1 p rawq Hu)).
    2:{ apply (EM emit_blob_range (sv_b (w_srv w)) (mkhreq m_GET p rawq (range_header o0 o1) [] [] 0 []) _ Hp b' v
                 o0 (server_end o1) eq_refl Hl (range_header_parses o0 o1 Hex) Hb Hle (proj1 He')). }
    2:{ reflexivity. }
    cbv zeta. cbn [p_status]. change (status_accepted [200; 206] 206) with true. cbn iota.
    change (got B w (range_request repo dig o0 o1) (mkresp 206 (hdrs_blob_range dig (desc_of v) o0 e') (data_of v) None))
      with (in_hand (length (w_log w)) (range_request repo dig o0 o1) MGet
              (mkresp 206 (hdrs_blob_range dig (desc_of v) o0 e') (data_of v) None)).
    rewrite (descriptor_roundtrip_blob_range linked hash media dec_errors dec_names dec_index _ _ dig (desc_of v)
               (data_of v) o0 e' dig Hd Hi).
    cbn [flatten]. unfold new_blob_reader, algorithm_of. cbn [d_digest]. rewrite Hcut. cbn [rbind]. unfold hash_new.
    cbn [e_available stack_env]. rewrite available_eq, Hav. cbn [rbind].
    unfold source_of, in_hand. cbn [hr_idx hr_rest hr_rs].
    assert (Hdl : declared_length (hdrs_blob_range dig (desc_of v) o0 e') = Some (blen (data_of v))).
    { rewrite Hlen. apply declared_clen; [destruct Hi, He'; destruct Hex as [[? ?] _]; split; lia|].
      unfold hdrs_blob_range. hdrs. reflexivity. }
    rewrite (of_server_resp_get_full (mkresp 206 (hdrs_blob_range dig (desc_of v) o0 e') (data_of v) None) eq_refl Hdl).
    cbn [rs_body b_data b_fail p_body].
    match goal with |- context [drain_all (srv B) env ?br bufsz ?w1] =>
      destruct (drain_all_ok (srv B) env bufsz br (Some (length (w_log w))) (data_of v) w1 Hk eq_refl) as (w2 & E2 & Hw2)
    end.
    - cbn [br_n br_desc d_size]. unfold blenZ. fold (blen (data_of v)). rewrite Hlen. destruct Hex as [[H0 _] _].
      destruct He'. lia.
    - discriminate.
    - reflexivity.
    - cbn [br_desc] in E2. rewrite E2. eexists. split; [reflexivity | rewrite Hw2; reflexivity].
  Qed.

  Theorem transparent_GetBlobRange_err (w : W) repo dig o0 o1 bufsz b' e :
    o_locs o = None -> vrepo repo = true -> vdigest linked dig = true ->
    expressible o0 o1 -> (o0 =? 0) && (o1 <? 0) = false ->
    bstep (sv_b (w_srv w)) (GetBlobRange repo dig o0 (server_end o1)) = (b', Err e) ->
    conf_err e -> blen (enc (JErr (r_err (merr e)))) <= 8192 ->
    exists w',
      call_ (CGetBlobRange repo dig o0 o1 bufsz) w = (w', ORead (Err (wire_error false e)))
      /\ w_srv w' = after B (w_srv w) b' [ECall (GetBlobRange repo dig o0 (server_end o1)) (Err e)].
  Proof.
    intros Hl Hr Hd Hex Hnz Hb He Hlen.
    assert (Hc : codec_at linked (req_of (mk_rreq Http.ReqBlobGet repo dig []))
                   (mkreq Request.ReqBlobGet repo dig [] [] [] 0 [])) by wf_codec.
    pose proof (codec_construct_ok _ _ _ Hc) as HC. destruct Hc as (p & rawq & Hu & Hp).
    unfold stack_call, Client.run, read_and_drain, bind.
    rewrite get_blob_range_request; [|exact Hnz|unfold Stack.construct_ok; now rewrite HC].
    pose proof He as [Hte Hst]. destruct (err_status_facts _ Hst) as (Hrd & Hnb & Hok).
    rewrite (client_do_stack linked hash subject_of media enc dec_errors dec_names dec_index redirect B bstep o
               (range_request repo dig o0 o1) [200; 206] w _ b'
               [ECall (GetBlobRange repo dig o0 (server_end o1)) (Err e)]
               (err_resp enc [] (merr e))
               (to_server_req_range repo dig o0 o1 p rawq Hu)).
    2:{ apply (EM emit_blob_range_err (sv_b (w_srv w)) (mkhreq m_GET p rawq (range_header o0 o1) [] [] 0 []) _ Hp b' e _
                 o0 (server_end o1) eq_refl Hl (range_header_parses o0 o1 Hex) Hb (conf_err_serve e He)). }
    2:{ exact Hrd. }
    cbv zeta. cbn [p_status err_resp r_status marshal_error]. rewrite Hok. cbn [negb].
    assert (Hacc : status_accepted [200; 206] (marshal_status e) = false).
    { cbn [status_accepted existsb].
      destruct (Z.eqb_spec (marshal_status e) 200); [lia|]. destruct (Z.eqb_spec (marshal_status e) 206); [lia | reflexivity]. }
    rewrite Hacc. unfold fail_make_error.
    erewrite make_error_stack; try eassumption; try reflexivity; [|apply json_errors_rt].
    cbn [rq_method range_request meth_eqb]. eexists. split; reflexivity.
  Qed.

  (* ---------------------------------------------------------- Referrers *)

  Hypothesis json_index_rt : forall l, dec_index (enc (JIndex l)) = Some l.
  Hypothesis json_tags_rt : forall name l, dec_names true (enc (JTags name l)) = Some l.
  Hypothesis json_catalog_rt : forall l, dec_names false (enc (JCatalog l)) = Some l.
  (* a document is shorter than 2^63 bytes *)
  Hypothesis enc_small : forall j, blen (enc j) <= max_int64.

  Notation client_ := (stack_client cc).

  Lemma list_declared msg link ct : blen msg <= max_int64 ->
    declared_length (list_hdrs msg link ct) = Some (blen msg).
  Proof.
    intros Hm. apply declared_clen; [split; [apply Nat2Z.is_nonneg | exact Hm]|].
    unfold list_hdrs. destruct ct, link; hdrs; reflexivity.
  Qed.

  (* Referrers: one request.  The artifactType argument never leaves the client (lister.go:
     "TODO paging"; the request has no field for it) and the server asks the backend with "". *)
  Theorem transparent_Referrers_ok (w : W) repo dig art budget b' v :
    o_disable_referrers o = false ->
    vrepo repo = true -> vdigest linked dig = true ->
    bstep (sv_b (w_srv w)) (Referrers repo dig []) = (b', Ok v) -> iter_err_of v = None ->
    exists w',
      call_ (CReferrers repo dig art budget) w
      = (w', ODescs (map inl (fst (fst (yield_items (descs_of v) budget)))) PDone)
      /\ w_srv w' = after B (w_srv w) b' [ECall (Referrers repo dig []) (Ok v)].
  Proof.
    intros Hdis Hr Hd Hb Hie. unfold stack_call, Client.run, referrers.
    set (msg := enc (JIndex (descs_of v))).
    rewrite (do_request_stack (list_rreq client_ Http.ReqReferrersList repo dig []) [] w
               (mkreq Request.ReqReferrersList repo dig [] [] [] (-1) []) b'
               [ECall (Referrers repo dig []) (Ok v)]
               (mkresp 200 (list_hdrs msg [] (Some media_image_index)) msg (Some (JIndex (descs_of v))))).
    2:{ unfold list_rreq. wf_codec. }
    2:{ intros p rawq Hp.
        apply (EM emit_referrers (sv_b (w_srv w)) (plain_req MGet p rawq) _ Hp b' v eq_refl Hdis Hb Hie). }
    2:{ reflexivity. }
    cbv zeta. cbn [p_status status_accepted]. change (200 =? 200) with true.
    change (is_ok_status 200) with true. cbn iota.
    unfold read_all, got. rewrite request_of_method. cbn [Http.q_kind list_rreq kind_method hr_rest hr_rs hr_idx].
    rewrite (of_server_resp_get_full (mkresp 200 (list_hdrs msg [] (Some media_image_index)) msg _) eq_refl
               (list_declared msg [] _ (enc_small _))).
    cbn [rs_body b_data b_fail p_body e_json_index stack_env]. unfold msg. rewrite json_index_rt.
    destruct (yield_items (descs_of v) budget) as [[ys bud] cont]. eexists. split; reflexivity.
  Qed.

  Theorem transparent_Referrers_err (w : W) repo dig art budget b' a e :
    o_disable_referrers o = false ->
    vrepo repo = true -> vdigest linked dig = true ->
    bstep (sv_b (w_srv w)) (Referrers repo dig []) = (b', a) -> listing_error a = Some e ->
    conf_err e -> blen (enc (JErr (r_err (merr e)))) <= 8192 ->
    exists w',
      call_ (CReferrers repo dig art budget) w = (w', ODescs [inr (wire_error false e)] PDone)
      /\ w_srv w' = after B (w_srv w) b' [ECall (Referrers repo dig []) a].
  Proof.
    intros Hdis Hr Hd Hb Hle He Hlen. unfold stack_call, Client.run, referrers.
    destruct (do_request_stack_err (list_rreq client_ Http.ReqReferrersList repo dig []) [] w
                (mkreq Request.ReqReferrersList repo dig [] [] [] (-1) []) b'
                [ECall (Referrers repo dig []) a] [] e) as (w' & E & Hw); try assumption.
    - unfold list_rreq. wf_codec.
    - intros p rawq Hp.
      apply (EM emit_referrers_err (sv_b (w_srv w)) (plain_req MGet p rawq) _ Hp b' a e _ eq_refl Hdis Hb Hle
               (conf_err_serve e He)).
    - reflexivity.
    - constructor.
    - rewrite E. eexists. split; [reflexivity | exact Hw].
  Qed.

  (* ---------------------------------------------------------- PushBlob: the upload session *)

  Definition put_blob_request (base : url) (loc dg : bytes) (size : Z) (data : bytes) : Http.hreq :=
    {| rq_method := MPut; rq_url := UDigest (URef base loc) dg;
       rq_header := [(h_content_range, Http.range_string 0 size); (h_content_type, octet_stream)];
       rq_body := BData data true; rq_clen := size |}.

  Lemma to_server_req_put_blob base repo id dg data :
    vrepo repo = true -> good_upload_id id -> data <> [] ->
    to_server_req (put_blob_request base (upath repo id) dg (blen data) data)
    = Ok (mkhreq m_PUT (upath repo id) (s "digest=" ++ query_escape dg) []
                 (Request.range_string 0 (blen data)) octet_stream (blen data) data).
  Proof.
    intros Hr Hid Hne. unfold to_server_req, put_blob_request.
    cbn [rq_url interp_url rq_body rq_header rq_method rq_clen body_bytes].
    rewrite (upath_dot_free repo id Hr Hid), (upath_parse repo id Hr Hid).
    cbn [query_with_digest]. unfold outgoing_length. cbn [rq_body rq_clen].
    assert (Hpos : 0 < blen data) by (unfold blen; destruct data; [congruence | cbn [length]; lia]).
    destruct (Z.eqb_spec (blen data) 0); [lia|]. destruct (Z.ltb_spec 0 (blen data)); [|lia].
    rewrite Z.eqb_refl. cbn [andb negb]. destruct (Z.ltb_spec (blen data) 0); [lia|].
    hdrs. rewrite http_range_string. reflexivity.
  Qed.

  (* PushBlob with a non-empty content of the announced size: the backend sees an upload session
     (PushBlobChunked, ID, ChunkSize, Close; then PushBlobChunkedResume at offset 0 with the size as
     hint, one Write of the whole content, Commit with the digest, Close) and the caller gets its
     own descriptor back. *)
  Theorem transparent_PushBlob_ok (w : W) repo d data b1 b2 b3 b4 b5 b6 b7 b8 vw vid vcs rc vw2 vn vd rc2 :
    o_locs o = None ->
    vrepo repo = true -> vdigest linked (d_digest d) = true ->
    d_size d = blen data -> 1 <= blen data <= max_int64 ->
    bstep (sv_b (w_srv w)) (PushBlobChunked repo 0) = (b1, Ok vw) ->
    bstep b1 (WID (wid_of vw)) = (b2, Ok vid) -> good_upload_id (str_of vid) ->
    bstep b2 (WChunkSize (wid_of vw)) = (b3, Ok vcs) ->
    bstep b3 (WClose (wid_of vw)) = (b4, rc) -> rc <> Panic -> rc <> OutOfFuel ->
    bstep b4 (PushBlobChunkedResume repo (str_of vid) 0 (blen data)) = (b5, Ok vw2) ->
    bstep b5 (WWrite (wid_of vw2) data) = (b6, Ok vn) -> n_of vn = blen data ->
    bstep b6 (WCommit (wid_of vw2) (d_digest d)) = (b7, Ok vd) ->
    bstep b7 (WClose (wid_of vw2)) = (b8, rc2) -> rc2 <> Panic -> rc2 <> OutOfFuel ->
    exists w',
      call_ (CPushBlob repo d true true data) w = (w', ODesc (Ok d))
      /\ w_srv w' = after B (after B (w_srv w) b4
                              [ECall (PushBlobChunked repo 0) (Ok vw); ECall (WID (wid_of vw)) (Ok vid);
                               ECall (WChunkSize (wid_of vw)) (Ok vcs); ECall (WClose (wid_of vw)) rc]) b8
                           [ECall (PushBlobChunkedResume repo (str_of vid) 0 (blen data)) (Ok vw2);
                            ECall (WWrite (wid_of vw2) data) (Ok vn);
                            ECall (WCommit (wid_of vw2) (d_digest d)) (Ok vd); ECall (WClose (wid_of vw2)) rc2].
  Proof.
    intros Hl Hr Hd Hsz Hlen H1 H2 Hid H3 H4 Hc1 Hc2 H5 H6 Hn H7 H8 Hc3 Hc4.
    set (id := str_of vid) in *. set (dg := d_digest d) in *.
    assert (Hne : data <> []) by (intros ->; cbn in Hlen; lia).
    assert (Hc : codec_at linked (req_of (start_upload_rreq repo))
                   (mkreq Request.ReqBlobStartUpload repo [] [] [] [] 0 [])) by (unfold start_upload_rreq; wf_codec).
    pose proof (codec_construct_ok _ _ _ Hc) as HC. destruct Hc as (p & rawq & Hu & Hp).
    rewrite construct_method in Hp.
    unfold stack_call, Client.run, push_blob, bind, new_request. cbn [e_construct_ok stack_env].
    unfold Stack.construct_ok. rewrite HC. unfold ret.
    change {| rq_method := kind_method (Http.q_kind (start_upload_rreq repo)); rq_url := UReq (start_upload_rreq repo);
              rq_header := []; rq_body := BNil; rq_clen := 0 |} with (request_of (start_upload_rreq repo)).
    (* the POST *)
    rewrite (client_do_stack linked hash subject_of media enc dec_errors dec_names dec_index redirect B bstep o
               (request_of (start_upload_rreq repo)) [202] w _ b4
               [ECall (PushBlobChunked repo 0) (Ok vw); ECall (WID (wid_of vw)) (Ok vid);
                ECall (WChunkSize (wid_of vw)) (Ok vcs); ECall (WClose (wid_of vw)) rc]
               (mkresp 202 (hset H_chunk_min (dec_Z (n_of vcs)) (hset H_range (s "0-0") (hset H_location (upath repo id) [])))
                       [] None)
               (to_server_req_of (start_upload_rreq repo) p rawq Hu)).
    2:{ apply (EM emit_start_upload (sv_b (w_srv w)) (plain_req MPost p rawq) _ Hp b1 b2 b3 b4 vw vid vcs rc
                 (upath repo id) eq_refl H1 H2 (location_ok linked repo id Hr Hid) H3 H4 Hc1 Hc2). }
    2:{ reflexivity. }
    cbv zeta. cbn [p_status]. change (status_accepted [202] 202) with true. cbn iota.
    unfold lift, location_from_response, rheader, got. cbn [hr_rs hr_req].
    rewrite rs_header_of_server_resp. cbn [p_hdrs]. change location_hdr with H_location. hdrs.
    assert (Hnel : is_empty (upath repo id) = false) by reflexivity. rewrite Hnel.
    cbn [e_url_ok stack_env]. unfold url_ok. rewrite (upath_parse repo id Hr Hid). cbn [negb].
    (* the size checks *)
    rewrite Hsz. destruct (Z.ltb_spec (blen data) 0); [lia|]. destruct (Z.eqb_spec (blen data) 0); [lia|].
    cbn [andb]. destruct data as [|c0 data'] eqn:Ed; [congruence|]. rewrite <- Ed in *.
    assert (Eb : body_of_reader true true data = BData data true) by (rewrite Ed; reflexivity).
    rewrite Eb. rewrite andb_false_r.
    cbv iota. change (blenZ data) with (blen data). rewrite Z.eqb_refl. cbn [negb]. rewrite andb_false_r.
    change {| rq_method := MPut; rq_url := UDigest (URef (rq_url (request_of (start_upload_rreq repo))) (upath repo id)) dg;
              rq_header := [(h_content_range, Http.range_string 0 (blen data)); (h_content_type, octet_stream)];
              rq_body := BData data true; rq_clen := blen data |}
      with (put_blob_request (rq_url (request_of (start_upload_rreq repo))) (upath repo id) dg (blen data) data).
    (* the PUT *)
    set (sput := mkhreq m_PUT (upath repo id) (s "digest=" ++ query_escape dg) []
                        (Request.range_string 0 (blen data)) octet_stream (blen data) data).
    assert (Hcr : chunk_range sput = Ok (0, blen data)) by (apply (chunk_range_whole sput (blen data) Hlen); reflexivity).
    assert (Hw64 : wrap64 (blen data - 0) = blen data)
      by (rewrite Z.sub_0_r; apply wrap64_small; unfold min_int64, max_int64 in *; lia).
    assert (H5' : bstep b4 (PushBlobChunkedResume repo id 0 (wrap64 (blen data - 0))) = (b5, Ok vw2))
      by (rewrite Hw64; exact H5).
    destruct (EM emit_complete_upload b4 sput _ (complete_parse linked repo id dg Hr Hid Hd)
                b5 b6 b7 b8 0 (blen data) vw2 vn vd rc2 eq_refl Hl Hcr Hne H5' H6 Hn H7 H8 Hc3 Hc4) as (hdrs & Eh).
    - cbn [Request.q_repo Request.q_upload Request.q_digest] in Eh. rewrite Hw64 in Eh.
      match goal with |- context [client_do (srv B) serve env ?rq [201] ?w1] =>
        rewrite (client_do_stack linked hash subject_of media enc dec_errors dec_names dec_index redirect B bstep o
                   rq [201] w1 sput b8
                   [ECall (PushBlobChunkedResume repo id 0 (blen data)) (Ok vw2); ECall (WWrite (wid_of vw2) data) (Ok vn);
                    ECall (WCommit (wid_of vw2) dg) (Ok vd); ECall (WClose (wid_of vw2)) rc2]
                   (mkresp 201 hdrs [] None)
                   (to_server_req_put_blob _ repo id dg data Hr Hid Hne))
      end.
      2:{ cbn [w_srv logged sv_b after]. exact Eh. }
      2:{ reflexivity. }
      cbv zeta. cbn [p_status]. change (status_accepted [201] 201) with true. cbn iota.
      eexists. split; reflexivity.
  Qed.

  (* ---------------------------------------------------------- PushBlobChunked: the writer *)

  Definition default_or (cs : Z) : Z := if cs <=? 0 then default_chunk_size else cs.

  (* PushBlobChunked: the session is opened exactly as for PushBlob; the writer starts at offset 0
     at the location the server handed out, with the larger of the two chunk sizes *)
  Theorem transparent_PushBlobChunked_start (w : W) repo cs b1 b2 b3 b4 vw vid vcs rc :
    vrepo repo = true ->
    bstep (sv_b (w_srv w)) (PushBlobChunked repo 0) = (b1, Ok vw) ->
    bstep b1 (WID (wid_of vw)) = (b2, Ok vid) -> good_upload_id (str_of vid) ->
    bstep b2 (WChunkSize (wid_of vw)) = (b3, Ok vcs) -> min_int64 <= n_of vcs <= max_int64 ->
    bstep b3 (WClose (wid_of vw)) = (b4, rc) -> rc <> Panic -> rc <> OutOfFuel ->
    exists w',
      push_blob_chunked (srv B) serve env repo cs w
      = (w', Ok {| wr_chunk_size := Z.max (default_or cs) (n_of vcs); wr_closed := false; wr_chunk := Some [];
                   wr_close_err := None; wr_size := 0; wr_flushed := 0;
                   wr_location := URef (UReq (start_upload_rreq repo)) (upath repo (str_of vid)) |})
      /\ w_srv w' = after B (w_srv w) b4
                       [ECall (PushBlobChunked repo 0) (Ok vw); ECall (WID (wid_of vw)) (Ok vid);
                        ECall (WChunkSize (wid_of vw)) (Ok vcs); ECall (WClose (wid_of vw)) rc].
  Proof.
    intros Hr H1 H2 Hid H3 Hcs H4 Hc1 Hc2. set (id := str_of vid) in *.
    unfold push_blob_chunked, bind.
    rewrite (do_request_stack (start_upload_rreq repo) [202] w
               (mkreq Request.ReqBlobStartUpload repo [] [] [] [] 0 []) b4
               [ECall (PushBlobChunked repo 0) (Ok vw); ECall (WID (wid_of vw)) (Ok vid);
                ECall (WChunkSize (wid_of vw)) (Ok vcs); ECall (WClose (wid_of vw)) rc]
               (mkresp 202 (hset H_chunk_min (dec_Z (n_of vcs)) (hset H_range (s "0-0") (hset H_location (upath repo id) [])))
                       [] None)).
    2:{ unfold start_upload_rreq. wf_codec. }
    2:{ intros p rawq Hp.
        apply (EM emit_start_upload (sv_b (w_srv w)) (plain_req MPost p rawq) _ Hp b1 b2 b3 b4 vw vid vcs rc
                 (upath repo id) eq_refl H1 H2 (location_ok linked repo id Hr Hid) H3 H4 Hc1 Hc2). }
    2:{ reflexivity. }
    cbv zeta. cbn [p_status]. change (status_accepted [202] 202) with true. change (is_ok_status 202) with true.
    cbn iota. unfold lift, location_from_response, chunk_size_from_response, rheader, got. cbn [hr_rs hr_req].
    rewrite rs_header_of_server_resp. cbn [p_hdrs]. change location_hdr with H_location. hdrs.
    assert (Hnel : is_empty (upath repo id) = false) by reflexivity. rewrite Hnel.
    cbn [e_url_ok stack_env]. unfold url_ok. rewrite (upath_parse repo id Hr Hid). cbn [negb].
    unfold atoi. rewrite parse_int64_parse_int, (parse_int_dec_Z _ Hcs). unfold ret.
    fold (default_or cs).
    assert (Em : (if default_or cs <? n_of vcs then n_of vcs else default_or cs) = Z.max (default_or cs) (n_of vcs)).
    { destruct (Z.ltb_spec (default_or cs) (n_of vcs)); lia. }
    rewrite Em. eexists. split; reflexivity.
  Qed.

  (* the body of a flush *)
  Lemma concat_body_bytes b1_ b2_ : body_bytes (concat_body b1_ b2_) = b1_ ++ b2_.
  Proof. destruct b1_, b2_; cbn [concat_body body_bytes app]; rewrite ?app_nil_r; reflexivity. Qed.

  Definition flush_request (loc : url) (m : meth) (f : Z) (chunk buf : bytes) : Http.hreq :=
    {| rq_method := m; rq_url := loc;
       rq_header := [(h_content_range, Http.range_string f (w64 (f + (blenZ chunk + blenZ buf))))];
       rq_body := concat_body chunk buf; rq_clen := blenZ chunk + blenZ buf |}.

  Lemma to_server_req_flush loc m f chunk buf p rawq :
    interp_url loc = Ok (p, rawq) -> chunk ++ buf <> [] -> 0 <= f -> f + blen (chunk ++ buf) <= max_int64 ->
    to_server_req (flush_request loc m f chunk buf)
    = Ok (mkhreq (meth_bytes m) p rawq [] (Request.range_string f (f + blen (chunk ++ buf))) []
                 (blen (chunk ++ buf)) (chunk ++ buf)).
  Proof.
    intros Hi Hne Hf Hm. unfold to_server_req, flush_request. cbn [rq_url rq_body rq_header rq_method rq_clen].
    rewrite Hi, concat_body_bytes. unfold outgoing_length. cbn [rq_body rq_clen].
    assert (Hl : blenZ chunk + blenZ buf = blen (chunk ++ buf)) by (unfold blenZ, blen; rewrite app_length; lia).
    rewrite Hl. assert (Hpos : 0 < blen (chunk ++ buf)).
    { unfold blen. destruct (chunk ++ buf); [congruence | cbn [length]; lia]. }
    assert (Hb : match concat_body chunk buf with BNil | BNoBody => false | BData _ _ => true end = true).
    { destruct chunk, buf; cbn in Hne |- *; congruence. }
    destruct (concat_body chunk buf); try discriminate Hb.
    destruct (Z.eqb_spec (blen (chunk ++ buf)) 0); [lia|]. destruct (Z.ltb_spec 0 (blen (chunk ++ buf))); [|lia].
    rewrite Z.eqb_refl. cbn [andb negb]. destruct (Z.ltb_spec (blen (chunk ++ buf)) 0); [lia|].
    hdrs. rewrite http_range_string, w64_wrap64, wrap64_small by (unfold min_int64, max_int64 in *; lia). reflexivity.
  Qed.

  (* a writer whose location is one the server handed out for (repo, id) *)
  Definition writer_at (wr : writer) (repo id : bytes) : Prop :=
    exists base, wr_location wr = URef base (upath repo id).

  Lemma writer_at_interp wr repo id : vrepo repo = true -> good_upload_id id -> writer_at wr repo id ->
    interp_url (wr_location wr) = Ok (upath repo id, []).
  Proof.
    intros Hr Hid (base & ->). cbn [interp_url]. now rewrite (upath_dot_free repo id Hr Hid), (upath_parse repo id Hr Hid).
  Qed.

  (* blobWriter.flush of a chunk (PATCH): the backend sees PushBlobChunkedResume at the writer's
     offset with the chunk length as hint, one Write of chunk ++ buf, Close, ID, Size *)
  Theorem transparent_flush_patch (w : W) wr repo id buf b1 b2 b3 b4 b5 vw vn vc vid vs :
    let data := chunk_bytes wr ++ buf in
    let f := wr_flushed wr in
    vrepo repo = true -> good_upload_id id -> writer_at wr repo id ->
    data <> [] -> 0 <= f -> f + blen data <= max_int64 ->
    bstep (sv_b (w_srv w)) (PushBlobChunkedResume repo id f (blen data)) = (b1, Ok vw) ->
    bstep b1 (WWrite (wid_of vw) data) = (b2, Ok vn) -> n_of vn = blen data ->
    bstep b2 (WClose (wid_of vw)) = (b3, Ok vc) ->
    bstep b3 (WID (wid_of vw)) = (b4, Ok vid) -> good_upload_id (str_of vid) ->
    bstep b4 (WSize (wid_of vw)) = (b5, Ok vs) ->
    exists w',
      flush (srv B) serve env wr buf [] w
      = (w', Ok {| wr_chunk_size := wr_chunk_size wr; wr_closed := wr_closed wr;
                   wr_chunk := option_map (fun _ => []) (wr_chunk wr); wr_close_err := wr_close_err wr;
                   wr_size := wr_size wr; wr_flushed := f + blen data;
                   wr_location := URef (wr_location wr) (upath repo (str_of vid)) |})
      /\ w_srv w' = after B (w_srv w) b5
                       [ECall (PushBlobChunkedResume repo id f (blen data)) (Ok vw);
                        ECall (WWrite (wid_of vw) data) (Ok vn); ECall (WClose (wid_of vw)) (Ok vc);
                        ECall (WID (wid_of vw)) (Ok vid); ECall (WSize (wid_of vw)) (Ok vs)].
  Proof.
    intros data f Hr Hid Hat Hne Hf Hm H1 H2 Hn H3 H4 Hid' H5.
    assert (Hl : blenZ (chunk_bytes wr) + blenZ buf = blen data) by (unfold blenZ, blen, data; rewrite app_length; lia).
    unfold flush, bind. cbn [is_empty andb].
    assert (Hz : (blenZ buf + blenZ (chunk_bytes wr) =? 0) = false).
    { apply Z.eqb_neq. assert (0 < blen data) by (unfold blen; destruct data; [congruence | cbn [length]; lia]). lia. }
    rewrite Hz. cbn [negb].
    change {| rq_method := MPatch; rq_url := wr_location wr;
              rq_header := [(h_content_range, Http.range_string (wr_flushed wr)
                               (w64 (wr_flushed wr + (blenZ (chunk_bytes wr) + blenZ buf))))];
              rq_body := concat_body (chunk_bytes wr) buf; rq_clen := blenZ (chunk_bytes wr) + blenZ buf |}
      with (flush_request (wr_location wr) MPatch f (chunk_bytes wr) buf).
    set (sreq := mkhreq m_PATCH (upath repo id) [] [] (Request.range_string f (f + blen data)) [] (blen data) data).
    assert (Hcr : chunk_range sreq = Ok (f, f + blen data)).
    { apply (chunk_range_at sreq f (blen data)); try assumption; try reflexivity.
      unfold blen. destruct data; [congruence | cbn [length]; lia]. }
    assert (Hw64 : wrap64 (f + blen data - f) = blen data).
    { replace (f + blen data - f) with (blen data) by lia. apply wrap64_small.
      pose proof (Nat2Z.is_nonneg (length data)). unfold blen, min_int64, max_int64 in *. lia. }
    assert (H1' : bstep (sv_b (w_srv w)) (PushBlobChunkedResume repo id f (wrap64 (f + blen data - f))) = (b1, Ok vw))
      by (rewrite Hw64; exact H1).
    pose proof (EM emit_upload_chunk (sv_b (w_srv w)) sreq _ (chunk_parse linked repo id Hr Hid)
                  b1 b2 b3 b4 b5 f (f + blen data) vw vn vc vid vs (upath repo (str_of vid)) eq_refl Hcr Hne H1' H2 Hn H3 H4
                  (location_ok linked repo (str_of vid) Hr Hid') H5) as Eh.
    cbn [Request.q_repo Request.q_upload] in Eh. rewrite Hw64 in Eh.
    rewrite (client_do_stack linked hash subject_of media enc dec_errors dec_names dec_index redirect B bstep o
               (flush_request (wr_location wr) MPatch f (chunk_bytes wr) buf) [202] w sreq b5 _ _
               (to_server_req_flush _ MPatch f _ _ _ _ (writer_at_interp wr repo id Hr Hid Hat) Hne Hf Hm) Eh eq_refl).
    cbv zeta. cbn [p_status]. change (status_accepted [202] 202) with true. cbn iota.
    unfold lift, location_from_response, rheader, got. cbn [hr_rs hr_req].
    rewrite rs_header_of_server_resp. cbn [p_hdrs]. change location_hdr with H_location. hdrs.
    assert (Hnel : is_empty (upath repo (str_of vid)) = false) by reflexivity. rewrite Hnel.
    cbn [e_url_ok stack_env]. unfold url_ok. rewrite (upath_parse repo (str_of vid) Hr Hid'). cbn [negb flatten].
    unfold ret. rewrite Hl, w64_wrap64, wrap64_small.
    2:{ pose proof (Nat2Z.is_nonneg (length data)). unfold blen, min_int64, max_int64 in *. lia. }
    eexists. split; reflexivity.
  Qed.

  (* blobWriter.Commit with a pending chunk (PUT ...?digest=): PushBlobChunkedResume at the writer's
     offset, one Write of the chunk, Commit with the caller's digest, Close.  The descriptor is the
     client's: octet-stream, the digest given, the bytes written so far. *)
  Theorem transparent_commit (w : W) wr repo id dg b1 b2 b3 b4 vw vn vd rc :
    let data := chunk_bytes wr in
    let f := wr_flushed wr in
    o_locs o = None ->
    vrepo repo = true -> good_upload_id id -> writer_at wr repo id -> vdigest linked dg = true ->
    data <> [] -> 0 <= f -> f + blen data <= max_int64 ->
    bstep (sv_b (w_srv w)) (PushBlobChunkedResume repo id f (blen data)) = (b1, Ok vw) ->
    bstep b1 (WWrite (wid_of vw) data) = (b2, Ok vn) -> n_of vn = blen data ->
    bstep b2 (WCommit (wid_of vw) dg) = (b3, Ok vd) -> vdigest linked (d_digest (desc_of vd)) = true ->
    bstep b3 (WClose (wid_of vw)) = (b4, rc) -> rc <> Panic -> rc <> OutOfFuel ->
    exists w' wr',
      writer_commit (srv B) serve env wr dg w
      = (w', (wr', Ok {| d_media := octet_stream; d_digest := dg; d_size := wr_size wr; d_artifact := [] |}))
      /\ wr_flushed wr' = f + blen data /\ wr_size wr' = wr_size wr
      /\ w_srv w' = after B (w_srv w) b4
                       [ECall (PushBlobChunkedResume repo id f (blen data)) (Ok vw);
                        ECall (WWrite (wid_of vw) data) (Ok vn);
                        ECall (WCommit (wid_of vw) dg) (Ok vd); ECall (WClose (wid_of vw)) rc].
  Proof.
    intros data f Hl Hr Hid Hat Hd Hne Hf Hm H1 H2 Hn H3 Hvd H4 Hc1 Hc2.
    assert (Hdne : is_empty dg = false) by (now apply vdigest_nonempty in Hd).
    assert (Hl2 : blenZ (chunk_bytes wr) + blenZ [] = blen (data ++ [])).
    { unfold blenZ, blen, data. rewrite app_nil_r. cbn [length]. lia. }
    assert (Hdd : data ++ [] = data) by apply app_nil_r.
    unfold writer_commit. rewrite Hdne. unfold flush, bind. rewrite Hdne. cbn [andb negb].
    change {| rq_method := MPut; rq_url := UDigest (wr_location wr) dg;
              rq_header := [(h_content_range, Http.range_string (wr_flushed wr)
                               (w64 (wr_flushed wr + (blenZ (chunk_bytes wr) + blenZ []))))];
              rq_body := concat_body (chunk_bytes wr) []; rq_clen := blenZ (chunk_bytes wr) + blenZ [] |}
      with (flush_request (UDigest (wr_location wr) dg) MPut f (chunk_bytes wr) []).
    set (sreq := mkhreq m_PUT (upath repo id) (s "digest=" ++ query_escape dg) []
                        (Request.range_string f (f + blen data)) [] (blen data) data).
    assert (Hpos : 1 <= blen data) by (unfold blen; destruct data; [congruence | cbn [length]; lia]).
    assert (Hcr : chunk_range sreq = Ok (f, f + blen data))
      by (apply (chunk_range_at sreq f (blen data)); try assumption; reflexivity).
    assert (Hw64 : wrap64 (f + blen data - f) = blen data).
    { replace (f + blen data - f) with (blen data) by lia. apply wrap64_small. unfold min_int64, max_int64 in *. lia. }
    assert (H1' : bstep (sv_b (w_srv w)) (PushBlobChunkedResume repo id f (wrap64 (f + blen data - f))) = (b1, Ok vw))
      by (rewrite Hw64; exact H1).
    pose proof (EM emit_complete_upload_hdrs (sv_b (w_srv w)) sreq _ (complete_parse linked repo id dg Hr Hid Hd)
                  b1 b2 b3 b4 f (f + blen data) vw vn vd rc eq_refl Hl Hcr Hne H1' H2 Hn H3 H4 Hc1 Hc2) as Eh.
    cbn [Request.q_repo Request.q_upload Request.q_digest] in Eh. rewrite Hw64 in Eh.
    assert (Hint : interp_url (UDigest (wr_location wr) dg) = Ok (upath repo id, s "digest=" ++ query_escape dg)).
    { cbn [interp_url]. now rewrite (writer_at_interp wr repo id Hr Hid Hat). }
    assert (Hts : to_server_req (flush_request (UDigest (wr_location wr) dg) MPut f (chunk_bytes wr) []) = Ok sreq).
    { rewrite (to_server_req_flush _ MPut f (chunk_bytes wr) [] _ _ Hint); fold data; rewrite ?Hdd; try assumption.
      reflexivity. }
    rewrite (client_do_stack linked hash subject_of media enc dec_errors dec_names dec_index redirect B bstep o
               _ [201] w sreq b4 _ _ Hts Eh eq_refl).
    cbv zeta. cbn [p_status]. change (status_accepted [201] 201) with true. cbn iota.
    unfold lift, location_from_response, rheader, got. cbn [hr_rs hr_req].
    rewrite rs_header_of_server_resp. cbn [p_hdrs]. change location_hdr with H_location. hdrs.
    assert (Hnel : is_empty (blob_location repo (d_digest (desc_of vd))) = false) by reflexivity. rewrite Hnel.
    cbn [e_url_ok stack_env]. unfold url_ok, blob_location.
    rewrite (blob_location_parse linked repo _ Hr Hvd). cbn [negb flatten]. unfold ret.
    eexists. eexists. split; [reflexivity|]. cbn [wr_flushed wr_size].
    rewrite Hl2, Hdd, w64_wrap64, wrap64_small by (unfold min_int64, max_int64 in *; lia).
    repeat split.
  Qed.

  (* ---------------------------------------------------------- what an error looks like after the hop *)

  (* the status always survives; for the HEAD carriers nothing else does: the code is rebuilt from
     the status (makeError1), so only the status class of the backend's code is kept *)
  Lemma wire_error_status head e : as_http (wire_error head e) = Some (marshal_status e).
  Proof. unfold wire_error. apply Proofs.Errors.as_http_hop. reflexivity. Qed.

  Lemma wire_error_head e :
    wire_error true e
    = Http (marshal_status e) (option_map std_err (Proofs.Errors.head_map (marshal_status e))) true.
  Proof. unfold wire_error. rewrite Proofs.Errors.hop_head by reflexivity. reflexivity. Qed.

  (* a body carrier: code, detail and status survive *)
  Lemma wire_error_body e : blen (enc (JErr (r_err (merr e)))) <= 8192 ->
    marshal_code (wire_error false e) = marshal_code e
    /\ marshal_detail (wire_error false e) = marshal_detail e
    /\ marshal_status (wire_error false e) = marshal_status e.
  Proof.
    intros Hlen. unfold wire_error.
    assert (Hb : Proofs.Errors.bodyspec (hopspec_of enc false (merr e)) = true).
    { unfold Proofs.Errors.bodyspec, hopspec_of. cbn [h_head h_len h_swrap h_cwrap negb andb Proofs.Errors.nowv].
      rewrite !andb_true_r. apply Z.leb_le. exact Hlen. }
    split; [|split].
    - now apply Proofs.Errors.code_preserved_hop.
    - now apply Proofs.Errors.detail_preserved_hop.
    - apply Proofs.Errors.status_preserved_hop. now apply Proofs.Errors.bodyspec_nowv.
  Qed.

  (* ---------------------------------------------------------- the partial statements *)

  (* MountBlob is transparent exactly for descriptors of size 0 with the default media type *)
  Corollary transparent_MountBlob_partial (w : W) from to dig b' d :
    o_locs o = None ->
    vrepo from = true -> vrepo to = true -> vdigest linked dig = true ->
    bstep (sv_b (w_srv w)) (MountBlob from to dig) = (b', Ok (VDesc d)) ->
    vdigest linked (d_digest d) = true ->
    d_size d = 0 -> d_media d = octet_stream -> d_artifact d = [] ->
    exists w',
      call_ (CMountBlob from to dig) w = (w', ODesc (Ok d))
      /\ w_srv w' = after B (w_srv w) b' [ECall (MountBlob from to dig) (Ok (VDesc d))].
  Proof.
    intros Hl Hf Ht Hd Hb Hvd Hs Hm Ha.
    destruct (transparent_MountBlob_ok w from to dig b' (VDesc d) Hl Hf Ht Hd Hb Hvd) as (w' & E & Hw).
    exists w'. split; [|exact Hw]. rewrite E. cbn [desc_of]. destruct d as [m dg sz ar]. cbn in *. subst. reflexivity.
  Qed.

  (* ResolveBlob is transparent exactly for the default media type (a HEAD on a blob carries no
     Content-Type) *)
  Corollary transparent_ResolveBlob_partial (w : W) repo dig b' d :
    vrepo repo = true -> vdigest linked dig = true ->
    bstep (sv_b (w_srv w)) (ResolveBlob repo dig) = (b', Ok (VDesc d)) -> conf_desc d ->
    d_media d = octet_stream -> d_artifact d = [] ->
    exists w',
      call_ (CResolveBlob repo dig) w = (w', ODesc (Ok d))
      /\ w_srv w' = after B (w_srv w) b' [ECall (ResolveBlob repo dig) (Ok (VDesc d))].
  Proof.
    intros Hr Hd Hb Hc Hm Ha.
    destruct (transparent_ResolveBlob_ok w repo dig b' (VDesc d) Hr Hd Hb Hc) as (w' & E & Hw).
    exists w'. split; [|exact Hw]. rewrite E. unfold head_desc. cbn [desc_of].
    destruct d as [m dg sz ar]. cbn in *. subst. reflexivity.
  Qed.

  (* GetBlobRange(0, -1) is sent as a plain GetBlob: the backend receives GetBlob, not GetBlobRange *)
  Lemma GetBlobRange_whole_is_GetBlob (w : W) repo dig o1 bufsz : o1 < 0 ->
    call_ (CGetBlobRange repo dig 0 o1 bufsz) w = call_ (CGetBlob repo dig bufsz) w.
  Proof.
    intros H. unfold stack_call, Client.run, get_blob_range. change (0 =? 0) with true.
    destruct (Z.ltb_spec o1 0); [reflexivity | lia].
  Qed.

End Transparent.

Print Assumptions transparent_ResolveBlob_ok.
Print Assumptions transparent_ResolveBlob_err.
Print Assumptions transparent_ResolveManifest_ok.
Print Assumptions transparent_ResolveManifest_err.
Print Assumptions transparent_ResolveTag_ok.
Print Assumptions transparent_ResolveTag_err.
Print Assumptions transparent_DeleteBlob_ok.
Print Assumptions transparent_DeleteBlob_err.
Print Assumptions transparent_DeleteManifest_ok.
Print Assumptions transparent_DeleteManifest_err.
Print Assumptions transparent_DeleteTag_ok.
Print Assumptions transparent_DeleteTag_err.
Print Assumptions transparent_MountBlob_ok.
Print Assumptions transparent_MountBlob_err.
Print Assumptions transparent_GetBlob_ok.
Print Assumptions transparent_GetBlob_err.
Print Assumptions transparent_GetManifest_ok.
Print Assumptions transparent_GetManifest_err.
Print Assumptions transparent_GetTag_ok.
Print Assumptions transparent_GetTag_err.
Print Assumptions transparent_GetTag_omitted_small.
Print Assumptions transparent_GetTag_omitted_large.
Print Assumptions transparent_PushManifest_ok.
Print Assumptions transparent_PushManifest_err.
Print Assumptions transparent_GetBlobRange_ok.
Print Assumptions transparent_GetBlobRange_err.
Print Assumptions transparent_Referrers_ok.
Print Assumptions transparent_Referrers_err.
Print Assumptions transparent_PushBlob_ok.
Print Assumptions transparent_MountBlob_partial.
Print Assumptions transparent_ResolveBlob_partial.
Print Assumptions wire_error_body.
Print Assumptions transparent_PushBlob_ok.
Print Assumptions transparent_PushBlobChunked_start.
Print Assumptions transparent_flush_patch.
Print Assumptions transparent_commit.
Print Assumptions GetBlobRange_whole_is_GetBlob.
