(* C03: the append-buffer laws of Proofs/StackUploadInv.v ([AppendUpload]) hold of the in-memory
   registry (Model/Mem.v behind [mstep], Proofs/StackMem.v), so the upload invariant and
   [commit_stores_concat] apply to the stack in front of ocimem:

     Upl st rcv        the repository has an upload with this ID whose buffer holds rcv, no
                       commit error pending
     accepts dg c      dg is the (valid) digest of c
     Stored st dg c    the repository's blob dg holds exactly c *)
From Coq Require Import String.
From OCI Require Import Obs.StackRun Proofs.MemBasics Proofs.StackUpload Proofs.StackMem Proofs.StackUploadInv.

Local Open Scope Z_scope.

Section UploadMem.
  Variable orc : oracles.
  Variable repo id : bytes.

  Notation all := (fun _ : alg => true).
  Notation mhash := (orc_hash orc).
  Notation mem := (mem_step orc false).
  Notation mback := (mstep orc).

  Definition m_upl (st : state) (rcv : bytes) : Prop :=
    orc_vr orc repo = true /\
    exists rp i b, get_repo st repo = Some rp /\ alookup id (uploads rp) = Some i
                   /\ nth_error (bufs st) (N.to_nat i) = Some b
                   /\ u_buf b = rcv /\ u_err b = None /\ u_repo b = repo /\ u_id b = id.

  Definition m_accepts (dg content : bytes) : Prop := mhash content = dg /\ vdigest all dg = true.

  Definition m_stored (st : state) (dg content : bytes) : Prop :=
    exists rp b, get_repo st repo = Some rp /\ alookup dg (blobs rp) = Some b /\ Mem.b_data b = content.

  Lemma blen_nonneg' (a : bytes) : 0 <= blen a.
  Proof. unfold blen. lia. Qed.

  (* PushBlobChunkedResume on an upload that exists: the same writer, the offset to check *)
  Lemma resume_known st rcv off hint : m_upl st rcv ->
    exists i b,
      mem st (PushBlobChunkedResume repo id off hint)
      = (with_buf st (N.to_nat i) (fun b0 =>
           {| u_repo := u_repo b0; u_id := u_id b0; u_buf := u_buf b0; u_check := off;
              u_committed := u_committed b0; u_desc := u_desc b0; u_err := u_err b0 |}), Ok (RWriter i))
      /\ nth_error (bufs st) (N.to_nat i) = Some b /\ u_buf b = rcv /\ u_err b = None /\ u_repo b = repo /\ u_id b = id
      /\ (exists rp, get_repo st repo = Some rp /\ alookup id (uploads rp) = Some i).
  Proof.
    intros (Hv & rp & i & b & Hg & Hu & Hn & Hb & He & Hr & Hi). exists i, b.
    split; [|repeat split; try assumption; exists rp; auto].
    unfold mem_step. cbn [step]. unfold make_repo. rewrite Hv, Hg, Hg, Hu. reflexivity.
  Qed.

  Theorem mem_append_upload : AppendUpload all state mback repo id m_upl m_accepts m_stored.
  Proof.
    constructor.
    - (* a chunk *)
      intros st rcv data Hu Hne.
      destruct (resume_known st rcv (blen rcv) (blen data) Hu) as (i & b & E1 & Hn & Hb & He & Hr & Hi & rp & Hg & Hup).
      set (ck := fun b0 : buffer => {| u_repo := u_repo b0; u_id := u_id b0; u_buf := u_buf b0; u_check := blen rcv;
                                       u_committed := u_committed b0; u_desc := u_desc b0; u_err := u_err b0 |}) in *.
      set (s1 := with_buf st (N.to_nat i) ck) in *.
      assert (Hn1 : nth_error (bufs s1) (N.to_nat i) = Some (ck b)).
      { unfold s1, with_buf. cbn [bufs]. rewrite nth_error_upd_nth, Nat.eqb_refl, Hn. reflexivity. }
      set (wr := fun b0 : buffer => {| u_repo := u_repo b0; u_id := u_id b0; u_buf := u_buf b0 ++ data; u_check := -1;
                                       u_committed := u_committed b0; u_desc := u_desc b0; u_err := u_err b0 |}).
      set (s2 := with_buf s1 (N.to_nat i) wr).
      assert (E2 : mem s1 (WWrite i data) = (s2, Ok (RN (blen data)))).
      { unfold mem_step. cbn [step]. rewrite Hn1. cbn [ck u_check u_buf]. rewrite Hb, Z.eqb_refl.
        cbn [negb andb]. rewrite andb_false_r. reflexivity. }
      assert (Hn2 : nth_error (bufs s2) (N.to_nat i) = Some (wr (ck b))).
      { unfold s2, with_buf. cbn [bufs]. rewrite nth_error_upd_nth, Nat.eqb_refl, Hn1. reflexivity. }
      assert (E3 : mem s2 (WClose i) = (s2, Ok RUnit)) by (unfold mem_step; cbn [step]; rewrite Hn2; reflexivity).
      assert (E4 : mem s2 (WID i) = (s2, Ok (RStr id))).
      { unfold mem_step. cbn [step]. rewrite Hn2. cbn [wr ck u_id]. now rewrite Hi. }
      assert (E5 : mem s2 (WSize i) = (s2, Ok (RN (blen (rcv ++ data))))).
      { unfold mem_step. cbn [step]. rewrite Hn2. cbn [wr ck u_buf]. now rewrite Hb. }
      exists s1, s2, s2, s2, s2, (VWriter i), (VN (blen data)), VUnit, (VStr id), (VN (blen (rcv ++ data))).
      rewrite !mstep_eq. cbn [wid_of n_of str_of]. rewrite E1, E2, E3, E4, E5. cbn [fst snd bres_of_result bval_of_res].
      repeat split; try reflexivity.
      + destruct Hu as (Hv & _). exact Hv.
      + exists rp, i, (wr (ck b)). cbn [wr ck u_buf u_err u_repo u_id]. rewrite Hb. repeat split; assumption.
    - (* the closing PUT with a last chunk *)
      intros st rcv data dg Hu Hne (Hh & Hvd).
      destruct (resume_known st rcv (blen rcv) (blen data) Hu) as (i & b & E1 & Hn & Hb & He & Hr & Hi & rp & Hg & Hup).
      set (ck := fun b0 : buffer => {| u_repo := u_repo b0; u_id := u_id b0; u_buf := u_buf b0; u_check := blen rcv;
                                       u_committed := u_committed b0; u_desc := u_desc b0; u_err := u_err b0 |}) in *.
      set (s1 := with_buf st (N.to_nat i) ck) in *.
      assert (Hn1 : nth_error (bufs s1) (N.to_nat i) = Some (ck b)).
      { unfold s1, with_buf. cbn [bufs]. rewrite nth_error_upd_nth, Nat.eqb_refl, Hn. reflexivity. }
      set (wr := fun b0 : buffer => {| u_repo := u_repo b0; u_id := u_id b0; u_buf := u_buf b0 ++ data; u_check := -1;
                                       u_committed := u_committed b0; u_desc := u_desc b0; u_err := u_err b0 |}).
      set (s2 := with_buf s1 (N.to_nat i) wr).
      assert (E2 : mem s1 (WWrite i data) = (s2, Ok (RN (blen data)))).
      { unfold mem_step. cbn [step]. rewrite Hn1. cbn [ck u_check u_buf]. rewrite Hb, Z.eqb_refl.
        cbn [negb andb]. rewrite andb_false_r. reflexivity. }
      assert (Hn2 : nth_error (bufs s2) (N.to_nat i) = Some (wr (ck b))).
      { unfold s2, with_buf. cbn [bufs]. rewrite nth_error_upd_nth, Nat.eqb_refl, Hn1. reflexivity. }
      set (n := blen (rcv ++ data)).
      set (cm := fun b0 : buffer => {| u_repo := u_repo b0; u_id := u_id b0; u_buf := u_buf b0; u_check := u_check b0;
                                       u_committed := true; u_desc := octet_desc dg n; u_err := None |}).
      set (s3 := upd_repo (with_buf s2 (N.to_nat i) cm) repo
                   (rp_set_blob dg {| b_media := MT_OCTET; Mem.b_data := rcv ++ data; b_subject := [] |})).
      assert (E3 : mem s2 (WCommit i dg) = (s3, Ok (RDesc (octet_desc dg n)))).
      { unfold mem_step. cbn [step]. rewrite Hn2. cbn [wr ck u_err u_buf u_repo]. rewrite He, Hb, Hh, beqb_refl, Hr. reflexivity. }
      assert (E4 : mem s3 (WClose i) = (s3, Ok RUnit)).
      { unfold mem_step. cbn [step]. unfold s3. rewrite bufs_upd_repo. unfold with_buf. cbn [bufs].
        rewrite nth_error_upd_nth, Nat.eqb_refl, Hn2. reflexivity. }
      exists s1, s2, s3, s3, (VWriter i), (VN (blen data)), (VDesc (octet_desc dg n)), (Ok VUnit).
      rewrite !mstep_eq. cbn [wid_of n_of]. rewrite E1, E2, E3, E4. cbn [fst snd bres_of_result bval_of_res desc_of octet_desc d_digest].
      repeat split; try reflexivity; try discriminate; try assumption.
      exists (rp_set_blob dg {| b_media := MT_OCTET; Mem.b_data := rcv ++ data; b_subject := [] |} rp), 
             {| b_media := MT_OCTET; Mem.b_data := rcv ++ data; b_subject := [] |}.
      unfold s3. rewrite get_repo_upd_repo, beqb_refl.
      assert (Hg3 : get_repo (with_buf s2 (N.to_nat i) cm) repo = Some rp) by exact Hg.
      rewrite Hg3. cbn [option_map rp_set_blob blobs]. rewrite alookup_aset_eq. auto.
    - (* the closing PUT without body *)
      intros st rcv dg Hu (Hh & Hvd).
      destruct (resume_known st rcv (blen rcv) 0 Hu) as (i & b & E1 & Hn & Hb & He & Hr & Hi & rp & Hg & Hup).
      set (ck := fun b0 : buffer => {| u_repo := u_repo b0; u_id := u_id b0; u_buf := u_buf b0; u_check := blen rcv;
                                       u_committed := u_committed b0; u_desc := u_desc b0; u_err := u_err b0 |}) in *.
      set (s1 := with_buf st (N.to_nat i) ck) in *.
      assert (Hn1 : nth_error (bufs s1) (N.to_nat i) = Some (ck b)).
      { unfold s1, with_buf. cbn [bufs]. rewrite nth_error_upd_nth, Nat.eqb_refl, Hn. reflexivity. }
      set (n := blen rcv) in *.
      set (cm := fun b0 : buffer => {| u_repo := u_repo b0; u_id := u_id b0; u_buf := u_buf b0; u_check := u_check b0;
                                       u_committed := true; u_desc := octet_desc dg n; u_err := None |}).
      set (s3 := upd_repo (with_buf s1 (N.to_nat i) cm) repo
                   (rp_set_blob dg {| b_media := MT_OCTET; Mem.b_data := rcv; b_subject := [] |})).
      assert (E3 : mem s1 (WCommit i dg) = (s3, Ok (RDesc (octet_desc dg n)))).
      { unfold mem_step. cbn [step]. rewrite Hn1. cbn [ck u_err u_buf u_repo]. rewrite He, Hb, Hh, beqb_refl, Hr. reflexivity. }
      assert (E4 : mem s3 (WClose i) = (s3, Ok RUnit)).
      { unfold mem_step. cbn [step]. unfold s3. rewrite bufs_upd_repo. unfold with_buf. cbn [bufs].
        rewrite nth_error_upd_nth, Nat.eqb_refl, Hn1. reflexivity. }
      exists s1, s3, s3, (VWriter i), (VDesc (octet_desc dg n)), (Ok VUnit).
      rewrite !mstep_eq. cbn [wid_of]. rewrite E1, E3, E4. cbn [fst snd bres_of_result bval_of_res desc_of octet_desc d_digest].
      repeat split; try reflexivity; try discriminate; try assumption.
      exists (rp_set_blob dg {| b_media := MT_OCTET; Mem.b_data := rcv; b_subject := [] |} rp),
             {| b_media := MT_OCTET; Mem.b_data := rcv; b_subject := [] |}.
      unfold s3. rewrite get_repo_upd_repo, beqb_refl.
      assert (Hg3 : get_repo (with_buf s1 (N.to_nat i) cm) repo = Some rp) by exact Hg.
      rewrite Hg3. cbn [option_map rp_set_blob blobs]. rewrite alookup_aset_eq. auto.
  Qed.

  (* the upload theorem for the runner's stack in front of ocimem: whatever the cutting into
     writes and the chunk size, Commit leaves a blob with exactly the bytes written *)
  Corollary mem_commit_stores_concat (more : list (bytes * bytes * bytes)) (o : opts) ops
            (w : world (srv state)) wr dg :
    vrepo repo = true -> good_upload_id id -> o_locs o = None ->
    let so := soracles_of orc more in
    WInv state repo id m_upl wr (sv_b (w_srv w)) [] -> forallb pre_commit ops = true ->
    blen (all_written ops) <= max_int64 ->
    vdigest all dg = true -> m_accepts dg (all_written ops) ->
    let '(w1, wr1, rs) := run_wops (so_linked so) (so_hash so) (so_subject so) media0 enc0 dec_errors0 dec_names0
                                   dec_index0 redirect0 state mback o wr ops w in
    answers_ok wr [] ops rs /\
    exists w' wr',
      writer_op (srv state) (serve_stack (so_linked so) (so_hash so) (so_subject so) enc0 redirect0 mback o)
                (stack_env (so_linked so) (so_hash so) media0 dec_errors0 dec_names0 dec_index0) current
                wr1 (WoCommit dg) w1
      = (w', (wr', WrDesc (Ok {| d_media := octet_stream; d_digest := dg; d_size := blen (all_written ops);
                                 d_artifact := [] |})))
      /\ m_stored (sv_b (w_srv w')) dg (all_written ops).
  Proof.
    intros Hr Hid Hl so HI Hp Hmax Hvd Hacc.
    exact (commit_stores_concat (so_linked so) (so_hash so) (so_subject so) media0 enc0 dec_errors0 dec_names0 dec_index0
             redirect0 state mback o repo id Hr Hid Hl m_upl m_accepts m_stored mem_append_upload ops w wr dg HI Hp Hmax
             Hvd Hacc).
  Qed.
End UploadMem.

Print Assumptions mem_append_upload.
Print Assumptions mem_commit_stores_concat.
