(* Proofs about the C03 specification (Model/Transparent.v): the interim prediction [view]
   deviates from [rel] only in the recorded shapes; [rel] is reflexive, and transitive when the
   direct errors carry a code (so two hops follow from one); every call of the table
   [expected_calls] carries the caller's own arguments. *)
From Coq Require Import String Lia.
From OCI Require Import Model.Transparent Model.Errors.

(* ---------------------------------------------------------------- equalities *)

Lemma shape_well o r : shape_ok o r = true -> well_shaped r = true.
Proof. destruct r as [x| | | |]; cbn; try reflexivity; [|discriminate]. destruct o, x; cbn; try discriminate; reflexivity. Qed.

Lemma res_eqb_refl a : res_plain a = true -> res_eqb a a = true.
Proof.
  destruct a; cbn; try reflexivity; try discriminate; intros _.
  - apply desc_eqb_eq; reflexivity.
  - apply andb_true_iff. split; [apply desc_eqb_eq; reflexivity | apply beqb_refl].
  - apply N.eqb_refl.
  - apply Z.eqb_refl.
  - apply beqb_refl.
Qed.

Lemma res_eqb_eq a b : res_eqb a b = true -> a = b.
Proof.
  destruct a, b; cbn; try discriminate; intros H.
  - apply desc_eqb_eq in H. now subst.
  - apply andb_true_iff in H as [H1 H2]. apply desc_eqb_eq in H1. apply beqb_eq in H2. now subst.
  - apply N.eqb_eq in H. now subst.
  - apply Z.eqb_eq in H. now subst.
  - apply beqb_eq in H. now subst.
  - reflexivity.
Qed.

Lemma ecode_eqb_refl c : ecode_eqb c c = true.
Proof. apply ecode_eqb_eq. reflexivity. Qed.

Lemma list_eqb_refl {A} (eqb : A -> A -> bool) (H : forall a, eqb a a = true) l : list_eqb eqb l l = true.
Proof. induction l as [|a l IH]; cbn; [reflexivity|]. now rewrite H, IH. Qed.

Lemma desc_eqb_refl d : desc_eqb d d = true.
Proof. apply desc_eqb_eq. reflexivity. Qed.

Lemma opt_ecode_eqb_eq a b : option_eqb ecode_eqb a b = true -> a = b.
Proof. destruct a, b; cbn; try discriminate; [|reflexivity]. intros H. apply ecode_eqb_eq in H. now subst. Qed.

Lemma oresult_eqb_eq a b : oresult_eqb a b = true -> a = b.
Proof.
  destruct a, b; cbn; try discriminate; intros H.
  - apply res_eqb_eq in H. now subst.
  - apply andb_true_iff in H as [H1 H2]. apply (list_eqb_eq beqb beqb_eq) in H1.
    apply opt_ecode_eqb_eq in H2. now subst.
  - apply andb_true_iff in H as [H1 H2]. apply (list_eqb_eq desc_eqb desc_eqb_eq) in H1.
    apply opt_ecode_eqb_eq in H2. now subst.
  - apply ecode_eqb_eq in H. now subst.
  - reflexivity.
Qed.

Lemma oresult_eqb_refl a : well_shaped a = true -> oresult_eqb a a = true.
Proof.
  destruct a; cbn; intros Hw.
  - now apply res_eqb_refl.
  - rewrite (list_eqb_refl beqb beqb_refl). destruct e; cbn; [apply ecode_eqb_refl | reflexivity].
  - rewrite (list_eqb_refl desc_eqb desc_eqb_refl). destruct e; cbn; [apply ecode_eqb_refl | reflexivity].
  - apply ecode_eqb_refl.
  - discriminate.
Qed.

(* ---------------------------------------------------------------- codes *)

Lemma code_rel_refl h c : code_rel h c c = true.
Proof. destruct h; cbn; [apply Z.eqb_refl|]. destruct c; try reflexivity. apply beqb_refl. Qed.

Lemma opt_code_rel_refl e : opt_code_rel e e = true.
Proof. destruct e; cbn; [apply (code_rel_refl false) | reflexivity]. Qed.

Lemma code_ok_wire c : code_ok c = true -> code_rel false c (wire_code c) = true.
Proof. unfold code_ok, code_rel. destruct c; auto. Qed.

(* the 15 standard codes survive the wire, and so does UNKNOWN *)
Lemma std_code_ok t : code_ok (std_ecode t) = true.
Proof. destruct t; vm_compute; reflexivity. Qed.

Lemma unknown_code_ok : code_ok UNKNOWN = true.
Proof. vm_compute. reflexivity. Qed.

Lemma wire_code_idem_std t : wire_code (wire_code (std_ecode t)) = wire_code (std_ecode t).
Proof. destruct t; vm_compute; reflexivity. Qed.

(* the client's HEAD table gives back a code of the same status for the six statuses a
   registry's resolve can produce through ociserver's table *)
Lemma head_hop_status c : head_status_kept c = true -> status_class (head_hop c) = status_class c.
Proof.
  unfold head_status_kept, head_hop. intros H.
  repeat (apply orb_true_iff in H as [H|H]); apply Z.eqb_eq in H; rewrite H; vm_compute; reflexivity.
Qed.

Lemma head_hop_kept c : head_status_kept c = true -> head_status_kept (head_hop c) = true.
Proof. intros H. unfold head_status_kept. rewrite (head_hop_status c H). exact H. Qed.

Lemma head_hops_status n c : head_status_kept c = true -> status_class (iter_n n head_hop c) = status_class c.
Proof.
  revert c; induction n as [|n IH]; intros c H; cbn; [reflexivity|].
  rewrite IH; [now apply head_hop_status | now apply head_hop_kept].
Qed.

(* ---------------------------------------------------------------- view deviates only in the known shapes *)

Lemma set_media_same de : beqb (d_media de) MT_OCTET = true -> set_media MT_OCTET de = de.
Proof. intros H. apply beqb_eq in H. destruct de; cbn in *. now subst. Qed.

Lemma rel_plain_refl h o r : well_shaped r = true -> rel_plain h o r r = true.
Proof.
  destruct r; cbn; intros H.
  - unfold res_rel. destruct o; try (now apply res_eqb_refl).
    destruct r; try reflexivity; try discriminate H; now apply res_eqb_refl.
  - now rewrite (list_eqb_refl beqb beqb_refl), opt_code_rel_refl.
  - now rewrite (list_eqb_refl desc_eqb desc_eqb_refl), opt_code_rel_refl.
  - apply code_rel_refl.
  - discriminate.
Qed.

Lemma rel_gen_refl h l o r : well_shaped r = true -> rel_gen h false l o r r = true.
Proof.
  intros H. unfold rel_gen. cbn [andb].
  destruct o; try (now rewrite rel_plain_refl).
  destruct r as [x|ls [c|]|ls e|c|]; try (now rewrite rel_plain_refl).
  apply (list_eqb_refl beqb beqb_refl).
Qed.

Theorem rel_refl cfg l o r :
  well_shaped r = true -> refuses_lists cfg && is_listing o = false -> rel cfg l o r r = true.
Proof.
  intros H Hr. unfold rel, rel_gen. rewrite Hr.
  pose proof (rel_gen_refl true l o r H) as G. unfold rel_gen in G. cbn [andb] in G. exact G.
Qed.

Lemma rel_of_plain cfg l o d v :
  refuses_lists cfg && is_listing o = false ->
  (forall st, o <> Repositories st) ->
  rel_plain (is_head o) o d v = true -> rel cfg l o d v = true.
Proof.
  intros Hr Hn H. unfold rel, rel_gen. rewrite Hr.
  destruct o; try (cbn [andb is_head] in *; now rewrite H).
  now elim (Hn start).
Qed.

Lemma view_code_rel cfg o c :
  code_ok c = true ->
  (if is_head o then head_status_kept c else true) = true ->
  (if client_refuses o then ecode_eqb c ENone else true) = true ->
  code_rel (is_head o) c (view_code cfg o c) = true.
Proof.
  intros Hc Hh Hf. unfold view_code. destruct (is_head o).
  - cbn. apply Z.eqb_eq. symmetry. now apply head_hops_status.
  - destruct (client_refuses o); [apply code_rel_refl | now apply code_ok_wire].
Qed.

Definition known (o : op) (d v : oresult) : Prop := known_result o d v <> None.

Ltac conf_split H :=
  repeat match type of H with
         | (_ && _)%bool = true => let A := fresh "Hc" in let B := fresh "Hc" in
                                   apply andb_true_iff in H as [A B]; try conf_split A; try conf_split B
         end.

Lemma rel_unfold cfg l o d v :
  refuses_lists cfg && is_listing o = false ->
  rel cfg l o d v =
  match o, d, v with
  | Repositories _, OList ld None, OList lv None =>
      list_eqb beqb (filter (has_content l) ld) (filter (has_content l) lv)
  | _, _, _ => rel_plain (is_head o) o d v || slack l o d v
  end.
Proof. intros Hr. unfold rel, rel_gen. rewrite Hr. cbn [andb]. reflexivity. Qed.

Lemma view_err_rel cfg l o c :
  refuses_lists cfg && is_listing o = false ->
  conforming o (OErr c) = true ->
  rel cfg l o (OErr c) (OErr (view_code cfg o c)) = true.
Proof.
  intros Hr Hc. unfold conforming in Hc. apply andb_true_iff in Hc as [_ Hc].
  apply andb_true_iff in Hc as [Hc H3]. apply andb_true_iff in Hc as [H1 H2].
  pose proof (view_code_rel cfg o c H1 H2 H3) as R.
  rewrite (rel_unfold _ _ _ _ _ Hr).
  destruct o; cbn [rel_plain]; rewrite R; reflexivity.
Qed.

(* THEOREM: what [view] predicts is [rel]ated to the direct answer, or deviates from it in one
   of the recorded shapes *)
Theorem view_rel cfg l o r :
  conforming o r = true -> rel cfg l o r (view cfg o r) = true \/ known o r (view cfg o r).
Proof.
  intros Hc. unfold view.
  destruct (refuses_lists cfg && is_listing o) eqn:Hr.
  { left. unfold rel, rel_gen. rewrite Hr. reflexivity. }
  assert (Hrefl : rel cfg l o r r = true).
  { apply rel_refl; [|exact Hr]. unfold conforming in Hc. apply andb_true_iff in Hc as [Hc _].
    now apply (shape_well o). }
  pose proof Hc as Hc0. unfold conforming in Hc. apply andb_true_iff in Hc as [Hs Hc].
  destruct r as [x|ls e|ls e|c|]; [| | | |discriminate Hs].
  - (* success *)
    destruct o; destruct x; try discriminate Hs; try (left; exact Hrefl).
    + (* GetBlob *)
      destruct (beqb (d_media d0) MT_OCTET) eqn:Em.
      * left. rewrite (set_media_same _ Em). exact Hrefl.
      * right. unfold known, known_result, known_shape.
        rewrite beqb_refl, desc_eqb_refl, Em. cbn. discriminate.
    + (* GetBlobRange *)
      destruct (range_unsendable o0 o1) eqn:Eu.
      * right. unfold known, known_result. cbn [known_shape known_input]. rewrite Eu. cbn. discriminate.
      * destruct (beqb (d_media d0) MT_OCTET) eqn:Em.
        -- left. rewrite (set_media_same _ Em). exact Hrefl.
        -- right. unfold known, known_result, known_shape.
           rewrite beqb_refl, desc_eqb_refl, Em. cbn. discriminate.
    + (* ResolveBlob *)
      destruct (beqb (d_media d0) MT_OCTET) eqn:Em.
      * left. rewrite (set_media_same _ Em). exact Hrefl.
      * right. unfold known, known_result, known_shape.
        rewrite desc_eqb_refl, Em. cbn. discriminate.
    + (* MountBlob *)
      cbn [shape_ok] in Hs.
      set (dv := {| d_media := MT_OCTET; d_digest := d; d_size := 0; d_artifact := d_artifact d0 |}).
      destruct (desc_eqb d0 dv) eqn:Ed.
      * left. apply desc_eqb_eq in Ed. rewrite <- Ed. exact Hrefl.
      * right. unfold known, known_result, known_shape.
        rewrite Hs, Ed. subst dv. cbn [d_digest d_size d_media d_artifact].
        rewrite !beqb_refl. cbn. discriminate.
  - (* listing *)
    destruct o; try discriminate Hs; (destruct e as [c|]; [|left; exact Hrefl]);
      left; rewrite (rel_unfold _ _ _ _ _ Hr); cbn [rel_plain opt_code_rel is_head];
      rewrite (list_eqb_refl beqb beqb_refl), (code_ok_wire c Hc); reflexivity.
  - destruct o; try discriminate Hs; (destruct e as [c|]; [|left; exact Hrefl]);
      left; rewrite (rel_unfold _ _ _ _ _ Hr); cbn [rel_plain opt_code_rel is_head];
      rewrite (list_eqb_refl desc_eqb desc_eqb_refl), (code_ok_wire c Hc); reflexivity.
  - (* failure *)
    pose proof (view_err_rel cfg l o c Hr Hc0) as R.
    destruct o; try (left; exact R).
    + (* GetBlobRange *)
      destruct (range_unsendable o0 o1) eqn:Eu; [|left; exact R].
      right. unfold known, known_result. cbn [known_shape known_input]. rewrite Eu. cbn. discriminate.
    + (* PushBlob *)
      destruct (push_size_mismatch (PushBlob r de content)) eqn:Ep; [|left; exact R].
      right. unfold known, known_result. cbn [known_shape known_input].
      unfold push_size_mismatch in Ep. rewrite Ep. discriminate.
Qed.

Lemma view_alts_known o d v : In v (view_alts o d) -> known o d v.
Proof.
  unfold view_alts. intros [].
Qed.

(* ---------------------------------------------------------------- what the correspondence needs *)

Lemma via_eqb_cases o v p :
  via_eqb o v p = true ->
  v = p \/ (exists w a b, o = WChunkSize w /\ v = OOk (RN a) /\ p = OOk (RN b)).
Proof.
  unfold via_eqb. intros H.
  destruct o; try (left; now apply oresult_eqb_eq).
  destruct v as [[]| | | |]; try (left; now apply oresult_eqb_eq).
  destruct p as [[]| | | |]; try (left; now apply oresult_eqb_eq).
  right. exists w, n, n0. auto.
Qed.

Lemma via_eqb_view_rel cfg l o d v p :
  via_eqb o v p = true -> rel cfg l o d p = true -> rel cfg l o d v = true.
Proof.
  intros Hv Hr. destruct (via_eqb_cases _ _ _ Hv) as [->|[w [a [b [-> [-> ->]]]]]]; [exact Hr|].
  unfold rel, rel_gen in *. cbn [is_listing andb] in *. rewrite andb_false_r in *.
  destruct d as [[]| | | |]; cbn in *; try discriminate; reflexivity.
Qed.

Lemma via_eqb_view_known o d v p :
  via_eqb o v p = true -> known o d p -> known o d v.
Proof.
  intros Hv Hk. destruct (via_eqb_cases _ _ _ Hv) as [->|[w [a [b [-> [-> ->]]]]]]; [exact Hk|].
  exfalso. apply Hk. unfold known_result. cbn. destruct d as [[]| | | |]; reflexivity.
Qed.

Lemma snap_view_known l o a b :
  well_shaped a = true -> oresult_eqb b (snap_view o a) = true -> rel_direct l o a b = false ->
  known_shape o a b <> None.
Proof.
  intros Hw He Hr. apply oresult_eqb_eq in He. subst b.
  assert (Hrefl : rel_direct l o a a = true) by (now apply rel_gen_refl).
  destruct o; cbn [snap_view] in *; try congruence.
  destruct a as [[]| | | |]; try congruence.
  destruct (beqb (d_media d0) MT_OCTET) eqn:Em.
  - rewrite (set_media_same _ Em) in Hr. congruence.
  - unfold known_shape. rewrite beqb_refl, desc_eqb_refl, Em. cbn. discriminate.
Qed.

(* ---------------------------------------------------------------- rel composes (two hops from one) *)

(* the errors of an answer carry a code *)
Definition coded (r : oresult) : bool :=
  match r with
  | OErr ENone | OList _ (Some ENone) | ODescs _ (Some ENone) => false
  | _ => true
  end.

Lemma code_rel_false_eq a b : a <> ENone -> code_rel false a b = true -> a = b.
Proof. unfold code_rel. destruct a; intros Hn H; try (now apply ecode_eqb_eq); now elim Hn. Qed.

Lemma code_rel_trans h a b c : (h = false -> a <> ENone) ->
  code_rel h a b = true -> code_rel h b c = true -> code_rel h a c = true.
Proof.
  destruct h; cbn [code_rel].
  - intros _ H1 H2. apply Z.eqb_eq in H1, H2. apply Z.eqb_eq. congruence.
  - intros Hn H1 H2. specialize (Hn eq_refl). pose proof (code_rel_false_eq a b Hn H1) as <-. exact H2.
Qed.

Lemma opt_code_rel_trans a b c : (a <> Some ENone) ->
  opt_code_rel a b = true -> opt_code_rel b c = true -> opt_code_rel a c = true.
Proof.
  destruct a as [a|], b as [b|], c as [c|]; cbn; try discriminate; auto.
  intros Hn. apply (code_rel_trans false). intros _ ->. now elim Hn.
Qed.

Lemma list_eqb_trans {A} (eqb : A -> A -> bool) (H : forall a b, eqb a b = true <-> a = b) l1 l2 l3 :
  list_eqb eqb l1 l2 = true -> list_eqb eqb l2 l3 = true -> list_eqb eqb l1 l3 = true.
Proof. intros H1 H2. apply (list_eqb_eq eqb H) in H1, H2. apply (list_eqb_eq eqb H). congruence. Qed.

Lemma res_rel_trans o a b c : res_rel o a b = true -> res_rel o b c = true -> res_rel o a c = true.
Proof.
  unfold res_rel. intros H1 H2.
  destruct o; try (apply res_eqb_eq in H1; rewrite H1; exact H2).
  destruct a, b; try discriminate H1; try (apply res_eqb_eq in H1; rewrite H1; exact H2).
  all: try exact H2.
  destruct c; try discriminate H2; reflexivity.
Qed.

Lemma rel_plain_trans h o a b c : coded a = true ->
  rel_plain h o a b = true -> rel_plain h o b c = true -> rel_plain h o a c = true.
Proof.
  intros Hc. destruct a as [x|la ea|la ea|ca|], b as [y|lb eb|lb eb|cb|], c as [z|lc ec|lc ec|cc|];
    cbn [rel_plain]; try discriminate; intros H1 H2.
  - eapply res_rel_trans; eauto.
  - apply andb_true_iff in H1 as [A1 B1]. apply andb_true_iff in H2 as [A2 B2]. apply andb_true_iff. split.
    + eapply (list_eqb_trans beqb beqb_eq); eauto.
    + eapply opt_code_rel_trans; eauto. intros ->. discriminate Hc.
  - apply andb_true_iff in H1 as [A1 B1]. apply andb_true_iff in H2 as [A2 B2]. apply andb_true_iff. split.
    + eapply (list_eqb_trans desc_eqb desc_eqb_eq); eauto.
    + eapply opt_code_rel_trans; eauto. intros ->. discriminate Hc.
  - eapply code_rel_trans; eauto. intros _ ->. discriminate Hc.
Qed.

(* empty answers: what the slack of identification (b) ranges over *)
Lemma empty_answer_status o c : empty_answer o (to_result (OErr c)) = true -> status_class c = 404%Z.
Proof.
  cbn. destruct o; try discriminate; intros H; apply orb_true_iff in H as [H|H];
    apply ecode_eqb_eq in H; cbn in H; subst; reflexivity.
Qed.

Lemma empty_answer_coded o r : empty_answer o (to_result r) = true -> coded r = true.
Proof.
  destruct r as [x|l e|l e|c|]; cbn; try reflexivity.
  - destruct o; try discriminate; destruct l; try discriminate; destruct e as [[]|]; try reflexivity; discriminate.
  - destruct o; try discriminate; destruct l; try discriminate; destruct e as [[]|]; try reflexivity; discriminate.
  - destruct o; try discriminate; destruct c; try reflexivity; discriminate.
Qed.

(* an empty answer is an error or a drained iterator, never an OOk that compares equal to anything *)
Lemma empty_ok_right o x y : empty_answer o (to_result (OOk y)) = true -> res_rel o x y = false.
Proof. cbn. destruct o; try discriminate; destruct y; try discriminate; intros _; destruct x; reflexivity. Qed.
Lemma empty_ok_left o x y : empty_answer o (to_result (OOk x)) = true -> res_rel o x y = false.
Proof. cbn. destruct o; try discriminate; destruct x; try discriminate; intros _; destruct y; reflexivity. Qed.

(* an answer plainly related to an empty answer is itself an empty answer, or (for the
   HEAD-based resolves) an error of status 404 *)
Lemma plain_of_empty h o b c :
  empty_answer o (to_result b) = true -> rel_plain h o b c = true ->
  empty_answer o (to_result c) = true \/ (h = true /\ exists cb cc, b = OErr cb /\ c = OErr cc /\ status_class cc = 404%Z).
Proof.
  intros He Hp. pose proof (empty_answer_coded _ _ He) as Hc.
  destruct b as [x|lb eb|lb eb|cb|]; destruct c as [z|lc ec|lc ec|cc|]; cbn [rel_plain] in Hp; try discriminate.
  - rewrite (empty_ok_left o x z He) in Hp. discriminate.
  - left. apply andb_true_iff in Hp as [A B]. apply (list_eqb_eq beqb beqb_eq) in A. subst lc.
    destruct eb as [e|], ec as [e'|]; cbn in B; try discriminate; [|exact He].
    assert (e <> ENone) by (intros ->; discriminate Hc).
    now rewrite <- (code_rel_false_eq e e' H B).
  - left. apply andb_true_iff in Hp as [A B]. apply (list_eqb_eq desc_eqb desc_eqb_eq) in A. subst lc.
    destruct eb as [e|], ec as [e'|]; cbn in B; try discriminate; [|exact He].
    assert (e <> ENone) by (intros ->; discriminate Hc).
    now rewrite <- (code_rel_false_eq e e' H B).
  - destruct h.
    + right. split; [reflexivity|]. exists cb, cc. repeat split.
      cbn in Hp. apply Z.eqb_eq in Hp. rewrite <- Hp. now apply (empty_answer_status o).
    + left. assert (cb <> ENone) by (intros ->; discriminate Hc).
      now rewrite <- (code_rel_false_eq cb cc H Hp).
Qed.

Lemma slack_parts l o d v :
  slack l o d v = true ->
  exists r, op_repo o = Some r /\ has_content l r = false
            /\ empty_answer o (to_result d) = true /\ empty_answer o (to_result v) = true.
Proof.
  unfold slack. destruct (op_repo o) as [r|]; [|discriminate]. intros H.
  apply andb_true_iff in H as [H H3]. apply andb_true_iff in H as [H1 H2].
  exists r. repeat split; auto. now apply negb_true_iff.
Qed.

Lemma slack_intro l o r d v :
  op_repo o = Some r -> has_content l r = false ->
  empty_answer o (to_result d) = true -> empty_answer o (to_result v) = true -> slack l o d v = true.
Proof. intros E H1 H2 H3. unfold slack. rewrite E, H1, H2, H3. reflexivity. Qed.

Lemma head_empty_plain o ca cc :
  is_head o = true -> empty_answer o (to_result (OErr ca)) = true -> status_class cc = 404%Z ->
  rel_plain true o (OErr ca) (OErr cc) = true.
Proof. intros _ He Hs. cbn. rewrite (empty_answer_status o ca He), Hs. reflexivity. Qed.

(* THEOREM: rel composes.  With the same option-refusal flag on both sides (it only looks at the
   last answer), and when the direct answer's errors carry a code. *)
Theorem rel_gen_trans hd rf l o a b c : coded a = true ->
  rel_gen hd rf l o a b = true -> rel_gen hd rf l o b c = true -> rel_gen hd rf l o a c = true.
Proof.
  intros Hc. unfold rel_gen. destruct (rf && is_listing o); [auto|].
  set (h := hd && is_head o).
  assert (G : (rel_plain h o a b || slack l o a b = true) -> (rel_plain h o b c || slack l o b c = true) ->
              rel_plain h o a c || slack l o a c = true).
  { intros H1 H2. apply orb_true_iff in H1 as [H1|H1]; apply orb_true_iff in H2 as [H2|H2]; apply orb_true_iff.
    - left. eapply rel_plain_trans; eauto.
    - (* plain, then slack *)
      destruct (slack_parts _ _ _ _ H2) as [r [Er [Hn [Eb Ec]]]].
      pose proof (empty_answer_coded _ _ Eb) as Cb.
      destruct a as [x|la ea|la ea|ca|]; destruct b as [y|lb eb|lb eb|cb|]; cbn [rel_plain] in H1; try discriminate.
      + rewrite (empty_ok_right o x y Eb) in H1. discriminate.
      + right. apply andb_true_iff in H1 as [A B]. apply (list_eqb_eq beqb beqb_eq) in A. subst lb.
        apply (slack_intro l o r); auto.
        destruct ea as [e|], eb as [e'|]; cbn in B; try discriminate; [|exact Eb].
        assert (e <> ENone) by (intros ->; discriminate Hc). now rewrite (code_rel_false_eq e e' H B).
      + right. apply andb_true_iff in H1 as [A B]. apply (list_eqb_eq desc_eqb desc_eqb_eq) in A. subst lb.
        apply (slack_intro l o r); auto.
        destruct ea as [e|], eb as [e'|]; cbn in B; try discriminate; [|exact Eb].
        assert (e <> ENone) by (intros ->; discriminate Hc). now rewrite (code_rel_false_eq e e' H B).
      + destruct h eqn:Eh.
        * left. assert (Ho : is_head o = true) by (subst h; now apply andb_true_iff in Eh as [_ ?]).
          destruct c as [z|lc ec|lc ec|cc|]; try (destruct o; try discriminate Ho; discriminate Ec).
          cbn [rel_plain code_rel] in H1 |- *. apply Z.eqb_eq in H1. rewrite H1.
          rewrite (empty_answer_status o cb Eb), (empty_answer_status o cc Ec). reflexivity.
        * right. apply (slack_intro l o r); auto.
          assert (ca <> ENone) by (intros ->; discriminate Hc). now rewrite (code_rel_false_eq ca cb H H1).
    - (* slack, then plain *)
      destruct (slack_parts _ _ _ _ H1) as [r [Er [Hn [Ea Eb]]]].
      destruct (plain_of_empty h o b c Eb H2) as [Ec|[Eh [cb [cc [-> [-> Hs]]]]]].
      + right. now apply (slack_intro l o r).
      + left. assert (Ho : is_head o = true) by (subst h; now apply andb_true_iff in Eh as [_ ?]).
        destruct a as [x|la ea|la ea|ca|]; try (destruct o; try discriminate Ho; discriminate Ea).
        rewrite Eh. cbn [rel_plain code_rel]. rewrite (empty_answer_status o ca Ea), Hs. reflexivity.
    - destruct (slack_parts _ _ _ _ H1) as [r [Er [Hn [Ea Eb]]]].
      destruct (slack_parts _ _ _ _ H2) as [r' [Er' [_ [_ Ec]]]].
      right. now apply (slack_intro l o r). }
  destruct o; try exact G.
  (* Repositories *)
  intros H1 H2.
  destruct a as [x|la [ea|]|la ea|ca|]; destruct b as [y|lb [eb|]|lb eb|cb|]; destruct c as [z|lc [ec|]|lc ec|cc|];
    first [ exact (G H1 H2)
          | (cbn in H1; rewrite ?andb_false_r, ?orb_false_r in H1; discriminate H1)
          | (cbn in H2; rewrite ?andb_false_r, ?orb_false_r in H2; discriminate H2)
          | (eapply (list_eqb_trans beqb beqb_eq); eauto) ].
Qed.

Theorem rel_trans cfg l o a b c : coded a = true ->
  rel cfg l o a b = true -> rel cfg l o b c = true -> rel cfg l o a c = true.
Proof. apply rel_gen_trans. Qed.

(* status comparison is symmetric: the HEAD-based resolves *)
Lemma rel_plain_head_sym o cd cv :
  rel_plain true o (OErr cd) (OErr cv) = rel_plain true o (OErr cv) (OErr cd).
Proof. cbn. apply Z.eqb_sym. Qed.

(* ---------------------------------------------------------------- the table carries the caller's arguments *)

Lemma key_ok_args k c : key_ok k c = true ->
  bcall_args c = match k with KOp x => op_args x | KCommit d => [d] | _ => [] end.
Proof.
  destruct k as [x| | |d|], c as [y| | | |]; cbn [key_ok bcall_args]; try discriminate; try reflexivity.
  - destruct x, y; cbn; try discriminate; intros H;
      repeat (match type of H with (_ && _)%bool = true => let A := fresh in apply andb_true_iff in H as [H A] end);
      repeat match goal with E : beqb _ _ = true |- _ => apply beqb_eq in E; subst end;
      try (match goal with E : desc_eqb _ _ = true |- _ => apply desc_eqb_eq in E; subst end);
      reflexivity.
  - intros H. apply beqb_eq in H. now subst.
Qed.

Definition key_args (k : ckind) : list bytes :=
  match k with KOp x => op_args x | KCommit d => [d] | _ => [] end.

(* every key of an operation names only the caller's repository / digest / tag (for writer
   operations: the repository of the session, and the digest of the commit) *)
Lemma op_keys_args wr o k : In k (op_keys wr o) -> incl (key_args k) (wr :: op_args o).
Proof.
  intros Hin a Ha.
  destruct o; cbn [op_keys upload_keys] in Hin; cbn [op_args];
    repeat (destruct Hin as [<-|Hin]; [cbn in Ha; intuition (subst; cbn; auto)|]); try now elim Hin.
Qed.

Lemma in_bwrite c id data : In c (bwrite id data) -> c = BWrite id data.
Proof. destruct data; cbn; [tauto|]. intros [<-|[]]. reflexivity. Qed.

Lemma exists_key ks c k : In k ks -> key_ok k c = true -> existsb (fun k => key_ok k c) ks = true.
Proof. intros Hin Hk. apply existsb_exists. eauto. Qed.

Lemma in_flush_keys r id fl data c :
  In c (flush_calls r id fl data) -> existsb (fun k => key_ok k c) (upload_keys r) = true.
Proof.
  unfold flush_calls. intros [<-|Hin].
  - cbn. now rewrite beqb_refl.
  - apply in_app_or in Hin as [Hin|[<-|[]]]; [apply in_bwrite in Hin; subst|]; cbn; rewrite ?orb_true_r; reflexivity.
Qed.

Lemma in_commit_keys r id fl data dg c :
  In c (commit_calls r id fl data dg) ->
  existsb (fun k => key_ok k c) (KCommit dg :: upload_keys r) = true.
Proof.
  unfold commit_calls. intros [<-|Hin].
  - cbn. now rewrite beqb_refl.
  - apply in_app_or in Hin as [Hin|[<-|[<-|[]]]]; [apply in_bwrite in Hin; subst| |]; cbn;
      rewrite ?beqb_refl, ?orb_true_r; reflexivity.
Qed.

Lemma op_eqb_nohint_refl o :
  match o with WWrite _ _ | WClose _ | WSize _ | WChunkSize _ | WID _ | WCommit _ _ | WCancel _ => True
  | _ => op_eqb_nohint o o = true end.
Proof.
  destruct o; cbn; rewrite ?beqb_refl, ?Z.eqb_refl, ?desc_eqb_refl; try reflexivity; exact I.
Qed.

Ltac fin := cbn; rewrite ?beqb_refl, ?Z.eqb_refl, ?desc_eqb_refl; cbn; rewrite ?orb_true_r; reflexivity.

(* every call of the table is a call the operation's keys admit *)
Theorem expected_keys cfg nb ss o v c :
  In c (expected_calls cfg nb ss o v) ->
  existsb (fun k => key_ok k c) (op_keys (sess_repo ss) o) = true.
Proof.
  intros Hin.
  destruct o; cbn [expected_calls op_keys] in *;
    try (destruct Hin as [<-|[]]; fin);
    try (now elim Hin).
  - (* GetBlobRange *)
    destruct ((o0 =? 0)%Z && (o1 <? 0)%Z); destruct Hin as [<-|[]]; fin.
  - (* GetTag *)
    destruct Hin as [<-|Hin]; [fin|].
    destruct (in_mem_threshold <? via_size v)%Z; [|now elim Hin].
    apply repeat_spec in Hin. subst c. fin.
  - (* PushBlob *)
    destruct Hin as [<-|[<-|Hin]]; [fin|fin|].
    pose proof (in_commit_keys _ _ _ _ _ _ Hin) as K. cbn [existsb] in K |- *.
    apply orb_true_iff in K as [K|K]; rewrite K, ?orb_true_r; reflexivity.
  - (* PushBlobChunked *)
    destruct Hin as [<-|[<-|[]]]; fin.
  - (* PushBlobChunkedResume *)
    destruct ss as [s0|]; [|now elim Hin]. destruct (off =? -1)%Z; [|now elim Hin].
    destruct Hin as [<-|[<-|[]]]; fin.
  - (* Repositories *)
    apply in_map_iff in Hin as [x [<- _]]. reflexivity.
  - (* Tags *)
    apply in_map_iff in Hin as [x [<- _]]. fin.
  - (* WClose *)
    destruct ss as [s0|]; [|now elim Hin]. cbn [sess_repo].
    destruct (ts_pending s0) eqn:Ep; [now elim Hin|]. now apply (in_flush_keys _ _ _ _ _ Hin).
  - (* WCommit *)
    destruct ss as [s0|]; [|now elim Hin]. cbn [sess_repo]. now apply (in_commit_keys _ _ _ _ _ _ Hin).
  - (* WCancel *)
    destruct ss as [s0|]; [|now elim Hin]. destruct Hin as [<-|[]]. reflexivity.
Qed.

(* THEOREM: every call the table expects carries exactly arguments of the caller: the names
   it mentions are among the repository / digest / tag arguments of the operation (for a
   writer operation: the repository its session was opened in) *)
Theorem expected_args_exact cfg nb ss o v c :
  In c (expected_calls cfg nb ss o v) -> incl (bcall_args c) (sess_repo ss :: op_args o).
Proof.
  intros Hin. pose proof (expected_keys _ _ _ _ _ _ Hin) as K.
  apply existsb_exists in K as [k [Hk Hok]].
  rewrite (key_ok_args _ _ Hok). now apply (op_keys_args (sess_repo ss) o k).
Qed.

(* what the weaker check of failed operations guarantees *)
Theorem keys_ok_args wr o tr c :
  keys_ok (op_keys wr o) tr = true -> In c tr -> incl (bcall_args c) (wr :: op_args o).
Proof.
  unfold keys_ok. intros H Hin. rewrite forallb_forall in H. specialize (H c Hin).
  apply existsb_exists in H as [k [Hk Hok]]. rewrite (key_ok_args _ _ Hok). now apply op_keys_args.
Qed.

(* the table is not vacuous: for the simple operations it is the operation itself *)
Example expected_get_blob cfg nb r d v : expected_calls cfg nb None (GetBlob r d) v = [BOp (GetBlob r d)].
Proof. reflexivity. Qed.
