(* C03 (d), any number of hops.

     hst l, hops l     the tower  client_k -> server_k -> ... -> client_1 -> server_1 -> backend  for a
                       list l of (server options, client configuration), outermost first, as a
                       backend over the nested states
     n_hops_one        every method that is one client call, through every tower: the caller gets
                       the views of the backend's one answer, hop after hop; the innermost backend
                       has received the one call [bop c] and is in the state after it
     n_hops_conforming the same from hypotheses on the backend's answer alone ([conf_view])
     session_compose   the upload session PushBlob is over HTTP, seen at the stack as a backend, is
                       again such a session: the eight calls of the outer server are writer
                       operations of the inner client, which make the same eight calls below
     n_hops_PushBlob   PushBlob through every tower

   Proofs/StackCompose.v has two hops for the one-call methods.  What does NOT follow this way
   are the listings: [pages_well] (Proofs/StackListing.v) asks the backend to answer a listing
   call in the SAME state, and the stack as a backend records the trace of its last call in its
   state, so it never does ([stack_pages_well_refuted]); hence [Conforming] does not hold of
   [stack_bstep] as it is stated ([conforming_compose_refuted], on the ocimem model). *)
From Coq Require Import String.
From OCI Require Import Model.Stack Proofs.Request Proofs.StackBase Proofs.StackDesc Proofs.StackRange.
From OCI Require Import Proofs.RequestCodec Proofs.StackTransparent Proofs.StackListing Proofs.StackListingB Proofs.StackTwoHops.
From OCI Require Import Proofs.StackUpload Proofs.StackUploadEmpty Proofs.StackStep Proofs.StackCompose Proofs.StackWriterStep.

Local Open Scope Z_scope.

Definition hcfg := (opts * ccfg)%type.

Section Hops.
  Variable linked : alg -> bool.
  Variable hash : bytes -> bytes -> bytes.
  Variable subject_of : bytes -> option (option bytes).
  Variable media : bytes -> bytes.
  Variable enc : jval -> bytes.
  Variable dec_errors : bytes -> option (list werr).
  Variable dec_names : bool -> bytes -> option (list bytes).
  Variable dec_index : bytes -> option (list desc).
  Variable redirect : bytes -> bytes -> bytes * bytes.
  Variable B : Type.
  Variable bstep : backend B.

  Hypothesis media_json : media json_ct = json_ct.
  Hypothesis json_errors_rt : forall w, dec_errors (enc (JErr w)) = Some [w].
  Hypothesis json_index_rt : forall l, dec_index (enc (JIndex l)) = Some l.

  Notation stackv o cc bs := (stack_bstep linked hash subject_of media enc dec_errors dec_names dec_index redirect bs o cc).
  Notation wf := (wf_op linked hash subject_of).
  Notation conf := (conf_answer linked hash enc).
  Notation viewv := (view hash enc).

  (* ---------------------------------------------------------- the tower *)

  Fixpoint hst (l : list hcfg) : Type :=
    match l with [] => B | _ :: l' => sstate (hst l') end.

  Fixpoint hops (l : list hcfg) : backend (hst l) :=
    match l return backend (hst l) with
    | [] => bstep
    | (o, cc) :: l' => stackv o cc (hops l')
    end.

  Fixpoint innermost (l : list hcfg) : hst l -> B :=
    match l return hst l -> B with
    | [] => fun b => b
    | _ :: l' => fun st => innermost l' (sv_b (st_srv st))
    end.

  Fixpoint all_clean (l : list hcfg) : hst l -> Prop :=
    match l return hst l -> Prop with
    | [] => fun _ => True
    | _ :: l' => fun st => clean st /\ all_clean l' (sv_b (st_srv st))
    end.

  (* the call the innermost backend receives *)
  Definition inner_op (l : list hcfg) (c : op) : op := match l with [] => c | _ => bop c end.

  (* the answer, hop after hop *)
  Fixpoint views (l : list hcfg) (c : op) (r : bres) : bres :=
    match l with [] => r | (o, _) :: l' => viewv o c (views l' c r) end.

  (* what is asked at every hop of the answer that arrives there *)
  Fixpoint lvl_ok (l : list hcfg) (c : op) (r : bres) : Prop :=
    match l with
    | [] => True
    | (o, cc) :: l' =>
        o_locs o = None /\ (1 <= cc_bufsz cc)%nat /\ conf o c (views l' c r) /\ tag_small o c (views l' c r)
        /\ referrers_ok o c /\ lvl_ok l' c r
    end.

  Lemma inner_op_bop l x c : inner_op l (bop c) = inner_op (x :: l) c.
  Proof. destruct l; cbn [inner_op]; [reflexivity | apply bop_idem]. Qed.

  Lemma views_bop l c r : views l (bop c) r = views l c r.
  Proof. induction l as [|[o cc] l IH]; cbn [views]; [reflexivity|]. now rewrite IH, view_bop. Qed.

  Lemma lvl_ok_bop l c r : lvl_ok l c r -> lvl_ok l (bop c) r.
  Proof.
    induction l as [|[o cc] l IH]; cbn [lvl_ok]; [auto|]. intros (A & B0 & C & D & E & F). rewrite views_bop.
    split; [exact A|]. split; [exact B0|]. split; [now apply (conf_bop linked hash subject_of media enc dec_errors dec_index redirect)|].
    split; [now apply (tag_small_bop hash subject_of media dec_errors dec_index redirect)|].
    split; [now apply (referrers_ok_bop hash subject_of media dec_errors dec_index redirect) | now apply IH].
  Qed.

  (* ---------------------------------------------------------- every one-call method, every tower *)

  Theorem n_hops_one : forall l (st : hst l) c b' r,
    one_call c = true -> wf c -> all_clean l st ->
    bstep (innermost l st) (inner_op l c) = (b', r) -> lvl_ok l c r ->
    snd (hops l st c) = views l c r
    /\ innermost l (fst (hops l st c)) = b'
    /\ all_clean l (fst (hops l st c)).
  Proof.
    induction l as [|[o cc] l IH]; intros st c b' r H1 Hwf Hcl Hb Hok.
    - cbn [hops views innermost all_clean inner_op] in *. rewrite Hb. auto.
    - cbn [hops views innermost all_clean lvl_ok] in *. destruct Hcl as (Hcl & Hcl').
      destruct Hok as (Hl & Hk & Hc & Ht & Hr & Hok').
      destruct (IH (sv_b (st_srv st)) (bop c) b' r (one_call_bop c H1) (wf_bop linked hash subject_of c Hwf) Hcl'
                  ltac:(rewrite (inner_op_bop l (o, cc)); exact Hb) (lvl_ok_bop l c r Hok')) as (E1 & E2 & E3).
      rewrite views_bop in E1.
      assert (Ein : hops l (sv_b (st_srv st)) (bop c) = (fst (hops l (sv_b (st_srv st)) (bop c)), views l c r)).
      { rewrite <- E1. apply surjective_pairing. }
      rewrite (step_one linked hash subject_of media enc dec_errors dec_names dec_index redirect (hst l) (hops l) o cc
                 media_json json_errors_rt json_index_rt Hl Hk st c _ _ H1 Hwf Hcl Ein Hc Ht Hr).
      cbn [fst snd stepped st_srv sv_b]. split; [reflexivity|]. split; [exact E2|]. split; [reflexivity | exact E3].
  Qed.

  (* ---------------------------------------------------------- from the backend's answer alone *)

  (* the error of the answer (if it is one) can be relayed once more at every hop *)
  Fixpoint errors_relay (l : list hcfg) (c : op) (r : bres) : Prop :=
    match l with
    | [] => True
    | _ :: l' => errors_relay l' c r
                 /\ forall h e, answer_error c (views l' c r) = Some (h, e) -> relayable enc (wire_error enc h e)
    end.

  Definition hop_ok (c : op) (r : bres) (x : hcfg) : Prop :=
    o_locs (fst x) = None /\ (1 <= cc_bufsz (snd x))%nat /\ conf (fst x) c r /\ tag_small (fst x) c r /\ referrers_ok (fst x) c.

  Lemma tag_small_view o o' c r : tag_small o' c r -> tag_small o' c (viewv o c r).
  Proof.
    destruct c; try (intros _; destruct r; exact I). destruct r as [v| | |]; try (intros _; exact I).
    cbn [view view_ok tag_small]. destruct (omit o); cbn [data_of read_view]; auto.
  Qed.

  Lemma conf_views l c r : one_call c = true -> wf c -> Forall (hop_ok c r) l -> errors_relay l c r ->
    forall o', conf o' c r -> tag_small o' c r -> conf o' c (views l c r) /\ tag_small o' c (views l c r).
  Proof.
    intros H1 Hwf. induction l as [|[o cc] l IH]; intros Hall Her o' Hc Ht; cbn [views]; [auto|].
    inversion Hall as [|? ? (Hl & Hk & Hco & Hto & Hro) Hall']; subst. cbn [fst snd] in *. destruct Her as (Her & Herr).
    destruct (IH Hall' Her o Hco Hto) as (Hc1 & Ht1). destruct (IH Hall' Her o' Hc Ht) as (Hc2 & Ht2).
    split; [|now apply tag_small_view].
    exact (conf_view linked hash subject_of enc o o' c (views l c r) H1 Hwf Hc1 Hc2 Ht1 Herr).
  Qed.

  Lemma lvl_ok_of l c r : one_call c = true -> wf c -> Forall (hop_ok c r) l -> errors_relay l c r -> lvl_ok l c r.
  Proof.
    intros H1 Hwf. induction l as [|[o cc] l IH]; intros Hall Her; cbn [lvl_ok]; [exact I|].
    inversion Hall as [|? ? (Hl & Hk & Hco & Hto & Hro) Hall']; subst. cbn [fst snd] in *. destruct Her as (Her & Herr).
    destruct (conf_views l c r H1 Hwf Hall' Her o Hco Hto) as (Hc1 & Ht1).
    repeat (split; [assumption|]). now apply IH.
  Qed.

  (* Every method that is one client call, through any number of hops with independent option
     sets and client configurations: when the backend's one answer is conforming for every hop's
     options (and its error, if it is one, still fits the client's limit after each relay), the
     caller gets the views of that answer and the innermost backend has made the one call. *)
  Theorem n_hops_conforming l (st : hst l) c b' r :
    one_call c = true -> wf c -> all_clean l st ->
    bstep (innermost l st) (inner_op l c) = (b', r) ->
    Forall (hop_ok c r) l -> errors_relay l c r ->
    snd (hops l st c) = views l c r
    /\ innermost l (fst (hops l st c)) = b'
    /\ all_clean l (fst (hops l st c)).
  Proof.
    intros H1 Hwf Hcl Hb Hall Her. apply (n_hops_one l st c b' r H1 Hwf Hcl Hb). now apply lvl_ok_of.
  Qed.

  (* ---------------------------------------------------------- the upload session of PushBlob, hop after hop *)

  (* the eight backend calls of PushBlob over HTTP for a non-empty content (Proofs/StackHistory.v
     [session]), with what the next hop needs to know about the answers *)
  Definition session_ok {X} (step : backend X) (b : X) (rp dg data : bytes) (b8 : X) : Prop :=
    exists b1 b2 b3 b4 b5 b6 b7 vw vid vcs rc vw2 vn vd rc2,
      step b (PushBlobChunked rp 0) = (b1, Ok vw) /\
      step b1 (WID (wid_of vw)) = (b2, Ok vid) /\ good_upload_id (str_of vid) /\
      step b2 (WChunkSize (wid_of vw)) = (b3, Ok vcs) /\ min_int64 <= n_of vcs <= max_int64 /\
      step b3 (WClose (wid_of vw)) = (b4, rc) /\ rc <> Panic /\ rc <> OutOfFuel /\
      step b4 (PushBlobChunkedResume rp (str_of vid) 0 (blen data)) = (b5, Ok vw2) /\
      step b5 (WWrite (wid_of vw2) data) = (b6, Ok vn) /\ n_of vn = blen data /\
      step b6 (WCommit (wid_of vw2) dg) = (b7, Ok vd) /\ vdigest linked (d_digest (desc_of vd)) = true /\
      step b7 (WClose (wid_of vw2)) = (b8, rc2) /\ rc2 <> Panic /\ rc2 <> OutOfFuel.

  Lemma upath_good rp id : vrepo rp = true -> good_upload_id id -> good_upload_id (upath rp id).
  Proof.
    intros Hr Hid. split; [discriminate|].
    assert (G : forall l, forallb safe l = true -> utf8_valid l = true).
    { induction l as [|c l IH]; [reflexivity|]. cbn [forallb utf8_valid]. intros H. apply andb_true_iff in H as [Hc Hl].
      assert (Hlt : (c <? 128)%N = true) by (apply N.ltb_lt; apply safe_iff in Hc; lia). rewrite Hlt. now apply IH. }
    apply G. unfold upath. rewrite forallb_app. rewrite (upath_safe rp id Hr Hid). reflexivity.
  Qed.

  Notation serve o bs := (serve_stack linked hash subject_of enc redirect bs o).
  Notation env := (stack_env linked hash media dec_errors dec_names dec_index).

  (* what Commit leaves of the writer *)
  Lemma writer_commit_shape {X} (bs : backend X) o (wr : writer) dg (w w' : world (srv X)) wr' r :
    writer_commit (srv X) (serve o bs) env wr dg w = (w', (wr', Ok r)) ->
    wr_closed wr' = wr_closed wr /\ chunk_bytes wr' = [] /\ wr_close_err wr' = wr_close_err wr.
  Proof.
    unfold writer_commit. destruct (is_empty dg) eqn:Ed; [discriminate|]. unfold flush, bind. rewrite Ed. cbn [andb negb].
    destruct (client_do (srv X) (serve o bs) env _ _ w) as [w1 [r1| | |]]; try discriminate.
    unfold lift. destruct (flatten _ (location_from_response env r1)); try discriminate. unfold ret.
    intros H. injection H as _ <- _. cbn [wr_closed wr_close_err]. unfold chunk_bytes. cbn [wr_chunk].
    destruct (wr_chunk wr); auto.
  Qed.

  Lemma set_nth_app_last {A} (l : list A) a a' : set_nth (length l) a' (l ++ [a]) = l ++ [a'].
  Proof. induction l as [|b l IH]; cbn; [reflexivity|]. now rewrite IH. Qed.

  Lemma nth_error_app_last {A} (l : list A) a : nth_error (l ++ [a]) (length l) = Some a.
  Proof. rewrite nth_error_app2, Nat.sub_diag by lia. reflexivity. Qed.

  Notation raw o cc bs := (raw_step linked hash subject_of media enc dec_errors dec_names dec_index redirect bs o cc).

  Lemma stack_of_raw' {X} (bs : backend X) o cc (st : sstate X) c st' r :
    raw o cc bs st c = (st', r) -> sv_outside (st_srv st') = false -> stackv o cc bs st c = (st', r).
  Proof. intros E Ho. unfold stack_bstep. rewrite E, Ho. reflexivity. Qed.

  (* the session below, seen one hop above: the outer server's eight calls are writer operations of
     this hop's client, which talks to the server below only to open the session and to commit *)
  Theorem session_compose {X} (bs : backend X) o cc (st : sstate X) rp dg data b8 :
    o_locs o = None -> clean st -> vrepo rp = true -> vdigest linked dg = true -> 1 <= blen data <= max_int64 ->
    session_ok bs (sv_b (st_srv st)) rp dg data b8 ->
    exists st8, session_ok (stackv o cc bs) st rp dg data st8 /\ sv_b (st_srv st8) = b8 /\ clean st8.
  Proof.
    intros Hl Hcl Hr Hvd Hlen (b1 & b2 & b3 & b4 & b5 & b6 & b7 & vw & vid & vcs & rc & vw2 & vn & vd & rc2 &
                               E1 & E2 & Hid & E3 & Hcs & E4 & Hc1 & Hc2 & E5 & E6 & Hn & E7 & Hvdd & E8 & Hc3 & Hc4).
    set (id := str_of vid) in *. set (ws := st_writers st).
    assert (Hne : data <> []) by (intros ->; cbn in Hlen; lia).
    (* 1: PushBlobChunked *)
    destruct (transparent_PushBlobChunked_start linked hash subject_of media enc dec_errors dec_names dec_index redirect X bs o
                (start X st) rp 0 b1 b2 b3 b4 vw vid vcs rc Hr E1 E2 Hid E3 Hcs E4 Hc1 Hc2) as (w1 & S1 & Hw1).
    fold id in S1.
    set (wr0 := {| wr_chunk_size := Z.max (default_or 0) (n_of vcs); wr_closed := false; wr_chunk := Some [];
                   wr_close_err := None; wr_size := 0; wr_flushed := 0;
                   wr_location := URef (UReq (start_upload_rreq rp)) (upath rp id) |}) in *.
    set (k := N.of_nat (length ws)).
    set (sv1 := after X (w_srv (start X st)) b4
                  [ECall (PushBlobChunked rp 0) (Ok vw); ECall (WID (wid_of vw)) (Ok vid);
                   ECall (WChunkSize (wid_of vw)) (Ok vcs); ECall (WClose (wid_of vw)) rc]) in *.
    set (st1 := mksstate sv1 (ws ++ [wr0])).
    assert (Ho1 : sv_outside sv1 = false) by exact Hcl.
    assert (T1 : stackv o cc bs st (PushBlobChunked rp 0) = (st1, Ok (VWriter k))).
    { apply stack_of_raw'; [|exact Ho1]. cbn [raw_step]. unfold new_writer. rewrite S1, Hw1. reflexivity. }
    assert (Hk : N.to_nat k = length ws) by apply Nat2N.id.
    assert (Hn1 : nth_error (st_writers st1) (N.to_nat k) = Some wr0) by (rewrite Hk; apply nth_error_app_last).
    (* 2: ID *)
    assert (Hloc0 : loc_at wr0 rp id) by (unfold loc_at; cbn [wr_location wr0]; now apply loc_at_ref).
    assert (T2 : stackv o cc bs st1 (WID k) = (st1, Ok (VStr (upath rp id)))).
    { apply stack_of_raw'; [|exact Ho1]. cbn [raw_step]. rewrite Hn1. now rewrite (id_at wr0 rp id Hr Hid Hloc0). }
    (* 3: ChunkSize *)
    set (sv3 := mksrv b4 [] (sv_panic sv1) false).
    set (st3 := mksstate sv3 (ws ++ [wr0])).
    assert (T3 : stackv o cc bs st1 (WChunkSize k) = (st3, Ok (VN (wr_chunk_size wr0)))).
    { assert (Es : w_srv (start X st1) = sv3).
      { unfold sv3, start, init_world. cbn [w_srv st_srv st1]. unfold clean in Hcl. unfold sv1, after, start, init_world.
        cbn [w_srv sv_b sv_panic sv_outside]. now rewrite Hcl. }
      apply stack_of_raw'; [|reflexivity]. cbn [raw_step]. unfold on_writer. rewrite Hn1. cbn [writer_op].
      cbn [st_writers st1]. rewrite Hk, set_nth_app_last, Es. reflexivity. }
    (* 4: Close: nothing pending, no request *)
    set (wr4 := set_closed wr0 None).
    set (st4 := mksstate sv3 (ws ++ [wr4])).
    assert (Hn3 : nth_error (st_writers st3) (N.to_nat k) = Some wr0) by (rewrite Hk; apply nth_error_app_last).
    assert (T4 : stackv o cc bs st3 (WClose k) = (st4, Ok VUnit)).
    { apply stack_of_raw'; [|reflexivity]. cbn [raw_step]. unfold on_writer. rewrite Hn3. cbn [writer_op].
      unfold writer_close. cbn [wr_closed wr0]. unfold flush. cbn [chunk_bytes wr_chunk wr0 is_empty andb blenZ length Z.of_nat Z.add Z.eqb].
      unfold ret. cbn [st_writers st3]. rewrite Hk, set_nth_app_last. reflexivity. }
    (* 5: resume at 0: no request *)
    set (wr5 := resumed (UId (upath rp id)) (default_or (blen data)) 0).
    set (st5 := mksstate sv3 ((ws ++ [wr4]) ++ [wr5])).
    set (k2 := N.of_nat (length (ws ++ [wr4]))).
    assert (T5 : stackv o cc bs st4 (PushBlobChunkedResume rp (upath rp id) 0 (blen data)) = (st5, Ok (VWriter k2))).
    { apply stack_of_raw'; [|reflexivity]. cbn [raw_step]. unfold new_writer.
      rewrite (resume_at linked hash subject_of media enc dec_errors dec_names dec_index redirect X bs o (start X st4) rp rp id 0 (blen data) Hr Hid ltac:(lia)).
      reflexivity. }
    assert (Hk2 : N.to_nat k2 = length (ws ++ [wr4])) by apply Nat2N.id.
    assert (Hn5 : nth_error (st_writers st5) (N.to_nat k2) = Some wr5) by (rewrite Hk2; apply nth_error_app_last).
    (* 6: Write: the whole content fits the chunk *)
    set (wr6 := {| wr_chunk_size := default_or (blen data); wr_closed := false; wr_chunk := Some data; wr_close_err := None;
                   wr_size := blen data; wr_flushed := 0; wr_location := UId (upath rp id) |}).
    set (st6 := mksstate sv3 ((ws ++ [wr4]) ++ [wr6])).
    assert (Hdo : default_or (blen data) = blen data).
    { unfold default_or. destruct (Z.leb_spec (blen data) 0); [lia | reflexivity]. }
    assert (T6 : stackv o cc bs st5 (WWrite k2 data) = (st6, Ok (VN (blen data)))).
    { apply stack_of_raw'; [|reflexivity]. cbn [raw_step]. unfold on_writer. rewrite Hn5. cbn [writer_op].
      unfold writer_write, alloc_chunk, wr5, resumed. cbn [wr_chunk_size chunk_bytes wr_chunk].
      change (blenZ data) with (blen data). change (blenZ []) with 0. rewrite Hdo.
      destruct (Z.ltb_spec (blen data) (0 + blen data)); [lia|].
      cbn [b_prealloc_capped current].
      destruct (Z.ltb_spec max_alloc (Z.min (blen data) default_chunk_size)) as [Hx|_];
        [unfold max_alloc, default_chunk_size in Hx; lia|].
      cbn [wr_closed wr_close_err wr_size wr_flushed wr_location app st_writers st5]. rewrite Hk2, set_nth_app_last.
      rewrite w64_wrap64, wrap64_small by (unfold min_int64, max_int64 in *; lia). unfold st6, wr6. rewrite Hdo, Z.add_0_l. reflexivity. }
    assert (Hn6 : nth_error (st_writers st6) (N.to_nat k2) = Some wr6) by (rewrite Hk2; apply nth_error_app_last).
    (* 7: Commit: the PUT with the content *)
    assert (Hloc6 : loc_at wr6 rp id) by (unfold loc_at; cbn [wr_location wr6 interp_url]; apply (upath_parse rp id Hr Hid)).
    destruct (commit_at linked hash subject_of media enc dec_errors dec_names dec_index redirect X bs o
                (start X st6) wr6 rp id dg b5 b6 b7 b8 vw2 vn vd rc2) as (w7 & wr7 & S7 & _ & Hsz7 & Hw7);
      try assumption; cbn [chunk_bytes wr_chunk wr6 wr_flushed]; try assumption; try lia.
    destruct (writer_commit_shape bs o wr6 dg (start X st6) w7 wr7 _ S7) as (Hcl7 & Hch7 & Hce7).
    set (sv7 := w_srv w7). set (st7 := mksstate sv7 ((ws ++ [wr4]) ++ [wr7])).
    assert (Ho7 : sv_outside sv7 = false) by (unfold sv7; rewrite Hw7; reflexivity).
    assert (T7 : stackv o cc bs st6 (WCommit k2 dg)
                 = (st7, Ok (VDesc {| d_media := octet_stream; d_digest := dg; d_size := blen data; d_artifact := [] |}))).
    { apply stack_of_raw'; [|exact Ho7]. cbn [raw_step]. unfold on_writer. rewrite Hn6. cbn [writer_op]. rewrite S7.
      cbn [st_writers st6]. rewrite Hk2, set_nth_app_last. reflexivity. }
    assert (Hn7 : nth_error (st_writers st7) (N.to_nat k2) = Some wr7) by (rewrite Hk2; apply nth_error_app_last).
    (* 8: Close: nothing pending *)
    set (sv8 := mksrv b8 [] (sv_panic sv7) false).
    set (st8 := mksstate sv8 ((ws ++ [wr4]) ++ [set_closed wr7 None])).
    assert (Eb7 : sv_b sv7 = b8) by (unfold sv7; rewrite Hw7; reflexivity).
    assert (Es8 : w_srv (start X st7) = sv8).
    { unfold sv8, start, init_world. cbn [w_srv st_srv st7]. now rewrite Eb7, Ho7. }
    assert (T8 : stackv o cc bs st7 (WClose k2) = (st8, Ok VUnit)).
    { apply stack_of_raw'; [|reflexivity]. cbn [raw_step]. unfold on_writer. rewrite Hn7. cbn [writer_op].
      unfold writer_close. rewrite Hcl7. cbn [wr_closed wr6]. unfold flush. rewrite Hch7.
      cbn [is_empty andb blenZ length Z.of_nat Z.add Z.eqb]. unfold ret.
      cbn [st_writers st7]. rewrite Hk2, set_nth_app_last, Es8. reflexivity. }
    exists st8. split; [|split; reflexivity].
    exists st1, st1, st3, st4, st5, st6, st7, (VWriter k), (VStr (upath rp id)), (VN (wr_chunk_size wr0)), (Ok VUnit), (VWriter k2),
           (VN (blen data)), (VDesc {| d_media := octet_stream; d_digest := dg; d_size := blen data; d_artifact := [] |}), (Ok VUnit).
    cbn [wid_of str_of n_of desc_of d_digest].
    split; [exact T1|]. split; [exact T2|]. split; [now apply upath_good|]. split; [exact T3|].
    split; [cbn [wr_chunk_size wr0]; unfold default_or; cbn; unfold min_int64, max_int64, default_chunk_size in *; lia|].
    split; [exact T4|]. split; [discriminate|]. split; [discriminate|]. split; [exact T5|]. split; [exact T6|].
    split; [reflexivity|]. split; [exact T7|]. split; [exact Hvd|]. split; [exact T8|]. split; discriminate.
  Qed.

  (* ... and for the empty content *)
  Definition session0_ok {X} (step : backend X) (b : X) (rp dg : bytes) (b8 : X) : Prop :=
    exists b1 b2 b3 b4 b5 b7 vw vid vcs rc vw2 vd rc2,
      step b (PushBlobChunked rp 0) = (b1, Ok vw) /\
      step b1 (WID (wid_of vw)) = (b2, Ok vid) /\ good_upload_id (str_of vid) /\
      step b2 (WChunkSize (wid_of vw)) = (b3, Ok vcs) /\ min_int64 <= n_of vcs <= max_int64 /\
      step b3 (WClose (wid_of vw)) = (b4, rc) /\ rc <> Panic /\ rc <> OutOfFuel /\
      step b4 (PushBlobChunkedResume rp (str_of vid) 0 0) = (b5, Ok vw2) /\
      step b5 (WCommit (wid_of vw2) dg) = (b7, Ok vd) /\ vdigest linked (d_digest (desc_of vd)) = true /\
      step b7 (WClose (wid_of vw2)) = (b8, rc2) /\ rc2 <> Panic /\ rc2 <> OutOfFuel.

  (* the same for the empty content: no Write *)
  Theorem session0_compose {X} (bs : backend X) o cc (st : sstate X) rp dg b8 :
    o_locs o = None -> clean st -> vrepo rp = true -> vdigest linked dg = true ->
    session0_ok bs (sv_b (st_srv st)) rp dg b8 ->
    exists st8, session0_ok (stackv o cc bs) st rp dg st8 /\ sv_b (st_srv st8) = b8 /\ clean st8.
  Proof.
    intros Hl Hcl Hr Hvd (b1 & b2 & b3 & b4 & b5 & b7 & vw & vid & vcs & rc & vw2 & vd & rc2 &
                          E1 & E2 & Hid & E3 & Hcs & E4 & Hc1 & Hc2 & E5 & E7 & Hvdd & E8 & Hc3 & Hc4).
    set (id := str_of vid) in *. set (ws := st_writers st).
    (* 1: PushBlobChunked *)
    destruct (transparent_PushBlobChunked_start linked hash subject_of media enc dec_errors dec_names dec_index redirect X bs o
                (start X st) rp 0 b1 b2 b3 b4 vw vid vcs rc Hr E1 E2 Hid E3 Hcs E4 Hc1 Hc2) as (w1 & S1 & Hw1).
    fold id in S1.
    set (wr0 := {| wr_chunk_size := Z.max (default_or 0) (n_of vcs); wr_closed := false; wr_chunk := Some [];
                   wr_close_err := None; wr_size := 0; wr_flushed := 0;
                   wr_location := URef (UReq (start_upload_rreq rp)) (upath rp id) |}) in *.
    set (k := N.of_nat (length ws)).
    set (sv1 := after X (w_srv (start X st)) b4
                  [ECall (PushBlobChunked rp 0) (Ok vw); ECall (WID (wid_of vw)) (Ok vid);
                   ECall (WChunkSize (wid_of vw)) (Ok vcs); ECall (WClose (wid_of vw)) rc]) in *.
    set (st1 := mksstate sv1 (ws ++ [wr0])).
    assert (Ho1 : sv_outside sv1 = false) by exact Hcl.
    assert (T1 : stackv o cc bs st (PushBlobChunked rp 0) = (st1, Ok (VWriter k))).
    { apply stack_of_raw'; [|exact Ho1]. cbn [raw_step]. unfold new_writer. rewrite S1, Hw1. reflexivity. }
    assert (Hk : N.to_nat k = length ws) by apply Nat2N.id.
    assert (Hn1 : nth_error (st_writers st1) (N.to_nat k) = Some wr0) by (rewrite Hk; apply nth_error_app_last).
    (* 2: ID *)
    assert (Hloc0 : loc_at wr0 rp id) by (unfold loc_at; cbn [wr_location wr0]; now apply loc_at_ref).
    assert (T2 : stackv o cc bs st1 (WID k) = (st1, Ok (VStr (upath rp id)))).
    { apply stack_of_raw'; [|exact Ho1]. cbn [raw_step]. rewrite Hn1. now rewrite (id_at wr0 rp id Hr Hid Hloc0). }
    (* 3: ChunkSize *)
    set (sv3 := mksrv b4 [] (sv_panic sv1) false).
    set (st3 := mksstate sv3 (ws ++ [wr0])).
    assert (T3 : stackv o cc bs st1 (WChunkSize k) = (st3, Ok (VN (wr_chunk_size wr0)))).
    { assert (Es : w_srv (start X st1) = sv3).
      { unfold sv3, start, init_world. cbn [w_srv st_srv st1]. unfold clean in Hcl. unfold sv1, after, start, init_world.
        cbn [w_srv sv_b sv_panic sv_outside]. now rewrite Hcl. }
      apply stack_of_raw'; [|reflexivity]. cbn [raw_step]. unfold on_writer. rewrite Hn1. cbn [writer_op].
      cbn [st_writers st1]. rewrite Hk, set_nth_app_last, Es. reflexivity. }
    (* 4: Close: nothing pending, no request *)
    set (wr4 := set_closed wr0 None).
    set (st4 := mksstate sv3 (ws ++ [wr4])).
    assert (Hn3 : nth_error (st_writers st3) (N.to_nat k) = Some wr0) by (rewrite Hk; apply nth_error_app_last).
    assert (T4 : stackv o cc bs st3 (WClose k) = (st4, Ok VUnit)).
    { apply stack_of_raw'; [|reflexivity]. cbn [raw_step]. unfold on_writer. rewrite Hn3. cbn [writer_op].
      unfold writer_close. cbn [wr_closed wr0]. unfold flush. cbn [chunk_bytes wr_chunk wr0 is_empty andb blenZ length Z.of_nat Z.add Z.eqb].
      unfold ret. cbn [st_writers st3]. rewrite Hk, set_nth_app_last. reflexivity. }
    (* 5: resume at 0: no request *)
    set (wr5 := resumed (UId (upath rp id)) (default_or 0) 0).
    set (st5 := mksstate sv3 ((ws ++ [wr4]) ++ [wr5])).
    set (k2 := N.of_nat (length (ws ++ [wr4]))).
    assert (T5 : stackv o cc bs st4 (PushBlobChunkedResume rp (upath rp id) 0 0) = (st5, Ok (VWriter k2))).
    { apply stack_of_raw'; [|reflexivity]. cbn [raw_step]. unfold new_writer.
      rewrite (resume_at linked hash subject_of media enc dec_errors dec_names dec_index redirect X bs o (start X st4) rp rp id 0 0 Hr Hid ltac:(lia)).
      reflexivity. }
    assert (Hk2 : N.to_nat k2 = length (ws ++ [wr4])) by apply Nat2N.id.
    assert (Hn5 : nth_error (st_writers st5) (N.to_nat k2) = Some wr5) by (rewrite Hk2; apply nth_error_app_last).
    (* 7: Commit: the PUT without body *)
    assert (Hloc5 : loc_at wr5 rp id) by (unfold loc_at; cbn [wr_location wr5 resumed interp_url]; apply (upath_parse rp id Hr Hid)).
    destruct (commit_empty_at linked hash subject_of media enc dec_errors dec_names dec_index redirect X bs o
                (start X st5) wr5 rp id dg b5 b7 b8 vw2 vd rc2) as (w7 & wr7 & S7 & _ & Hsz7 & Hw7);
      try assumption; try reflexivity; cbn [wr_flushed wr5 resumed]; try assumption; try (unfold max_int64; lia).
    destruct (writer_commit_shape bs o wr5 dg (start X st5) w7 wr7 _ S7) as (Hcl7 & Hch7 & Hce7).
    set (sv7 := w_srv w7). set (st7 := mksstate sv7 ((ws ++ [wr4]) ++ [wr7])).
    assert (Ho7 : sv_outside sv7 = false) by (unfold sv7; rewrite Hw7; reflexivity).
    assert (T7 : stackv o cc bs st5 (WCommit k2 dg)
                 = (st7, Ok (VDesc {| d_media := octet_stream; d_digest := dg; d_size := 0; d_artifact := [] |}))).
    { apply stack_of_raw'; [|exact Ho7]. cbn [raw_step]. unfold on_writer. rewrite Hn5. cbn [writer_op]. rewrite S7.
      cbn [st_writers st5]. rewrite Hk2, set_nth_app_last. reflexivity. }
    assert (Hn7 : nth_error (st_writers st7) (N.to_nat k2) = Some wr7) by (rewrite Hk2; apply nth_error_app_last).
    (* 8: Close: nothing pending *)
    set (sv8 := mksrv b8 [] (sv_panic sv7) false).
    set (st8 := mksstate sv8 ((ws ++ [wr4]) ++ [set_closed wr7 None])).
    assert (Eb7 : sv_b sv7 = b8) by (unfold sv7; rewrite Hw7; reflexivity).
    assert (Es8 : w_srv (start X st7) = sv8).
    { unfold sv8, start, init_world. cbn [w_srv st_srv st7]. now rewrite Eb7, Ho7. }
    assert (T8 : stackv o cc bs st7 (WClose k2) = (st8, Ok VUnit)).
    { apply stack_of_raw'; [|reflexivity]. cbn [raw_step]. unfold on_writer. rewrite Hn7. cbn [writer_op].
      unfold writer_close. rewrite Hcl7. cbn [wr_closed wr5 resumed]. unfold flush. rewrite Hch7.
      cbn [is_empty andb blenZ length Z.of_nat Z.add Z.eqb]. unfold ret.
      cbn [st_writers st7]. rewrite Hk2, set_nth_app_last, Es8. reflexivity. }
    exists st8. split; [|split; reflexivity].
    exists st1, st1, st3, st4, st5, st7, (VWriter k), (VStr (upath rp id)), (VN (wr_chunk_size wr0)), (Ok VUnit), (VWriter k2),
           (VDesc {| d_media := octet_stream; d_digest := dg; d_size := 0; d_artifact := [] |}), (Ok VUnit).
    cbn [wid_of str_of n_of desc_of d_digest].
    split; [exact T1|]. split; [exact T2|]. split; [now apply upath_good|]. split; [exact T3|].
    split; [cbn [wr_chunk_size wr0]; unfold default_or; cbn; unfold min_int64, max_int64, default_chunk_size in *; lia|].
    split; [exact T4|]. split; [discriminate|]. split; [discriminate|]. split; [exact T5|]. split; [exact T7|]. split; [exact Hvd|]. split; [exact T8|]. split; discriminate.
  Qed.

  Theorem session_hops : forall l (st : hst l) rp dg data b8,
    Forall (fun x : hcfg => o_locs (fst x) = None) l -> all_clean l st ->
    vrepo rp = true -> vdigest linked dg = true -> 1 <= blen data <= max_int64 ->
    session_ok bstep (innermost l st) rp dg data b8 ->
    exists st8 : hst l, session_ok (hops l) st rp dg data st8 /\ innermost l st8 = b8 /\ all_clean l st8.
  Proof.
    induction l as [|[o cc] l IH]; intros st rp dg data b8 Hall Hcl Hr Hvd Hlen Hse.
    - exists b8. cbn [hops innermost all_clean] in *. auto.
    - cbn [hops innermost all_clean hst] in *. destruct Hcl as (Hcl & Hcl'). inversion Hall as [|? ? Hl Hall']; subst. cbn [fst] in Hl.
      destruct (IH (sv_b (st_srv st)) rp dg data b8 Hall' Hcl' Hr Hvd Hlen Hse) as (st8' & Hse' & Hin & Hcl8').
      destruct (session_compose (hops l) o cc st rp dg data st8' Hl Hcl Hr Hvd Hlen Hse') as (st8 & Hse8 & Hb8 & Hcl8).
      exists st8. split; [exact Hse8|]. cbn [innermost all_clean]. subst st8'. auto.
  Qed.

  (* PushBlob of a non-empty content through any number of hops: the caller gets its descriptor
     back, the innermost backend has run the one upload session *)
  Theorem n_hops_PushBlob o cc l (st : hst ((o, cc) :: l)) rp d data b8 :
    wf (PushBlob rp d data) -> 1 <= blen data ->
    Forall (fun x : hcfg => o_locs (fst x) = None) ((o, cc) :: l) -> all_clean ((o, cc) :: l) st ->
    session_ok bstep (innermost ((o, cc) :: l) st) rp (d_digest d) data b8 ->
    snd (hops ((o, cc) :: l) st (PushBlob rp d data)) = Ok (VDesc d)
    /\ innermost ((o, cc) :: l) (fst (hops ((o, cc) :: l) st (PushBlob rp d data))) = b8
    /\ all_clean ((o, cc) :: l) (fst (hops ((o, cc) :: l) st (PushBlob rp d data))).
  Proof.
    intros Hwf Hpos Hall (Hcl & Hcl') Hse. pose proof Hwf as (Hr & Hvd & Hsz & Hmax).
    inversion Hall as [|? ? Hl Hall']; subst. cbn [fst] in Hl. cbn [innermost] in Hse.
    destruct (session_hops l (sv_b (st_srv st)) rp (d_digest d) data b8 Hall' Hcl' Hr Hvd (conj Hpos Hmax) Hse)
      as (st8 & (c1 & c2 & c3 & c4 & c5 & c6 & c7 & vw & vid & vcs & rc & vw2 & vn & vd & rc2 &
                 E1 & E2 & Hid & E3 & _ & E4 & Hc1 & Hc2 & E5 & E6 & Hn & E7 & _ & E8 & Hc3 & Hc4) & Hin & Hcl8).
    cbn [hops].
    rewrite (step_PushBlob linked hash subject_of media enc dec_errors dec_names dec_index redirect (hst l) (hops l) o cc Hl
               st rp d data c1 c2 c3 c4 c5 c6 c7 st8 vw vid vcs rc vw2 vn vd rc2 Hwf Hcl Hpos
               E1 E2 Hid E3 E4 Hc1 Hc2 E5 E6 Hn E7 E8 Hc3 Hc4).
    cbn [fst snd innermost all_clean stepped st_srv sv_b]. split; [reflexivity|]. split; [exact Hin|]. split; [reflexivity | exact Hcl8].
  Qed.

  Theorem session0_hops : forall l (st : hst l) rp dg b8,
    Forall (fun x : hcfg => o_locs (fst x) = None) l -> all_clean l st ->
    vrepo rp = true -> vdigest linked dg = true ->
    session0_ok bstep (innermost l st) rp dg b8 ->
    exists st8 : hst l, session0_ok (hops l) st rp dg st8 /\ innermost l st8 = b8 /\ all_clean l st8.
  Proof.
    induction l as [|[o cc] l IH]; intros st rp dg b8 Hall Hcl Hr Hvd Hse.
    - exists b8. cbn [hops innermost all_clean] in *. auto.
    - cbn [hops innermost all_clean hst] in *. destruct Hcl as (Hcl & Hcl'). inversion Hall as [|? ? Hl Hall']; subst. cbn [fst] in Hl.
      destruct (IH (sv_b (st_srv st)) rp dg b8 Hall' Hcl' Hr Hvd Hse) as (st8' & Hse' & Hin & Hcl8').
      destruct (session0_compose (hops l) o cc st rp dg st8' Hl Hcl Hr Hvd Hse') as (st8 & Hse8 & Hb8 & Hcl8).
      exists st8. split; [exact Hse8|]. cbn [innermost all_clean]. subst st8'. auto.
  Qed.

  (* PushBlob of the empty content through any number of hops *)
  Theorem n_hops_PushBlob_empty o cc l (st : hst ((o, cc) :: l)) rp d b8 :
    wf (PushBlob rp d []) ->
    Forall (fun x : hcfg => o_locs (fst x) = None) ((o, cc) :: l) -> all_clean ((o, cc) :: l) st ->
    session0_ok bstep (innermost ((o, cc) :: l) st) rp (d_digest d) b8 ->
    snd (hops ((o, cc) :: l) st (PushBlob rp d [])) = Ok (VDesc d)
    /\ innermost ((o, cc) :: l) (fst (hops ((o, cc) :: l) st (PushBlob rp d []))) = b8
    /\ all_clean ((o, cc) :: l) (fst (hops ((o, cc) :: l) st (PushBlob rp d []))).
  Proof.
    intros Hwf Hall (Hcl & Hcl') Hse. pose proof Hwf as (Hr & Hvd & Hsz & Hmax).
    inversion Hall as [|? ? Hl Hall']; subst. cbn [fst] in Hl. cbn [innermost] in Hse.
    destruct (session0_hops l (sv_b (st_srv st)) rp (d_digest d) b8 Hall' Hcl' Hr Hvd Hse)
      as (st8 & (c1 & c2 & c3 & c4 & c5 & c7 & vw & vid & vcs & rc & vw2 & vd & rc2 &
                 E1 & E2 & Hid & E3 & _ & E4 & Hc1 & Hc2 & E5 & E7 & _ & E8 & Hc3 & Hc4) & Hin & Hcl8).
    cbn [hops].
    rewrite (step_PushBlob_empty linked hash subject_of media enc dec_errors dec_names dec_index redirect (hst l) (hops l) o cc Hl
               st rp d c1 c2 c3 c4 c5 c7 st8 vw vid vcs rc vw2 vd rc2 Hwf Hcl
               E1 E2 Hid E3 E4 Hc1 Hc2 E5 E7 E8 Hc3 Hc4).
    cbn [fst snd innermost all_clean stepped st_srv sv_b]. split; [reflexivity|]. split; [exact Hin|]. split; [reflexivity | exact Hcl8].
  Qed.

End Hops.

Print Assumptions n_hops_one.
Print Assumptions n_hops_conforming.
Print Assumptions session_compose.
Print Assumptions n_hops_PushBlob.
Print Assumptions n_hops_PushBlob_empty.
