(* The statements of C06 in the form Props/C06.v quotes them, derived from
   Proofs/Server.v [handle_conforms], Proofs/Request.v, and witnesses by computation. *)
From Coq Require Import String.
From OCI Require Import Base.Outcome Base.Base64 Model.Ref Model.Errors Model.Request Model.Server
  Model.ServerSpec Model.ServerLegacy Proofs.Ref Proofs.Request Proofs.Server Proofs.ServerObs.

Local Open Scope Z_scope.

Section Thms.
  Variable linked : alg -> bool.
  Variable digest_of : bytes -> bytes.
  Variable subject_of : bytes -> option (option bytes).
  Variable enc : jval -> bytes.
  Variable redirect : bytes -> bytes -> bytes * bytes.
  Variable B : Type.
  Variable bstep : backend B.
  Variable o : opts.

  Notation serve := (handle linked digest_of subject_of enc redirect B bstep o).

  (* the backend's answers in this run follow the Interface conventions *)
  Definition in_scope (tr : list ev) : Prop := wb_trace tr = true /\ wb_locs (o_locs o) tr = true.

  Lemma conforms b req :
    let '(_, tr, r) := serve b req in
    in_scope tr -> exists resp, r = Ok resp /\ spec_ok linked o req tr resp = true.
  Proof.
    pose proof (handle_conforms linked digest_of subject_of enc redirect B bstep o req b) as H.
    destruct (serve b req) as [[b' tr] r]. intros [W1 W2]. now apply H.
  Qed.

  Lemma no_panic b req :
    let '(_, tr, r) := serve b req in
    in_scope tr -> r <> Panic /\ r <> OutOfFuel /\ exists resp, r = Ok resp.
  Proof.
    pose proof (conforms b req) as H. destruct (serve b req) as [[b' tr] r]. intros S.
    destruct (H S) as (resp & -> & _). repeat split; try discriminate. eauto.
  Qed.

  Lemma status_agrees b req :
    let '(_, tr, r) := serve b req in
    in_scope tr -> forall resp, r = Ok resp ->
    match p_json resp with
    | Some (JErr w) =>
        hget H_ctype (p_hdrs resp) = Some (s "application/json") /\ w_code w <> []
        /\ forall st, lookup (w_code w) error_statuses = Some st -> p_status resp = st
    | _ => 200 <= p_status resp < 400
    end.
  Proof.
    pose proof (conforms b req) as H. destruct (serve b req) as [[b' tr] r]. intros S resp ->.
    destruct (H S) as (resp' & E & K). inversion E. subst resp'. clear E.
    unfold spec_ok in K. repeat (apply andb_true_iff in K as [K ?]). unfold status_ok in K.
    destruct (p_json resp) as [[n t|rp|m|w]|];
      try (apply andb_true_iff in K as [K1 K2]; apply Z.leb_le in K1; apply Z.ltb_lt in K2; lia).
    apply andb_true_iff in K as [K K3]. apply andb_true_iff in K as [K1 K2]. repeat split.
    - destruct (hget H_ctype (p_hdrs resp)) as [v|]; [|discriminate]. cbn in K1. apply beqb_eq in K1. now subst.
    - intros E. rewrite E in K2. discriminate.
    - intros st L. rewrite L in K3. now apply Z.eqb_eq.
  Qed.

  Lemma mandated_headers b req :
    let '(_, tr, r) := serve b req in
    in_scope tr -> forall resp, r = Ok resp -> headers_ok o tr resp = true.
  Proof.
    pose proof (conforms b req) as H. destruct (serve b req) as [[b' tr] r]. intros S resp ->.
    destruct (H S) as (resp' & E & K). inversion E. subst resp'.
    unfold spec_ok in K. repeat (apply andb_true_iff in K as [K ?]). assumption.
  Qed.

  Lemma backend_args_valid b req :
    let '(_, tr, r) := serve b req in
    in_scope tr -> Forall (fun e => match e with ECall c _ => op_args_ok linked c = true | _ => True end) tr.
  Proof.
    pose proof (conforms b req) as H. destruct (serve b req) as [[b' tr] r]. intros S.
    destruct (H S) as (resp' & E & K).
    unfold spec_ok in K. repeat (apply andb_true_iff in K as [K ?]).
    match goal with A : args_ok _ _ = true |- _ =>
      unfold args_ok in A; rewrite forallb_forall in A;
      apply Forall_forall; intros e He; specialize (A e He); destruct e; auto end.
  Qed.

  Lemma all_closed b req :
    let '(_, tr, r) := serve b req in
    in_scope tr -> closed_ok tr = true.
  Proof.
    pose proof (conforms b req) as H. destruct (serve b req) as [[b' tr] r]. intros S.
    destruct (H S) as (resp' & E & K).
    unfold spec_ok in K. repeat (apply andb_true_iff in K as [K ?]). assumption.
  Qed.

  Lemma failures_answered b req :
    let '(_, tr, r) := serve b req in
    in_scope tr -> forall resp, r = Ok resp ->
    existsb call_failed tr = true -> exists w, p_json resp = Some (JErr w).
  Proof.
    pose proof (conforms b req) as H. destruct (serve b req) as [[b' tr] r]. intros S resp ->.
    destruct (H S) as (resp' & E & K). inversion E. subst resp'.
    unfold spec_ok in K. repeat (apply andb_true_iff in K as [K ?]).
    match goal with A : errors_answered _ _ = true |- _ => unfold errors_answered, is_failure in A end.
    intros F. rewrite F in *. destruct (p_json resp) as [[| | |w]|]; try discriminate. eauto.
  Qed.

End Thms.

(* ---------------------------------------------------------------- the router *)

Lemma router_total_and_valid linked m p q :
  match parse_req linked m p q with
  | Ok r => request_fields_ok linked r = true
  | Err e => In e parse_errors
  | Panic | OutOfFuel => False
  end.
Proof. exact (parse_req_good linked m p q). Qed.

Lemma parse_errors_status :
  Forall (fun pe =>
            exists wr, serve_error go_sprefix go_cprefix (handler_error_for_request_parse_error pe) = Ok wr
                       /\ In (r_status wr) [400; 404; 405; 500]) parse_errors.
Proof. repeat constructor; eexists; (split; [reflexivity | cbn; tauto]). Qed.

(* ---------------------------------------------------------------- witnesses *)

Definition ex_L : alg -> bool := fun _ => true.
Definition ex_handle (o : opts) (script : list bres) (req : hreq) :=
  handle ex_L (fun _ => []) (fun _ => Some None) (fun _ => s "{}") (fun _ l => (l, []))
         (list bres) script_step o script req.
Definition ex_opts : opts := mkopts false false 0 false false None.
Definition ex_digest : bytes := s "sha256:e3b0c44298fc1c149afbf4c8996fb92427ae41e4649b934ca495991b7852b855".

(* the hypothesis on BlobWriter.ID is needed: with an empty ID the handler panics (MustConstruct) *)
Lemma empty_upload_id_panics :
  exists script req, snd (ex_handle ex_opts script req) = Panic.
Proof.
  exists [Ok (VWriter 1%N); Ok (VStr []); Ok VUnit],
         (mkhreq (s "POST") (s "/v2/foo/blobs/uploads/") [] [] [] [] 0 []).
  vm_compute. reflexivity.
Qed.

(* a backend error whose HTTP status net/http rejects is outside the conventions too *)
Lemma bad_status_panics :
  exists script req, snd (ex_handle ex_opts script req) = Panic.
Proof.
  exists [Err (Http 42 (Some (Plain (s "x"))) false)],
         (mkhreq (s "DELETE") (s "/v2/foo/blobs/" ++ ex_digest) [] [] [] [] 0 []).
  vm_compute. reflexivity.
Qed.

(* the hypotheses are satisfiable by a non-trivial run: a ranged blob GET answered 206 *)
Lemma example_in_scope :
  let script := [Ok (VRead {| d_media := s "application/octet-stream"; d_digest := ex_digest; d_size := 10; d_artifact := [] |}
                            (s "2345"))] in
  let req := mkhreq (s "GET") (s "/v2/foo/blobs/" ++ ex_digest) [] (s "bytes=2-5") [] [] 0 [] in
  let '(_, tr, r) := ex_handle ex_opts script req in
  in_scope ex_opts tr /\ length tr = 2%nat
  /\ exists resp, r = Ok resp /\ p_status resp = 206
                  /\ hget H_crange (p_hdrs resp) = Some (s "bytes 2-5/10")
                  /\ hget H_clen (p_hdrs resp) = Some (s "4") /\ p_body resp = s "2345".
Proof. vm_compute. repeat split. eexists. repeat split. Qed.

(* the specification tells header values apart: after a PATCH whose writer reports 11 bytes and
   the ID "id1", only Range 0-10 and the Location of that ID in that repository are accepted *)
Lemma upload_headers_discriminate :
  let tr := [ECall (PushBlobChunkedResume (s "foo") (s "id1") 0 0) (Ok (VWriter 1%N));
             ECall (WWrite 1%N (s "hello world")) (Ok (VN 11)); ECall (WClose 1%N) (Ok VUnit);
             ECall (WID 1%N) (Ok (VStr (s "id1"))); ECall (WSize 1%N) (Ok (VN 11))] in
  let resp r l := mkresp 202 [(H_location, l); (H_range, r)] [] None in
  headers_ok ex_opts tr (resp (s "0-10") (s "/v2/foo/blobs/uploads/aWQx")) = true
  /\ headers_ok ex_opts tr (resp (s "0-0") (s "/v2/foo/blobs/uploads/aWQx")) = false
  /\ headers_ok ex_opts tr (resp (s "0-11") (s "/v2/foo/blobs/uploads/aWQx")) = false
  /\ headers_ok ex_opts tr (resp (s "0-10") (s "/v2/foo/blobs/uploads/b3RoZXI")) = false
  /\ headers_ok ex_opts tr (resp (s "0-10") (s "/v2/bar/blobs/uploads/aWQx")) = false.
Proof. vm_compute. repeat split. Qed.

(* ... and of a 201: the digest and the place of what the backend said was created *)
Lemma created_headers_discriminate :
  let d := {| d_media := s "application/octet-stream"; d_digest := ex_digest; d_size := 0; d_artifact := [] |} in
  let other := s "sha256:0000000000000000000000000000000000000000000000000000000000000000" in
  let tr := [ECall (PushManifest (s "foo") (s "latest") [] (s "application/octet-stream")) (Ok (VDesc d))] in
  let resp l dg := mkresp 201 [(H_location, l); (H_dcd, dg)] [] None in
  headers_ok ex_opts tr (resp (s "/v2/foo/manifests/" ++ ex_digest) ex_digest) = true
  /\ headers_ok ex_opts tr (resp (s "/v2/foo/manifests/latest") ex_digest) = false
  /\ headers_ok ex_opts tr (resp (s "/v2/foo/blobs/" ++ ex_digest) ex_digest) = false
  /\ headers_ok ex_opts tr (resp (s "/v2/foo/manifests/" ++ ex_digest) other) = false.
Proof. vm_compute. repeat split. Qed.

(* before the repair: the manifest GET handler leaves its reader open *)
Lemma manifest_get_unrepaired_leaks :
  exists (script : list bres) (rreq : request),
    let '(st, r) := handle_manifest_get_unrepaired (list bres) script_step ex_opts (mkst script [] rw0) rreq in
    r = Ok tt /\ wb_trace (rev (h_tr st)) = true /\ closed_ok (rev (h_tr st)) = false.
Proof.
  exists [Ok (VRead zero_desc [])], (mkreq ReqManifestGet (s "foo") [] (s "latest") [] [] 0 []).
  vm_compute. repeat split.
Qed.
