(* Proofs about Model/AuthExec.v: how ExecHelperWithEnv classifies what happens to the helper
   program (found / not found / other error) and what that means for the precedence clause of
   EntryForRegistry when the runner is the real one. *)
From Coq Require Import String.
From OCI Require Import Model.AuthExec Proofs.AuthFile.

(* ---------- LookPath ---------- *)

Definition programs_named (path : list dir_t) (file : bytes) : list pfile :=
  filter is_program
    (flat_map (fun d : dir_t => match map_get file d with Some f => [f] | None => [] end) path).

Lemma look_path_first path file : look_path path file = hd_error (programs_named path file).
Proof.
  unfold programs_named. induction path as [|d rest IH]; cbn; [reflexivity|].
  destruct (map_get file d) as [f|]; cbn; [|exact IH].
  destruct (is_program f); cbn; [reflexivity | exact IH].
Qed.

Lemma look_path_program path file f : look_path path file = Some f -> is_program f = true.
Proof.
  induction path as [|d rest IH]; cbn; [discriminate|].
  destruct (map_get file d) as [g|]; [|exact IH].
  destruct (is_program g) eqn:E; [|exact IH]. intros H. injection H as <-. exact E.
Qed.

(* nothing is found exactly when no directory of PATH holds a program under that name *)
Lemma look_path_none_iff path file :
  look_path path file = None <->
  forall d f, In d path -> map_get file d = Some f -> is_program f = false.
Proof.
  induction path as [|d rest IH]; cbn.
  - split; [intros _ d f [] | reflexivity].
  - destruct (map_get file d) as [g|] eqn:Eg.
    + destruct (is_program g) eqn:Ep.
      * split; [discriminate|]. intros H. specialize (H d g (or_introl eq_refl) Eg). congruence.
      * rewrite IH. split.
        -- intros H d' f [<-|Hin] Hf; [congruence | eauto].
        -- intros H d' f Hin. apply H. now right.
    + rewrite IH. split.
      * intros H d' f [<-|Hin] Hf; [congruence | eauto].
      * intros H d' f Hin. apply H. now right.
Qed.

(* an earlier directory that holds no program under the name does not matter *)
Lemma look_path_skip d rest file :
  (forall f, map_get file d = Some f -> is_program f = false) ->
  look_path (d :: rest) file = look_path rest file.
Proof.
  intros H. cbn. destruct (map_get file d) as [f|]; [|reflexivity]. now rewrite (H f eq_refl).
Qed.

(* ---------- the classification of cmd.Run outcomes ---------- *)

Section Exec.
  Variable unjson : bytes -> option (bytes * bytes).
  Variable path : list dir_t.

  Definition real_runner : runner_t := exec_helper unjson (cmd_run path).

  Lemma exec_unstartable helper host :
    look_path path (helper_prefix ++ helper) = Some FBroken ->
    real_runner helper host = (zero_entry, HOther).
  Proof. intros H. unfold real_runner, exec_helper, cmd_run. now rewrite H. Qed.

  Lemma exec_no_program helper host :
    look_path path (helper_prefix ++ helper) = None ->
    real_runner helper host = (zero_entry, HMissing).
  Proof. intros H. unfold real_runner, exec_helper, cmd_run. now rewrite H. Qed.

  (* what a program that starts makes the runner return *)
  Definition answer_result (e : pend) : config_entry * herr :=
    if pe_exit0 e then
      match unjson (pe_out e) with
      | None => (zero_entry, HOther)
      | Some (user, secret) =>
          if beqb user token_user
          then ({| ce_refresh := secret; ce_access := []; ce_user := []; ce_pass := [] |}, HNil)
          else ({| ce_refresh := []; ce_access := []; ce_user := user; ce_pass := secret |}, HNil)
      end
    else if beqb (trim_space (pe_out e)) not_found_msg then (zero_entry, HNil)
    else (zero_entry, HOther).

  Lemma exec_program helper host ans dflt :
    look_path path (helper_prefix ++ helper) = Some (FProg ans dflt) ->
    real_runner helper host = answer_result (answer_for ans dflt host).
  Proof.
    intros H. unfold real_runner, exec_helper, cmd_run, answer_result. rewrite H.
    destruct (pe_exit0 _); reflexivity.
  Qed.

  Lemma answer_result_not_missing e : snd (answer_result e) <> HMissing.
  Proof.
    unfold answer_result. destruct (pe_exit0 e).
    - destruct (unjson _) as [[u p]|]; [destruct (beqb u token_user)|]; discriminate.
    - destruct (beqb _ _); discriminate.
  Qed.

  Lemma exec_missing_iff helper host :
    snd (real_runner helper host) = HMissing <-> look_path path (helper_prefix ++ helper) = None.
  Proof.
    destruct (look_path path (helper_prefix ++ helper)) as [f|] eqn:E.
    - split; [|discriminate]. intros H. exfalso. destruct f.
      1-4: unfold real_runner, exec_helper, cmd_run in H; rewrite E in H; discriminate.
      rewrite (exec_program _ host _ _ E) in H. now apply answer_result_not_missing in H.
    - split; [reflexivity|]. intros _. unfold real_runner, exec_helper, cmd_run. now rewrite E.
  Qed.

  (* an error never comes with credentials *)
  Lemma exec_error_zero_entry helper host :
    snd (real_runner helper host) <> HNil -> fst (real_runner helper host) = zero_entry.
  Proof.
    unfold real_runner, exec_helper. destruct (cmd_run path _ host) as [| |[|] out]; try reflexivity.
    - destruct (unjson out) as [[u p]|]; [|reflexivity].
      destruct (beqb u token_user); cbn; congruence.
    - destruct (beqb _ _); reflexivity.
  Qed.

  (* ---------- the precedence clause with the real runner ---------- *)

  (* default store without a program on PATH: the auths table answers *)
  Lemma exec_store_absent_falls_back c h :
    map_get h (cd_helpers c) = None -> cd_store c <> [] ->
    look_path path (helper_prefix ++ cd_store c) = None ->
    entry_for_registry c real_runner h = table_lookup c h.
  Proof.
    intros Hh Hs Hl. apply (proj1 (precedence_store_missing c real_runner h Hh Hs (proj2 (exec_missing_iff _ h) Hl))).
  Qed.

  (* default store with a program on PATH - whether or not it can be started, whatever it
     answers: the store's answer, never the table *)
  Lemma exec_store_present_wins c h f :
    map_get h (cd_helpers c) = None -> cd_store c <> [] ->
    look_path path (helper_prefix ++ cd_store c) = Some f ->
    entry_for_registry c real_runner h = helper_answer (real_runner (cd_store c) h).
  Proof.
    intros Hh Hs Hl. apply (proj1 (precedence_store c real_runner h Hh Hs ltac:(intros Hm; apply exec_missing_iff in Hm; congruence))).
  Qed.

  Lemma exec_store_unstartable_is_error c h :
    map_get h (cd_helpers c) = None -> cd_store c <> [] ->
    look_path path (helper_prefix ++ cd_store c) = Some FBroken ->
    entry_for_registry c real_runner h = (zero_entry, Some (LEHelper HOther)).
  Proof.
    intros Hh Hs Hl. rewrite (exec_store_present_wins c h FBroken Hh Hs Hl).
    now rewrite (exec_unstartable _ h Hl).
  Qed.
End Exec.
