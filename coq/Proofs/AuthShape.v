(* Proofs about Model/Auth.v, part 2: what acquireAccessToken does to the history and to the
   registry (the model is unfolded here once; later parts reason from these shapes). *)
From Coq Require Import String ZArith Lia.
From OCI Require Import Base.Outcome Model.Scope Model.Challenge Model.Auth Model.AuthSpec
  Proofs.Challenge Proofs.AuthBase.

Local Open Scope Z_scope.

(* the fields of a registry that acquireAccessToken never changes *)
Definition static_eq (r r' : registry) : Prop :=
  r_inited r' = r_inited r /\ r_initerr r' = r_initerr r /\ r_www r' = r_www r /\ r_basic r' = r_basic r.

Lemma static_eq_refl r : static_eq r r.
Proof. now repeat split. Qed.

Lemma static_eq_trans a b c : static_eq a b -> static_eq b c -> static_eq a c.
Proof. unfold static_eq. intuition congruence. Qed.

Section Shape.
  Variable E : env.

  Lemma tok_result_ok rsp w : tok_result rsp = Ok w -> exists www, rsp = RHttp 200 www (TBJSON w).
  Proof.
    unfold tok_result. destruct rsp as [|st www b]; [discriminate|].
    destruct (st =? 200)%N eqn:Es; cbn [negb]; [|discriminate].
    apply N.eqb_eq in Es. subst. destruct b; try discriminate. intros [= ->]. eauto.
  Qed.

  Lemma tok_result_http rsp st : tok_result rsp = Err (THttp st) -> exists www b, rsp = RHttp st www b /\ st <> 200%N.
  Proof.
    unfold tok_result. destruct rsp as [|st' www b]; [discriminate|].
    destruct (st' =? 200)%N eqn:Es; cbn [negb].
    - destruct b; discriminate.
    - intros [= ->]. apply N.eqb_neq in Es. eauto.
  Qed.

  Lemma tok_result_cases rsp : (exists w, tok_result rsp = Ok w) \/ (exists e, tok_result rsp = Err e).
  Proof.
    unfold tok_result. destruct rsp as [|st www b]; [eauto|].
    destruct (negb (st =? 200)%N); [eauto|]. destruct b; eauto.
  Qed.

  (* ---------- the text of a token request ---------- *)

  Lemma vget_vset_same k vs v : vget k (vset k vs v) = vs.
  Proof.
    induction v as [|[k' vs'] v IH]; cbn.
    - now rewrite beqb_refl.
    - destruct (bcmp k k') eqn:Ec; cbn.
      + now rewrite beqb_refl.
      + now rewrite beqb_refl.
      + assert (beqb k k' = false) as ->; [|exact IH].
        apply beqb_neq. intros ->. now rewrite bcmp_refl in Ec.
  Qed.

  Lemma vget_vset_other k k' vs v : beqb k k' = false -> vget k (vset k' vs v) = vget k v.
  Proof.
    intros Hk. induction v as [|[k2 vs2] v IH]; cbn.
    - now rewrite Hk.
    - destruct (bcmp k' k2) eqn:Ec; cbn.
      + apply bcmp_eq in Ec. subst. now rewrite Hk.
      + now rewrite Hk.
      + now rewrite IH.
  Qed.

  Lemma join_split a : join_space (split_byte space a) = a.
  Proof.
    induction a as [|c a IH]; [reflexivity|]. cbn [split_byte].
    destruct (c =? space)%N eqn:Ec.
    - apply N.eqb_eq in Ec. subst. cbn [join_space].
      destruct (split_byte space a) as [|x l] eqn:Es.
      + destruct a; cbn in Es; [discriminate|]. destruct (_ =? _)%N in Es; [discriminate|].
        destruct (split_byte space a); discriminate.
      + cbn [app]. now rewrite IH.
    - destruct (split_byte space a) as [|x l] eqn:Es.
      + destruct a; cbn in Es; [discriminate|]. destruct (_ =? _)%N in Es; [discriminate|].
        destruct (split_byte space a); discriminate.
      + cbn [join_space] in *. destruct l; cbn [app]; now rewrite <- IH.
  Qed.

  Lemma scope_text_post rf www txt : scope_text (MPost (realm_of www) (post_form rf www txt) ANone) = txt.
  Proof. reflexivity. Qed.

  Lemma scope_text_get www txt q base bs : scope_text (MGet base (get_query www txt q) bs) = txt.
  Proof.
    unfold scope_text, get_query. destruct (nonempty (service_of www)).
    - rewrite vget_vset_other by reflexivity. rewrite vget_vset_same. apply join_split.
    - rewrite vget_vset_same. apply join_split.
  Qed.

  Definition tokmsg_for (rf : bytes) (bs : authz) (www : auth_header) (txt : bytes) (m : msg) : Prop :=
    is_post_for E rf www txt m \/ is_get_for E bs www txt m.

  Lemma tokmsg_facts rf bs www txt m : tokmsg_for rf bs www txt m -> is_tok_msg m = true /\ scope_text m = txt.
  Proof.
    intros [[_ [_ ->]]|[base [q [_ ->]]]].
    - split; [reflexivity | apply scope_text_post].
    - split; [reflexivity | apply scope_text_get].
  Qed.

  (* every event of a token exchange is a token message of the call, of the expected form *)
  Definition tok_events (id : nat) (rf : bytes) (bs : authz) (www : auth_header) (txt : bytes) (new : hist) : Prop :=
    Forall (fun e => exists m rsp, e = ESend id m rsp /\ tokmsg_for rf bs www txt m) new.

  Lemma tok_seq_events id rf bs www txt new res :
    tok_seq E id rf bs www txt new res -> tok_events id rf bs www txt new.
  Proof.
    intros [[-> _]|[[m [rsp [-> [Hm _]]]]|[mp [wwwp [bp [mg [rg [-> [Hp [Hg _]]]]]]]]]].
    - constructor.
    - constructor; [|constructor]. eexists _, _. split; [reflexivity | exact Hm].
    - constructor; [|constructor; [|constructor]].
      + eexists _, _. split; [reflexivity | now right].
      + eexists _, _. split; [reflexivity | now left].
  Qed.

  (* a successful exchange ends with the issuing response *)
  Lemma tok_seq_ok id rf bs www txt new w :
    tok_seq E id rf bs www txt new (Ok w) ->
    exists m www' rest, new = ESend id m (RHttp 200 www' (TBJSON w)) :: rest /\ tokmsg_for rf bs www txt m.
  Proof.
    intros [[_ H]|[[m [rsp [-> [Hm Hr]]]]|[mp [wwwp [bp [mg [rg [-> [Hp [Hg Hr]]]]]]]]]]; [discriminate| |].
    - symmetry in Hr. apply tok_result_ok in Hr as [www' ->]. eexists _, _, _. split; [reflexivity | exact Hm].
    - symmetry in Hr. apply tok_result_ok in Hr as [www' ->]. eexists _, _, _. split; [reflexivity | now right].
  Qed.

  (* a 401 is the answer to the last message; no earlier message of the exchange was answered 401 *)
  Definition is_401 (e : event) : bool :=
    match e with ESend _ m (RHttp st _ _) => is_tok_msg m && (st =? 401)%N | _ => false end.

  Lemma tok_seq_401 id rf bs www txt new res :
    tok_seq E id rf bs www txt new res ->
    match new with
    | [] => res = Err TPlain
    | e :: rest => existsb is_401 rest = false /\ (is_401 e = true <-> res = Err (THttp 401))
    end.
  Proof.
    assert (forall m rsp, is_tok_msg m = true -> is_401 (ESend id m rsp) = true <-> tok_result rsp = Err (THttp 401)) as H1.
    { intros m rsp Hm. unfold is_401, tok_result. rewrite Hm. destruct rsp as [|st www0 b]; cbn [andb].
      - split; discriminate.
      - destruct (st =? 401)%N eqn:E4.
        + apply N.eqb_eq in E4. subst. cbn. split; reflexivity.
        + split; [discriminate|]. destruct (negb (st =? 200)%N).
          * intros [= ->]. discriminate.
          * destruct b; discriminate. }
    intros [[-> ->]|[[m [rsp [-> [Hm ->]]]]|[mp [wwwp [bp [mg [rg [-> [Hp [Hg ->]]]]]]]]]].
    - reflexivity.
    - split; [reflexivity|]. apply H1. exact (proj1 (tokmsg_facts _ _ _ _ _ Hm)).
    - split.
      + cbn. destruct Hp as [_ [_ ->]]. reflexivity.
      + apply H1. exact (proj1 (tokmsg_facts rf bs www txt _ (or_intror Hg))).
  Qed.

  (* ---------- acquireAccessToken ---------- *)

  Definition tok_block (id : nat) (rf : bytes) (bs : authz) (www : auth_header) (A B : scope)
      (new : hist) (sc2 : scope) (res2 : R terr wire_token) : Prop :=
    exists n1 res1, tok_seq E id rf bs www (String (Union A B)) n1 res1 /\
      ((res1 <> Err (THttp 401) /\ new = n1 /\ res2 = res1 /\ sc2 = Union A B)
       \/ (res1 = Err (THttp 401) /\ exists n2, tok_seq E id rf bs www (String A) n2 res2 /\ new = n2 ++ n1 /\ sc2 = A)).

  Definition aat_final (r : registry) (sc2 : scope) (res2 : R terr wire_token) (h' : hist)
      (res : R terr bytes) (r' : registry) : Prop :=
    match res2 with
    | Ok w =>
        r_refresh r' = (if nonempty (wt_refresh w) then wt_refresh w else r_refresh r)
        /\ if is_nil (tok_of w) then res = Err TPlain /\ r_tokens r' = r_tokens r
           else res = Ok (tok_of w)
                /\ r_tokens r' = r_tokens r ++ [{| st_scope := sc2; st_token := tok_of w; st_expires := e_clock E h' + life w |}]
    | Err e => res = Err e /\ r_refresh r' = r_refresh r /\ r_tokens r' = r_tokens r
    | _ => False
    end.

  Lemma tok_seq_res id rf bs www txt new res : tok_seq E id rf bs www txt new res -> res <> Panic /\ res <> OutOfFuel.
  Proof.
    intros [[_ ->]|[[m [rsp [_ [_ ->]]]]|[mp [wwwp [bp [mg [rg [_ [_ [_ ->]]]]]]]]]]; try (split; discriminate);
      match goal with |- tok_result ?r <> _ /\ _ => destruct (tok_result_cases r) as [[w ->]|[e ->]] end; split; discriminate.
  Qed.

  Lemma aat_shape id r www A B h res r' h' :
    r_www r = Some www ->
    acquire_access_token E id r A B h = (res, r', h') ->
    exists new sc2 res2,
      tok_block id (r_refresh r) (basic_of r) www A B new sc2 res2
      /\ h' = new ++ h
      /\ aat_final r sc2 res2 h' res r'
      /\ static_eq r r' /\ incl (r_asked r) (r_asked r') /\ In sc2 (r_asked r') /\ In (Union A B) (r_asked r').
  Proof.
    intros Hw. unfold acquire_access_token.
    set (sc := Union A B). set (ra := ask r sc).
    destruct (acquire_token E id ra sc h) as [res1 h1] eqn:E1.
    apply acquire_token_shape with (www := www) in E1 as [n1 [-> Hs1]]; [|exact Hw].
    change (r_refresh ra) with (r_refresh r) in Hs1. change (basic_of ra) with (basic_of r) in Hs1.
    (* the tail: storing the token *)
    assert (forall rx sc2 res2 hx,
      r_refresh rx = r_refresh r -> r_tokens rx = r_tokens r -> static_eq r rx ->
      incl (r_asked r) (r_asked rx) -> In sc2 (r_asked rx) -> In sc (r_asked rx) -> res2 <> Panic -> res2 <> OutOfFuel ->
      match res2 with
      | Ok tok =>
          let r1 := if nonempty (wt_refresh tok) then set_refresh rx (wt_refresh tok) else rx in
          let accessToken := if nonempty (wt_token tok) then wt_token tok else wt_access tok in
          if is_nil accessToken then (Err TPlain, r1, hx)
          else let t := now E hx in
               let expires := if wt_expires tok =? 0 then t + 60 * second else t + wt_expires tok * second in
               (Ok accessToken, add_token r1 {| st_scope := sc2; st_token := accessToken; st_expires := expires |}, hx)
      | Err e => (Err e, rx, hx)
      | Panic => (Panic, rx, hx)
      | OutOfFuel => (OutOfFuel, rx, hx)
      end = (res, r', h') ->
      h' = hx /\ aat_final r sc2 res2 hx res r' /\ static_eq r r' /\ incl (r_asked r) (r_asked r') /\ In sc2 (r_asked r')
      /\ In sc (r_asked r')) as Htail.
    { intros rx sc2 res2 hx Hrf Htk Hst Hinc Hin HinU Hnp Hnf.
      destruct res2 as [tok|e| |]; [| |congruence|congruence].
      - cbn zeta. fold (tok_of tok).
        set (r1 := if nonempty (wt_refresh tok) then set_refresh rx (wt_refresh tok) else rx).
        assert (r_refresh r1 = (if nonempty (wt_refresh tok) then wt_refresh tok else r_refresh r)
                /\ r_tokens r1 = r_tokens r /\ static_eq r r1 /\ r_asked r1 = r_asked rx) as [Hr1 [Ht1 [Hs1' Ha1]]].
        { unfold r1. destruct (nonempty (wt_refresh tok)); cbn; repeat split; try apply Hst; auto. }
        destruct (is_nil (tok_of tok)) eqn:En.
        + intros [= <- <- <-]. split; [reflexivity|]. unfold aat_final. rewrite En.
          repeat split; auto; try apply Hs1'; rewrite ?Ha1; auto.
        + intros [= <- <- <-]. split; [reflexivity|]. unfold aat_final. rewrite En.
          cbn [r_refresh r_tokens add_token r_asked r_inited r_initerr r_www r_basic].
          split; [split; [exact Hr1|]|].
          * split; [reflexivity|]. rewrite Ht1. unfold now, life.
            destruct (wt_expires tok =? 0); reflexivity.
          * split; [repeat split; apply Hs1'|]. rewrite Ha1. now repeat split.
      - intros [= <- <- <-]. split; [reflexivity|]. split; [unfold aat_final; now repeat split|].
        split; [exact Hst|]. now repeat split. }
    destruct (tok_seq_res _ _ _ _ _ _ _ Hs1) as [Hnp1 Hnf1].
    assert (static_eq r ra /\ incl (r_asked r) (r_asked ra) /\ In sc (r_asked ra)) as [Hsa [Hia Hina]].
    { unfold ra. cbn. split; [now repeat split|]. split; [intros x Hx; now right | now left]. }
    assert (forall e, res1 = Err e -> (forall st, e = THttp st -> st <> 401%N) ->
            match res1 with
            | Err (THttp st) => if (st =? 401)%N then
                  let r0 := ask ra A in let (res', h'0) := acquire_token E id r0 A (n1 ++ h) in (res', A, r0, h'0)
                else (res1, sc, ra, n1 ++ h)
            | _ => (res1, sc, ra, n1 ++ h)
            end = (res1, sc, ra, n1 ++ h)) as Hno401.
    { intros e -> Hne. destruct e as [|st]; [reflexivity|]. destruct (st =? 401)%N eqn:E4; [|reflexivity].
      apply N.eqb_eq in E4. exfalso. now apply (Hne st). }
    destruct res1 as [w|e| |] eqn:Eres1; [| |congruence|congruence].
    - (* first exchange succeeded *)
      intros Hfin. apply (Htail ra sc (Ok w)) in Hfin; auto; try discriminate.
      destruct Hfin as [-> [Hf [Hs [Hi [Hin HinU']]]]].
      exists n1, sc, (Ok w). split; [|now repeat (split; [assumption || reflexivity|])].
      exists n1, (Ok w). split; [exact Hs1|]. left. split; [discriminate|]. now repeat split.
    - destruct e as [|st].
      + intros Hfin. apply (Htail ra sc (Err TPlain)) in Hfin; auto; try discriminate.
        destruct Hfin as [-> [Hf [Hs [Hi [Hin HinU']]]]].
        exists n1, sc, (Err TPlain). split; [|now repeat (split; [assumption || reflexivity|])].
        exists n1, (Err TPlain). split; [exact Hs1|]. left. split; [discriminate|]. now repeat split.
      + destruct (st =? 401)%N eqn:E4.
        * apply N.eqb_eq in E4. subst st.
          set (rb := ask ra A).
          destruct (acquire_token E id rb A (n1 ++ h)) as [res2 h2] eqn:E2.
          apply acquire_token_shape with (www := www) in E2 as [n2 [-> Hs2]]; [|exact Hw].
          change (r_refresh rb) with (r_refresh r) in Hs2. change (basic_of rb) with (basic_of r) in Hs2.
          destruct (tok_seq_res _ _ _ _ _ _ _ Hs2) as [Hnp2 Hnf2].
          intros Hfin. apply (Htail rb A res2) in Hfin;
            [ | reflexivity | reflexivity | unfold rb; cbn; repeat split; apply Hsa
              | unfold rb; cbn; intros x Hx; right; now apply Hia | unfold rb; cbn; now left
              | unfold rb; cbn; right; exact Hina | assumption | assumption ].
          destruct Hfin as [-> [Hf [Hs [Hi [Hin HinU']]]]].
          exists (n2 ++ n1), A, res2. split; [|split; [apply app_assoc|]; now repeat (split; [assumption|])].
          exists n1, (Err (THttp 401)). split; [exact Hs1|]. right. split; [reflexivity|].
          exists n2. now repeat split.
        * intros Hfin. apply (Htail ra sc (Err (THttp st))) in Hfin; auto; try discriminate.
          destruct Hfin as [-> [Hf [Hs [Hi [Hin HinU']]]]].
          exists n1, sc, (Err (THttp st)). split; [|now repeat (split; [assumption || reflexivity|])].
          exists n1, (Err (THttp st)). split; [exact Hs1|]. left. split; [|now repeat split].
          intros [= ->]. discriminate.
  Qed.

  (* ---------- setAuthorization, setAuthorizationFromChallenge ---------- *)

  Definition lift_tok (resa : R terr bytes) : R terr authz :=
    match resa with
    | Ok t => Ok (ABearer t)
    | Err _ => Err TPlain
    | Panic => Panic
    | OutOfFuel => OutOfFuel
    end.

  Definition is_bearer (www : auth_header) : bool := beqb (ah_scheme www) sch_bearer.

  Lemma sa_shape id r hdr R W h0 res r1 h' :
    set_authorization E id r hdr R W h0 = (res, r1, h') ->
    let r0 := delete_expired r (e_clock E h0 + second) in
    (exists tok, access_token_for_scope r0 R = Some tok /\ res = Ok (ABearer (st_token tok)) /\ r1 = r0 /\ h' = h0)
    \/ (access_token_for_scope r0 R = None /\ res = Ok hdr /\ r1 = r0 /\ h' = h0)
    \/ (access_token_for_scope r0 R = None /\ exists www u p,
          r_www r0 = Some www /\ is_bearer www = false /\ r_basic r0 = Some (u, p)
          /\ res = Ok (ABasic u p) /\ r1 = r0 /\ h' = h0)
    \/ (access_token_for_scope r0 R = None /\ exists www toks sc2 res2 resa,
          r_www r0 = Some www /\ is_bearer www = true /\ nonempty (r_refresh r0) = true
          /\ tok_block id (r_refresh r0) (basic_of r0) www R W toks sc2 res2
          /\ h' = toks ++ h0 /\ aat_final r0 sc2 res2 h' resa r1
          /\ static_eq r0 r1 /\ incl (r_asked r0) (r_asked r1) /\ In sc2 (r_asked r1)
          /\ In (Union R W) (r_asked r1)
          /\ res = lift_tok resa).
  Proof.
    unfold set_authorization, now. cbn zeta.
    set (r0 := delete_expired r (e_clock E h0 + second)).
    destruct (access_token_for_scope r0 R) as [tok|] eqn:Ea.
    { intros [= <- <- <-]. left. now exists tok. }
    destruct (r_www r0) as [www|] eqn:Ew.
    2:{ intros [= <- <- <-]. right. left. now repeat split. }
    fold (is_bearer www). destruct (nonempty (r_refresh r0) && is_bearer www) eqn:Erb.
    - apply andb_true_iff in Erb as [Erf Eb].
      destruct (acquire_access_token E id r0 R W h0) as [[resa ra] ha] eqn:Eaat.
      apply aat_shape with (www := www) in Eaat as [toks [sc2 [res2 [Hb [-> [Hf [Hs [Hi [Hin HinU]]]]]]]]]; [|exact Ew].
      intros Hres. right. right. right. split; [reflexivity|].
      exists www, toks, sc2, res2, resa.
      assert (res = lift_tok resa /\ r1 = ra /\ h' = toks ++ h0) as [-> [-> ->]].
      { destruct resa; injection Hres as <- <- <-; now repeat split. }
      repeat (split; [first [assumption | reflexivity]|]); reflexivity.
    - destruct (negb (is_bearer www)) eqn:Enb.
      + destruct (r_basic r0) as [[u p]|] eqn:Ebs.
        * intros [= <- <- <-]. right. right. left. split; [reflexivity|]. exists www, u, p.
          apply negb_true_iff in Enb. now repeat split.
        * intros [= <- <- <-]. right. left. now repeat split.
      + intros [= <- <- <-]. right. left. now repeat split.
  Qed.

  Lemma sac_shape id r hdr ch R W h res r1 h' :
    set_authorization_from_challenge E id r hdr ch R W h = (res, r1, h') ->
    let r0 := set_www r ch in
    (is_bearer ch = true /\ exists toks sc2 res2 resa,
        tok_block id (r_refresh r0) (basic_of r0) ch (ParseScope (pget k_scope (ah_params ch))) (Union W R) toks sc2 res2
        /\ h' = toks ++ h /\ aat_final r0 sc2 res2 h' resa r1
        /\ static_eq r0 r1 /\ incl (r_asked r0) (r_asked r1) /\ In sc2 (r_asked r1)
        /\ In (Union (ParseScope (pget k_scope (ah_params ch))) (Union W R)) (r_asked r1)
        /\ res = match resa with
                 | Ok t => Ok (ABearer t, true, true)
                 | Err e => Err e
                 | Panic => Panic
                 | OutOfFuel => OutOfFuel
                 end)
    \/ (is_bearer ch = false /\ exists u p, r_basic r = Some (u, p) /\ res = Ok (ABasic u p, true, false) /\ r1 = r0 /\ h' = h)
    \/ (is_bearer ch = false /\ r_basic r = None /\ res = Ok (hdr, false, false) /\ r1 = r0 /\ h' = h).
  Proof.
    unfold set_authorization_from_challenge. fold (is_bearer ch). cbn zeta.
    set (r0 := set_www r ch). destruct (is_bearer ch) eqn:Eb.
    - destruct (acquire_access_token E id r0 _ _ h) as [[resa ra] ha] eqn:Eaat.
      apply aat_shape with (www := ch) in Eaat as [toks [sc2 [res2 [Hb [-> [Hf [Hs [Hi [Hin HinU]]]]]]]]]; [|reflexivity].
      intros Hres. left. split; [reflexivity|]. exists toks, sc2, res2, resa.
      assert (res = match resa with Ok t => Ok (ABearer t, true, true) | Err e => Err e | Panic => Panic | OutOfFuel => OutOfFuel end
              /\ r1 = ra /\ h' = toks ++ h) as [-> [-> ->]].
      { destruct resa; injection Hres as <- <- <-; now repeat split. }
      repeat (split; [first [assumption | reflexivity]|]); reflexivity.
    - change (r_basic r0) with (r_basic r). destruct (r_basic r) as [[u p]|].
      + intros [= <- <- <-]. right. left. split; [reflexivity|]. now exists u, p.
      + intros [= <- <- <-]. right. right. now repeat split.
  Qed.
End Shape.
