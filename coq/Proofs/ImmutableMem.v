(* The wrappers of Model/Immutable.v over the in-memory registry of Model/Mem.v (any
   configuration): Mem meets what the generic theorems of Proofs/Immutable.v ask of a
   backend, so they hold for ReadOnly(mem) and Immutable(mem); in addition nothing that is
   stored is removed or changes its bytes through Immutable(mem). *)
From Coq Require Import String Lia.
From OCI Require Import Model.Mem Model.Immutable Proofs.MemBasics Proofs.MemInv
  Proofs.MemImmutable Proofs.Immutable.

Lemma is_delete_op_is_delete o : is_delete_op o = is_delete o.
Proof. destruct o; reflexivity. Qed.
Lemma is_read_op_mem_read o : is_read_op o = mem_read o.
Proof. destruct o; reflexivity. Qed.

Section Inst.
  Variable hash : bytes -> bytes.
  Variable valid_digest : bytes -> bool.
  Variable valid_repo : bytes -> bool.
  Variable valid_tag : bytes -> bool.
  Variable decode_image : bytes -> option image_manifest.
  Variable decode_index : bytes -> option index_manifest.
  Variable cfg : config.

  Local Notation mstep := (step hash valid_digest valid_repo valid_tag decode_image decode_index cfg).
  Local Notation Inv := (Inv hash decode_image decode_index).
  Local Notation istep := (imm_step mstep hash).

  (* ---- ReadOnly(mem) ---- *)

  Lemma mem_reads_pure st o : is_read_op o = true -> fst (mstep st o) = st.
  Proof. rewrite is_read_op_mem_read. apply read_pure. Qed.

  (* no history through ReadOnly changes the in-memory registry *)
  Theorem readonly_mem_unchanged h st : fst (trun (ro_step mstep) st h) = st.
  Proof. apply ro_no_change. exact mem_reads_pure. Qed.

  Lemma readonly_mem_step_state st o : fst (forget (ro_step mstep) st o) = st.
  Proof.
    rewrite ro_forget_spec. destruct (is_read_op o) eqn:E; [|reflexivity]. now apply mem_reads_pure.
  Qed.

  (* ---- Immutable(mem): the tag table ---- *)

  Definition tagv (st : state) (r t : bytes) : option bytes := option_map d_digest (itag st r t).

  Lemma mem_resolve_answers st r t :
    match tagv st r t with
    | Some d => exists de, snd (mstep st (ResolveTag r t)) = Ok (RDesc de) /\ d_digest de = d
    | None => exists e, snd (mstep st (ResolveTag r t)) = Err e
    end.
  Proof.
    unfold tagv. rewrite resolve_tag_res. destruct (itag st r t) as [de|]; cbn; eauto.
  Qed.

  Lemma mem_frame st o r t :
    is_delete_op o = false -> touches o r t = false -> tagv (fst (mstep st o)) r t = tagv st r t.
  Proof.
    intros Hd Ht. unfold tagv. f_equal. apply step_tag_frame.
    - now rewrite <- is_delete_op_is_delete.
    - destruct o; try (left; intros; discriminate).
      destruct t0 as [|n t0]; [destruct t; [now right | left; intros c m H; discriminate H]|].
      left. intros c m H. injection H as H1 H2 _ _. subst r0 t. cbn [touches] in Ht.
      rewrite !beqb_refl in Ht. discriminate Ht.
  Qed.

  (* a binding, once there, survives every call through the wrapper *)
  Theorem imm_mem_binding_kept st o r t d :
    tagv st r t = Some d -> tagv (fst (fst (istep st o))) r t = Some d.
  Proof. apply (imm_binding_kept mstep hash tagv mem_resolve_answers mem_frame). Qed.

  Theorem imm_mem_push_binds st r t c m de :
    t <> [] -> snd (fst (istep st (PushManifest r t c m))) = Ok (RDesc de) ->
    d_digest de = hash c /\ tagv (fst (fst (istep st (PushManifest r t c m)))) r t = Some (hash c).
  Proof. apply (imm_push_binds mstep hash tagv mem_resolve_answers mem_frame). Qed.

  (* ---- Immutable(mem): nothing stored is removed ---- *)

  Lemma trace_inv tr : forall st, Inv st -> Inv (final mstep st tr).
  Proof. apply (invariant_final mstep Inv). intros; now apply inv_step. Qed.

  Theorem imm_mem_inv st o : Inv st -> Inv (fst (fst (istep st o))).
  Proof. intros HI. rewrite imm_state_replay. now apply trace_inv. Qed.

  Hypothesis hash_inj : forall a b, hash a = hash b -> a = b.

  Lemma trace_grows tr : forall st r,
    Inv st -> (forall c, In c tr -> is_delete c = false) ->
    grows (repo_of st r) (repo_of (final mstep st tr) r).
  Proof.
    induction tr as [|c tr IH]; intros st r HI Hnd; [apply grows_refl|].
    rewrite final_cons. eapply grows_trans.
    - apply step_grows; [exact hash_inj | exact HI | apply Hnd; now left].
    - apply IH; [now apply inv_step | intros c' Hc'; apply Hnd; now right].
  Qed.

  Theorem imm_mem_grows st o r :
    Inv st -> grows (repo_of st r) (repo_of (fst (fst (istep st o))) r).
  Proof.
    intros HI. rewrite imm_state_replay. apply trace_grows; [exact HI|].
    intros c Hc. rewrite <- is_delete_op_is_delete. eapply imm_step_no_delete; eauto.
  Qed.

  (* over every history through Immutable(mem): every blob and manifest that was stored is
     still stored with the same bytes *)
  Theorem imm_mem_nothing_deleted h : forall st r,
    Inv st -> grows (repo_of st r) (repo_of (fst (trun istep st h)) r).
  Proof.
    induction h as [|o h IH]; intros st r HI; [apply grows_refl|]. cbn [trun].
    pose proof (imm_mem_grows st o r HI) as Hg. pose proof (imm_mem_inv st o HI) as HI'.
    destruct (istep st o) as [[s1 res] tr]. cbn [fst] in *.
    specialize (IH s1 r HI'). destruct (trun istep s1 h) as [s2 rs]. cbn [fst] in *.
    eapply grows_trans; eauto.
  Qed.

  (* once ResolveTag through the wrapper answered digest d, it answers d after every
     continuation through the wrapper *)
  Theorem imm_mem_tag_forever h1 h2 st r t de :
    let '(s1, _) := trun istep st h1 in
    snd (fst (istep s1 (ResolveTag r t))) = Ok (RDesc de) ->
    let s1' := fst (fst (istep s1 (ResolveTag r t))) in
    let '(s2, _) := trun istep s1' h2 in
    exists de', snd (fst (istep s2 (ResolveTag r t))) = Ok (RDesc de') /\ d_digest de' = d_digest de.
  Proof. apply (imm_tag_forever mstep hash tagv mem_resolve_answers mem_frame). Qed.
End Inst.
