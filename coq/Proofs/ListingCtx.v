(* Proofs about listings under a context that becomes done during the iteration
   (Model/ListingCtx.v): whatever the stack, the consumer and the moment the context is done,
   the iteration behaves like the canonical iterator of the WHOLE listing "items, then maybe
   an error", or like "a prefix of those items, then the context error" - never a prefix
   followed by nothing. *)
From Coq Require Import String.
From OCI Require Import Model.Listing Model.ListingSpec Model.ListingCtx Proofs.Seq Proofs.Listing Proofs.ListingStack.

(* against every consumer and every context predicate: the whole sequence (xs, oe), or a
   prefix of xs and then the context error *)
Definition cut_of (itc : SeqC) (xs : list bytes) (oe : option err) : Prop :=
  forall S (d : S -> bool) (y : consumer err bytes S) (st : S),
    itc S d y st = seq_of xs oe S y st
    \/ exists pre post, xs = pre ++ post /\ itc S d y st = seq_of pre (Some ctx_error) S y st.

Definition cgood (itc : SeqC) (it : Seq err bytes) : Prop :=
  exists xs oe, represents it xs oe /\ cut_of itc xs oe.

Lemma noctx_cgood it : represented it -> cgood (noctx it) it.
Proof. intros (xs & oe & H). exists xs, oe. split; [exact H|]. intros S d y st. left. apply H. Qed.

Lemma pager_loop_c_cut wire (srv : wquery -> lresp) n fuel : forall req,
  exists xs oe,
    (forall S (y : consumer err bytes S) s, fst (pager_loop wire fuel srv n req S y s) = seq_of xs oe S y s)
    /\ forall S (d : S -> bool) (y : consumer err bytes S) s,
         fst (pager_loop_c wire fuel srv n req S d y s) = seq_of xs oe S y s
         \/ exists pre post, xs = pre ++ post
                             /\ fst (pager_loop_c wire fuel srv n req S d y s) = seq_of pre (Some ctx_error) S y s.
Proof.
  induction fuel as [|fuel IH]; intros req.
  - exists [], None. split; [reflexivity|]. intros. left. reflexivity.
  - cbn [pager_loop pager_loop_c]. destruct (srv req) as [items link|e|].
    + destruct (Z.ltb_spec (Z.of_nat (length items)) n) as [Hlt|Hge].
      * exists items, None. split.
        -- intros S y s. unfold seq_of. destruct (slice_loop items y s) as [s1 ok]. destruct ok; reflexivity.
        -- intros S d y s. destruct (d s).
           ++ right. exists [], items. split; reflexivity.
           ++ left. unfold seq_of. destruct (slice_loop items y s) as [s1 ok]. destruct ok; reflexivity.
      * destruct (last_opt items) as [l|] eqn:El.
        -- destruct (IH (nextLink link n l)) as (xs & oe & H & Hc).
           exists (items ++ xs), oe. split.
           ++ intros S y s. rewrite seq_of_app.
              destruct (slice_loop items y s) as [s1 ok]. destruct ok; cbn [negb fst]; [apply H | reflexivity].
           ++ intros S d y s. destruct (d s).
              ** right. exists [], (items ++ xs). split; reflexivity.
              ** destruct (slice_loop items y s) as [s1 ok] eqn:Es. destruct ok; cbn [negb fst].
                 --- destruct (Hc S d y s1) as [Hl | (pre & post & -> & Hr)].
                     +++ left. rewrite seq_of_app, Es. exact Hl.
                     +++ right. exists (items ++ pre), post. split; [now rewrite app_assoc|].
                         rewrite seq_of_app, Es. exact Hr.
                 --- left. rewrite seq_of_app, Es. reflexivity.
        -- exists items, None. split.
           ++ intros S y s. unfold seq_of. destruct (slice_loop items y s) as [s1 ok]. destruct ok; reflexivity.
           ++ intros S d y s. destruct (d s).
              ** right. exists [], items. split; reflexivity.
              ** left. unfold seq_of. destruct (slice_loop items y s) as [s1 ok]. destruct ok; reflexivity.
    + exists [], (Some (wire e)). split; [reflexivity|]. intros S d y s. destruct (d s).
      * right. exists [], []. split; reflexivity.
      * left. reflexivity.
    + exists [], (Some transport_error). split; [reflexivity|]. intros S d y s. destruct (d s).
      * right. exists [], []. split; reflexivity.
      * left. reflexivity.
Qed.

Lemma pager_c_cgood wire srv fuel n start : cgood (pager_c wire fuel srv n start) (pager wire fuel srv n start).
Proof.
  destruct (pager_loop_c_cut wire srv n fuel (listParams n start)) as (xs & oe & H & Hc).
  exists xs, oe. split.
  - intros S y s. unfold pager, pager_run. apply H.
  - intros S d y s. unfold pager_c. apply Hc.
Qed.

Lemma ac_Repositories_c_cgood check listAll backend_c backend start :
  cgood (backend_c start) (backend start) ->
  cgood (ac_Repositories_c check listAll backend_c start) (ac_Repositories check listAll backend start).
Proof.
  intros (xs & oe & Hrep & Hcut).
  destruct (if listAll then @None err else check star AccessList) as [e|] eqn:E.
  - unfold ac_Repositories_c, ac_Repositories. rewrite E. apply noctx_cgood, represented_ErrorSeq.
  - exists (filter (ac_visible check) xs), oe. split; [now apply ac_Repositories_represents|].
    assert (R : forall l o S (y : consumer err bytes S) st,
               seq_of l o S
                 (fun v st => match v with
                              | inr e => (fst (y (inr e) st), false)
                              | inl repo => match check repo AccessRead with
                                            | Some _ => (st, true)
                                            | None => y (inl repo) st
                                            end
                              end) st
               = seq_of (filter (ac_visible check) l) o S y st).
    { intros l o S y st.
      pose proof (ac_Repositories_represents check listAll (fun _ => seq_of l o) start l o E
                    (represents_seq_of _ _) S y st) as R.
      unfold ac_Repositories in R. rewrite E in R. exact R. }
    intros S d y st. unfold ac_Repositories_c. rewrite E.
    match goal with |- context [backend_c start S d ?cb st] => destruct (Hcut S d cb st) as [H | (pre & post & -> & H)] end.
    + left. rewrite H. apply R.
    + right. exists (filter (ac_visible check) pre), (filter (ac_visible check) post).
      split; [apply filter_app|]. rewrite H. apply R.
Qed.

Lemma ac_Tags_c_cgood check backend_c backend repo start :
  cgood (backend_c repo start) (backend repo start) ->
  cgood (ac_Tags_c check backend_c repo start) (ac_Tags check backend repo start).
Proof.
  intros H. unfold ac_Tags_c, ac_Tags. destruct (check repo AccessList).
  - apply noctx_cgood, represented_ErrorSeq.
  - exact H.
Qed.

Lemma strip_all_app p l1 l2 : strip_all p (l1 ++ l2) = strip_all p l1 ++ strip_all p l2.
Proof. unfold strip_all. apply flat_map_app. Qed.

Lemma sub_Repositories_c_cgood prefix backend_c backend start :
  cgood (backend_c (sub_start prefix start)) (backend (sub_start prefix start)) ->
  cgood (sub_Repositories_c prefix backend_c start) (sub_Repositories prefix backend start).
Proof.
  intros (xs & oe & Hrep & Hcut).
  exists (strip_all (prefix ++ slash) xs), oe. split; [now apply sub_Repositories_represents|].
  assert (R : forall l o S (y : consumer err bytes S) st,
             seq_of l o S
               (fun v st => match v with
                            | inr e => (fst (y (inr e) st), false)
                            | inl repo => match cut_prefix (prefix ++ slash) repo with
                                          | Some r => y (inl r) st
                                          | None => (st, true)
                                          end
                            end) st
             = seq_of (strip_all (prefix ++ slash) l) o S y st).
  { intros l o S y st.
    pose proof (sub_Repositories_represents prefix (fun _ => seq_of l o) start l o
                  (represents_seq_of _ _) S y st) as R.
    unfold sub_Repositories in R. exact R. }
  intros S d y st. unfold sub_Repositories_c.
  match goal with |- context [backend_c _ S d ?cb st] => destruct (Hcut S d cb st) as [H | (pre & post & -> & H)] end.
  - left. rewrite H. apply R.
  - right. exists (strip_all (prefix ++ slash) pre), (strip_all (prefix ++ slash) post).
    split; [apply strip_all_app|]. rewrite H. apply R.
Qed.

Lemma logIterReturn_c_cgood itc it : cgood itc it -> cgood (logIterReturn_c itc) (logIterReturn it).
Proof.
  intros (xs & oe & Hrep & Hcut). exists xs, oe. split; [now apply logIterReturn_represents|].
  assert (R : forall l o S (y : consumer err bytes S) st,
             logIterReturn (seq_of l o) S y st = seq_of l o S y st).
  { intros l o S y st. apply (logIterReturn_represents (seq_of l o) l o (represents_seq_of _ _)). }
  intros S d y st. unfold logIterReturn_c.
  match goal with |- context [itc ?S' ?d' ?cb ?st'] => destruct (Hcut S' d' cb st') as [H | (pre & post & -> & H)] end.
  - left. rewrite H. apply (R xs oe S y st).
  - right. exists pre, post. split; [reflexivity|]. rewrite H. apply (R pre (Some ctx_error) S y st).
Qed.

(* every stack, any fuel: no hypothesis on the contents *)
Theorem interp_c_cgood k fuel : forall q start,
  cgood (ask_c (interp_c fuel k) q start) (ask (interp fuel k) q start).
Proof.
  assert (Leaf : forall k' q start, cgood (ask_c (noctx_lister (interp fuel k')) q start) (ask (interp fuel k') q start)).
  { intros k' q start. destruct q; cbn [ask_c ask noctx_lister lc_repos lc_tags lc_refs];
      apply noctx_cgood; [apply (stack_represented k' fuel QRepos) | apply (stack_represented k' fuel (QTags repo))
                         | apply (stack_represented k' fuel (QRefs repo digest) start)]. }
  induction k as [m|xs oe| |n o i IH|al i IH|p i IH|a IHa b IHb|i IH]; intros q start;
    try (apply Leaf).
  - destruct q as [|r|r d]; cbn [ask_c ask interp_c interp hop_lister_c hop_lister lc_repos lc_tags lc_refs l_repos l_tags l_refs].
    + apply pager_c_cgood.
    + apply pager_c_cgood.
    + apply noctx_cgood. apply client_Referrers_represented.
  - destruct q as [|r|r d]; cbn [ask_c ask interp_c interp ac_lister_c ac_lister lc_repos lc_tags lc_refs l_repos l_tags l_refs].
    + apply ac_Repositories_c_cgood. apply (IH QRepos).
    + apply ac_Tags_c_cgood. apply (IH (QTags r)).
    + apply (ac_Tags_c_cgood _ (lc_refs (interp_c fuel i)) (l_refs (interp fuel i)) r d). apply (IH (QRefs r d) start).
  - destruct q as [|r|r d]; cbn [ask_c ask interp_c interp sub_lister_c sub_lister lc_repos lc_tags lc_refs l_repos l_tags l_refs].
    + apply sub_Repositories_c_cgood. apply (IH QRepos).
    + apply (IH (QTags (sub_repo p r))).
    + apply (IH (QRefs (sub_repo p r) d) start).
  - destruct q as [|r|r d]; cbn [ask_c ask interp_c interp debug_lister_c debug_lister lc_repos lc_tags lc_refs l_repos l_tags l_refs];
      apply logIterReturn_c_cgood; [apply (IH QRepos) | apply (IH (QTags r)) | apply (IH (QRefs r d) start)].
Qed.

(* the calls of a cancelled listing: those of the whole sequence, or a prefix and the context error *)
Lemma trace_cancel j xs oe c :
  trace_of xs oe (cancel_at j) c
  = map (fun x => (inl x, true)) xs ++ match oe with Some e => [(inr e, true)] | None => [] end.
Proof.
  revert c; induction xs as [|x xs IH]; intros c; cbn.
  - destruct oe; reflexivity.
  - now rewrite IH.
Qed.

(* every stack (no hypothesis), every moment j: the log of yield calls of a listing whose
   context becomes done during the j-th call, consumed by a consumer that accepts everything,
   is the log of the complete listing (with the stack's error, if it has one), or that of a
   prefix of it followed by the context error *)
Theorem listing_c_calls k q start j :
  exists xs oe,
    represents (listing k q start) xs oe
    /\ (calls_c (listing_c k q start) j = trace_of xs oe (cancel_at j) 0%N
        \/ exists pre post, xs = pre ++ post
                            /\ calls_c (listing_c k q start) j = trace_of pre (Some ctx_error) (cancel_at j) 0%N).
Proof.
  destruct (interp_c_cgood k (stack_fuel k) q start) as (xs & oe & Hrep & Hcut).
  exists xs, oe. split; [exact Hrep|]. unfold calls_c, listing_c.
  destruct (Hcut _ (fun st : N * list (call err bytes) => ctx_done j (fst st)) (logged (cancel_at j)) (0%N, []))
    as [H | (pre & post & -> & H)].
  - left. rewrite H, seq_of_logged. reflexivity.
  - right. exists pre, post. split; [reflexivity|]. rewrite H, seq_of_logged. reflexivity.
Qed.
