(* C03, the upload protocol over arbitrary writer-operation sequences.

   A blobWriter obtained from PushBlobChunked over the stack, in front of a backend whose upload
   for (repo, id) is an append buffer ([AppendUpload]: the laws of one PATCH and of the closing
   PUT), keeps the invariant [WInv wr b data]:

       the bytes written so far  =  what the backend's upload has received ++ the client's pending chunk,
       wr_size = their length, wr_flushed = the length of what the backend has received,
       the writer's location is the upload's

   through every Write / Size / ChunkSize / Cancel / Close, for every way of cutting the content
   into writes and every chunk size ([winv_ops]); and Commit then stores exactly the concatenation
   of the writes ([commit_stores_concat]).  The per-step facts are Proofs/StackTransparent.v's
   [transparent_flush_patch] / [transparent_commit] and Proofs/StackUploadEmpty.v's
   [transparent_commit_empty]. *)
From Coq Require Import String.
From OCI Require Import Model.Stack Proofs.Request Proofs.StackBase Proofs.StackDesc.
From OCI Require Import Proofs.RequestCodec Proofs.StackUpload Proofs.StackTransparent Proofs.StackUploadEmpty.

Local Open Scope Z_scope.

Section UploadInv.
  Variable linked : alg -> bool.
  Variable hash : bytes -> bytes -> bytes.
  Variable subject_of : bytes -> option (option bytes).
  Variable media : bytes -> bytes.
  Variable enc : jval -> bytes.
  Variable dec_errors : bytes -> option (list werr).
  Variable dec_names : bool -> bytes -> option (list bytes).
  Variable dec_index : bytes -> option (list desc).
  Variable redirect : bytes -> bytes -> bytes * bytes.
  Variable B : Type.
  Variable bstep : backend B.
  Variable o : opts.

  Notation serve := (serve_stack linked hash subject_of enc redirect bstep o).
  Notation env := (stack_env linked hash media dec_errors dec_names dec_index).
  Notation W := (world (srv B)).
  Notation wop_ := (writer_op (srv B) serve env current).

  Variable repo id : bytes.
  Hypothesis repo_ok : vrepo repo = true.
  Hypothesis id_ok : good_upload_id id.
  Hypothesis no_locs : o_locs o = None.

  (* ---------------------------------------------------------- the backend's side of the protocol *)

  (* [Upl b rcv]: in state [b] the upload (repo, id) has received [rcv];
     [accepts dg content]: the backend commits [content] under [dg];
     [Stored b dg content]: the repository holds the blob [dg] with exactly [content]. *)
  Variable Upl : B -> bytes -> Prop.
  Variable accepts : bytes -> bytes -> Prop.
  Variable Stored : B -> bytes -> bytes -> Prop.

  Record AppendUpload : Prop := {
    (* a chunk: Resume at the offset received so far, one Write of all the bytes, Close, ID (the
       same upload), Size: the bytes are appended *)
    au_patch : forall b rcv data, Upl b rcv -> data <> [] ->
      exists b1 b2 b3 b4 b5 vw vn vc vid vs,
        bstep b (PushBlobChunkedResume repo id (blen rcv) (blen data)) = (b1, Ok vw) /\
        bstep b1 (WWrite (wid_of vw) data) = (b2, Ok vn) /\ n_of vn = blen data /\
        bstep b2 (WClose (wid_of vw)) = (b3, Ok vc) /\
        bstep b3 (WID (wid_of vw)) = (b4, Ok vid) /\ str_of vid = id /\
        bstep b4 (WSize (wid_of vw)) = (b5, Ok vs) /\
        Upl b5 (rcv ++ data);
    (* the closing PUT with a last chunk: Resume, Write, Commit, Close: the blob is the whole *)
    au_commit : forall b rcv data dg, Upl b rcv -> data <> [] -> accepts dg (rcv ++ data) ->
      exists b1 b2 b3 b4 vw vn vd rc,
        bstep b (PushBlobChunkedResume repo id (blen rcv) (blen data)) = (b1, Ok vw) /\
        bstep b1 (WWrite (wid_of vw) data) = (b2, Ok vn) /\ n_of vn = blen data /\
        bstep b2 (WCommit (wid_of vw) dg) = (b3, Ok vd) /\ vdigest linked (d_digest (desc_of vd)) = true /\
        bstep b3 (WClose (wid_of vw)) = (b4, rc) /\ rc <> Panic /\ rc <> OutOfFuel /\
        Stored b4 dg (rcv ++ data);
    (* the closing PUT without body: Resume, Commit, Close *)
    au_commit0 : forall b rcv dg, Upl b rcv -> accepts dg rcv ->
      exists b1 b3 b4 vw vd rc,
        bstep b (PushBlobChunkedResume repo id (blen rcv) 0) = (b1, Ok vw) /\
        bstep b1 (WCommit (wid_of vw) dg) = (b3, Ok vd) /\ vdigest linked (d_digest (desc_of vd)) = true /\
        bstep b3 (WClose (wid_of vw)) = (b4, rc) /\ rc <> Panic /\ rc <> OutOfFuel /\
        Stored b4 dg rcv
  }.

  Hypothesis AU : AppendUpload.

  (* ---------------------------------------------------------- the invariant *)

  Definition WInv (wr : writer) (b : B) (data : bytes) : Prop :=
    exists rcv chunk,
      Upl b rcv /\ wr_chunk wr = Some chunk /\ data = rcv ++ chunk
      /\ wr_flushed wr = blen rcv /\ wr_size wr = blen data /\ writer_at wr repo id.

  Lemma blen_app (a b : bytes) : blen (a ++ b) = blen a + blen b.
  Proof. unfold blen. rewrite app_length. lia. Qed.

  Lemma blen_nonneg (a : bytes) : 0 <= blen a.
  Proof. unfold blen. lia. Qed.

  Lemma w64_small z : 0 <= z <= max_int64 -> w64 z = z.
  Proof. intros H. rewrite w64_wrap64. apply wrap64_small. unfold min_int64, max_int64 in *. lia. Qed.

  Lemma writer_at_ref wr loc : writer_at wr repo id ->
    writer_at {| wr_chunk_size := wr_chunk_size wr; wr_closed := wr_closed wr; wr_chunk := wr_chunk wr;
                 wr_close_err := wr_close_err wr; wr_size := wr_size wr; wr_flushed := wr_flushed wr;
                 wr_location := URef loc (upath repo id) |} repo id.
  Proof. intros _. exists loc. reflexivity. Qed.

  Ltac wat :=
    match goal with
    | H : writer_at _ _ _ |- writer_at _ _ _ => let base := fresh "base" in let Hb := fresh "Hb" in
                                               destruct H as (base & Hb); exists base; exact Hb
    end.

  (* blobWriter.flush of a non-empty chunk, from the invariant *)
  Lemma flush_inv (w : W) wr data buf :
    WInv wr (sv_b (w_srv w)) data -> chunk_bytes wr ++ buf <> [] -> blen data + blen buf <= max_int64 ->
    exists w' wr',
      flush (srv B) serve env wr buf [] w = (w', Ok wr')
      /\ wr_chunk wr' = Some [] /\ wr_flushed wr' = blen data + blen buf /\ wr_size wr' = wr_size wr
      /\ wr_chunk_size wr' = wr_chunk_size wr /\ wr_closed wr' = wr_closed wr /\ wr_close_err wr' = wr_close_err wr
      /\ writer_at wr' repo id /\ Upl (sv_b (w_srv w')) (data ++ buf)
      /\ sv_outside (w_srv w') = sv_outside (w_srv w).
  Proof.
    intros (rcv & chunk & Hu & Hch & Hd & Hf & Hs & Hat) Hne Hmax.
    assert (Ecb : chunk_bytes wr = chunk) by (unfold chunk_bytes; now rewrite Hch).
    rewrite Ecb in Hne.
    destruct (au_patch AU _ rcv (chunk ++ buf) Hu Hne)
      as (b1 & b2 & b3 & b4 & b5 & vw & vn & vc & vid & vs & E1 & E2 & Hn & E3 & E4 & Hid & E5 & Hu').
    assert (Hlen : blen data + blen buf = blen rcv + blen (chunk ++ buf)) by (subst data; rewrite !blen_app; lia).
    destruct (transparent_flush_patch linked hash subject_of media enc dec_errors dec_names dec_index redirect B bstep o
                w wr repo id buf b1 b2 b3 b4 b5 vw vn vc vid vs) as (w' & E & Hw); try assumption; rewrite ?Ecb, ?Hf, ?Hid; try assumption.
    - apply blen_nonneg.
    - lia.
    - exists w'. eexists. split; [exact E|]. cbn [wr_chunk wr_flushed wr_size wr_chunk_size wr_closed wr_close_err].
      rewrite Hch. cbn [option_map]. rewrite Ecb, Hf, Hid. repeat split; try reflexivity.
      + lia.
      + exists (wr_location wr). reflexivity.
      + rewrite Hw. cbn [after sv_b]. subst data. rewrite <- app_assoc. exact Hu'.
      + rewrite Hw. reflexivity.
  Qed.

  (* ---------------------------------------------------------- one operation before Commit *)

  Definition pre_commit (wo : wop) : bool := match wo with WoCommit _ => false | _ => true end.

  Definition written (wo : wop) : bytes := match wo with WoWrite d => d | _ => [] end.

  (* what the caller sees: Write returns the count, Size the bytes written so far *)
  Definition answer_ok (wr : writer) (data : bytes) (wo : wop) (r : wres) : Prop :=
    match wo with
    | WoWrite d => r = WrInt (Ok (blen d))
    | WoSize => r = WrInt (Ok (blen data))
    | WoChunkSize => r = WrInt (Ok (wr_chunk_size wr))
    | WoCancel => r = WrInt (Ok 0)
    | WoClose => wr_closed wr = false -> r = WrInt (Ok 0)
    | WoCommit _ => True
    end.

  Lemma winv_op (w : W) wr data wo :
    WInv wr (sv_b (w_srv w)) data -> pre_commit wo = true -> blen data + blen (written wo) <= max_int64 ->
    exists w' wr' r,
      wop_ wr wo w = (w', (wr', r))
      /\ WInv wr' (sv_b (w_srv w')) (data ++ written wo)
      /\ answer_ok wr data wo r
      /\ wr_chunk_size wr' = wr_chunk_size wr
      /\ sv_outside (w_srv w') = sv_outside (w_srv w).
  Proof.
    intros HI Hp Hmax. pose proof HI as (rcv & chunk & Hu & Hch & Hd & Hf & Hs & Hat).
    assert (Ecb : chunk_bytes wr = chunk) by (unfold chunk_bytes; now rewrite Hch).
    destruct wo as [buf| |dg| | |]; try discriminate Hp; cbn [writer_op written answer_ok] in *.
    - (* Write *)
      unfold writer_write. rewrite Ecb.
      assert (Hsz : w64 (wr_size wr + blenZ buf) = blen (data ++ buf)).
      { rewrite Hs, blen_app. change (blenZ buf) with (blen buf). apply w64_small.
        pose proof (blen_nonneg data). pose proof (blen_nonneg buf). lia. }
      destruct (wr_chunk_size wr <? blenZ chunk + blenZ buf) eqn:Ebig.
      + (* the chunk overflows: flush *)
        destruct (list_eq_dec N.eq_dec (chunk ++ buf) []) as [Enil|Hne].
        * (* nothing at all to send (a negative chunk size): flush is a no-op *)
          apply app_eq_nil in Enil as [-> ->]. unfold flush. rewrite Ecb. cbn [is_empty andb blenZ length Z.of_nat Z.add Z.eqb].
          unfold ret. do 3 eexists. split; [reflexivity|]. rewrite app_nil_r. repeat split; try reflexivity.
          exists rcv, []. cbn [set_size wr_chunk wr_flushed wr_size wr_location]. repeat split; try assumption; try wat.
          change (blenZ []) with 0. rewrite Z.add_0_r, Hs. apply w64_small.
          pose proof (blen_nonneg data). change (blen []) with 0 in Hmax. lia.
        * destruct (flush_inv w wr data buf HI) as (w' & wr' & E & Hc' & Hf' & Hs' & Hcs & Hcl & Hce & Hat' & Hu' & Ho);
            [rewrite Ecb; exact Hne | exact Hmax|].
          rewrite E. do 3 eexists. split; [reflexivity|]. repeat split; try reflexivity.
          -- exists (data ++ buf), []. cbn [set_size wr_chunk wr_flushed wr_size wr_location].
             rewrite app_nil_r, Hs', Hsz, Hf', blen_app. repeat split; try assumption; try reflexivity; try wat.
          -- cbn [set_size wr_chunk_size]. exact Hcs.
          -- exact Ho.
      + (* the bytes go into the chunk *)
        unfold alloc_chunk. rewrite Hch. do 3 eexists. split; [reflexivity|]. repeat split; try reflexivity.
        exists rcv, (chunk ++ buf). cbn [wr_chunk wr_flushed wr_size wr_location]. repeat split; try assumption; try wat.
        subst data. now rewrite app_assoc.
    - (* Close *)
      rewrite app_nil_r. unfold writer_close. destruct (wr_closed wr) eqn:Ecl.
      + do 3 eexists. split; [reflexivity|]. repeat split; try assumption; try reflexivity; try wat. discriminate.
      + destruct (list_eq_dec N.eq_dec chunk []) as [->|Hne].
        * unfold flush. rewrite Ecb. cbn [is_empty andb blenZ length Z.of_nat Z.add Z.eqb]. unfold ret.
          do 3 eexists. split; [reflexivity|]. repeat split; try reflexivity.
          exists rcv, []. cbn [set_closed wr_chunk wr_flushed wr_size wr_location]. repeat split; try assumption; try wat.
        * destruct (flush_inv w wr data [] HI) as (w' & wr' & E & Hc' & Hf' & Hs' & Hcs & Hcl & Hce & Hat' & Hu' & Ho);
            [rewrite Ecb, app_nil_r; exact Hne | change (blen []) with 0 in *; lia|].
          rewrite E. do 3 eexists. split; [reflexivity|]. rewrite app_nil_r in Hu'. change (blen []) with 0 in Hf'.
          repeat split; try reflexivity.
          -- exists data, []. cbn [set_closed wr_chunk wr_flushed wr_size wr_location].
             rewrite app_nil_r, Hs', Hf', Z.add_0_r. repeat split; try assumption; try wat.
          -- cbn [set_closed wr_chunk_size]. exact Hcs.
          -- exact Ho.
    - (* Size *)
      rewrite app_nil_r. do 3 eexists. split; [reflexivity|]. repeat split; try assumption; try wat. now rewrite Hs.
    - (* ChunkSize *)
      rewrite app_nil_r. do 3 eexists. split; [reflexivity|]. repeat split; assumption || reflexivity.
    - (* Cancel: the client's Cancel does nothing *)
      rewrite app_nil_r. do 3 eexists. split; [reflexivity|]. repeat split; assumption || reflexivity.
  Qed.

  (* ---------------------------------------------------------- every sequence of operations *)

  (* the caller's operations one after the other (Model/Stack.v [on_writer] without the handle table) *)
  Fixpoint run_wops (wr : writer) (ops : list wop) (w : W) : W * writer * list wres :=
    match ops with
    | [] => (w, wr, [])
    | wo :: ops' =>
        let '(w1, (wr1, r)) := wop_ wr wo w in
        let '(w2, wr2, rs) := run_wops wr1 ops' w1 in (w2, wr2, r :: rs)
    end.

  Definition all_written (ops : list wop) : bytes := concat (map written ops).

  (* the running totals a Size at each position must report *)
  Fixpoint answers_ok (wr : writer) (data : bytes) (ops : list wop) (rs : list wres) : Prop :=
    match ops, rs with
    | [], [] => True
    | wo :: ops', r :: rs' =>
        (match wo with
         | WoWrite d => r = WrInt (Ok (blen d))
         | WoSize => r = WrInt (Ok (blen data))
         | WoChunkSize => r = WrInt (Ok (wr_chunk_size wr))
         | WoCancel => r = WrInt (Ok 0)
         | _ => True
         end) /\ answers_ok wr (data ++ written wo) ops' rs'
    | _, _ => False
    end.

  Theorem winv_ops : forall ops (w : W) wr data,
    WInv wr (sv_b (w_srv w)) data -> forallb pre_commit ops = true ->
    blen data + blen (all_written ops) <= max_int64 ->
    let '(w', wr', rs) := run_wops wr ops w in
    WInv wr' (sv_b (w_srv w')) (data ++ all_written ops)
    /\ answers_ok wr data ops rs
    /\ sv_outside (w_srv w') = sv_outside (w_srv w).
  Proof.
    induction ops as [|wo ops IH]; intros w wr data HI Hp Hmax; cbn [run_wops all_written map concat].
    - rewrite app_nil_r. repeat split; assumption || reflexivity.
    - cbn [forallb] in Hp. apply andb_true_iff in Hp as [Hp1 Hp2].
      unfold all_written in Hmax. cbn [map concat] in Hmax. rewrite blen_app in Hmax.
      pose proof (blen_nonneg (concat (map written ops))) as Hnn.
      destruct (winv_op w wr data wo HI Hp1) as (w1 & wr1 & r & E & HI1 & Ha & Hcs & Ho1); [lia|].
      rewrite E. specialize (IH w1 wr1 (data ++ written wo) HI1 Hp2).
      unfold all_written in IH. rewrite blen_app in IH. specialize (IH ltac:(lia)).
      destruct (run_wops wr1 ops w1) as [[w2 wr2] rs]. destruct IH as (HI2 & Hrs & Ho2).
      rewrite <- app_assoc in HI2. split; [exact HI2|]. split; [|now rewrite Ho2].
      cbn [answers_ok]. split.
      + destruct wo; cbn [answer_ok] in Ha; try exact Ha; exact I.
      + clear -Hrs Hcs. revert Hrs. generalize (data ++ written wo). revert rs.
        induction ops as [|wo' ops' IH']; intros rs d; destruct rs as [|r' rs']; cbn [answers_ok]; try tauto.
        intros [A B0]. split; [|now apply IH'].
        destruct wo'; try exact A. now rewrite <- Hcs.
  Qed.

  (* ---------------------------------------------------------- Commit *)

  (* after any sequence of operations, Commit with a digest the backend accepts for the bytes
     written stores exactly those bytes, and returns their length *)
  Theorem commit_stores (w : W) wr data dg :
    WInv wr (sv_b (w_srv w)) data -> vdigest linked dg = true -> accepts dg data -> blen data <= max_int64 ->
    exists w' wr',
      wop_ wr (WoCommit dg) w
      = (w', (wr', WrDesc (Ok {| d_media := octet_stream; d_digest := dg; d_size := blen data; d_artifact := [] |})))
      /\ Stored (sv_b (w_srv w')) dg data.
  Proof.
    intros (rcv & chunk & Hu & Hch & Hd & Hf & Hs & Hat) Hvd Hacc Hmax.
    assert (Ecb : chunk_bytes wr = chunk) by (unfold chunk_bytes; now rewrite Hch).
    assert (Hlen : blen data = blen rcv + blen chunk) by (subst data; apply blen_app).
    pose proof (blen_nonneg rcv) as Hr0. pose proof (blen_nonneg chunk) as Hc0.
    cbn [writer_op]. destruct (list_eq_dec N.eq_dec chunk []) as [->|Hne].
    - rewrite app_nil_r in Hd. subst data.
      destruct (au_commit0 AU _ rcv dg Hu Hacc) as (b1 & b3 & b4 & vw & vd & rc & E1 & E3 & Hvd' & E4 & Hc1 & Hc2 & Hst).
      destruct (transparent_commit_empty linked hash subject_of media enc dec_errors dec_names dec_index redirect B bstep o
                  w wr repo id dg b1 b3 b4 vw vd rc) as (w' & wr' & E & _ & _ & Hw); try assumption; rewrite ?Hf; try assumption.
      + lia.
      + rewrite E. exists w', wr'. rewrite Hs. split; [reflexivity|]. rewrite Hw. exact Hst.
    - rewrite Hd in Hacc.
      destruct (au_commit AU _ rcv chunk dg Hu Hne Hacc)
        as (b1 & b2 & b3 & b4 & vw & vn & vd & rc & E1 & E2 & Hn & E3 & Hvd' & E4 & Hc1 & Hc2 & Hst).
      destruct (transparent_commit linked hash subject_of media enc dec_errors dec_names dec_index redirect B bstep o
                  w wr repo id dg b1 b2 b3 b4 vw vn vd rc) as (w' & wr' & E & _ & _ & Hw); try assumption;
        rewrite ?Ecb, ?Hf; try assumption.
      + lia.
      + rewrite E. exists w', wr'. rewrite Hs. split; [reflexivity|]. rewrite Hw, Hd. exact Hst.
  Qed.

  (* the corollary: any cutting of a content into writes, any chunk size, with Size / ChunkSize /
     Cancel / Close calls anywhere in between: the blob is the concatenation of the writes *)
  Corollary commit_stores_concat ops (w : W) wr dg :
    WInv wr (sv_b (w_srv w)) [] -> forallb pre_commit ops = true ->
    blen (all_written ops) <= max_int64 ->
    vdigest linked dg = true -> accepts dg (all_written ops) ->
    let '(w1, wr1, rs) := run_wops wr ops w in
    answers_ok wr [] ops rs /\
    exists w' wr',
      wop_ wr1 (WoCommit dg) w1
      = (w', (wr', WrDesc (Ok {| d_media := octet_stream; d_digest := dg; d_size := blen (all_written ops);
                                 d_artifact := [] |})))
      /\ Stored (sv_b (w_srv w')) dg (all_written ops).
  Proof.
    intros HI Hp Hmax Hvd Hacc.
    pose proof (winv_ops ops w wr [] HI Hp) as H. change (blen []) with 0 in H. specialize (H ltac:(lia)).
    destruct (run_wops wr ops w) as [[w1 wr1] rs]. destruct H as (HI1 & Hrs & _). cbn [app] in HI1.
    split; [exact Hrs|]. exact (commit_stores w1 wr1 (all_written ops) dg HI1 Hvd Hacc Hmax).
  Qed.

  (* the writer PushBlobChunked returns satisfies the invariant with nothing written *)
  Lemma winv_start cs base b :
    Upl b [] ->
    WInv {| wr_chunk_size := cs; wr_closed := false; wr_chunk := Some []; wr_close_err := None; wr_size := 0;
            wr_flushed := 0; wr_location := URef base (upath repo id) |} b [].
  Proof.
    intros Hu. exists [], []. cbn. repeat split; try assumption; try reflexivity; try wat. exists base. reflexivity.
  Qed.

End UploadInv.

Print Assumptions winv_ops.
Print Assumptions commit_stores_concat.
