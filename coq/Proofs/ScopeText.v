(* Proofs about Model/Scope.v (C09), part 5: String, then ParseScope, gives the scope back. *)
From Coq Require Import String.
From OCI Require Import Model.Scope Proofs.Scope Proofs.ScopeAlg Proofs.ScopeOps Proofs.ScopeEval.

(* ================================================================== *)
(* 16. strings.Split and strings.Fields on well-behaved text           *)
(* ================================================================== *)

Lemma split_byte_none c w : ~ In c w -> split_byte c w = [w].
Proof.
  induction w as [|d w IH]; cbn; auto. intros Hn.
  destruct (N.eqb_spec d c) as [->|Hd]; [exfalso; auto|]. rewrite IH by tauto. reflexivity.
Qed.

Lemma split_byte_app c w rest : ~ In c w -> split_byte c (w ++ c :: rest) = w :: split_byte c rest.
Proof.
  induction w as [|d w IH]; intros Hn.
  - cbn. now rewrite N.eqb_refl.
  - cbn [app split_byte]. destruct (N.eqb_spec d c) as [->|Hd]; [exfalso; apply Hn; now left|].
    rewrite IH by (intros H; apply Hn; now right). reflexivity.
Qed.

(* a byte that neither is ASCII white space nor starts a multi-byte white space rune *)
Definition nsp (c : N) : bool :=
  negb (ascii_space c) && negb ((c =? 194) || (c =? 225) || (c =? 226) || (c =? 227)).

Lemma nsp_width c r : nsp c = true -> space_width (c :: r) = O.
Proof.
  unfold nsp. rewrite andb_true_iff, !negb_true_iff, !orb_false_iff. intros (H1 & ((H2 & H3) & H4) & H5).
  cbn [space_width]. now rewrite H1, H2, H3, H4, H5.
Qed.

Lemma fields_from_word w rest :
  forallb nsp w = true ->
  fields_from 0 (w ++ rest) = let (cur, fs) := fields_from 0 rest in (w ++ cur, fs).
Proof.
  induction w as [|c w IH]; intros Hw.
  - cbn [app]. now destruct (fields_from 0 rest).
  - cbn [forallb] in Hw. apply andb_true_iff in Hw as [Hc Hw].
    cbn [app]. change (fields_from 0 (c :: w ++ rest))
      with (match space_width (c :: w ++ rest) with
            | O => let (cur, fs) := fields_from 0 (w ++ rest) in (c :: cur, fs)
            | S k => let (cur, fs) := fields_from k (w ++ rest) in ([], cons_nonempty cur fs)
            end).
    rewrite (nsp_width c _ Hc), (IH Hw). now destruct (fields_from 0 rest).
Qed.

Lemma fields_from_space rest :
  fields_from 0 (space :: rest) = let (cur, fs) := fields_from 0 rest in ([], cons_nonempty cur fs).
Proof. reflexivity. Qed.

Definition is_word (w : bytes) : bool := negb (beqb w []) && forallb nsp w.

Definition spaced (ws : list bytes) : bytes := flat_map (fun w => space :: w) ws.

Lemma fields_from_spaced ws : forallb is_word ws = true -> fields_from 0 (spaced ws) = ([], ws).
Proof.
  induction ws as [|w ws IH]; intros Hw; [reflexivity|].
  cbn [forallb] in Hw. apply andb_true_iff in Hw as [Hw Hws]. unfold is_word in Hw.
  apply andb_true_iff in Hw as [Hne Hw]. apply negb_true_iff, beqb_neq in Hne.
  change (spaced (w :: ws)) with (space :: w ++ spaced ws).
  rewrite fields_from_space, (fields_from_word w _ Hw), (IH Hws). rewrite app_nil_r.
  destruct w; [contradiction | reflexivity].
Qed.

Lemma fields_words w0 ws :
  is_word w0 = true -> forallb is_word ws = true -> fields (w0 ++ spaced ws) = w0 :: ws.
Proof.
  intros H0 Hws. unfold is_word in H0. apply andb_true_iff in H0 as [Hne Hw].
  apply negb_true_iff, beqb_neq in Hne. unfold fields.
  rewrite (fields_from_word w0 _ Hw), (fields_from_spaced ws Hws), app_nil_r.
  destruct w0; [contradiction | reflexivity].
Qed.

(* ================================================================== *)
(* 17. What String writes                                              *)
(* ================================================================== *)

Definition joins (r prev : rscope) : bool :=
  beqb (rtype r) TypeRepository && beqb (rtype prev) TypeRepository && beqb (rres r) (rres prev).

Definition full (r : rscope) : bytes :=
  rtype r ++ (if negb (beqb (rres r) []) || negb (beqb (ract r) [])
              then [colon] ++ rres r ++ [colon] ++ ract r else []).

Definition sstep (st : bytes * rscope) (r : rscope) : bytes * rscope := fst (string_step r st).

Lemma string_step_go r st : snd (string_step r st) = true.
Proof.
  destruct st as [buf prev]. unfold string_step.
  destruct (beqb (rtype r) TypeRepository && beqb (rtype prev) TypeRepository && beqb (rres r) (rres prev)); reflexivity.
Qed.

Lemma sstep_nonempty buf prev r :
  buf <> [] ->
  sstep (buf, prev) r = (buf ++ (if joins r prev then comma :: ract r else space :: full r), r).
Proof.
  intros Hb. unfold sstep, string_step, joins, full.
  destruct (beqb (rtype r) TypeRepository && beqb (rtype prev) TypeRepository && beqb (rres r) (rres prev)); [reflexivity|].
  destruct buf as [|c buf]; [contradiction|]. cbn [length Nat.ltb Nat.leb fst].
  destruct (negb (beqb (rres r) []) || negb (beqb (ract r) [])); cbn [fst]; f_equal;
    rewrite <- ?app_assoc; cbn [app]; rewrite ?app_nil_r; reflexivity.
Qed.

Lemma sstep_empty prev r :
  sstep ([], prev) r = (if joins r prev then comma :: ract r else full r, r).
Proof.
  unfold sstep, string_step, joins, full.
  destruct (beqb (rtype r) TypeRepository && beqb (rtype prev) TypeRepository && beqb (rres r) (rres prev)); [reflexivity|].
  cbn [length Nat.ltb Nat.leb app].
  destruct (negb (beqb (rres r) []) || negb (beqb (ract r) [])); cbn [fst]; rewrite ?app_nil_r; reflexivity.
Qed.

Fixpoint tail_str (prev : rscope) (l : list rscope) : bytes :=
  match l with
  | [] => []
  | r :: l' => (if joins r prev then comma :: ract r else space :: full r) ++ tail_str r l'
  end.

Lemma fold_tail l : forall buf prev,
  buf <> [] -> fst (fold_left sstep l (buf, prev)) = buf ++ tail_str prev l.
Proof.
  induction l as [|r l IH]; intros buf prev Hb; cbn [fold_left tail_str]; [now rewrite app_nil_r|].
  rewrite sstep_nonempty by auto. rewrite IH.
  - now rewrite <- app_assoc.
  - destruct buf; [contradiction | discriminate].
Qed.

Definition zero_rs : rscope := RS [] [] [].

(* the text String writes for a scope without source text, as a function of its triples *)
Definition render (l : list rscope) : bytes := fst (fold_left sstep l ([], zero_rs)).

Lemma run_fold {St} (y : rscope -> St -> St * bool) l :
  (forall r st, snd (y r st) = true) ->
  forall st, fst (run y l st) = fold_left (fun st r => fst (y r st)) l st.
Proof.
  intros Hy. induction l as [|r l IH]; intros st; cbn; auto.
  specialize (Hy r st). destruct (y r st) as [st1 go]. cbn in Hy. subst go. apply IH.
Qed.

Lemma string_render sc :
  wf sc -> unlimited sc = false -> original sc = [] -> String sc = render (abs sc).
Proof.
  intros W Hu Ho. unfold String, IsUnlimited. rewrite Hu, Ho. cbn [beqb negb orb].
  destruct (IsEmpty sc) eqn:Ee.
  - now rewrite (empty_abs sc W Ee).
  - rewrite iter_run by auto. rewrite (run_fold string_step (abs sc) string_step_go). reflexivity.
Qed.

(* ================================================================== *)
(* 18. Grouping: which triples share a field of the text               *)
(* ================================================================== *)

Fixpoint group_tail (prev : rscope) (l : list rscope) : list bytes * list (rscope * list bytes) :=
  match l with
  | [] => ([], [])
  | r :: l' => let (ex, gs) := group_tail r l' in
               if joins r prev then (ract r :: ex, gs) else ([], (r, ex) :: gs)
  end.

Definition commas (ex : list bytes) : bytes := flat_map (fun a => comma :: a) ex.

Definition render_group (g : rscope * list bytes) : bytes := full (fst g) ++ commas (snd g).

Definition ungroup (g : rscope * list bytes) : list rscope :=
  fst g :: map (RS (rtype (fst g)) (rres (fst g))) (snd g).

Lemma tail_str_groups l : forall prev,
  tail_str prev l = commas (fst (group_tail prev l)) ++ spaced (map render_group (snd (group_tail prev l))).
Proof.
  induction l as [|r l IH]; intros prev; [reflexivity|].
  cbn [tail_str group_tail]. rewrite IH. destruct (group_tail r l) as [ex gs]. cbn [fst snd].
  destruct (joins r prev); cbn [fst snd].
  - change (commas (ract r :: ex)) with (comma :: ract r ++ commas ex). cbn [app]. now rewrite <- app_assoc.
  - cbn [map]. change (spaced (render_group (r, ex) :: map render_group gs))
      with (space :: render_group (r, ex) ++ spaced (map render_group gs)).
    change (commas []) with (@nil N). unfold render_group. cbn [fst snd app]. now rewrite <- app_assoc.
Qed.

Lemma rs_eta r : RS (rtype r) (rres r) (ract r) = r.
Proof. now destruct r. Qed.

Lemma group_tail_ungroup l : forall prev,
  map (RS (rtype prev) (rres prev)) (fst (group_tail prev l)) ++ flat_map ungroup (snd (group_tail prev l)) = l.
Proof.
  induction l as [|r l IH]; intros prev; [reflexivity|].
  cbn [group_tail]. specialize (IH r). destruct (group_tail r l) as [ex gs]. cbn [fst snd] in IH.
  destruct (joins r prev) eqn:Ej; cbn [fst snd].
  - unfold joins in Ej. apply andb_true_iff in Ej as [Ej E3]. apply andb_true_iff in Ej as [E1 E2].
    apply beqb_eq in E1, E2, E3. assert (Et : rtype prev = rtype r) by congruence.
    rewrite Et, <- E3. cbn [map app]. now rewrite rs_eta, IH.
  - cbn [flat_map map]. unfold ungroup at 1. cbn [fst snd app]. f_equal. exact IH.
Qed.

(* ================================================================== *)
(* 19. Clean fields                                                    *)
(* ================================================================== *)

Lemma clean_byte_facts c : clean_byte c = true -> nsp c = true /\ c <> colon /\ c <> comma.
Proof.
  unfold clean_byte, nsp. rewrite !andb_true_iff, !negb_true_iff. intros (((H1 & H2) & H3) & H4).
  rewrite H1, H4. repeat split; auto; intros ->; discriminate.
Qed.

Lemma clean_field_facts f :
  clean_field f = true -> f <> [] /\ forallb nsp f = true /\ ~ In colon f /\ ~ In comma f.
Proof.
  destruct f as [|c f]; [discriminate|]. unfold clean_field. intros H. split; [discriminate|].
  rewrite forallb_forall in H. repeat split.
  - apply forallb_forall. intros d Hd. now apply clean_byte_facts, H.
  - intros Hi. apply H, clean_byte_facts in Hi. tauto.
  - intros Hi. apply H, clean_byte_facts in Hi. tauto.
Qed.

Definition clean_group (g : rscope * list bytes) : bool := clean_rs (fst g) && forallb clean_field (snd g).

Lemma group_tail_clean l : forall prev,
  forallb clean_rs l = true ->
  forallb clean_field (fst (group_tail prev l)) = true /\ forallb clean_group (snd (group_tail prev l)) = true.
Proof.
  induction l as [|r l IH]; intros prev Hl; [split; reflexivity|].
  cbn [forallb] in Hl. apply andb_true_iff in Hl as [Hr Hl]. cbn [group_tail].
  destruct (IH r Hl) as [H1 H2]. destruct (group_tail r l) as [ex gs]. cbn [fst snd] in *.
  assert (Ha : clean_field (ract r) = true).
  { unfold clean_rs in Hr. now apply andb_true_iff in Hr as [_ ?]. }
  destruct (joins r prev); cbn [fst snd forallb].
  - now rewrite Ha, H1, H2.
  - unfold clean_group at 1. cbn [fst snd]. now rewrite Hr, H1, H2.
Qed.

Lemma commas_facts ex :
  forallb clean_field ex = true -> forallb nsp (commas ex) = true /\ ~ In colon (commas ex).
Proof.
  induction ex as [|a ex IH]; intros H; [split; [reflexivity | intros []]|].
  cbn [forallb] in H. apply andb_true_iff in H as [Ha Hex]. destruct (IH Hex) as [I1 I2].
  destruct (clean_field_facts a Ha) as (_ & A1 & A2 & _).
  change (commas (a :: ex)) with (comma :: a ++ commas ex). split.
  - cbn [forallb]. rewrite forallb_app, A1, I1. reflexivity.
  - intros [H|H]; [discriminate|]. apply in_app_or in H as [H|H]; auto.
Qed.

Lemma split_commas act ex :
  ~ In comma act -> forallb clean_field ex = true -> split_byte comma (act ++ commas ex) = act :: ex.
Proof.
  revert act. induction ex as [|a ex IH]; intros act Hact H.
  - cbn. rewrite app_nil_r. now apply split_byte_none.
  - cbn [forallb] in H. apply andb_true_iff in H as [Ha Hex].
    destruct (clean_field_facts a Ha) as (_ & _ & _ & A3).
    change (commas (a :: ex)) with (comma :: a ++ commas ex).
    rewrite split_byte_app by auto. now rewrite IH.
Qed.

Lemma full_clean r :
  clean_rs r = true -> full r = rtype r ++ colon :: rres r ++ colon :: ract r.
Proof.
  unfold clean_rs, full. rewrite !andb_true_iff. intros [[_ H] _].
  destruct (clean_field_facts _ H) as (Hn & _). apply beqb_neq in Hn. now rewrite Hn.
Qed.

Lemma render_group_word g : clean_group g = true -> is_word (render_group g) = true.
Proof.
  destruct g as [r ex]. unfold clean_group. cbn [fst snd]. rewrite andb_true_iff. intros [Hr Hex].
  unfold render_group. cbn [fst snd]. rewrite (full_clean r Hr).
  unfold clean_rs in Hr. apply andb_true_iff in Hr as [Hr Ha]. apply andb_true_iff in Hr as [Ht Hn].
  destruct (clean_field_facts _ Ht) as (T0 & T1 & _). destruct (clean_field_facts _ Hn) as (_ & N1 & _).
  destruct (clean_field_facts _ Ha) as (_ & A1 & _). destruct (commas_facts ex Hex) as [C1 _].
  unfold is_word. apply andb_true_iff. split.
  - apply negb_true_iff, beqb_neq. destruct (rtype r); [contradiction | discriminate].
  - rewrite !forallb_app. cbn [forallb]. rewrite !forallb_app. cbn [forallb]. now rewrite T1, N1, A1, C1.
Qed.

Lemma parse_render_group g : clean_group g = true -> parse_field (render_group g) = ungroup g.
Proof.
  destruct g as [r ex]. unfold clean_group. cbn [fst snd]. rewrite andb_true_iff. intros [Hr Hex].
  unfold render_group, ungroup. cbn [fst snd]. rewrite (full_clean r Hr).
  unfold clean_rs in Hr. apply andb_true_iff in Hr as [Hr Ha]. apply andb_true_iff in Hr as [Ht Hn].
  destruct (clean_field_facts _ Ht) as (_ & _ & T2 & _). destruct (clean_field_facts _ Hn) as (_ & _ & N2 & _).
  destruct (clean_field_facts _ Ha) as (_ & _ & A2 & A3). destruct (commas_facts ex Hex) as [_ C2].
  unfold parse_field. rewrite <- app_assoc. cbn [app]. rewrite split_byte_app by auto.
  rewrite <- app_assoc. cbn [app]. rewrite split_byte_app by auto.
  rewrite split_byte_none by (intros H; apply in_app_or in H as [H|H]; auto).
  rewrite split_commas by auto. cbn [map]. now rewrite rs_eta.
Qed.

(* ================================================================== *)
(* 20. print, then parse                                               *)
(* ================================================================== *)

Lemma flat_map_ext_forallb {A B} (f g : A -> list B) (p : A -> bool) l :
  (forall a, p a = true -> f a = g a) -> forallb p l = true -> flat_map f l = flat_map g l.
Proof.
  intros H. induction l as [|a l IH]; cbn; auto. rewrite andb_true_iff. intros [Ha Hl].
  now rewrite (H a Ha), (IH Hl).
Qed.

(* the text of a list of clean triples parses back to the very same list *)
Lemma parse_render l : forallb clean_rs l = true -> parse_rscopes (render l) = l.
Proof.
  destruct l as [|r l]; [reflexivity|]. intros Hl. assert (Hl' := Hl).
  cbn [forallb] in Hl'. apply andb_true_iff in Hl' as [Hr Hl'].
  unfold render. cbn [fold_left]. rewrite sstep_empty.
  assert (Hj : joins r zero_rs = false).
  { unfold joins. cbn [rtype zero_rs]. now rewrite andb_false_r. }
  rewrite Hj.
  assert (Hfull : full r <> []).
  { rewrite (full_clean r Hr). unfold clean_rs in Hr. apply andb_true_iff in Hr as [Hr _].
    apply andb_true_iff in Hr as [Ht _]. destruct (rtype r); [discriminate | discriminate]. }
  rewrite fold_tail by auto. rewrite tail_str_groups.
  pose proof (group_tail_ungroup l r) as Hu. destruct (group_tail_clean l r Hl') as [C1 C2].
  destruct (group_tail r l) as [ex gs]. cbn [fst snd] in *.
  rewrite app_assoc. change (full r ++ commas ex) with (render_group (r, ex)).
  assert (Cg : clean_group (r, ex) = true) by (unfold clean_group; cbn [fst snd]; now rewrite Hr, C1).
  unfold parse_rscopes. rewrite fields_words.
  - cbn [flat_map]. rewrite (parse_render_group _ Cg). unfold ungroup at 1. cbn [fst snd app]. f_equal.
    rewrite flat_map_concat_map, map_map, <- flat_map_concat_map.
    rewrite (flat_map_ext_forallb _ ungroup clean_group gs parse_render_group C2). exact Hu.
  - now apply render_group_word.
  - rewrite forallb_forall. intros w Hw. apply in_map_iff in Hw as (g & <- & Hg).
    rewrite forallb_forall in C2. now apply render_group_word, C2.
Qed.

(* Printing a scope (canonical text) and parsing the text yields an equal scope. *)
Lemma print_parse sc :
  wf sc -> unlimited sc = false -> clean sc ->
  Equal (ParseScope (String (Canonical sc))) sc = true.
Proof.
  intros W Hu Hc. apply equal_spec_in; auto using wf_parse. split.
  - now rewrite unlimited_parse, Hu.
  - intros v. rewrite abs_parse, string_render; auto using wf_canonical.
    rewrite abs_canonical, parse_render by exact Hc. tauto.
Qed.
