(* Proofs about ocifilter.Sub (Model/Filter.v, Section Sub) for property C13, and the
   refutations of the same statements for the code as it was before the repairs
   (Model/FilterLegacy.v). *)
From Coq Require Import String.
From OCI Require Import Model.FilterLegacy Proofs.FilterSelect.
From OCI Require Import Model.Filter.   (* last: Filter.filter_map, not List.filter_map *)

(* ---------- vocabulary of the statements ---------- *)

(* r is a name under prefix/ : the prefix, a slash, and anything at all *)
Definition under (prefix r : bytes) : Prop := exists n, r = prefix ++ [slash] ++ n.

Definition underb (prefix r : bytes) : bool := has_prefix (prefix ++ [slash]) r.

Lemma underb_under prefix r : underb prefix r = true <-> under prefix r.
Proof.
  unfold underb, under. rewrite has_prefix_spec. split; intros [n ->]; exists n; now rewrite <- app_assoc.
Qed.

(* the start point as the wrapped registry must see it *)
Definition sub_start (prefix start : bytes) : bytes :=
  match start with [] => [] | _ => (prefix ++ [slash]) ++ start end.

(* the one backend operation a call of o is turned into *)
Definition sub_op (prefix : bytes) (o : op) : op :=
  match o with
  | Repositories start => Repositories (sub_start prefix start)
  | _ => map_op_repos (sub_repo prefix) o
  end.

(* the context the backend call is made with: rewritten for every method; an operation on
   a BlobWriter takes no context *)
Definition call_ctx (prefix : bytes) (ctx : scope) (o : op) : scope :=
  match op_method o with Some _ => map_scopes prefix ctx | None => ctx end.

(* what the caller gets from the backend's answer *)
Definition sub_post (prefix : bytes) (o : op) (r : result) : result :=
  match o with
  | Repositories _ => repos_result (cut_prefix (prefix ++ [slash])) r
  | _ => r
  end.

(* ---------- small facts on strings ---------- *)

Lemma bcmp_app p a b : bcmp (p ++ a) (p ++ b) = bcmp a b.
Proof. induction p as [|c p IH]; cbn; [reflexivity|]. now rewrite N.compare_refl. Qed.

Lemma bltb_app p a b : bltb (p ++ a) (p ++ b) = bltb a b.
Proof. unfold bltb. now rewrite bcmp_app. Qed.

Lemma has_prefix_app p n : has_prefix p (p ++ n) = true.
Proof. apply has_prefix_spec. now exists n. Qed.

Lemma skipn_app_exact {A} (p n : list A) : skipn (length p) (p ++ n) = n.
Proof. induction p; cbn; auto. Qed.

Lemma cut_prefix_app p n : cut_prefix p (p ++ n) = Some n.
Proof. unfold cut_prefix. now rewrite has_prefix_app, skipn_app_exact. Qed.

Lemma cut_prefix_some p repo n : cut_prefix p repo = Some n <-> repo = p ++ n.
Proof.
  split.
  - unfold cut_prefix. destruct (has_prefix p repo) eqn:E; [|discriminate].
    apply has_prefix_spec in E as [r ->]. rewrite skipn_app_exact. now intros [= ->].
  - intros ->. apply cut_prefix_app.
Qed.

Lemma cut_prefix_none p repo : cut_prefix p repo = None <-> has_prefix p repo = false.
Proof. unfold cut_prefix. destruct (has_prefix p repo); split; congruence. Qed.

Lemma in_filter_map {A C} (f : A -> option C) l c :
  In c (filter_map f l) <-> exists a, In a l /\ f a = Some c.
Proof.
  induction l as [|a l IH]; cbn.
  - split; [tauto | intros [a [[] _]]].
  - destruct (f a) as [b|] eqn:E; cbn; rewrite IH; split.
    + intros [<-|[a' [Hi Hf]]]; eauto.
    + intros [a' [[<-|Hi] Hf]]; [left; congruence | eauto].
    + intros [a' [Hi Hf]]; eauto.
    + intros [a' [[<-|Hi] Hf]]; [congruence | eauto].
Qed.

(* ---------- every call, characterised ---------- *)

Section SubFacts.
  Context {B : Type}.
  Variable prefix : bytes.
  Variable cbstep : ctx_registry B.

  Let p := prefix ++ [slash].

  (* one backend call per call: the operation with every repository argument (and a
     non-empty start point) given the prefix, under the rewritten context; the backend's
     state and answer are the caller's, a repository listing reduced to the names under
     prefix/ with the prefix removed *)
  Lemma sub_step_spec ctx st o :
    sub_step prefix cbstep ctx st o =
      (fst (cbstep (call_ctx prefix ctx o) st (sub_op prefix o)),
       sub_post prefix o (snd (cbstep (call_ctx prefix ctx o) st (sub_op prefix o))),
       [(call_ctx prefix ctx o, sub_op prefix o)]).
  Proof.
    destruct o; cbn [sub_step sub_op call_ctx op_method sub_post map_op_repos]; unfold sub_call;
      try (destruct (cbstep _ st _) as [st' res]; reflexivity).
    (* Repositories *)
    unfold sub_start. destruct start; cbn [app];
      match goal with |- context [cbstep ?c st ?o] => destruct (cbstep c st o) as [st' res] end;
      reflexivity.
  Qed.

  Lemma sub_step_trace ctx st o :
    snd (sub_step prefix cbstep ctx st o) = [(call_ctx prefix ctx o, sub_op prefix o)].
  Proof. now rewrite sub_step_spec. Qed.

  (* the repositories of the backend call are the caller's, each with the prefix *)
  Lemma sub_op_repos o : op_repos (sub_op prefix o) = map (sub_repo prefix) (op_repos o).
  Proof. destruct o; reflexivity. Qed.

  Lemma sub_repo_under n : under prefix (sub_repo prefix n).
  Proof. now exists n. Qed.

  (* confinement, one call *)
  Lemma sub_names ctx st o c r :
    In c (snd (sub_step prefix cbstep ctx st o)) -> In r (op_repos (snd c)) -> under prefix r.
  Proof.
    rewrite sub_step_trace. intros [<-|[]]. cbn [snd]. rewrite sub_op_repos.
    intros Hr. apply in_map_iff in Hr as [n [<- _]]. apply sub_repo_under.
  Qed.

  (* over histories: the trace is the image of the history *)
  Lemma sub_ttrace ctx h : forall st,
    ttrace (sub_step prefix cbstep ctx) st h = map (fun o => (call_ctx prefix ctx o, sub_op prefix o)) h.
  Proof.
    induction h as [|o h IH]; intros st; [reflexivity|].
    rewrite ttrace_cons, sub_step_trace, IH. reflexivity.
  Qed.

  Lemma sub_names_hist ctx h st c r :
    In c (ttrace (sub_step prefix cbstep ctx) st h) -> In r (op_repos (snd c)) -> under prefix r.
  Proof.
    rewrite sub_ttrace. intros Hc. apply in_map_iff in Hc as [o [<- _]]. cbn [snd].
    rewrite sub_op_repos. intros Hr. apply in_map_iff in Hr as [n [<- _]]. apply sub_repo_under.
  Qed.

  (* the wrapped registry's state is what replaying the trace's operations gives *)
  Lemma sub_state_step ctx st o :
    fst (fst (sub_step prefix cbstep ctx st o)) = fst (cbstep (call_ctx prefix ctx o) st (sub_op prefix o)).
  Proof. now rewrite sub_step_spec. Qed.

  (* ---------- listing ---------- *)

  (* whatever the wrapped registry yields for the (prefixed) start point: the caller gets
     exactly the yielded names under prefix/, stripped, in the same order, then the same
     error if any *)
  Lemma sub_listing_strip ctx st start st' l e :
    cbstep (map_scopes prefix ctx) st (Repositories (sub_start prefix start)) = (st', Ok (RList l e)) ->
    fst (sub_step prefix cbstep ctx st (Repositories start)) = (st', Ok (RList (filter_map (cut_prefix p) l) e)).
  Proof.
    intros H. rewrite sub_step_spec. cbn [call_ctx op_method sub_op sub_post fst]. now rewrite H.
  Qed.

  Lemma stripped_in l n : In n (filter_map (cut_prefix p) l) <-> In (p ++ n) l.
  Proof.
    rewrite in_filter_map. split.
    - intros [a [Hi Hc]]. apply cut_prefix_some in Hc. now subst.
    - intros Hi. exists (p ++ n). split; [exact Hi | apply cut_prefix_app].
  Qed.

  (* cutting at the prefixed start point and then stripping = stripping and then cutting
     at the caller's start point *)
  Lemma strip_after start l :
    filter_map (cut_prefix p) (after (sub_start prefix start) l) = after start (filter_map (cut_prefix p) l).
  Proof.
    destruct start as [|c start]; [reflexivity|].
    assert (Hs : sub_start prefix (c :: start) = p ++ c :: start).
    { reflexivity. }
    rewrite Hs. unfold after. destruct (p ++ c :: start) as [|x0 l0] eqn:Ep.
    { unfold p in Ep. destruct prefix; discriminate. }
    rewrite <- Ep. clear Ep Hs.
    induction l as [|a l IH]; [reflexivity|]. cbn [filter filter_map].
    destruct (cut_prefix p a) as [n|] eqn:Ec.
    - apply cut_prefix_some in Ec. subst a. rewrite bltb_app. cbn [filter].
      destruct (bltb (c :: start) n); cbn [filter_map]; rewrite ?cut_prefix_app, IH; reflexivity.
    - destruct (bltb (p ++ c :: start) a); cbn [filter_map]; rewrite ?Ec; exact IH.
  Qed.

  Lemma after_in start l n : In n (after start l) <-> In n l /\ (start = [] \/ blt start n).
  Proof.
    destruct start as [|c start]; cbn [after].
    - split; [auto | tauto].
    - rewrite filter_In, bltb_lt. split; [intros []; auto | intros [? [?|?]]; [discriminate | auto]].
  Qed.

  (* a wrapped registry that honours the Lister contract as a function: listing from a
     start point is the complete listing cut at the start point (and listing does not
     depend on where it starts in any other way) *)
  Definition lister : Prop :=
    forall c st start,
      cbstep c st (Repositories start) =
        (fst (cbstep c st (Repositories [])), after_result start (snd (cbstep c st (Repositories [])))).

  (* over such a registry whose complete listing is l: the caller gets the names n with
     prefix/n in l that are after its own start point *)
  Lemma sub_listing_from ctx st start st' l e :
    lister ->
    cbstep (map_scopes prefix ctx) st (Repositories []) = (st', Ok (RList l e)) ->
    fst (sub_step prefix cbstep ctx st (Repositories start)) =
      (st', Ok (RList (after start (filter_map (cut_prefix p) l)) e)) /\
    forall n, In n (after start (filter_map (cut_prefix p) l)) <->
              In (prefix ++ [slash] ++ n) l /\ (start = [] \/ blt start n).
  Proof.
    intros HL H. split.
    - rewrite <- strip_after. apply sub_listing_strip. rewrite HL, H. reflexivity.
    - intros n. rewrite after_in, stripped_in. unfold p. now rewrite <- app_assoc.
  Qed.

  (* ---------- Sub = the restricted and stripped registry ---------- *)

  Lemma sub_is_restricted_step ctx st o :
    (forall start, o <> Repositories start) \/ lister ->
    fst (sub_step prefix cbstep ctx st o) = restricted_step prefix cbstep ctx st o.
  Proof.
    intros H. rewrite sub_step_spec. cbn [fst].
    destruct o; cbn [restricted_step call_ctx op_method sub_op sub_post map_op_repos];
      try (fold (sub_repo prefix); destruct (cbstep _ st _); reflexivity).
    (* Repositories *)
    destruct H as [H|HL]; [now destruct (H start)|].
    rewrite HL. cbn [fst snd]. fold p.
    destruct (cbstep (map_scopes prefix ctx) st (Repositories [])) as [st' res]. cbn [fst snd].
    f_equal. destruct res as [[]| | |]; try reflexivity. cbn. now rewrite strip_after.
  Qed.

  Lemma trun_cons_results {C} (step : tstep B C) st o h :
    map fst (snd (trun step st (o :: h))) =
      snd (fst (step st o)) :: map fst (snd (trun step (fst (fst (step st o))) h)).
  Proof.
    cbn [trun]. destruct (step st o) as [[s1 r] t]. cbn [fst snd]. destruct (trun step s1 h). reflexivity.
  Qed.

  (* over every history: same results, same final state of the wrapped registry *)
  Lemma sub_is_restricted ctx h : forall st,
    (Forall (fun o => forall start, o <> Repositories start) h) \/ lister ->
    (fst (trun (sub_step prefix cbstep ctx) st h), map fst (snd (trun (sub_step prefix cbstep ctx) st h))) =
      run (restricted_step prefix cbstep ctx) st h.
  Proof.
    induction h as [|o h IH]; intros st H; [reflexivity|].
    assert (Ho : (forall start, o <> Repositories start) \/ lister).
    { destruct H as [H|H]; [left; now inversion H | now right]. }
    assert (Hh : Forall (fun o => forall start, o <> Repositories start) h \/ lister).
    { destruct H as [H|H]; [left; now inversion H | now right]. }
    rewrite trun_cons_state, trun_cons_results. cbn [run].
    rewrite <- (sub_is_restricted_step ctx st o Ho).
    destruct (sub_step prefix cbstep ctx st o) as [[s1 r] t]. cbn [fst snd].
    specialize (IH s1 Hh). destruct (run (restricted_step prefix cbstep ctx) s1 h) as [s2 rs].
    injection IH as -> ->. reflexivity.
  Qed.
End SubFacts.

(* func Sub: with the empty prefix the registry itself *)
Lemma sub_empty_prefix {B} (cbstep : ctx_registry B) ctx st o :
  sub [] cbstep ctx st o = (fst (cbstep ctx st o), snd (cbstep ctx st o), [(ctx, o)]).
Proof. cbn. destruct (cbstep ctx st o). reflexivity. Qed.

Lemma sub_nonempty_prefix {B} prefix (cbstep : ctx_registry B) ctx :
  prefix <> [] -> sub prefix cbstep ctx = sub_step prefix cbstep ctx.
Proof. destruct prefix; [congruence | reflexivity]. Qed.

(* the names registry of FilterLegacy.v is a lister: the hypothesis is satisfiable *)
Lemma names_registry_lister names : lister (names_registry names).
Proof. intros c st start. cbn. reflexivity. Qed.

(* ---------- scopes ---------- *)

Lemma rs_insert_in a l x : In x (rs_insert a l) <-> x = a \/ In x l.
Proof.
  induction l as [|b l IH]; cbn; [intuition|].
  destruct (rs_compare a b); cbn; rewrite ?IH; intuition.
Qed.

Lemma rs_sort_in l x : In x (rs_sort l) <-> In x l.
Proof.
  induction l as [|a l IH]; cbn; [tauto|]. rewrite rs_insert_in, IH. intuition.
Qed.

Lemma rs_compact_in l x : In x (rs_compact l) <-> In x l.
Proof.
  induction l as [|a l IH]; [tauto|]. destruct l as [|b l]; [tauto|].
  cbn [rs_compact]. destruct (rs_eqb a b) eqn:E.
  - apply rs_eqb_eq in E. subst b. rewrite IH. cbn. intuition.
  - cbn [In] in *. rewrite IH. tauto.
Qed.

Lemma new_scope_in l x : In x (new_scope l) <-> In x l.
Proof. unfold new_scope. now rewrite rs_compact_in, rs_sort_in. Qed.

Section Scopes.
  Variable prefix : bytes.

  (* an unlimited scope stays unlimited; otherwise the members are exactly the images of
     the members: repository scopes get the prefixed name, every other scope is kept *)
  Lemma map_scopes_members l rs' :
    (exists l', map_scopes prefix (ScSet l) = ScSet l' /\
                (In rs' l' <-> exists rs, In rs l /\ rs' = map_rscope prefix rs)).
  Proof.
    destruct l as [|a l].
    - exists []. split; [reflexivity|]. split; [intros [] | intros [rs [[] _]]].
    - eexists. split; [reflexivity|]. rewrite new_scope_in, in_map_iff.
      split; intros [rs [H1 H2]]; exists rs; auto.
  Qed.

  Lemma map_rscope_repository rs :
    rs_type rs = TypeRepository ->
    map_rscope prefix rs = RS (rs_type rs) (sub_repo prefix (rs_resource rs)) (rs_action rs).
  Proof. intros H. unfold map_rscope. now rewrite H, beqb_refl. Qed.

  Lemma map_rscope_other rs : rs_type rs <> TypeRepository -> map_rscope prefix rs = rs.
  Proof. intros H. unfold map_rscope. apply beqb_neq in H. now rewrite H. Qed.

  Lemma map_rscope_type rs : rs_type (map_rscope prefix rs) = rs_type rs.
  Proof. unfold map_rscope. destruct (beqb (rs_type rs) TypeRepository); reflexivity. Qed.

  (* the repository names of the rewritten scope are exactly the prefixed repository
     names of the original one *)
  Lemma map_scopes_repos ctx r :
    In r (scope_repos (map_scopes prefix ctx)) <->
    exists n, In n (scope_repos ctx) /\ r = sub_repo prefix n.
  Proof.
    destruct ctx as [|l]; [cbn; split; [intros [] | intros [n [[] _]]]|].
    destruct (map_scopes_members l (RS [] [] [])) as [l' [El _]]. rewrite El.
    assert (Hm : forall rs', In rs' l' <-> exists rs, In rs l /\ rs' = map_rscope prefix rs).
    { intros rs'. destruct (map_scopes_members l rs') as [l'' [El' H]]. rewrite El in El'.
      injection El' as <-. exact H. }
    cbn [scope_repos]. rewrite !in_map_iff. split.
    - intros [rs' [<- Hf]]. apply filter_In in Hf as [Hi Ht]. apply Hm in Hi as [rs [Hi ->]].
      rewrite map_rscope_type in Ht. exists (rs_resource rs). split.
      + apply in_map_iff. exists rs. split; [reflexivity|]. apply filter_In. auto.
      + apply beqb_eq in Ht. now rewrite (map_rscope_repository rs Ht).
    - intros [n [Hn ->]]. apply in_map_iff in Hn as [rs [<- Hf]]. apply filter_In in Hf as [Hi Ht].
      exists (map_rscope prefix rs). split.
      + apply beqb_eq in Ht. now rewrite (map_rscope_repository rs Ht).
      + apply filter_In. split; [apply Hm; eauto | now rewrite map_rscope_type].
  Qed.

  Lemma map_scopes_repos_under ctx r : In r (scope_repos (map_scopes prefix ctx)) -> under prefix r.
  Proof. intros H. apply map_scopes_repos in H as [n [_ ->]]. now exists n. Qed.

  Lemma map_scopes_unlimited : map_scopes prefix ScUnlimited = ScUnlimited.
  Proof. reflexivity. Qed.
End Scopes.

(* every one of the eighteen methods hands the wrapped registry the rewritten context *)
Lemma sub_scopes {B} prefix (cbstep : ctx_registry B) ctx st o m :
  op_method o = Some m ->
  map fst (snd (sub_step prefix cbstep ctx st o)) = [map_scopes prefix ctx].
Proof. intros H. rewrite sub_step_trace. cbn. unfold call_ctx. now rewrite H. Qed.

(* ... so over every history, every repository scope a method call carries to the wrapped
   registry names a repository under prefix/ *)
Lemma sub_scopes_hist {B} prefix (cbstep : ctx_registry B) ctx h st c r :
  In c (ttrace (sub_step prefix cbstep ctx) st h) -> op_method (snd c) <> None ->
  In r (scope_repos (fst c)) -> under prefix r.
Proof.
  rewrite sub_ttrace. intros Hc. apply in_map_iff in Hc as [o [<- _]]. cbn [fst snd].
  unfold call_ctx. assert (Hm : op_method (sub_op prefix o) = op_method o) by (destruct o; reflexivity).
  rewrite Hm. destruct (op_method o); [|congruence]. intros _. apply map_scopes_repos_under.
Qed.

(* ---------- the code before the repairs ---------- *)

Definition pa : bytes := s "a".

Lemma legacy_repo_dotdot : legacy_repo pa (s "../other") = s "other".
Proof. vm_compute. reflexivity. Qed.
Lemma legacy_repo_dot : legacy_repo pa (s ".") = s "a".
Proof. vm_compute. reflexivity. Qed.
Lemma legacy_repo_b_dotdot : legacy_repo pa (s "b/..") = s "a".
Proof. vm_compute. reflexivity. Qed.
Lemma legacy_repo_empty : legacy_repo pa [] = [].
Proof. reflexivity. Qed.

Lemma legacy_names_refuted :
  exists prefix name, prefix <> [] /\ ~ under prefix (legacy_repo prefix name).
Proof.
  exists pa, (s "../other"). split; [discriminate|]. rewrite <- underb_under. vm_compute. discriminate.
Qed.

(* distinct caller names were one repository *)
Lemma legacy_aliases :
  legacy_repo pa (s "b") = legacy_repo pa (s "b/") /\ legacy_repo pa (s "b") = legacy_repo pa (s "./b")
  /\ legacy_repo pa (s "b") = legacy_repo pa (s "/b") /\ legacy_repo pa (s "b") = legacy_repo pa (s "b//").
Proof. vm_compute. repeat split. Qed.

Lemma legacy_listing_refuted :
  exists names start,
    snd (fst (legacy_repositories pa (names_registry names) (ScSet []) tt start)) <>
      Ok (RList (after start (filter_map (cut_prefix (pa ++ [slash])) names)) None).
Proof. exists [s "a/b"; s "a/c"], (s "b"). vm_compute. discriminate. Qed.

(* the same inputs on the code as it is now *)
Lemma fixed_listing_example :
  snd (fst (sub pa (names_registry [s "a/b"; s "a/c"; s "ab/x"]) (ScSet []) tt (Repositories (s "b")))) =
    Ok (RList [s "c"] None).
Proof. vm_compute. reflexivity. Qed.
