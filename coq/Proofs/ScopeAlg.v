(* Proofs about Model/Scope.v (C09), part 2: the set a scope denotes, Iter, Len, Holds,
   Contains, Union, Equal. *)
From Coq Require Import String.
From OCI Require Import Model.Scope Proofs.Scope.

(* ================================================================== *)
(* 3. Generic facts                                                    *)
(* ================================================================== *)

(* a list that ascends strictly under an irreflexive transitive relation is determined by
   its elements *)
Lemma ssorted_unique_gen {A} (R : A -> A -> Prop) :
  (forall a, ~ R a a) -> (forall a b c, R a b -> R b c -> R a c) ->
  forall l1 l2, StronglySorted R l1 -> StronglySorted R l2 -> (forall v, In v l1 <-> In v l2) -> l1 = l2.
Proof.
  intros Hirr Htr l1 l2 H1. revert l2. induction H1 as [|a l1 Hs1 IH Hf1]; intros l2 H2 Hi.
  - destruct l2 as [|b l2]; auto. exfalso. apply (Hi b). now left.
  - destruct H2 as [|b l2 Hs2 Hf2]; [exfalso; apply (Hi a); now left|].
    rewrite Forall_forall in Hf1, Hf2.
    assert (a = b) as <-.
    { destruct (proj1 (Hi a) (or_introl eq_refl)) as [E|Ha]; auto.
      destruct (proj2 (Hi b) (or_introl eq_refl)) as [E|Hb]; auto.
      exfalso. apply (Hirr a). eapply Htr; eauto. }
    f_equal. apply IH; auto. intros v. split; intros Hv.
    + destruct (proj1 (Hi v) (or_intror Hv)) as [<-|]; auto. exfalso. apply (Hirr a). auto.
    + destruct (proj2 (Hi v) (or_intror Hv)) as [<-|]; auto. exfalso. apply (Hirr a). auto.
Qed.

Lemma combine_map_fst {A B} (a : list A) (b : list B) :
  length a = length b -> map fst (combine a b) = a.
Proof.
  revert b. induction a as [|x a IH]; intros [|y b]; cbn; try discriminate; auto.
  intros H. f_equal. apply IH. lia.
Qed.

Lemma combine_map_snd {A B} (a : list A) (b : list B) :
  length a = length b -> map snd (combine a b) = b.
Proof.
  revert b. induction a as [|x a IH]; intros [|y b]; cbn; try discriminate; auto.
  intros H. f_equal. apply IH. lia.
Qed.

Lemma combine_fst_snd {A B} (l : list (A * B)) : combine (map fst l) (map snd l) = l.
Proof. induction l as [|[a b] l IH]; cbn; auto. now rewrite IH. Qed.

Lemma key_lt_irrefl (a : bytes * N) : ~ key_lt a a.
Proof. apply blt_irrefl. Qed.

Lemma key_lt_trans (a b c : bytes * N) : key_lt a b -> key_lt b c -> key_lt a c.
Proof. apply blt_trans. Qed.

Lemma key_sorted_fst (es : list (bytes * N)) :
  StronglySorted key_lt es <-> StronglySorted blt (map fst es).
Proof. symmetry. apply (ssorted_map blt fst es). Qed.

(* in a key-sorted list a key occurs once *)
Lemma key_sorted_functional es k m1 m2 :
  StronglySorted key_lt es -> In (k, m1) es -> In (k, m2) es -> m1 = m2.
Proof.
  induction 1 as [|e es Hs IH Hf]; [intros []|]. rewrite Forall_forall in Hf.
  intros [->|H1] [E|H2]; auto.
  - congruence.
  - apply Hf in H2. exfalso. now apply blt_irrefl in H2.
  - subst e. apply Hf in H1. exfalso. now apply blt_irrefl in H1.
Qed.

(* ================================================================== *)
(* 4. The entries of a well-formed scope; known_list is ascending      *)
(* ================================================================== *)

Lemma wf_entries_of_wf sc : wf sc -> wf_entries (entries sc).
Proof.
  intros W. split; [|apply (wf_masks _ W)].
  apply key_sorted_fst. unfold entries. rewrite combine_map_fst by apply (wf_len _ W). apply (wf_repos _ W).
Qed.

Lemma entries_fst sc : wf sc -> map fst (entries sc) = repositories sc.
Proof. intros W. apply combine_map_fst, (wf_len _ W). Qed.

Lemma entries_snd sc : wf sc -> map snd (entries sc) = actions sc.
Proof. intros W. apply combine_map_snd, (wf_len _ W). Qed.

Lemma known_key_lt a b :
  is_known a = true -> is_known b = true -> blt (kkey a) (kkey b) -> rs_lt a b.
Proof.
  intros Ha Hb Hl.
  destruct (rs_eqb b CatalogScope) eqn:Eb; [apply rs_eqb_eq in Eb | apply rs_eqb_neq in Eb].
  - subst b. cbn in Hl. now apply not_blt_nil in Hl.
  - destruct (known_repo_facts b Hb Eb) as (B1 & B2 & B3 & _).
    destruct (rs_eqb a CatalogScope) eqn:Ea; [apply rs_eqb_eq in Ea | apply rs_eqb_neq in Ea].
    + subst a. apply rs_cmp_lt_iff. left. rewrite B1. reflexivity.
    + destruct (known_repo_facts a Ha Ea) as (A1 & A2 & A3 & _).
      apply rs_cmp_lt_iff. right. split; [congruence|]. left. now rewrite <- A3, <- B3.
Qed.

Lemma expand_sorted e : mask_ok e -> StronglySorted rs_lt (expand e).
Proof.
  destruct e as [repo m]. intros Hm. unfold expand. cbn [mask_ok] in Hm.
  destruct (beqb repo []); [repeat constructor|].
  destruct Hm as [->|[->| ->]]; cbn; repeat constructor.
  apply rs_cmp_lt_iff. cbn. right. split; auto. right. split; auto. reflexivity.
Qed.

Lemma known_list_sorted es : wf_entries es -> StronglySorted rs_lt (known_list es).
Proof.
  intros [Hs Hm]. induction Hs as [|e es Hs IH Hf]; [constructor|].
  inversion Hm as [|? ? Hme Hmes]; subst. change (known_list (e :: es)) with (expand e ++ known_list es).
  apply ssorted_app. repeat split; auto using expand_sorted.
  intros a b Ha Hb. destruct e as [repo m]. apply in_expand in Ha as (A1 & A2 & _); auto.
  apply in_known_list in Hb as (B1 & m' & B2 & _); auto.
  rewrite Forall_forall in Hf. apply Hf in B2. unfold key_lt in B2. cbn [fst] in B2.
  apply known_key_lt; auto. now rewrite A2.
Qed.

Lemma known_list_cons e es : known_list (e :: es) = expand e ++ known_list es.
Proof. reflexivity. Qed.

Lemma known_list_app a b : known_list (a ++ b) = known_list a ++ known_list b.
Proof. apply flat_map_app. Qed.

(* ================================================================== *)
(* 5. Merging the known scopes with the others                         *)
(* ================================================================== *)

(* the others below r, and the rest *)
Fixpoint lt_pre (r : rscope) (o : list rscope) : list rscope :=
  match o with
  | x :: o' => match rs_cmp x r with Lt => x :: lt_pre r o' | _ => [] end
  | [] => []
  end.

Fixpoint lt_post (r : rscope) (o : list rscope) : list rscope :=
  match o with
  | x :: o' => match rs_cmp x r with Lt => lt_post r o' | _ => o end
  | [] => []
  end.

Fixpoint merge_pre (K O : list rscope) : list rscope :=
  match K with
  | [] => []
  | k :: K' => lt_pre k O ++ k :: merge_pre K' (lt_post k O)
  end.

Fixpoint merge_rest (K O : list rscope) : list rscope :=
  match K with
  | [] => O
  | k :: K' => merge_rest K' (lt_post k O)
  end.

Definition merge_ko (K O : list rscope) : list rscope := merge_pre K O ++ merge_rest K O.

Lemma lt_pre_post r o : lt_pre r o ++ lt_post r o = o.
Proof. induction o as [|x o IH]; cbn; auto. destruct (rs_cmp x r); cbn; auto. now rewrite IH. Qed.

Lemma lt_pre_lt r o v : In v (lt_pre r o) -> rs_lt v r.
Proof.
  induction o as [|x o IH]; cbn; [tauto|]. destruct (rs_cmp x r) eqn:E; cbn; try tauto.
  intros [<-|H]; auto.
Qed.

Lemma lt_post_ge r o v : StronglySorted rs_lt o -> In v (lt_post r o) -> ~ rs_lt v r.
Proof.
  induction 1 as [|x o Hs IH Hf]; cbn; [tauto|]. rewrite Forall_forall in Hf.
  destruct (rs_cmp x r) eqn:E; auto.
  - apply (tc_eq _ rs_cmp_total) in E. subst x. intros [<-|H]; [apply rs_lt_irrefl|].
    intros Hl. apply (rs_lt_irrefl r). eapply rs_lt_trans; eauto.
  - apply (cmp_gt_lt _ rs_cmp_total) in E. intros [<-|H] Hl.
    + apply (rs_lt_irrefl r). eapply rs_lt_trans; eauto.
    + apply (rs_lt_irrefl r). eapply rs_lt_trans; [exact E|]. eapply rs_lt_trans; [apply Hf|]; eauto.
Qed.

Lemma merge_ko_cons k K O : merge_ko (k :: K) O = lt_pre k O ++ k :: merge_ko K (lt_post k O).
Proof. unfold merge_ko. cbn. now rewrite <- app_assoc. Qed.

Lemma merge_ko_In K : forall O v, In v (merge_ko K O) <-> In v K \/ In v O.
Proof.
  induction K as [|k K IH]; intros O v.
  - cbn. tauto.
  - rewrite merge_ko_cons, in_app_iff. cbn [In]. rewrite IH.
    assert (H : In v O <-> In v (lt_pre k O) \/ In v (lt_post k O)) by now rewrite <- in_app_iff, lt_pre_post.
    rewrite H. intuition congruence.
Qed.

Lemma merge_ko_length K : forall O, length (merge_ko K O) = (length K + length O)%nat.
Proof.
  induction K as [|k K IH]; intros O; [reflexivity|].
  rewrite merge_ko_cons, app_length. cbn [length]. rewrite IH.
  assert (H : length O = (length (lt_pre k O) + length (lt_post k O))%nat) by now rewrite <- app_length, lt_pre_post.
  lia.
Qed.

Lemma ssorted_sub_app {A} (R : A -> A -> Prop) l1 l2 :
  StronglySorted R (l1 ++ l2) -> StronglySorted R l1 /\ StronglySorted R l2.
Proof. intros H. apply ssorted_app in H. tauto. Qed.

Lemma merge_ko_sorted K : forall O,
  StronglySorted rs_lt K -> StronglySorted rs_lt O ->
  (forall v, In v K -> In v O -> False) ->
  StronglySorted rs_lt (merge_ko K O).
Proof.
  induction K as [|k K IH]; intros O HK HO Hd; [exact HO|].
  rewrite merge_ko_cons. inversion HK as [|? ? HK' HfK]; subst. rewrite Forall_forall in HfK.
  assert (HO' := HO). rewrite <- (lt_pre_post k O) in HO'. apply ssorted_sub_app in HO' as [Hpre Hpost].
  assert (Hgt : forall v, In v (lt_post k O) -> rs_lt k v).
  { intros v Hv. destruct (lt_total _ rs_cmp_total k v) as [H|[->|H]]; auto.
    - exfalso. apply (Hd v); [now left|]. rewrite <- (lt_pre_post v O). apply in_or_app. now right.
    - exfalso. exact (lt_post_ge k O v HO Hv H). }
  apply ssorted_app. repeat split; auto.
  - constructor.
    + apply IH; auto. intros v Hv1 Hv2. apply (Hd v); [now right|].
      rewrite <- (lt_pre_post k O). apply in_or_app. now right.
    + apply Forall_forall. intros v Hv. apply merge_ko_In in Hv as [Hv|Hv]; auto.
  - intros a b Ha [<-|Hb]; [eapply lt_pre_lt; eauto|].
    apply lt_pre_lt in Ha. eapply rs_lt_trans; [exact Ha|].
    apply merge_ko_In in Hb as [Hb|Hb]; auto.
Qed.

(* ================================================================== *)
(* 6. abs                                                              *)
(* ================================================================== *)

Lemma wf_disjoint sc v : wf sc -> In v (known_list (entries sc)) -> In v (others sc) -> False.
Proof.
  intros W H1 H2. apply known_list_known in H1; [|apply (wf_masks _ W)].
  pose proof (wf_unknown _ W) as Hu. rewrite Forall_forall in Hu. apply Hu in H2. congruence.
Qed.

Lemma abs_sorted sc : StronglySorted rs_lt (abs sc).
Proof.
  unfold abs. destruct (unlimited sc); [constructor|].
  apply (sort_compact_sorted rs_cmp rs_eqb rs_cmp_total rs_eqb_eq).
Qed.

Lemma abs_In sc v :
  In v (abs sc) <-> unlimited sc = false /\ (In v (known_list (entries sc)) \/ In v (others sc)).
Proof.
  unfold abs. destruct (unlimited sc).
  - cbn. split; [tauto | intros [H _]; discriminate].
  - rewrite (sort_compact_In rs_cmp rs_eqb rs_eqb_eq), in_app_iff. tauto.
Qed.

Lemma abs_merge sc :
  wf sc -> unlimited sc = false -> abs sc = merge_ko (known_list (entries sc)) (others sc).
Proof.
  intros W Hu. apply rs_sorted_unique.
  - apply abs_sorted.
  - apply merge_ko_sorted.
    + apply known_list_sorted, wf_entries_of_wf, W.
    + apply (wf_others _ W).
    + intros v. now apply wf_disjoint.
  - intros v. rewrite abs_In, merge_ko_In, Hu. tauto.
Qed.

Lemma abs_unlimited sc : unlimited sc = true -> abs sc = [].
Proof. unfold abs. now intros ->. Qed.

(* abs depends on the representation only *)
Lemma abs_same a b : same_fields a b -> abs a = abs b.
Proof. intros (H1 & H2 & H3 & H4). unfold abs, entries. now rewrite H1, H2, H3, H4. Qed.

(* ================================================================== *)
(* 7. Iter                                                             *)
(* ================================================================== *)

Section IterProofs.
  Context {St : Type} (y : rscope -> St -> St * bool).

  (* hand the items of a list to the consumer until it declines *)
  Fixpoint run (l : list rscope) (st : St) : St * bool :=
    match l with
    | [] => (st, true)
    | r :: l' => let (st1, go) := y r st in if go then run l' st1 else (st1, false)
    end.

  Lemma run_app a b st :
    run (a ++ b) st = let (st1, go) := run a st in if go then run b st1 else (st1, false).
  Proof.
    revert st. induction a as [|r a IH]; intros st; cbn; [now destruct (run b st)|].
    destruct (y r st) as [st1 go]. destruct go; auto.
  Qed.

  Lemma yield_others_spec oth r st :
    let '(st', oth', go) := yield_others y oth r st in
    run (lt_pre r oth) st = (st', go) /\ (go = true -> oth' = lt_post r oth).
  Proof.
    revert st. induction oth as [|o rest IH]; intros st; cbn; auto.
    destruct (rs_cmp o r) eqn:E; cbn; auto.
    destruct (y o st) as [st1 go]. destruct go.
    - apply IH.
    - split; [reflexivity | discriminate].
  Qed.

  Lemma yield_spec oth r st :
    let '(st', oth', go) := yield y oth r st in
    run (lt_pre r oth ++ [r]) st = (st', go) /\ (go = true -> oth' = lt_post r oth).
  Proof.
    unfold yield. pose proof (yield_others_spec oth r st) as H.
    destruct (yield_others y oth r st) as [[st1 oth1] go]. destruct H as [H1 H2].
    rewrite run_app, H1. destruct go.
    - cbn. destruct (y r st1) as [st2 go2]. destruct go2; auto.
    - split; [reflexivity | discriminate].
  Qed.

  (* the known scopes are handed to the closure [yield] one after the other *)
  Fixpoint yield_seq (K : list rscope) (oth : list rscope) (st : St) : St * list rscope * bool :=
    match K with
    | [] => (st, oth, true)
    | k :: K' => let '(st1, oth1, go) := yield y oth k st in
                 if go then yield_seq K' oth1 st1 else (st1, oth1, false)
    end.

  Lemma yield_seq_app a b oth st :
    yield_seq (a ++ b) oth st =
      let '(st1, oth1, go) := yield_seq a oth st in
      if go then yield_seq b oth1 st1 else (st1, oth1, false).
  Proof.
    revert oth st. induction a as [|k a IH]; intros oth st; cbn [app yield_seq].
    - now destruct (yield_seq b oth st) as [[? ?] ?].
    - destruct (yield y oth k st) as [[st1 oth1] go]. destruct go; auto.
  Qed.

  Definition action_items (ks : list N) (repo : bytes) (acts : N) : list rscope :=
    flat_map (fun k => if N.land acts (N.shiftl 1 k) =? 0 then []
                       else [RS TypeRepository repo (known_action_string k)]) ks.

  Lemma iter_actions_seq ks repo acts oth st :
    iter_actions y ks repo acts oth st = yield_seq (action_items ks repo acts) oth st.
  Proof.
    revert oth st. induction ks as [|k ks IH]; intros oth st; cbn [iter_actions action_items flat_map]; auto.
    destruct (N.land acts (N.shiftl 1 k) =? 0); cbn [app]; auto.
    cbn [yield_seq]. destruct (yield y oth _ st) as [[st1 oth1] go]. destruct go; auto.
  Qed.

  Lemma iter_repos_seq es oth st :
    iter_repos y es oth st = yield_seq (known_list es) oth st.
  Proof.
    revert oth st. induction es as [|[repo acts] es IH]; intros oth st; auto.
    rewrite known_list_cons, yield_seq_app. cbn [iter_repos expand].
    destruct (beqb repo []).
    - cbn [yield_seq]. destruct (yield y oth CatalogScope st) as [[st1 oth1] go]. destruct go; auto.
    - rewrite iter_actions_seq. fold (action_items all_actions repo acts).
      destruct (yield_seq (action_items all_actions repo acts) oth st) as [[st1 oth1] go]. destruct go; auto.
  Qed.

  Lemma yield_seq_spec K : forall oth st,
    let '(st', oth', go) := yield_seq K oth st in
    run (merge_pre K oth) st = (st', go) /\ (go = true -> oth' = merge_rest K oth).
  Proof.
    induction K as [|k K IH]; intros oth st; cbn [yield_seq merge_pre merge_rest]; auto.
    pose proof (yield_spec oth k st) as H. destruct (yield y oth k st) as [[st1 oth1] go].
    destruct H as [H1 H2].
    replace (lt_pre k oth ++ k :: merge_pre K (lt_post k oth))
      with ((lt_pre k oth ++ [k]) ++ merge_pre K (lt_post k oth)) by now rewrite <- app_assoc.
    rewrite run_app, H1. destruct go.
    - rewrite <- (H2 eq_refl). apply IH.
    - split; [reflexivity | discriminate].
  Qed.

  Lemma iter_rest_run oth st : iter_rest y oth st = fst (run oth st).
  Proof.
    revert st. induction oth as [|o rest IH]; intros st; cbn; auto.
    destruct (y o st) as [st1 go]. destruct go; auto.
  Qed.

  (* Iter hands the consumer the elements of abs, in that order, until it declines *)
  Lemma iter_run sc st : wf sc -> Iter y sc st = fst (run (abs sc) st).
  Proof.
    intros W. unfold Iter. destruct (unlimited sc) eqn:Hu; [now rewrite abs_unlimited|].
    rewrite (abs_merge sc W Hu), iter_repos_seq. unfold merge_ko.
    pose proof (yield_seq_spec (known_list (entries sc)) (others sc) st) as H.
    destruct (yield_seq (known_list (entries sc)) (others sc) st) as [[st1 oth1] go].
    destruct H as [H1 H2]. rewrite run_app, H1. destruct go; auto.
    rewrite iter_rest_run, (H2 eq_refl). reflexivity.
  Qed.
End IterProofs.

Lemma run_collect l : forall acc, run (fun r acc => (r :: acc, true)) l acc = (rev l ++ acc, true).
Proof.
  induction l as [|r l IH]; intros acc; cbn; auto. rewrite IH. now rewrite <- app_assoc.
Qed.

Lemma iter_list sc : wf sc -> IterList sc = abs sc.
Proof.
  intros W. unfold IterList. rewrite iter_run by auto. rewrite run_collect. cbn.
  now rewrite app_nil_r, rev_involutive.
Qed.

Lemma run_stop n l : forall acc, (length acc <= n)%nat ->
  fst (run (fun r acc => (r :: acc, (length acc <? n)%nat)) l acc) = rev (firstn (S (n - length acc)) l) ++ acc.
Proof.
  induction l as [|r l IH]; intros acc Hle; [reflexivity|].
  cbn [run]. destruct (Nat.ltb_spec (length acc) n) as [Hlt|Hge].
  - rewrite IH by (cbn; lia). cbn [length]. replace (n - length acc)%nat with (S (n - S (length acc))) by lia.
    cbn [firstn rev]. now rewrite <- !app_assoc.
  - replace (n - length acc)%nat with 0%nat by lia. reflexivity.
Qed.

(* a consumer that declines its (n+1)-th item has seen exactly the first n+1 items *)
Lemma iter_stop n sc : wf sc -> IterStop n sc = firstn (S n) (abs sc).
Proof.
  intros W. unfold IterStop. rewrite iter_run by auto. rewrite run_stop by (cbn; lia).
  cbn [length]. now rewrite Nat.sub_0_r, app_nil_r, rev_involutive.
Qed.

Lemma run_never_declines {St} (f : rscope -> St -> St) l : forall st,
  run (fun r st => (f r st, true)) l st = (fold_left (fun st r => f r st) l st, true).
Proof. induction l as [|r l IH]; intros st; cbn; auto. Qed.

(* ================================================================== *)
(* 8. Len                                                              *)
(* ================================================================== *)

Lemma expand_length e : mask_ok e -> length (expand e) = ones_count8 (snd e).
Proof.
  destruct e as [repo m]. unfold expand. cbn [mask_ok snd]. destruct (beqb repo []).
  - intros ->. reflexivity.
  - intros [->|[->| ->]]; reflexivity.
Qed.

Lemma known_list_length es :
  Forall mask_ok es -> forall n, fold_left (fun n b => (n + ones_count8 b)%nat) (map snd es) n = (n + length (known_list es))%nat.
Proof.
  induction 1 as [|e es He Hes IH]; intros n; cbn [map fold_left]; [cbn; lia|].
  rewrite IH, known_list_cons, app_length, expand_length by auto. lia.
Qed.

Lemma len_spec sc : wf sc -> Len sc = if unlimited sc then Panic else Ok (length (abs sc)).
Proof.
  intros W. unfold Len. destruct (unlimited sc) eqn:Hu; auto.
  rewrite (abs_merge sc W Hu), merge_ko_length, <- (entries_snd sc W).
  rewrite known_list_length by apply (wf_masks _ W). f_equal. lia.
Qed.
