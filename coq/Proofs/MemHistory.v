(* C02: the refinement lifted to all histories.
   [refines_upto_fuel] holds for every hash, decoder and validity oracle; [refines] adds the
   hypothesis that digests cannot form a cycle and shows that then no search runs out of
   fuel, so every answer of every history is one the reference registry accepts. *)
From Coq Require Import String Lia.
From OCI Require Import Model.Mem Model.MemSpec Model.MemRel Proofs.MemBasics Proofs.MemInv Proofs.MemSpecFacts
  Proofs.MemReach Proofs.MemRefine Proofs.MemFrame.

Section History.
  Variable hash : bytes -> bytes.
  Variable valid_digest : bytes -> bool.
  Variable valid_repo : bytes -> bool.
  Variable valid_tag : bytes -> bool.
  Variable decode_image : bytes -> option image_manifest.
  Variable decode_index : bytes -> option index_manifest.
  Variable cfg : config.

  Local Notation step := (step hash valid_digest valid_repo valid_tag decode_image decode_index cfg).
  Local Notation sstep := (sstep hash valid_digest valid_repo valid_tag decode_image decode_index cfg).
  Local Notation Inv := (Inv hash decode_image decode_index).

  Lemma result_eq_fuel_dec (r : result) : {r = OutOfFuel} + {r <> OutOfFuel}.
  Proof. destruct r; [right | right | right | left]; congruence. Qed.

  Lemma refines_upto_fuel_from st sp h :
    Rel st sp -> Inv st -> hist_ok_upto_fuel step sstep st sp h.
  Proof.
    revert st sp; induction h as [|o h IH]; intros st sp HR HI; cbn [hist_ok_upto_fuel]; [exact I|].
    destruct (result_eq_fuel_dec (snd (step st o))) as [E1|D1]; [now left|].
    destruct (result_eq_fuel_dec (snd (sstep sp o))) as [E2|D2]; [right; now left|].
    right. right. destruct (sim_step hash valid_digest valid_repo valid_tag decode_image decode_index cfg st sp o HR HI)
      as [HR' Hres]; [intros _; split; assumption|].
    split; [exact Hres|]. apply IH; [exact HR'|]. now apply inv_step.
  Qed.

  Theorem refines_upto_fuel h : hist_ok_upto_fuel step sstep init sinit h.
  Proof. apply refines_upto_fuel_from; [apply rel_init | apply inv_init]. Qed.

  (* ---- no digest cycles among the manifests satisfying P: the searches always answer ---- *)
  Variable P : bytes -> Prop.
  Hypothesis Hacyc : acyclic_on P hash decode_image decode_index.

  (* every stored manifest satisfies P *)
  Definition stored_in (st : state) : Prop := forall r d b, iman st r d = Some b -> P (b_data b).

  Definition pushes_in (o : op) : Prop := forall r t data media, o = PushManifest r t data media -> P data.

  Lemma stored_in_step st o : stored_in st -> pushes_in o -> stored_in (fst (step st o)).
  Proof.
    intros Hs Ho r d b Hb.
    apply (man_origin hash valid_digest valid_repo valid_tag decode_image decode_index cfg) in Hb
      as [Hb|(r' & t & data & media & -> & <-)].
    - eapply Hs; eauto.
    - eapply Ho; eauto.
  Qed.

  Lemma delete_definite st sp o :
    Rel st sp -> Inv st -> stored_in st -> fuelled o = true ->
    definite (snd (step st o)) /\ definite (snd (sstep sp o)).
  Proof.
    intros HR HI HP Hf. destruct Hacyc as [rk Hrk]. unfold definite.
    assert (HM : forall r rp d, get_repo st r = Some rp ->
              tagged_refers_to decode_image decode_index rp d <> OutOfFuel).
    { intros r rp d ER. apply (tagged_refers_to_fuel decode_image decode_index hash P rk Hrk).
      intros x b Hx. split.
      - eapply ok_man; [eapply inv_repo; eauto | exact Hx].
      - apply (HP r x b). unfold iman. now rewrite ER. }
    assert (HS : forall r d, tagged_reaches decode_image decode_index (slog sp) r d <> None).
    { intros r d. apply (tagged_reaches_fuel decode_image decode_index hash P rk Hrk).
      intros m media data Hm. rewrite <- (rel_man _ _ HR) in Hm.
      destruct (iman st r m) as [b|] eqn:E; [|discriminate]. cbn in Hm. injection Hm as <- <-.
      split; [eapply inv_iman; eauto | eapply HP; eauto]. }
    destruct o; try discriminate; cbn [Mem.step MemSpec.sstep]; split.
    - pose proof (blob_for_sim hash decode_image decode_index st sp r d HR HI) as HB.
      destruct (blob_for st r d); try (cbn; discriminate); try contradiction.
      destruct (get_repo st r) as [rp|] eqn:ER; [|cbn; discriminate].
      destruct (immutable_tags cfg); [|cbn; discriminate].
      specialize (HM r rp d ER).
      destruct (tagged_refers_to decode_image decode_index rp d) as [[|]| | |]; cbn; congruence.
    - destruct (sblob (slog sp) r d); [|cbn; discriminate].
      destruct (immutable_tags cfg); [|cbn; discriminate].
      specialize (HS r d).
      destruct (tagged_reaches decode_image decode_index (slog sp) r d) as [[|]|]; cbn; congruence.
    - pose proof (manifest_for_sim hash decode_image decode_index st sp r d HR HI) as HB.
      destruct (manifest_for st r d); try (cbn; discriminate); try contradiction.
      destruct (get_repo st r) as [rp|] eqn:ER; [|cbn; discriminate].
      destruct (immutable_tags cfg); [|cbn; discriminate].
      specialize (HM r rp d ER).
      destruct (tagged_refers_to decode_image decode_index rp d) as [[|]| | |]; cbn; congruence.
    - destruct (sman (slog sp) r d); [|cbn; discriminate].
      destruct (immutable_tags cfg); [|cbn; discriminate].
      specialize (HS r d).
      destruct (tagged_reaches decode_image decode_index (slog sp) r d) as [[|]|]; cbn; congruence.
  Qed.

  Lemma refines_from st sp h :
    Rel st sp -> Inv st -> stored_in st -> Forall pushes_in h -> hist_ok step sstep st sp h.
  Proof.
    revert st sp; induction h as [|o h IH]; intros st sp HR HI HP Hall; cbn [hist_ok]; [exact I|].
    inversion Hall; subst.
    destruct (sim_step hash valid_digest valid_repo valid_tag decode_image decode_index cfg st sp o HR HI)
      as [HR' Hres]; [now apply delete_definite|].
    split; [exact Hres|]. apply IH; [exact HR' | now apply inv_step | now apply stored_in_step | assumption].
  Qed.
End History.

(* the pushed manifests of a history do not form a digest cycle: every answer is accepted *)
Theorem refines hash valid_digest valid_repo valid_tag decode_image decode_index cfg h :
  acyclic_on (pushed_manifest h) hash decode_image decode_index ->
  hist_ok (step hash valid_digest valid_repo valid_tag decode_image decode_index cfg)
          (sstep hash valid_digest valid_repo valid_tag decode_image decode_index cfg) init sinit h.
Proof.
  intros Hac. apply (refines_from hash valid_digest valid_repo valid_tag decode_image decode_index cfg
                                  (pushed_manifest h) Hac).
  - apply rel_init.
  - apply inv_init.
  - intros r d b Hb. discriminate.
  - apply Forall_forall. intros o Ho r t data media ->. exists r, t, media. exact Ho.
Qed.

(* idealised hash: no digest cycles at all *)
Theorem refines_ideal hash valid_digest valid_repo valid_tag decode_image decode_index cfg h :
  acyclic hash decode_image decode_index ->
  hist_ok (step hash valid_digest valid_repo valid_tag decode_image decode_index cfg)
          (sstep hash valid_digest valid_repo valid_tag decode_image decode_index cfg) init sinit h.
Proof.
  intros [rk Hrk]. apply refines. exists rk. intros media data k c _. now apply Hrk.
Qed.

(* the hypothesis is satisfiable: a registry whose digests are the content itself and whose
   index manifests name strictly shorter digests *)
Example acyclic_example :
  acyclic (fun data => data) (fun _ => None)
          (fun data => match data with
                       | [] => None
                       | _ :: rest => Some {| ix_manifests := [{| d_media := MT_INDEX; d_digest := rest; d_size := 1; d_artifact := [] |}];
                                              ix_subject := None |}
                       end).
Proof.
  exists (@length N). intros media data k c _. unfold children.
  destruct (beqb media MT_IMAGE); [intros []|].
  destruct (beqb media MT_INDEX); [|intros []].
  destruct data as [|a rest]; [intros []|]. cbn. intros [E|[]]. injection E as _ <-. lia.
Qed.
