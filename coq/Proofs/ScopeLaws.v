(* Proofs about Model/Scope.v (C09), part 6: the remaining laws of the property, stated on
   the values the exported API can build. *)
From Coq Require Import String.
From OCI Require Import Model.Scope Proofs.Scope Proofs.ScopeAlg Proofs.ScopeOps Proofs.ScopeEval Proofs.ScopeText.

(* ---------- IsEmpty ---------- *)

Lemma isempty_spec sc : wf sc -> (IsEmpty sc = true <-> unlimited sc = false /\ abs sc = []).
Proof.
  intros W. split.
  - intros H. split; [|now apply empty_abs]. unfold IsEmpty in H. apply andb_true_iff in H as [_ H].
    now apply negb_true_iff in H.
  - intros [Hu Ha]. unfold IsEmpty. rewrite Hu. cbn [negb]. rewrite andb_true_r.
    assert (Ho : others sc = []).
    { destruct (others sc) as [|o os] eqn:E; auto. exfalso.
      assert (In o (abs sc)) by (apply abs_In; rewrite E; split; auto; right; now left).
      now rewrite Ha in H. }
    assert (Hr : repositories sc = []).
    { destruct (repositories sc) as [|k ks] eqn:E; auto. exfalso.
      destruct (in_combine_exists (repositories sc) (actions sc) k (wf_len _ W)) as [m Hm]; [rewrite E; now left|].
      fold (entries sc) in Hm. pose proof (wf_masks _ W) as Hf. rewrite Forall_forall in Hf.
      destruct (mask_has_bit _ _ (Hf _ Hm)) as (b & B0 & B1 & B2).
      destruct (mk_known_facts k b B0 B1) as (K1 & K2 & K3).
      assert (In (mk_known k b) (abs sc)).
      { apply known_in_abs; auto. exists m. now rewrite K2, K3. }
      now rewrite Ha in H. }
    now rewrite Hr, Ho.
Qed.

(* ---------- print / parse for every scope that has a text or is clean ---------- *)

Lemma canonical_id sc : original sc = [] -> Canonical sc = sc.
Proof. destruct sc. cbn. now intros ->. Qed.

Lemma reparse sc :
  wf sc -> unlimited sc = false -> clean sc \/ original sc <> [] ->
  Equal (ParseScope (String sc)) sc = true.
Proof.
  intros W Hu H. destruct (original sc) as [|c t] eqn:Eo.
  - destruct H as [H|H]; [|contradiction]. rewrite <- (canonical_id sc Eo) at 1. now apply print_parse.
  - unfold String, IsUnlimited. rewrite Hu, Eo. cbn [beqb negb orb]. rewrite <- Eo.
    apply Equal_same. eapply same_fields_trans; [apply same_fields_with_original|].
    apply same_fields_sym. apply (wf_text _ W). rewrite Eo. discriminate.
Qed.

(* a scope prints as its source text, if it has one *)
Lemma string_original sc : unlimited sc = false -> original sc <> [] -> String sc = original sc.
Proof.
  intros Hu Ho. unfold String, IsUnlimited. rewrite Hu. apply beqb_neq in Ho. now rewrite Ho.
Qed.

(* ---------- the unlimited scope ---------- *)

Lemma unlimited_holds r : Holds UnlimitedScope r = Ok true.
Proof. reflexivity. Qed.

Lemma unlimited_contains sc : Contains UnlimitedScope sc = true.
Proof. reflexivity. Qed.

Lemma unlimited_union_l sc : Union UnlimitedScope sc = UnlimitedScope.
Proof. reflexivity. Qed.

Lemma unlimited_union_r sc : Union sc UnlimitedScope = UnlimitedScope.
Proof. unfold Union, IsUnlimited. now rewrite orb_true_r. Qed.

(* only the unlimited scope contains the unlimited scope *)
Lemma contains_unlimited sc : wf sc -> Contains sc UnlimitedScope = true -> sc = UnlimitedScope.
Proof.
  intros W H. unfold Contains, IsUnlimited in H. destruct (unlimited sc) eqn:Hu; [now apply (wf_unl _ W)|].
  discriminate.
Qed.

(* ---------- repository scopes and the catalog scope ---------- *)

Lemma holds_false sc r : wf sc -> unlimited sc = false -> ~ In r (abs sc) -> Holds sc r = Ok false.
Proof.
  intros W Hu Hn. destruct (holds_spec sc r W) as (b & Hb & Hi). rewrite Hb. destruct b; auto.
  destruct (proj1 Hi eq_refl) as [H|H]; [congruence | contradiction].
Qed.

Lemma holds_true sc r : wf sc -> In r (abs sc) -> Holds sc r = Ok true.
Proof.
  intros W Hn. destruct (holds_spec sc r W) as (b & Hb & Hi). rewrite Hb. destruct b; auto.
  assert (false = true) by (apply Hi; auto). discriminate.
Qed.

(* a scope built from repository scopes only never confers the catalog scope *)
Lemma repository_not_catalog l :
  (forall q, In q l -> rtype q = TypeRepository) -> Holds (NewScope l) CatalogScope = Ok false.
Proof.
  intros H. apply holds_false; auto using wf_new, unlimited_new.
  rewrite abs_new. intros Hi. apply H in Hi. discriminate.
Qed.

(* a scope built from registry scopes only (the catalog scope in particular) never confers a
   repository scope *)
Lemma catalog_not_repository l r :
  (forall q, In q l -> rtype q = TypeRegistry) -> rtype r = TypeRepository -> Holds (NewScope l) r = Ok false.
Proof.
  intros H Hr. apply holds_false; auto using wf_new, unlimited_new.
  rewrite abs_new. intros Hi. apply H in Hi. rewrite Hr in Hi. discriminate.
Qed.

(* the same for every scope the API can build, in terms of the set it denotes *)
Lemma catalog_separation sc :
  wf sc -> unlimited sc = false ->
  (Holds sc CatalogScope = Ok true <-> In CatalogScope (abs sc)) /\
  (forall r, rtype r = TypeRepository -> (Holds sc r = Ok true <-> In r (abs sc))).
Proof.
  intros W Hu.
  assert (H : forall r, Holds sc r = Ok true <-> In r (abs sc)).
  { intros r. destruct (holds_spec sc r W) as (b & Hb & Hi). rewrite Hb. split.
    - intros E. injection E as ->. destruct (proj1 Hi eq_refl); [congruence | auto].
    - intros Hin. f_equal. apply Hi. auto. }
  split; auto.
Qed.

(* ---------- the statements of Props/C09.v that combine several lemmas ---------- *)

Lemma wf_operations :
  (forall l, wf (NewScope l)) /\ (forall t, wf (ParseScope t)) /\ wf UnlimitedScope /\
  (forall s1 s2, wf s1 -> wf s2 -> wf (Union s1 s2)) /\ (forall sc, wf sc -> wf (Canonical sc)).
Proof.
  split; [exact wf_new|]. split; [exact wf_parse|]. split; [exact wf_unlimited|]. split; [|exact wf_canonical].
  intros s1 s2 W1 W2. now apply union_spec.
Qed.

Lemma union_noop_text t s2 : Contains (ParseScope t) s2 = true -> String (Union (ParseScope t) s2) = t.
Proof. intros H. rewrite (union_noop _ _ (wf_parse t) H). apply parse_keeps_text. Qed.

Lemma iter_spec sc :
  wf sc ->
  (forall St (y : rscope -> St -> St * bool) st, Iter y sc st = fst (run y (abs sc) st)) /\
  IterList sc = abs sc /\ StronglySorted rs_lt (IterList sc) /\
  (forall n, IterStop n sc = firstn (S n) (abs sc)).
Proof.
  intros W. split; [intros; now apply iter_run|]. split; [now apply iter_list|].
  split; [rewrite iter_list by auto; apply abs_sorted | intros; now apply iter_stop].
Qed.

Lemma unlimited_top :
  (forall r, Holds UnlimitedScope r = Ok true) /\
  (forall sc, Contains UnlimitedScope sc = true) /\
  (forall sc, Union UnlimitedScope sc = UnlimitedScope /\ Union sc UnlimitedScope = UnlimitedScope) /\
  (forall sc, wf sc -> Contains sc UnlimitedScope = true -> sc = UnlimitedScope).
Proof.
  split; [exact unlimited_holds|]. split; [exact unlimited_contains|]. split; [|exact contains_unlimited].
  intros sc. split; [apply unlimited_union_l | apply unlimited_union_r].
Qed.

Lemma holds_iff_in sc r : wf sc -> unlimited sc = false -> (Holds sc r = Ok true <-> In r (abs sc)).
Proof.
  intros W Hu. destruct (holds_spec sc r W) as (b & Hb & Hi). rewrite Hb. split.
  - intros E. injection E as ->. destruct (proj1 Hi eq_refl); [congruence | auto].
  - intros Hin. f_equal. apply Hi. auto.
Qed.

Lemma catalog_separation_all :
  (forall l, (forall q, In q l -> rtype q = TypeRepository) -> Holds (NewScope l) CatalogScope = Ok false) /\
  (forall l r, (forall q, In q l -> rtype q = TypeRegistry) -> rtype r = TypeRepository ->
               Holds (NewScope l) r = Ok false) /\
  (forall sc r, wf sc -> unlimited sc = false -> (Holds sc r = Ok true <-> In r (abs sc))).
Proof.
  split; [exact repository_not_catalog|]. split; [exact catalog_not_repository | exact holds_iff_in].
Qed.

Lemma contains_order :
  (forall sc, wf sc -> Contains sc sc = true) /\
  (forall a b c, wf a -> wf b -> wf c -> Contains a b = true -> Contains b c = true -> Contains a c = true) /\
  (forall a b, wf a -> wf b -> Contains (Union a b) a = true /\ Contains (Union a b) b = true).
Proof.
  split; [exact contains_refl|]. split; [exact contains_trans|].
  intros a b Wa Wb. split; [now apply contains_union_l | now apply contains_union_r].
Qed.

Definition example_scope : scope :=
  NewScope [RS (s "repository") (s "foo/bar") (s "push"); RS (s "x") (s "y") (s "z");
            RS (s "repository") (s "foo/bar") (s "pull"); CatalogScope;
            RS (s "repository") (s "foo/bar") (s "delete")].

Lemma print_parse_nonvacuous :
  wf example_scope /\ unlimited example_scope = false /\ clean example_scope /\
  List.length (abs example_scope) = 5%nat /\
  String example_scope = s "registry:catalog:* repository:foo/bar:delete,pull,push x:y:z".
Proof. split; [apply wf_new|]. vm_compute. repeat split. Qed.

(* ---------- the finding the fix 8ef16a4 repaired, on the model of the old code ---------- *)
From OCI Require Import Model.ScopeLegacy.

Lemma legacy_separation_refuted :
  exists l, (forall q, In q l -> rtype q = TypeRepository) /\
            Holds_legacy (NewScope_legacy l) CatalogScope = Ok true /\
            Equal (NewScope_legacy l) (NewScope_legacy [CatalogScope]) = true /\
            Holds_legacy (NewScope_legacy [CatalogScope]) (RS TypeRepository [] ActionPull) = Ok true.
Proof.
  exists [RS TypeRepository [] ActionPull]. split; [|vm_compute; auto].
  intros q [<-|[]]. reflexivity.
Qed.
