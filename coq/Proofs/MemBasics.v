(* Basic facts about the store operations of Model/Mem.v: how each in-place update
   changes the three views (blobs, manifests, tags) and the repository table. *)
From Coq Require Import String.
From OCI Require Import Model.Mem.

Lemma get_repo_set_repo st r rp r' :
  get_repo (set_repo st r rp) r' = if beqb r' r then Some rp else get_repo st r'.
Proof. unfold get_repo, set_repo; cbn. apply alookup_aset. Qed.

Lemma get_repo_upd_repo st r f r' :
  get_repo (upd_repo st r f) r' =
  if beqb r' r then option_map f (get_repo st r) else get_repo st r'.
Proof.
  unfold upd_repo. destruct (get_repo st r) eqn:E.
  - rewrite get_repo_set_repo. destruct (beqb r' r); reflexivity.
  - destruct (beqb r' r) eqn:E2; [|reflexivity]. apply beqb_eq in E2. subst. now rewrite E.
Qed.

Lemma bufs_upd_repo st r f : bufs (upd_repo st r f) = bufs st.
Proof. unfold upd_repo. destruct (get_repo st r); reflexivity. Qed.
Lemma next_upd_repo st r f : next_id (upd_repo st r f) = next_id st.
Proof. unfold upd_repo. destruct (get_repo st r); reflexivity. Qed.

Lemma akeys_repos_upd_repo st r f : akeys (repos (upd_repo st r f)) = akeys (repos st).
Proof.
  unfold upd_repo. destruct (get_repo st r) eqn:E; [|reflexivity].
  unfold set_repo; cbn. apply akeys_aset_in. eapply alookup_Some_in. exact E.
Qed.

(* views after an update of one repository *)
Section Views.
  Variables (st : state) (r : bytes) (f : repo -> repo).

  Lemma iblob_upd r' d :
    iblob (upd_repo st r f) r' d =
    if beqb r' r then match get_repo st r with Some rp => alookup d (blobs (f rp)) | None => None end
    else iblob st r' d.
  Proof.
    unfold iblob. rewrite get_repo_upd_repo. destruct (beqb r' r); [|reflexivity].
    destruct (get_repo st r); reflexivity.
  Qed.
  Lemma iman_upd r' d :
    iman (upd_repo st r f) r' d =
    if beqb r' r then match get_repo st r with Some rp => alookup d (manifests (f rp)) | None => None end
    else iman st r' d.
  Proof.
    unfold iman. rewrite get_repo_upd_repo. destruct (beqb r' r); [|reflexivity].
    destruct (get_repo st r); reflexivity.
  Qed.
  Lemma itag_upd r' t :
    itag (upd_repo st r f) r' t =
    if beqb r' r then match get_repo st r with Some rp => alookup t (tags (f rp)) | None => None end
    else itag st r' t.
  Proof.
    unfold itag. rewrite get_repo_upd_repo. destruct (beqb r' r); [|reflexivity].
    destruct (get_repo st r); reflexivity.
  Qed.
End Views.

(* make_repo only adds an empty repository *)
Section MakeRepo.
  Variable valid_repo : bytes -> bool.

  Lemma make_repo_some st r st1 :
    make_repo valid_repo st r = Some st1 ->
    valid_repo r = true /\ get_repo st1 r <> None /\
    bufs st1 = bufs st /\ next_id st1 = next_id st /\
    (forall r', get_repo st1 r' = match get_repo st r' with
                                  | Some rp => Some rp
                                  | None => if beqb r' r then Some empty_repo else None end).
  Proof.
    unfold make_repo. destruct (valid_repo r); [|discriminate]. intros H; injection H as <-.
    split; [reflexivity|]. destruct (get_repo st r) eqn:E.
    - repeat split; try congruence. intros r'. destruct (get_repo st r') eqn:E'; [reflexivity|].
      destruct (beqb r' r) eqn:B; [|reflexivity]. apply beqb_eq in B. subst. congruence.
    - repeat split.
      + rewrite get_repo_set_repo, beqb_refl. discriminate.
      + intros r'. rewrite get_repo_set_repo. destruct (beqb r' r) eqn:B.
        * apply beqb_eq in B. subst. now rewrite E.
        * now destruct (get_repo st r').
  Qed.

  Lemma make_repo_none st r : make_repo valid_repo st r = None <-> valid_repo r = false.
  Proof. unfold make_repo. destruct (valid_repo r); split; congruence. Qed.

  Lemma make_repo_views st r st1 :
    make_repo valid_repo st r = Some st1 ->
    (forall r' d, iblob st1 r' d = iblob st r' d) /\
    (forall r' d, iman st1 r' d = iman st r' d) /\
    (forall r' t, itag st1 r' t = itag st r' t).
  Proof.
    intros H. apply make_repo_some in H as (_ & _ & _ & _ & Hg).
    repeat split; intros r' k; unfold iblob, iman, itag; rewrite Hg;
      destruct (get_repo st r'); try reflexivity; destruct (beqb r' r); reflexivity.
  Qed.

  Lemma make_repo_keys st r st1 :
    make_repo valid_repo st r = Some st1 ->
    NoDup (akeys (repos st)) -> NoDup (akeys (repos st1)).
  Proof.
    unfold make_repo. destruct (valid_repo r); [|discriminate]. intros H; injection H as <-.
    destruct (get_repo st r); [auto|]. unfold set_repo; cbn. apply NoDup_akeys_aset.
  Qed.
End MakeRepo.

Lemma nth_error_upd_nth {A} (l : list A) i j f :
  nth_error (upd_nth i f l) j = if Nat.eqb j i then option_map f (nth_error l j) else nth_error l j.
Proof.
  revert i j; induction l as [|a l IH]; intros i j; cbn.
  - destruct i, j; cbn; try reflexivity; destruct (Nat.eqb j i); reflexivity.
  - destruct i, j; cbn; try reflexivity. apply IH.
Qed.

Lemma length_upd_nth {A} (l : list A) i f : length (upd_nth i f l) = length l.
Proof. revert i; induction l as [|a l IH]; intros [|i]; cbn; auto. Qed.
