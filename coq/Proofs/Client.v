(* Proofs about Model/Http.v and Model/Client.v (C18): for every server, every oracle, every
   call and every configuration the model of ociclient in its current form
     - never panics,
     - sends a bounded number of requests (10 per HTTP exchange, a fixed number of exchanges
       per method, one more page only after a full page),
     - stops after a transport failure,
     - reads at most 8 KiB + 1 of the body of a response that is not a 2xx;
   on a finite script every loop ends. *)
From Coq Require Import String.
From OCI Require Import Base.Outcome Model.Http Model.Client Model.Iface Model.Errors.

Local Open Scope Z_scope.

(* ---------------------------------------------------------------- the log *)

Definition entry_ok (e : entry) : Prop :=
  match en_status e with
  | Some st => is_ok_status st = false -> en_read e <= 8193
  | None => en_read e = 0
  end.

Definition is_none {A} (o : option A) : bool := match o with None => true | Some _ => false end.
Definition is_some {A} (o : option A) : bool := match o with None => false | Some _ => true end.

Lemma add_read_status i n l : map en_status (add_read i n l) = map en_status l.
Proof.
  revert i; induction l as [|e l IH]; intros [|i]; cbn; try reflexivity. now rewrite IH.
Qed.

Lemma add_read_req i n l : map en_req (add_read i n l) = map en_req l.
Proof.
  revert i; induction l as [|e l IH]; intros [|i]; cbn; try reflexivity. now rewrite IH.
Qed.

Lemma add_read_length i n l : length (add_read i n l) = length l.
Proof. rewrite <- (map_length en_status), add_read_status, map_length. reflexivity. Qed.

Lemma add_read_ok i n l e :
  Forall entry_ok l -> nth_error l i = Some e ->
  (exists st, en_status e = Some st /\
              (is_ok_status st = true \/ (en_read e = 0 /\ n <= 8193))) ->
  Forall entry_ok (add_read i n l).
Proof.
  revert i; induction l as [|e0 l IH]; intros [|i] HF Hn Hst; cbn in *; try discriminate.
  - injection Hn as ->. inversion HF as [|? ? H0 HF']; subst. constructor; [|exact HF'].
    destruct Hst as (st & Hs & Hc). unfold entry_ok in *. cbn. rewrite Hs in *.
    intros Hno. destruct Hc as [Hc|[Hz Hb]]; [congruence|]. lia.
  - inversion HF as [|? ? H0 HF']; subst. constructor; [exact H0|]. eapply IH; eauto.
Qed.

Lemma filter_status_same (p : option Z -> bool) (l1 l2 : list entry) :
  map en_status l1 = map en_status l2 ->
  length (filter (fun e => p (en_status e)) l1) = length (filter (fun e => p (en_status e)) l2).
Proof.
  revert l2; induction l1 as [|a l1 IH]; intros [|b l2] H; cbn in *; try discriminate; [reflexivity|].
  injection H as Hab H. rewrite Hab. destruct (p (en_status b)); cbn; now rewrite (IH l2 H).
Qed.

Lemma filter_status_add_read (p : option Z -> bool) i n l :
  length (filter (fun e => p (en_status e)) (add_read i n l)) = length (filter (fun e => p (en_status e)) l).
Proof. apply filter_status_same, add_read_status. Qed.

Section Inv.
  Variable Srv : Type.
  Variable serve : Srv -> hreq -> Srv * option hresp.
  Notation world := (world Srv).

  Definition inv (w : world) : Prop := Forall entry_ok (w_log w).
  Definition shape (w : world) : list (option Z) := map en_status (w_log w).
  Definition nerr (w : world) : nat := length (filter (fun e => is_none (en_status e)) (w_log w)).
  Definition nans (w : world) : nat := length (filter (fun e => is_some (en_status e)) (w_log w)).

  Definition do_read (w : world) (i : nat) (n : Z) : world :=
    {| w_srv := w_srv w; w_log := add_read i n (w_log w) |}.

  (* everything the client does to the world: round trips and reads *)
  Inductive reach : world -> world -> Prop :=
    | reach_refl w : reach w w
    | reach_rt w rq w1 a w' : round_trip serve w rq = (w1, a) -> reach w1 w' -> reach w w'
    | reach_read w i n w' : reach (do_read w i n) w' -> reach w w'.

  Lemma reach_trans a b c : reach a b -> reach b c -> reach a c.
  Proof.
    induction 1; intros H'; [exact H' | eapply reach_rt; eauto | eapply reach_read; eauto].
  Qed.

  Lemma reach_one_read w i n : reach w (do_read w i n).
  Proof. eapply reach_read. apply reach_refl. Qed.

  Lemma round_trip_log w rq w1 a :
    round_trip serve w rq = (w1, a) ->
    w_log w1 = w_log w ++ [{| en_req := rq; en_status := option_map (fun r => status r) a; en_read := 0 |}]
    /\ match a with
       | Some r => hr_idx r = length (w_log w) /\ hr_req r = rq
       | None => True
       end.
  Proof.
    unfold round_trip. destruct (serve (w_srv w) rq) as [s' [rs|]]; intros H; injection H as <- <-; cbn; auto.
  Qed.

  Lemma reach_shape w w' : reach w w' -> exists l, shape w' = shape w ++ l.
  Proof.
    induction 1 as [w | w rq w1 a w' Hrt _ [l IH] | w i n w' _ [l IH]].
    - exists []. now rewrite app_nil_r.
    - apply round_trip_log in Hrt as [Hl _]. unfold shape in *. rewrite IH, Hl, map_app, <- app_assoc.
      eexists. reflexivity.
    - unfold shape in *. cbn in IH. rewrite add_read_status in IH. eauto.
  Qed.

  Lemma reach_nreq w w' : reach w w' -> (nreq w <= nreq w')%nat.
  Proof.
    intros H. apply reach_shape in H as [l H]. unfold nreq.
    rewrite <- (map_length en_status (w_log w')), <- (map_length en_status (w_log w)).
    unfold shape in H. rewrite H, app_length. lia.
  Qed.

  Lemma reach_nans w w' : reach w w' -> (nans w <= nans w')%nat.
  Proof.
    induction 1 as [w | w rq w1 a w' Hrt _ IH | w i n w' _ IH]; [lia| |].
    - apply round_trip_log in Hrt as [Hl _]. unfold nans in *. rewrite Hl, filter_app, app_length in IH. lia.
    - unfold nans in *. cbn in IH. rewrite (filter_status_add_read is_some) in IH. exact IH.
  Qed.

  Lemma reach_nerr w w' : reach w w' -> (nerr w <= nerr w')%nat.
  Proof.
    induction 1 as [w | w rq w1 a w' Hrt _ IH | w i n w' _ IH]; [lia| |].
    - apply round_trip_log in Hrt as [Hl _]. unfold nerr in *. rewrite Hl, filter_app, app_length in IH. lia.
    - unfold nerr in *. cbn in IH. rewrite (filter_status_add_read is_none) in IH. exact IH.
  Qed.

  (* a response handle names an answered entry of the log *)
  Definition valid (r : resp) (w : world) : Prop :=
    nth_error (shape w) (hr_idx r) = Some (Some (status r)).

  Definition fresh (r : resp) (w : world) : Prop :=
    exists e, nth_error (w_log w) (hr_idx r) = Some e /\ en_status e = Some (status r) /\ en_read e = 0.

  Lemma fresh_valid r w : fresh r w -> valid r w.
  Proof.
    intros (e & Hn & Hs & _). unfold valid, shape. rewrite nth_error_map, Hn. cbn. now rewrite Hs.
  Qed.

  Lemma valid_reach r w w' : valid r w -> reach w w' -> valid r w'.
  Proof.
    intros Hv H. apply reach_shape in H as [l H]. unfold valid in *. rewrite H.
    rewrite nth_error_app1; [exact Hv|]. apply nth_error_Some. congruence.
  Qed.

  Lemma valid_entry r w : valid r w ->
    exists e, nth_error (w_log w) (hr_idx r) = Some e /\ en_status e = Some (status r).
  Proof.
    unfold valid, shape. rewrite nth_error_map. destruct (nth_error (w_log w) (hr_idx r)) as [e|]; cbn; [|discriminate].
    intros H. injection H as H. eauto.
  Qed.

  (* reading from a 2xx response, or at most 8193 bytes from an unread one, keeps the invariant *)
  Lemma inv_do_read w r n :
    inv w -> valid r w ->
    (is_ok_status (status r) = true \/ (fresh r w /\ n <= 8193)) ->
    inv (do_read w (hr_idx r) n).
  Proof.
    intros Hi Hv Hc. destruct (valid_entry _ _ Hv) as (e & Hn & Hs).
    unfold inv, do_read; cbn. eapply add_read_ok; eauto.
    exists (status r). split; [exact Hs|]. destruct Hc as [Hc|[(e' & Hn' & _ & Hz) Hb]]; [now left|right].
    rewrite Hn in Hn'. injection Hn' as <-. auto.
  Qed.

  Lemma nerr_do_read w i n : nerr (do_read w i n) = nerr w.
  Proof. unfold nerr, do_read; cbn. apply (filter_status_add_read is_none). Qed.
  Lemma nans_do_read w i n : nans (do_read w i n) = nans w.
  Proof. unfold nans, do_read; cbn. apply (filter_status_add_read is_some). Qed.
  Lemma nreq_do_read w i n : nreq (do_read w i n) = nreq w.
  Proof. unfold nreq, do_read; cbn. apply add_read_length. Qed.

  Lemma firstn_len_le {A} (k : Z) (l : list A) : 0 <= k -> Z.of_nat (length (firstn (Z.to_nat k) l)) <= k.
  Proof. intros Hk. rewrite firstn_length. lia. Qed.

  Lemma read_limited_eq w r limit :
    fst (read_limited w r limit) = do_read w (hr_idx r) (Z.of_nat (length (firstn (Z.to_nat limit) (hr_rest r)))).
  Proof. reflexivity. Qed.

  Lemma read_all_eq w r :
    fst (read_all w r) = do_read w (hr_idx r) (Z.of_nat (length (hr_rest r))).
  Proof. reflexivity. Qed.

  (* ------------------------------------------------------------ one round trip *)

  Lemma filter_app_len {A} (p : A -> bool) l1 l2 :
    length (filter p (l1 ++ l2)) = (length (filter p l1) + length (filter p l2))%nat.
  Proof. rewrite filter_app, app_length. reflexivity. Qed.

  Lemma round_trip_spec w rq w1 a :
    round_trip serve w rq = (w1, a) -> inv w ->
    inv w1 /\ reach w w1 /\ nreq w1 = S (nreq w) /\
    match a with
    | Some r => fresh r w1 /\ nerr w1 = nerr w /\ nans w1 = S (nans w) /\ hr_req r = rq
    | None => nerr w1 = S (nerr w) /\ nans w1 = nans w
    end.
  Proof.
    intros Hrt Hi. pose proof (round_trip_log _ _ _ _ Hrt) as [Hl Ha].
    split; [|split; [|split]].
    - unfold inv. rewrite Hl. apply Forall_app. split; [exact Hi|]. constructor; [|constructor].
      unfold entry_ok; cbn. destruct a; cbn; auto. intros _. lia.
    - eapply reach_rt; [exact Hrt | apply reach_refl].
    - unfold nreq. rewrite Hl, app_length. cbn. lia.
    - unfold nerr, nans. rewrite Hl, !filter_app_len. destruct a as [r|]; cbn.
      + destruct Ha as [Hidx Hreq]. repeat split; try lia; [|exact Hreq].
        eexists. split; [|split]; [rewrite Hl, Hidx, nth_error_app2, Nat.sub_diag; [reflexivity|lia] | reflexivity | reflexivity].
      + split; lia.
  Qed.

  (* ------------------------------------------------------------ http.Client.Do *)

  Variable url_ok : bytes -> bool.

  Lemma slurp_spec w r :
    inv w -> fresh r w ->
    inv (slurp w r) /\ reach w (slurp w r) /\ nreq (slurp w r) = nreq w
    /\ nerr (slurp w r) = nerr w /\ nans (slurp w r) = nans w.
  Proof.
    intros Hi Hf. unfold slurp. destruct (_ || _); [|repeat split; auto; apply reach_refl].
    rewrite read_limited_eq. split; [|split; [apply reach_one_read | rewrite nreq_do_read, nerr_do_read, nans_do_read; auto]].
    apply inv_do_read; auto; [now apply fresh_valid|]. right. split; [exact Hf|].
    pose proof (firstn_len_le max_body_slurp (hr_rest r)). unfold max_body_slurp in *. lia.
  Qed.

  Definition is_resp (d : do_result) : bool := match d with DoResp _ => true | DoErr => false end.

  Lemma do_hops_spec left : forall w ireq req,
    inv w ->
    let '(w', d) := do_hops serve url_ok left w ireq req in
    inv w' /\ reach w w' /\ (nreq w' <= nreq w + left)%nat /\
    (nerr w' <= nerr w + (if is_resp d then 0 else 1))%nat /\
    match d with
    | DoResp r => fresh r w' /\ (nans w < nans w')%nat
    | DoErr => True
    end.
  Proof.
    induction left as [|left IH]; intros w ireq req Hi; cbn [do_hops].
    - repeat split; auto; try lia. apply reach_refl.
    - destruct (round_trip serve w req) as [w1 a] eqn:Hrt.
      pose proof (round_trip_spec _ _ _ _ Hrt Hi) as (Hi1 & Hr1 & Hn1 & Ha).
      destruct a as [r|].
      2:{ destruct Ha as [He Hans]. cbn. repeat split; auto; lia. }
      destruct Ha as (Hf & He & Hans & _).
      assert (Hret : inv w1 /\ reach w w1 /\ (nreq w1 <= nreq w + S left)%nat /\
                     (nerr w1 <= nerr w + 0)%nat /\ (fresh r w1 /\ (nans w < nans w1)%nat)).
      { repeat split; auto; lia. }
      destruct (redirect_behavior (rq_method req) (status r) ireq) as [[m' inc]|]; [|exact Hret].
      destruct (rheader location_hdr r) as [|c0 loc]; [exact Hret|].
      destruct (negb (url_ok (c0 :: loc))); [cbn; repeat split; auto; lia|].
      pose proof (slurp_spec _ _ Hi1 Hf) as (Hi2 & Hr2 & Hn2 & He2 & Ha2).
      destruct left as [|left'].
      { cbn. repeat split; auto; try lia. eapply reach_trans; eauto. }
      match goal with |- context [do_hops serve url_ok (S left') ?w2 ?i ?rq] =>
        specialize (IH w2 i rq Hi2); destruct (do_hops serve url_ok (S left') w2 i rq) as [w' d] end.
      destruct IH as (Hi' & Hr' & Hn' & He' & Hd).
      split; [exact Hi'|]. split; [eapply reach_trans; [exact Hr1|eapply reach_trans; eauto]|].
      split; [lia|]. split; [lia|].
      destruct d; [|exact I]. destruct Hd as [Hf' Hans']. split; [exact Hf'|lia].
  Qed.

  Lemma http_do_spec w req :
    inv w ->
    let '(w', d) := http_do serve url_ok w req in
    inv w' /\ reach w w' /\ (nreq w' <= nreq w + 10)%nat /\
    (nerr w' <= nerr w + (if is_resp d then 0 else 1))%nat /\
    match d with
    | DoResp r => fresh r w' /\ (nans w < nans w')%nat
    | DoErr => True
    end.
  Proof. intros Hi. exact (do_hops_spec 10 w req req Hi). Qed.

End Inv.

Arguments inv {Srv}. Arguments shape {Srv}. Arguments nerr {Srv}. Arguments nans {Srv}.
Arguments do_read {Srv}. Arguments reach {Srv}. Arguments valid {Srv}. Arguments fresh {Srv}.
Arguments do_read : simpl never. Arguments nreq : simpl never. Arguments nerr : simpl never.
Arguments nans : simpl never. Arguments inv : simpl never. Arguments shape : simpl never.

(* ---------------------------------------------------------------- the oracles about digests *)

(* a digest the readers can work with: it has a ":" and its algorithm is available *)
Definition usable (ev : env) (d : bytes) : Prop :=
  exists a r, cut_byte 58%N d = Some (a, r) /\ e_available ev a = true.

(* what go-digest guarantees: Validate accepts only "algorithm:encoded" with an available
   algorithm, and sha256 (digest.Canonical) is available *)
Definition digest_ok (ev : env) : Prop :=
  (forall d, e_valid_digest ev d = true -> usable ev d) /\ e_available ev sha256_name = true.

Definition cnt {A B} (ys : list (A + B)) : Z :=
  Z.of_nat (length (filter (fun y => match y with inl _ => true | inr _ => false end) ys)).

Lemma cnt_app {A B} (a b : list (A + B)) : cnt (a ++ b) = cnt a + cnt b.
Proof. unfold cnt. rewrite filter_app, app_length. lia. Qed.

Lemma cnt_inl {A B} (l : list A) : cnt (map (@inl A B) l) = Z.of_nat (length l).
Proof. unfold cnt. induction l; cbn; [reflexivity|]. cbn in IHl. lia. Qed.

Lemma cnt_nonneg {A B} (l : list (A + B)) : 0 <= cnt l.
Proof. unfold cnt. lia. Qed.


(* ---------------------------------------------------------------- per call bookkeeping *)

(* how many HTTP exchanges (calls of client.do) a call is made of, listings apart *)
Definition exchanges_of (cl : call) : nat :=
  match cl with
  | CGetBlob _ _ _ | CGetBlobRange _ _ _ _ _ | CGetManifest _ _ _ | CGetTag _ _ _
  | CPushBlob _ _ _ _ _ => 2
  | CPushBlobChunked _ _ ops | CPushBlobChunkedResume _ _ _ _ ops => S (length ops)
  | _ => 1
  end.

(* how many operations the caller performs: the call and each operation on its BlobWriter *)
Definition caller_ops_of (cl : call) : nat :=
  match cl with
  | CPushBlobChunked _ _ ops | CPushBlobChunkedResume _ _ _ _ ops => S (length ops)
  | _ => 1
  end.

Definition is_paged (cl : call) : bool :=
  match cl with CRepositories _ _ | CTags _ _ _ => true | _ => false end.

(* the caller reads with a buffer that is not empty *)
Definition bufsz_ok (cl : call) : Prop :=
  match cl with
  | CGetBlob _ _ k | CGetBlobRange _ _ _ _ k | CGetManifest _ _ k | CGetTag _ _ k => (1 <= k)%nat
  | _ => True
  end.

Definition names_yielded (o : outcome) : Z :=
  match o with ONames ys _ => cnt ys | _ => 0 end.

(* what ocirequest.Construct guarantees about a blob request it accepts: the digest is there
   (the empty string is not a valid digest) *)
Definition construct_sane (ev : env) : Prop :=
  forall q, e_construct_ok ev q = true -> q_kind q = ReqBlobGet -> q_digest q <> [].

Definition env_ok (ev : env) : Prop := digest_ok ev /\ construct_sane ev.

Section ClientProofs.
  Variable Srv : Type.
  Variable serve : Srv -> hreq -> Srv * option hresp.
  Variable ev : env.
  Variable c : client.
  Hypothesis Henv : env_ok ev.
  Let Hdig : digest_ok ev := proj1 Henv.
  Let Hcons : construct_sane ev := proj2 Henv.

  Notation world := (world Srv).
  Notation M := (M Srv).
  Notation reach := (reach serve).
  Notation bd := current.

  (* what every step guarantees: nf is the side condition under which it cannot run out of fuel *)
  Definition post {A} (nf : Prop) (k : nat) (w : world) (x : world * R gerr A) (Q : world -> A -> Prop) : Prop :=
    inv (fst x) /\ reach w (fst x) /\ (nreq (fst x) <= nreq w + k)%nat /\
    snd x <> Panic /\ (nf -> snd x <> OutOfFuel) /\
    (nerr (fst x) <= nerr w + (if is_ok (snd x) then 0 else 1))%nat /\
    forall a, snd x = Ok a -> Q (fst x) a.

  Lemma post_weaken {A} nf k k' w (x : world * R gerr A) (Q Q' : world -> A -> Prop) :
    post nf k w x Q -> (k <= k')%nat -> (forall w' a, reach w w' -> Q w' a -> Q' w' a) -> post nf k' w x Q'.
  Proof.
    intros (H1 & H2 & H3 & H4 & H5 & H6 & H7) Hk HQ. unfold post.
    split; [exact H1|]. split; [exact H2|]. split; [lia|]. split; [exact H4|]. split; [exact H5|].
    split; [exact H6|]. intros a Ha. apply HQ; auto.
  Qed.

  Ltac post_split :=
    unfold post; cbn [fst snd]; split; [|split; [|split; [|split; [|split; [|split]]]]].
  Ltac post_easy :=
    try assumption; try apply reach_refl; try (cbn; lia); try discriminate; try (intros; discriminate).

  Lemma post_ret {A} nf w (a : A) (Q : world -> A -> Prop) : inv w -> Q w a -> post nf 0 w (ret Srv a w) Q.
  Proof.
    intros Hi HQ. unfold ret. post_split; post_easy.
    intros a' H. injection H as <-. exact HQ.
  Qed.

  Lemma post_fail {A} nf w (e : gerr) (Q : world -> A -> Prop) : inv w -> post nf 0 w (fail Srv e w) Q.
  Proof. intros Hi. unfold fail. post_split; post_easy. Qed.

  Definition clean {A} (r : R gerr A) : Prop := r <> Panic /\ r <> OutOfFuel.

  Lemma post_lift {A} nf w (r : R gerr A) (Q : world -> A -> Prop) :
    inv w -> clean r -> (forall a, r = Ok a -> Q w a) -> post nf 0 w (lift Srv r w) Q.
  Proof.
    intros Hi [Hp Hf] HQ. unfold lift. post_split; post_easy.
    all: try (intros _; exact Hf).
    all: try (destruct r; cbn; lia).
  Qed.

  Lemma post_bind {A B} nf k1 k2 w (m : M A) (f : A -> M B) (Q1 : world -> A -> Prop) (Q2 : world -> B -> Prop) :
    post nf k1 w (m w) Q1 ->
    (forall w1 a, inv w1 -> reach w w1 -> Q1 w1 a -> post nf k2 w1 (f a w1) Q2) ->
    post nf (k1 + k2) w (bind Srv m f w) Q2.
  Proof.
    intros (H1 & H2 & H3 & H4 & H5 & H6 & H7) Hf. unfold bind.
    destruct (m w) as [w1 r]; cbn [fst snd] in *. destruct r as [a|e| |].
    - destruct (Hf w1 a H1 H2 (H7 a eq_refl)) as (G1 & G2 & G3 & G4 & G5 & G6 & G7).
      cbn in H6. post_split; post_easy. eapply reach_trans; eauto.
    - cbn in H6. post_split; post_easy.
    - congruence.
    - cbn in H6. post_split; post_easy. intros Hn. exfalso. now apply H5.
  Qed.

  (* ------------------------------------------------------------ makeError, do, doRequest *)

  Lemma make_error_fst r w :
    exists n, n <= 8193 /\ fst (Client.make_error Srv ev r w) = do_read w (hr_idx r) n.
  Proof.
    exists (Z.of_nat (length (firstn (Z.to_nat 8193) (hr_rest r)))). split; [|reflexivity].
    apply firstn_len_le. lia.
  Qed.

  Lemma make_error_spec r w :
    inv w -> fresh r w ->
    let w1 := fst (Client.make_error Srv ev r w) in
    inv w1 /\ reach w w1 /\ nreq w1 = nreq w /\ nerr w1 = nerr w /\ nans w1 = nans w.
  Proof.
    intros Hi Hf. destruct (make_error_fst r w) as (n & Hn & E). cbv zeta. rewrite E.
    split; [|split; [apply reach_one_read | rewrite nreq_do_read, nerr_do_read, nans_do_read; auto]].
    apply inv_do_read; auto. now apply fresh_valid.
  Qed.

  Lemma fail_make_error_spec {A} nf r w (Q : world -> A -> Prop) :
    inv w -> fresh r w -> post nf 0 w (fail_make_error Srv ev r w) Q.
  Proof.
    intros Hi Hf. pose proof (make_error_spec r w Hi Hf) as (H1 & H2 & H3 & H4 & H5).
    unfold fail_make_error. destruct (Client.make_error Srv ev r w) as [w1 e]; cbn [fst snd] in *.
    post_split; post_easy.
  Qed.

  Definition all_2xx (oks : list Z) : Prop := Forall (fun st => is_ok_status st = true) oks.

  Lemma status_accepted_2xx oks st : all_2xx oks -> status_accepted oks st = true -> is_ok_status st = true.
  Proof.
    intros H. unfold status_accepted. destruct oks as [|o oks].
    - intros E. apply Z.eqb_eq in E. now subst.
    - intros E. apply existsb_exists in E as (x & Hin & Hx). apply Z.eqb_eq in Hx. subst x.
      eapply Forall_forall in H; eauto.
  Qed.

  (* what the methods know about a response that client.do let through *)
  Definition good_resp (w0 : world) (w : world) (r : resp) : Prop :=
    fresh r w /\ is_ok_status (status r) = true /\ (nans w0 < nans w)%nat.

  Lemma client_do_spec nf req oks w :
    inv w -> all_2xx oks ->
    post nf 10 w (client_do Srv serve ev req oks w) (fun w' r => good_resp w w' r /\ status_accepted oks (status r) = true).
  Proof.
    intros Hi Hok. unfold client_do.
    pose proof (http_do_spec Srv serve (e_url_ok ev) w req Hi) as H.
    destruct (http_do serve (e_url_ok ev) w req) as [w1 d]. destruct H as (H1 & H2 & H3 & H4 & H5).
    destruct d as [r|]; cbn [is_resp] in H4.
    2:{ post_split; post_easy. }
    destruct H5 as [Hf Hans].
    destruct (status_accepted oks (status r)) eqn:Hacc.
    - post_split; post_easy. intros a Ha. injection Ha as <-. repeat split; auto.
      eapply status_accepted_2xx; eauto.
    - destruct (negb (is_ok_status (status r))).
      + pose proof (fail_make_error_spec (A := resp) nf r w1 (fun _ _ => False) H1 Hf) as (G1 & G2 & G3 & G4 & G5 & G6 & G7).
        post_split; post_easy.
        all: try (eapply reach_trans; eauto).
        all: try lia.
        all: try (destruct (snd (fail_make_error Srv ev r w1)); cbn in *; lia).
        all: try (intros a Ha; destruct (G7 a Ha)).
      + post_split; post_easy.
  Qed.

  Lemma new_request_spec nf q w :
    inv w -> post nf 0 w (new_request Srv ev q w) (fun _ _ => e_construct_ok ev q = true).
  Proof.
    intros Hi. unfold new_request. destruct (e_construct_ok ev q) eqn:E; [apply post_ret | apply post_fail]; auto.
  Qed.

  Lemma do_request_spec nf q oks w :
    inv w -> all_2xx oks ->
    post nf 10 w (do_request Srv serve ev q oks w) (fun w' r => good_resp w w' r /\ status_accepted oks (status r) = true).
  Proof.
    intros Hi Hok. unfold do_request.
    change 10%nat with (0 + (10 + 0))%nat.
    eapply post_bind; [apply new_request_spec; auto|].
    intros w1 req Hi1 Hr1 _.
    eapply post_bind; [apply client_do_spec; auto|].
    intros w2 r Hi2 Hr2 [(Hf & H2xx & Hans) Hacc]. rewrite H2xx.
    apply post_ret; auto. split; [|exact Hacc]. repeat split; auto.
    apply (reach_nans Srv serve) in Hr1. lia.
  Qed.

  (* ------------------------------------------------------------ header parsing is total *)

  Ltac break_match :=
    repeat match goal with
           | |- context [match ?x with _ => _ end] => destruct x eqn:?; cbn [rbind]
           end.

  Lemma flatten_clean {A} tag (r : R gerr A) : clean r -> clean (flatten tag r).
  Proof. destruct r; cbn; auto; intros _; split; discriminate. Qed.

  Lemma flatten_ok {A} tag (r : R gerr A) a : flatten tag r = Ok a -> r = Ok a.
  Proof. destruct r; cbn; congruence. Qed.

  Lemma descriptor_clean r known rs rd : clean (descriptor_from_response ev bd r known rs rd).
  Proof.
    unfold descriptor_from_response, clean. cbn [b_known_digest_checked current].
    break_match; split; discriminate.
  Qed.

  (* the digest of a descriptor taken from a response is empty or usable *)
  Lemma descriptor_digest r known rs rd d :
    descriptor_from_response ev bd r known rs rd = Ok d ->
    (d_digest d = [] /\ rd = false /\ known = []) \/ usable ev (d_digest d).
  Proof.
    destruct Hdig as [Hv _].
    unfold descriptor_from_response. cbn [b_known_digest_checked current andb].
    set (size := if rs then _ else _). destruct size as [sz|e| |]; cbn [rbind]; try discriminate.
    set (dh := rheader h_digest r).
    destruct (negb (is_empty dh)) eqn:Hdh.
    - destruct (e_valid_digest ev dh) eqn:Hval; cbn [rbind]; [|discriminate].
      destruct (rd && is_empty dh); [discriminate|]. intros H; injection H as <-. cbn. right. now apply Hv.
    - destruct (negb (is_empty known) && negb (e_valid_digest ev known)) eqn:Hk; cbn [rbind]; [discriminate|].
      destruct (rd && is_empty known) eqn:Hrd; [discriminate|]. intros H; injection H as <-. cbn.
      destruct known as [|k0 known]; cbn in *.
      + left. split; [reflexivity|]. split; [|reflexivity]. now rewrite andb_true_r in Hrd.
      + right. apply Hv. destruct (e_valid_digest ev (k0 :: known)); [reflexivity|discriminate].
  Qed.

  Lemma location_clean r : clean (location_from_response ev r).
  Proof. unfold location_from_response, clean. break_match; split; discriminate. Qed.

  Lemma next_link_clean r q last : clean (next_link ev r q last).
  Proof. unfold next_link, clean. break_match; split; discriminate. Qed.

  (* ------------------------------------------------------------ readers *)

  Lemma new_blob_reader_ok src d v :
    usable ev (d_digest d) ->
    exists br, new_blob_reader ev src d v = Ok br /\ br_src br = src /\ br_desc br = d.
  Proof.
    intros (a & r & Hc & Ha). unfold new_blob_reader, algorithm_of, hash_new. rewrite Hc. cbn [rbind].
    rewrite Ha. cbn [rbind]. eexists. split; [reflexivity|]. split; reflexivity.
  Qed.

  Lemma from_bytes_usable data : usable ev (from_bytes ev data).
  Proof.
    destruct Hdig as [_ Hs]. exists sha256_name, (e_hashhex ev sha256_name data). split; [reflexivity|exact Hs].
  Qed.

  (* a reader's source is a 2xx response of the log, or memory *)
  Definition src_ok (src : source) (w : world) : Prop :=
    match src_idx src with
    | Some i => exists st, nth_error (shape w) i = Some (Some st) /\ is_ok_status st = true
    | None => True
    end.

  Lemma src_ok_reach src w w' : src_ok src w -> reach w w' -> src_ok src w'.
  Proof.
    unfold src_ok. destruct (src_idx src) as [i|]; auto. intros (st & Hn & Hs) H.
    apply reach_shape in H as [l H]. exists st. split; [|exact Hs]. rewrite H.
    rewrite nth_error_app1; [exact Hn|]. apply nth_error_Some. congruence.
  Qed.

  Lemma source_of_ok w0 w r : good_resp w0 w r -> src_ok (source_of r) w.
  Proof.
    intros (Hf & H2 & _). unfold src_ok, source_of; cbn. exists (status r). split; [|exact H2].
    exact (fresh_valid _ _ _ Hf).
  Qed.

  Lemma good_resp_valid w0 w r : good_resp w0 w r -> valid r w.
  Proof. intros (Hf & _). now apply fresh_valid. Qed.

  Definition reader_ok (w : world) (br : blob_reader) : Prop := src_ok (br_src br) w.

  Lemma read_in_memory_spec nf r d w :
    inv w -> valid r w -> is_ok_status (status r) = true ->
    post nf 0 w (read_in_memory Srv ev r d w) reader_ok.
  Proof.
    intros Hi Hv H2. unfold read_in_memory.
    pose proof (read_limited_eq Srv w r (d_size d + 1)) as E.
    destruct (read_limited w r (d_size d + 1)) as [w1 [[data failed] r']]. cbn [fst] in E. subst w1.
    assert (Hi1 : inv (do_read w (hr_idx r) (Z.of_nat (length (firstn (Z.to_nat (d_size d + 1)) (hr_rest r)))))).
    { apply inv_do_read; auto. }
    destruct failed; [post_split; post_easy; try apply reach_one_read; rewrite ?nreq_do_read, ?nerr_do_read; cbn; lia|].
    destruct (negb (blenZ data =? d_size d)); [post_split; post_easy; try apply reach_one_read; rewrite ?nreq_do_read, ?nerr_do_read; cbn; lia|].
    destruct (new_blob_reader_ok {| src_idx := None; src_rest := data; src_fail := false |}
                (with_digest (from_bytes ev data) d) true) as (br & Hbr & Hsrc & _).
    { cbn. apply from_bytes_usable. }
    rewrite Hbr. post_split; post_easy; try apply reach_one_read; rewrite ?nreq_do_read, ?nerr_do_read; try (cbn; lia).
    intros a Ha. injection Ha as <-. unfold reader_ok, src_ok. rewrite Hsrc. cbn. exact I.
  Qed.

  Lemma all_2xx_nil : all_2xx []. Proof. constructor. Qed.
  Lemma all_2xx_of l : forallb is_ok_status l = true -> all_2xx l.
  Proof.
    unfold all_2xx. induction l as [|x l IH]; cbn; [constructor|].
    intros H. apply andb_true_iff in H as [H1 H2]. constructor; auto.
  Qed.

  Lemma new_reader_post nf w src d v :
    inv w -> src_ok src w -> usable ev (d_digest d) ->
    post nf 0 w (lift Srv (new_blob_reader ev src d v) w) reader_ok.
  Proof.
    intros Hi Hs Hu. destruct (new_blob_reader_ok src d v Hu) as (br & Hbr & Hsrc & _). rewrite Hbr.
    apply post_lift; auto; [split; discriminate|]. intros a Ha. injection Ha as <-.
    unfold reader_ok. now rewrite Hsrc.
  Qed.

  Lemma client_read_spec nf q w :
    inv w -> post nf 20 w (client_read Srv serve ev bd q w) reader_ok.
  Proof.
    intros Hi. unfold client_read. change 20%nat with (10 + (0 + 10))%nat.
    eapply post_bind; [apply do_request_spec; auto using all_2xx_nil|].
    intros w1 r Hi1 Hr1 [Hg _].
    eapply post_bind.
    { apply post_lift with (Q := fun _ d => (d_digest d = [] \/ usable ev (d_digest d))); auto.
      - apply flatten_clean, descriptor_clean.
      - intros d Hd. apply flatten_ok in Hd. apply descriptor_digest in Hd as [[Hd _]|Hd]; auto. }
    intros w2 d Hi2 Hr2 Hd. pose proof Hg as (Hfr & H2xx & Hans).
    assert (Hg2 : src_ok (source_of r) w2) by (eapply src_ok_reach; [eapply source_of_ok; eauto|exact Hr2]).
    assert (Hv2 : valid r w2) by (eapply valid_reach; [eapply good_resp_valid; eauto|exact Hr2]).
    destruct (is_empty (d_digest d)) eqn:He.
    - destruct (negb (is_manifest_get (q_kind q))); [eapply post_weaken with (k := 0%nat) (Q := reader_ok); [apply post_fail; auto|lia|auto]|].
      destruct (d_size d <=? in_mem_threshold).
      + eapply post_weaken with (k := 0%nat) (Q := reader_ok); [apply read_in_memory_spec; auto|lia|auto].
      + change 10%nat with (10 + (0 + 0))%nat.
        eapply post_bind; [apply do_request_spec; auto using all_2xx_nil|].
        intros w3 r1 Hi3 Hr3 _.
        eapply post_bind.
        { apply post_lift with (Q := fun _ d => usable ev (d_digest d)); auto.
          - apply descriptor_clean.
          - intros d1 Hd1. apply descriptor_digest in Hd1 as [[_ [Hd1 _]]|Hd1]; [discriminate|auto]. }
        intros w4 d1 Hi4 Hr4 Hd1. apply new_reader_post; auto.
        eapply src_ok_reach; [exact Hg2|]. eapply reach_trans; eauto.
    - destruct Hd as [Hd|Hd]; [rewrite Hd in He; discriminate|].
      eapply post_weaken with (k := 0%nat) (Q := reader_ok); [apply new_reader_post; auto|lia|auto].
  Qed.

  Lemma get_blob_range_spec nf repo dig o0 o1 w :
    inv w -> post nf 20 w (get_blob_range Srv serve ev bd repo dig o0 o1 w) reader_ok.
  Proof.
    intros Hi. unfold get_blob_range, get_blob. destruct ((o0 =? 0) && (o1 <? 0)); [now apply client_read_spec|].
    eapply post_weaken with (k := (0 + (10 + (0 + 0)))%nat) (Q := reader_ok); [|lia|auto].
    eapply post_bind; [apply new_request_spec; auto|]. intros w1 req Hi1 Hr1 Hc.
    eapply post_bind; [apply client_do_spec; auto; apply all_2xx_of; reflexivity|].
    intros w2 r Hi2 Hr2 [Hg _].
    eapply post_bind.
    { apply post_lift with (Q := fun _ d => usable ev (d_digest d)); auto.
      - apply flatten_clean, descriptor_clean.
      - intros d Hd. apply flatten_ok in Hd. apply descriptor_digest in Hd as [(_ & _ & Hk)|Hd]; auto.
        exfalso. eapply (Hcons _ Hc); [reflexivity|exact Hk]. }
    intros w3 d Hi3 Hr3 Hd. apply new_reader_post; auto.
    eapply src_ok_reach; [eapply source_of_ok; eauto|exact Hr3].
  Qed.

  (* ------------------------------------------------------------ reading a blob to the end *)

  Lemma inv_do_read_idx (w : world) i n st :
    inv w -> nth_error (shape w) i = Some (Some st) -> is_ok_status st = true -> inv (do_read w i n).
  Proof.
    intros Hi Hn Hs. unfold shape in Hn. rewrite nth_error_map in Hn.
    destruct (nth_error (w_log w) i) as [e|] eqn:He; cbn in Hn; [|discriminate]. injection Hn as Hn.
    unfold inv, do_read; cbn. eapply add_read_ok; eauto.
  Qed.

  Lemma blob_read_spec br k (w : world) :
    inv w -> src_ok (br_src br) w ->
    let '(w1, (br', data, e)) := blob_read Srv ev br k w in
    inv w1 /\ reach w w1 /\ nreq w1 = nreq w /\ nerr w1 = nerr w /\ src_ok (br_src br') w1 /\
    (e = RdMore -> (1 <= k)%nat -> (length (src_rest (br_src br')) < length (src_rest (br_src br)))%nat).
  Proof.
    intros Hi Hs. unfold blob_read, source_read.
    destruct (src_rest (br_src br)) as [|b0 rest] eqn:Hrest.
    - cbn. repeat split; auto; try apply reach_refl.
      intros H. destruct (src_fail (br_src br)); [discriminate|].
      destruct (negb (br_verify br)); [destruct (_ <? _); discriminate|].
      destruct (negb _); [discriminate|]. destruct (beqb _ _); discriminate.
    - unfold src_ok in Hs. destruct (src_idx (br_src br)) as [i|] eqn:Hidx.
      + destruct Hs as (st & Hn & H2). cbn -[firstn skipn].
        fold (do_read w i (blenZ (firstn k (b0 :: rest)))).
        split; [eapply inv_do_read_idx; eauto|]. split; [apply reach_one_read|].
        rewrite nreq_do_read, nerr_do_read. repeat split; auto.
        * unfold src_ok; cbn -[firstn skipn]. exists st. split; auto.
          unfold shape, do_read; cbn -[firstn skipn]. now rewrite add_read_status.
        * intros _ Hk. cbn -[skipn length]. rewrite skipn_length. change (length (b0 :: rest)) with (S (length rest)). lia.
      + cbn -[firstn skipn length]. repeat split; auto; try apply reach_refl.
        all: try (unfold src_ok; cbn -[firstn skipn]; exact I).
        all: intros _ Hk; rewrite skipn_length; change (length (b0 :: rest)) with (S (length rest)); lia.
  Qed.

  Lemma drain_spec fuel : forall br k acc w,
    inv w -> src_ok (br_src br) w ->
    let '(w1, r) := drain Srv ev fuel br k acc w in
    inv w1 /\ reach w w1 /\ nreq w1 = nreq w /\ nerr w1 = nerr w /\
    (exists x, r = Ok x \/ r = OutOfFuel) /\
    ((1 <= k)%nat -> (length (src_rest (br_src br)) < fuel)%nat -> r <> OutOfFuel).
  Proof.
    induction fuel as [|fuel IH]; intros br k acc w Hi Hs; cbn [drain].
    - repeat split; auto; try apply reach_refl; [exists ([], RdMore); now right | intros; lia].
    - pose proof (blob_read_spec br k w Hi Hs) as H.
      destruct (blob_read Srv ev br k w) as [w1 [[br' data] e]].
      destruct H as (Hi1 & Hr1 & Hn1 & He1 & Hs1 & Hlt).
      destruct e as [| |e].
      + specialize (IH br' k (acc ++ data) w1 Hi1 Hs1).
        destruct (drain Srv ev fuel br' k (acc ++ data) w1) as [w2 r].
        destruct IH as (Hi2 & Hr2 & Hn2 & He2 & Hx & Hf).
        repeat split; auto; try lia; [eapply reach_trans; eauto|].
        intros Hk Hlen. apply Hf; auto. specialize (Hlt eq_refl Hk). lia.
      + repeat split; auto; [eexists; left; reflexivity | discriminate].
      + repeat split; auto; [eexists; left; reflexivity | discriminate].
  Qed.

  Lemma drain_all_spec br k w :
    inv w -> src_ok (br_src br) w ->
    post (1 <= k)%nat 0 w (drain_all Srv ev br k w) (fun _ _ => True).
  Proof.
    intros Hi Hs. unfold drain_all.
    pose proof (drain_spec (S (length (src_rest (br_src br)))) br k [] w Hi Hs) as H.
    destruct (drain Srv ev _ br k [] w) as [w1 r]. destruct H as (Hi1 & Hr1 & Hn1 & He1 & (x & Hx) & Hf).
    post_split; post_easy.
    - destruct Hx as [Hx | Hx]; subst r; [destruct x|]; discriminate.
    - intros Hk. specialize (Hf Hk (Nat.lt_succ_diag_r _)). destruct r as [[? ?]| | |]; try discriminate; congruence.
  Qed.

  Lemma read_and_drain_spec (m : M blob_reader) k kk w :
    inv w -> post (1 <= k)%nat kk w (m w) reader_ok ->
    post (1 <= k)%nat kk w (read_and_drain Srv ev m k w) (fun _ _ => True).
  Proof.
    intros Hi Hm. unfold read_and_drain. replace kk with (kk + 0)%nat by lia.
    eapply post_bind; [exact Hm|]. intros w1 br Hi1 Hr1 Hbr. now apply drain_all_spec.
  Qed.

  (* ------------------------------------------------------------ the one-exchange methods *)

  Lemma resolve_spec nf q w : inv w -> post nf 10 w (resolve Srv serve ev bd q w) (fun _ _ => True).
  Proof.
    intros Hi. unfold resolve. change 10%nat with (10 + 0)%nat.
    eapply post_bind; [apply do_request_spec; auto using all_2xx_nil|].
    intros w1 r Hi1 Hr1 _. apply post_lift; auto. apply flatten_clean, descriptor_clean.
  Qed.

  Lemma delete_spec nf q w : inv w -> post nf 10 w (delete Srv serve ev q w) (fun _ _ => True).
  Proof.
    intros Hi. unfold delete. change 10%nat with (10 + 0)%nat.
    eapply post_bind; [apply do_request_spec; auto; apply all_2xx_of; reflexivity|].
    intros w1 r Hi1 Hr1 _. apply post_ret; auto.
  Qed.

  Lemma push_manifest_spec nf repo tag contents media w :
    inv w -> post nf 10 w (push_manifest Srv serve ev repo tag contents media w) (fun _ _ => True).
  Proof.
    intros Hi. unfold push_manifest.
    destruct (is_empty media); [eapply post_weaken with (k := 0%nat) (Q := fun _ _ => True); [apply post_fail; auto|lia|auto]|].
    change 10%nat with (0 + (10 + 0))%nat.
    eapply post_bind; [apply new_request_spec; auto|]. intros w1 req Hi1 Hr1 _.
    eapply post_bind; [apply client_do_spec; auto; apply all_2xx_of; reflexivity|].
    intros w2 r Hi2 Hr2 _. apply post_ret; auto.
  Qed.

  Lemma mount_blob_spec nf from to dig w :
    inv w -> post nf 10 w (mount_blob Srv serve ev bd from to dig w) (fun _ _ => True).
  Proof.
    intros Hi. unfold mount_blob. change 10%nat with (10 + 0)%nat.
    eapply post_bind; [apply do_request_spec; auto; apply all_2xx_of; reflexivity|].
    intros w1 r Hi1 Hr1 _. destruct (status r =? 202); [apply post_fail; auto|].
    apply post_lift; auto. apply descriptor_clean.
  Qed.

  Lemma push_blob_spec nf repo d present rewindable data w :
    inv w -> post nf 20 w (push_blob Srv serve ev repo d present rewindable data w) (fun _ _ => True).
  Proof.
    intros Hi. unfold push_blob. change 20%nat with (0 + (10 + (0 + (10 + 0))))%nat.
    eapply post_bind; [apply new_request_spec; auto|]. intros w1 req Hi1 Hr1 _.
    eapply post_bind; [apply client_do_spec; auto; apply all_2xx_of; reflexivity|].
    intros w2 r Hi2 Hr2 _.
    eapply post_bind; [apply post_lift with (Q := fun _ _ => True); auto; apply location_clean|].
    intros w3 loc Hi3 Hr3 _.
    assert (Hfail : forall e, post nf (10 + 0) w3 (fail Srv (A := desc) e w3) (fun _ _ => True)).
    { intros e. eapply post_weaken with (k := 0%nat) (Q := fun _ _ => True); [apply post_fail; auto|lia|auto]. }
    destruct (d_size d <? 0); [apply Hfail|].
    destruct ((d_size d =? 0) && present && negb (is_empty data)); [apply Hfail|].
    destruct ((0 <? d_size d) && _); [apply Hfail|].
    destruct ((0 <? d_size d) && _); [apply Hfail|].
    eapply post_bind; [apply client_do_spec; auto; apply all_2xx_of; reflexivity|].
    intros w4 r' Hi4 Hr4 _. apply post_ret; auto.
  Qed.

  (* ------------------------------------------------------------ blobWriter *)

  Lemma flush_spec nf wr buf dig w :
    inv w -> post nf 10 w (flush Srv serve ev wr buf dig w) (fun _ _ => True).
  Proof.
    intros Hi. unfold flush.
    destruct (is_empty dig && _); [eapply post_weaken with (k := 0%nat) (Q := fun _ _ => True); [apply post_ret; auto|lia|auto]|].
    change 10%nat with (10 + (0 + 0))%nat.
    eapply post_bind; [apply client_do_spec; auto; apply all_2xx_of; destruct (negb (is_empty dig)); reflexivity|].
    intros w1 r Hi1 Hr1 _.
    eapply post_bind; [apply post_lift with (Q := fun _ _ => True); auto; apply flatten_clean, location_clean|].
    intros w2 loc Hi2 Hr2 _. apply post_ret; auto.
  Qed.

  Lemma alloc_chunk_ok wr : exists b, alloc_chunk bd wr = Ok b.
  Proof.
    unfold alloc_chunk. destruct (wr_chunk wr); [eauto|]. cbn [b_prealloc_capped current].
    assert (H : max_alloc <? Z.min (wr_chunk_size wr) default_chunk_size = false).
    { apply Z.ltb_ge. unfold max_alloc, default_chunk_size. lia. }
    rewrite H. eauto.
  Qed.

  Notation wres_fuel := wres_out_of_fuel.

  (* every operation on a writer: at most one exchange, at most one transport failure *)
  Definition step_ok (w w1 : world) : Prop :=
    inv w1 /\ reach w w1 /\ (nreq w1 <= nreq w + 10)%nat /\ (nerr w1 <= nerr w + 1)%nat.

  Lemma post_step {A} nf k w (x : world * R gerr A) Q : (k <= 10)%nat -> post nf k w x Q -> step_ok w (fst x).
  Proof.
    intros Hk (H1 & H2 & H3 & H4 & H5 & H6 & H7). repeat split; auto; try lia.
    destruct (is_ok (snd x)); lia.
  Qed.

  Lemma writer_op_spec wr o w :
    inv w ->
    let '(w1, (wr', r)) := writer_op Srv serve ev bd wr o w in
    step_ok w w1 /\ wres_panics r = false /\ wres_fuel r = false.
  Proof.
    intros Hi. assert (Hrefl : step_ok w w) by (repeat split; auto; try lia; apply reach_refl).
    destruct o as [data| |dig| | |]; cbn [writer_op]; try (split; [exact Hrefl|split; reflexivity]).
    - unfold writer_write. destruct (wr_chunk_size wr <? _).
      + pose proof (flush_spec True wr data [] w Hi) as H. pose proof (post_step _ _ _ _ _ (Nat.le_refl _) H) as Hs.
        destruct H as (_ & _ & _ & Hp & Hf & _). destruct (flush Srv serve ev wr data [] w) as [w1 r]; cbn [fst snd] in *.
        destruct r; cbn; try (split; [exact Hs|split; reflexivity]); [congruence | exfalso; now apply Hf].
      + destruct (alloc_chunk_ok wr) as [b ->]. split; [exact Hrefl|split; reflexivity].
    - unfold writer_close. destruct (wr_closed wr).
      + split; [exact Hrefl|]. destruct (wr_close_err wr); split; reflexivity.
      + pose proof (flush_spec True wr [] [] w Hi) as H. pose proof (post_step _ _ _ _ _ (Nat.le_refl _) H) as Hs.
        destruct H as (_ & _ & _ & Hp & Hf & _). destruct (flush Srv serve ev wr [] [] w) as [w1 r]; cbn [fst snd] in *.
        destruct r; cbn; try (split; [exact Hs|split; reflexivity]); [congruence | exfalso; now apply Hf].
    - unfold writer_commit. destruct (is_empty dig); [split; [exact Hrefl|split; reflexivity]|].
      pose proof (flush_spec True wr [] dig w Hi) as H. pose proof (post_step _ _ _ _ _ (Nat.le_refl _) H) as Hs.
      destruct H as (_ & _ & _ & Hp & Hf & _). destruct (flush Srv serve ev wr [] dig w) as [w1 r]; cbn [fst snd] in *.
      destruct r; cbn; try (split; [exact Hs|split; reflexivity]); [congruence | exfalso; now apply Hf].
  Qed.

  Definition wres_clean (r : wres) : Prop := wres_panics r = false /\ wres_fuel r = false.

  Lemma writer_ops_spec ops : forall wr acc w,
    inv w -> Forall wres_clean acc ->
    let '(w1, r) := writer_ops Srv serve ev bd wr ops acc w in
    inv w1 /\ reach w w1 /\ (nreq w1 <= nreq w + 10 * length ops)%nat /\
    (nerr w1 <= nerr w + length ops)%nat /\ r <> Panic /\ r <> OutOfFuel /\
    (forall rs a b, r = Ok (rs, a, b) -> Forall wres_clean rs).
  Proof.
    induction ops as [|o ops IH]; intros wr acc w Hi Hacc; cbn [writer_ops].
    - repeat split; auto; try lia; try discriminate; [apply reach_refl|].
      intros rs a b H; injection H as <- _ _. exact Hacc.
    - pose proof (writer_op_spec wr o w Hi) as H.
      destruct (writer_op Srv serve ev bd wr o w) as [w1 [wr' r]].
      destruct H as ((Hi1 & Hr1 & Hn1 & He1) & Hp & Hf). rewrite Hp.
      assert (Hacc' : Forall wres_clean (acc ++ [r])).
      { apply Forall_app. split; [exact Hacc|]. constructor; [split; assumption|constructor]. }
      specialize (IH wr' (acc ++ [r]) w1 Hi1 Hacc').
      destruct (writer_ops Srv serve ev bd wr' ops (acc ++ [r]) w1) as [w2 r2].
      destruct IH as (Hi2 & Hr2 & Hn2 & He2 & Hp2 & Hf2 & Hcl).
      cbn [length]. repeat split; auto; try lia. eapply reach_trans; eauto.
  Qed.

  Lemma push_blob_chunked_spec nf repo cs w :
    inv w -> post nf 10 w (push_blob_chunked Srv serve ev repo cs w) (fun _ _ => True).
  Proof.
    intros Hi. unfold push_blob_chunked. change 10%nat with (10 + (0 + 0))%nat.
    eapply post_bind; [apply do_request_spec; auto; apply all_2xx_of; reflexivity|].
    intros w1 r Hi1 Hr1 _.
    eapply post_bind; [apply post_lift with (Q := fun _ _ => True); auto; apply location_clean|].
    intros w2 loc Hi2 Hr2 _. apply post_ret; auto.
  Qed.

  Lemma push_blob_chunked_resume_spec nf repo id off cs w :
    inv w -> post nf 10 w (push_blob_chunked_resume Srv serve ev repo id off cs w) (fun _ _ => True).
  Proof.
    intros Hi. unfold push_blob_chunked_resume.
    assert (Hfail : forall e, post nf 10 w (fail Srv (A := writer) e w) (fun _ _ => True)).
    { intros e. eapply post_weaken with (k := 0%nat) (Q := fun _ _ => True); [apply post_fail; auto|lia|auto]. }
    destruct (is_empty id); [apply Hfail|].
    destruct (off =? -1).
    - destruct (negb (e_url_ok ev id)); [apply Hfail|].
      match goal with |- context [client_do Srv serve ev ?rq ?oks w] =>
        pose proof (client_do_spec nf rq oks w Hi (all_2xx_of oks eq_refl)) as H;
        destruct (client_do Srv serve ev rq oks w) as [w1 a] end.
      destruct H as (H1 & H2 & H3 & H4 & H5 & H6 & H7). cbn [fst snd] in *.
      destruct a as [r|e| |]; try congruence.
      + post_split; post_easy.
        * destruct (flatten _ (location_from_response ev r)) eqn:El; cbn [rbind]; try discriminate.
          -- destruct (parse_range _) as [[p0 p1]|]; [destruct (negb (p0 =? 0))|]; discriminate.
          -- pose proof (flatten_clean (s "cannot get location from response") _ (location_clean r)) as [Hc _]. congruence.
        * intros _. destruct (flatten _ (location_from_response ev r)) eqn:El; cbn [rbind]; try discriminate.
          -- destruct (parse_range _) as [[p0 p1]|]; [destruct (negb (p0 =? 0))|]; discriminate.
          -- pose proof (flatten_clean (s "cannot get location from response") _ (location_clean r)) as [_ Hc]. congruence.
        * cbn in H6. match goal with |- context [is_ok ?x] => destruct (is_ok x) end; lia.
      + post_split; post_easy.
      + post_split; post_easy. intros Hn. exfalso. now apply H5.
    - destruct (off <? 0); [apply Hfail|]. destruct (negb (e_url_ok ev id)); [apply Hfail|].
      destruct (negb (e_url_rooted ev id)); [apply Hfail|].
      eapply post_weaken with (k := 0%nat) (Q := fun _ _ => True); [apply post_ret; auto|lia|auto].
  Qed.

  (* ------------------------------------------------------------ listings *)

  Lemma yield_items_all {A} (items : list A) budget ys b :
    yield_items items budget = (ys, b, true) -> ys = items.
  Proof.
    revert budget ys b; induction items as [|it items IH]; intros budget ys b; cbn.
    - intros H; injection H as <- _. reflexivity.
    - destruct budget as [[|n]|].
      + discriminate.
      + destruct (yield_items items (Some n)) as [[ys' b'] cont] eqn:E. intros H; injection H as <- <- ->.
        f_equal. eapply IH; eauto.
      + destruct (yield_items items None) as [[ys' b'] cont] eqn:E. intros H; injection H as <- <- ->.
        f_equal. eapply IH; eauto.
  Qed.

  Lemma last_item_ok items : items <> [] -> exists x, last_item items = Ok x.
  Proof.
    intros H. unfold last_item. destruct (rev items) as [|x r] eqn:E; [|eauto].
    apply (f_equal (@rev _)) in E. rewrite rev_involutive in E. contradiction.
  Qed.

  Lemma parse_names_spec tags r w :
    inv w -> valid r w -> is_ok_status (status r) = true ->
    let '(w1, p) := parse_names Srv ev tags r w in
    inv w1 /\ reach w w1 /\ nreq w1 = nreq w /\ nerr w1 = nerr w /\ nans w1 = nans w /\ clean p.
  Proof.
    intros Hi Hv H2. unfold parse_names.
    pose proof (read_all_eq Srv w r) as E. destruct (read_all w r) as [w1 [data failed]]. cbn [fst] in E. subst w1.
    split; [apply inv_do_read; auto|]. split; [apply reach_one_read|].
    rewrite nreq_do_read, nerr_do_read, nans_do_read. repeat split; auto;
      destruct failed; try discriminate; destruct (e_json_names ev tags data); discriminate.
  Qed.

  Section Pager.
    Variable tags : bool.
    Variable initial : rreq.
    Hypothesis Hn : 1 <= q_n initial.

    Lemma pager_loop_spec fuel : forall req budget acc w,
      inv w ->
      let '(w', (ys, e)) := pager_loop Srv serve ev fuel tags initial req budget acc w in
      inv w' /\ reach w w' /\ e <> PPanic /\ (nerr w' <= nerr w + 1)%nat /\
      (exists j, 0 <= j /\ Z.of_nat (nreq w') <= Z.of_nat (nreq w) + 10 * j /\
                 (j - 1) * q_n initial <= cnt ys - cnt acc) /\
      cnt acc <= cnt ys /\
      (e = PFuel -> (nans w + fuel <= nans w')%nat).
    Proof.
      induction fuel as [|fuel IH]; intros req budget acc w Hi; cbn [pager_loop].
      - repeat split; auto; try lia; try discriminate; try apply reach_refl.
        exists 0. repeat split; lia.
      - pose proof (client_do_spec True req [] w Hi all_2xx_nil) as H.
        destruct (client_do Srv serve ev req [] w) as [w1 a]. destruct H as (H1 & H2 & H3 & H4 & H5 & H6 & H7).
        cbn [fst snd] in *.
        assert (Hstop : forall (ys' : list (bytes + gerr)) (w' : world),
                   inv w' -> reach w w' -> nreq w' = nreq w1 -> (nerr w' <= nerr w + 1)%nat -> cnt acc <= cnt ys' ->
                   inv w' /\ reach w w' /\ PDone <> PPanic /\ (nerr w' <= nerr w + 1)%nat /\
                   (exists j, 0 <= j /\ Z.of_nat (nreq w') <= Z.of_nat (nreq w) + 10 * j /\
                              (j - 1) * q_n initial <= cnt ys' - cnt acc) /\
                   cnt acc <= cnt ys' /\ (PDone = PFuel -> (nans w + S fuel <= nans w')%nat)).
        { intros ys' w' Hi' Hr' Hn' He' Hc. repeat split; auto; try discriminate.
          exists 1. repeat split; lia. }
        cbn [is_ok] in H6.
        destruct a as [r|e| |]; [|apply Hstop; auto; try lia; rewrite cnt_app; cbn; lia| congruence | exfalso; now apply H5].
        destruct (H7 r eq_refl) as [(Hf & H2xx & Hans) _]. cbn in H6.
        pose proof (parse_names_spec tags r w1 H1 (fresh_valid _ _ _ Hf) H2xx) as Hp.
        destruct (parse_names Srv ev tags r w1) as [w2 p]. destruct Hp as (Hi2 & Hr2 & Hn2 & He2 & Ha2 & Hc2 & Hc2').
        assert (Hr02 : reach w w2) by (eapply reach_trans; eauto).
        destruct p as [items|e| |]; [|apply Hstop; auto; try lia; rewrite cnt_app; cbn; lia| congruence | congruence].
        destruct (yield_items items budget) as [[ys budget'] cont] eqn:Ey.
        assert (Hacc' : cnt acc <= cnt (acc ++ map inl ys)) by (rewrite cnt_app; pose proof (cnt_nonneg (map (@inl bytes gerr) ys)); lia).
        destruct (negb cont) eqn:Hcont; [apply Hstop; auto; try lia|].
        destruct (Z.of_nat (length items) <? q_n initial) eqn:Hshort; [apply Hstop; auto; try lia|].
        apply Z.ltb_ge in Hshort.
        destruct cont; [|discriminate]. apply yield_items_all in Ey. subst ys.
        destruct (last_item_ok items) as [last Hlast].
        { intros ->. cbn in Hshort. lia. }
        rewrite Hlast.
        pose proof (next_link_clean r initial last) as [Hnl1 Hnl2].
        destruct (next_link ev r initial last) as [req'|e| |]; [| |congruence|congruence].
        + specialize (IH req' budget' (acc ++ map inl items) w2 Hi2).
          destruct (pager_loop Srv serve ev fuel tags initial req' budget' (acc ++ map inl items) w2) as [w' [ys e]].
          destruct IH as (Hi' & Hr' & Hp' & He' & (j & Hj0 & Hj1 & Hj2) & Hc' & Hf').
          rewrite cnt_app, cnt_inl in *.
          split; [exact Hi'|]. split; [eapply reach_trans; eauto|]. split; [exact Hp'|]. split; [lia|].
          split; [|split; [lia|intros Hpf; specialize (Hf' Hpf); lia]].
          exists (j + 1). split; [lia|]. split; [lia|]. nia.
        + apply Hstop; auto; try lia. rewrite !cnt_app, cnt_inl. cbn. lia.
    Qed.

  End Pager.

  Hypothesis Hpage : 1 <= c_page_size c.

  Lemma pager_spec fuel tags k repo dig start budget w :
    inv w ->
    let '(w', (ys, e)) := pager Srv serve ev fuel tags (list_rreq c k repo dig start) budget w in
    inv w' /\ reach w w' /\ e <> PPanic /\ (nerr w' <= nerr w + 1)%nat /\
    (exists j, 0 <= j /\ Z.of_nat (nreq w') <= Z.of_nat (nreq w) + 10 * j /\ (j - 1) * c_page_size c <= cnt ys) /\
    (e = PFuel -> (nans w + fuel <= nans w')%nat).
  Proof.
    intros Hi. unfold pager. destruct (e_construct_ok ev _).
    - match goal with |- context [pager_loop Srv serve ev fuel tags ?i ?rq budget [] w] =>
        pose proof (pager_loop_spec tags i Hpage fuel rq budget [] w Hi) as H;
        destruct (pager_loop Srv serve ev fuel tags i rq budget [] w) as [w' [ys e]] end.
      destruct H as (H1 & H2 & H3 & H4 & (j & Hj0 & Hj1 & Hj2) & H5 & H6).
      repeat split; auto. exists j. change (q_n (list_rreq c k repo dig start)) with (c_page_size c) in Hj2.
      change (cnt (@nil (bytes + gerr))) with 0 in Hj2. repeat split; auto; lia.
    - repeat split; auto; try lia; try discriminate; try apply reach_refl.
      exists 0. repeat split; try lia. unfold cnt. cbn [filter length Z.of_nat]. lia.
  Qed.

  Lemma referrers_spec repo dig art budget w :
    inv w ->
    let '(w', (ys, e)) := referrers Srv serve ev c repo dig art budget w in
    inv w' /\ reach w w' /\ e = PDone /\ (nerr w' <= nerr w + 1)%nat /\ (nreq w' <= nreq w + 10)%nat.
  Proof.
    intros Hi. unfold referrers.
    pose proof (do_request_spec True (list_rreq c ReqReferrersList repo dig []) [] w Hi all_2xx_nil) as H.
    destruct (do_request Srv serve ev _ [] w) as [w1 a]. destruct H as (H1 & H2 & H3 & H4 & H5 & H6 & H7).
    cbn [fst snd] in *.
    destruct a as [r|e| |]; [|cbn in H6; repeat split; auto|congruence|exfalso; now apply H5].
    destruct (H7 r eq_refl) as [(Hf & H2xx & Hans) _]. cbn in H6.
    pose proof (read_all_eq Srv w1 r) as E. destruct (read_all w1 r) as [w2 [data failed]]. cbn [fst] in E. subst w2.
    assert (Hi2 : inv (do_read w1 (hr_idx r) (Z.of_nat (length (hr_rest r))))).
    { apply inv_do_read; auto. now apply fresh_valid. }
    assert (Hr2 : reach w (do_read w1 (hr_idx r) (Z.of_nat (length (hr_rest r))))).
    { eapply reach_trans; [exact H2|apply reach_one_read]. }
    destruct failed; [|destruct (e_json_index ev data) as [ms|]; [destruct (yield_items ms budget) as [[ys ?] ?]|]];
      rewrite <- ?(nreq_do_read Srv w1 (hr_idx r) (Z.of_nat (length (hr_rest r)))) in H3;
      rewrite <- ?(nerr_do_read Srv w1 (hr_idx r) (Z.of_nat (length (hr_rest r)))) in H6;
      repeat split; auto; lia.
  Qed.

  (* ------------------------------------------------------------ every call *)

  Lemma post_final {A} nf k w (x : world * R gerr A) Q :
    post nf k w x Q ->
    inv (fst x) /\ reach w (fst x) /\ is_panic (snd x) = false /\ (nerr (fst x) <= nerr w + 1)%nat /\
    (nreq (fst x) <= nreq w + k)%nat /\ (snd x = OutOfFuel -> ~ nf).
  Proof.
    intros (H1 & H2 & H3 & H4 & H5 & H6 & H7). repeat split; auto.
    - destruct (snd x); try reflexivity. congruence.
    - destruct (is_ok (snd x)); lia.
    - intros E Hnf. now apply H5.
  Qed.

  Lemma clean_no_panic rs : Forall wres_clean rs -> existsb wres_panics rs = false /\ existsb wres_fuel rs = false.
  Proof.
    induction 1 as [|r rs [H1 H2] _ [IH1 IH2]]; cbn; [auto|]. rewrite H1, H2, IH1, IH2. auto.
  Qed.

  Lemma with_writer_spec (m : M writer) ops w :
    inv w -> post True 10 w (m w) (fun _ _ => True) ->
    let '(w', r) := with_writer Srv serve ev bd m ops w in
    inv w' /\ reach w w' /\ outcome_panics (OWriter r) = false /\ (nerr w' <= nerr w + S (length ops))%nat /\
    (nreq w' <= nreq w + 10 * S (length ops))%nat /\ outcome_out_of_fuel (OWriter r) = false.
  Proof.
    intros Hi (H1 & H2 & H3 & H4 & H5 & H6 & H7). unfold with_writer, bind.
    destruct (m w) as [w1 a]; cbn [fst snd] in *.
    destruct a as [wr|e| |]; cbn [is_ok] in H6.
    - pose proof (writer_ops_spec ops wr [] w1 H1 (Forall_nil _)) as H.
      destruct (writer_ops Srv serve ev bd wr ops [] w1) as [w2 r].
      destruct H as (G1 & G2 & G3 & G4 & G5 & G6 & G7).
      assert (Hcl : outcome_panics (OWriter r) = false /\ outcome_out_of_fuel (OWriter r) = false).
      { destruct r as [[[rs a] b]|e| |]; cbn; try congruence; auto.
        apply clean_no_panic. eapply G7; reflexivity. }
      destruct Hcl. repeat split; auto; try lia. eapply reach_trans; eauto.
    - repeat split; auto; try lia.
    - congruence.
    - exfalso. now apply H5.
  Qed.

  Definition run_ok (fuel : nat) (cl : call) (w w' : world) (o : outcome) : Prop :=
    inv w' /\ reach w w' /\ outcome_panics o = false /\
    (nerr w' <= nerr w + caller_ops_of cl)%nat /\
    (exists j, 0 <= j /\ Z.of_nat (nreq w') <= Z.of_nat (nreq w) + 10 * j /\
               if is_paged cl then (j - 1) * c_page_size c <= names_yielded o
               else j <= Z.of_nat (exchanges_of cl)) /\
    (outcome_out_of_fuel o = true ->
     (is_paged cl = true /\ (nans w + fuel <= nans w')%nat) \/ ~ bufsz_ok cl).

  Lemma run_ok_of_post {A} nf k fuel cl w (x : world * R gerr A) Q (mk : R gerr A -> outcome) :
    post nf k w x Q ->
    (forall r, outcome_panics (mk r) = is_panic r) ->
    (forall r, outcome_out_of_fuel (mk r) = true -> r = OutOfFuel) ->
    is_paged cl = false -> (k <= 10 * exchanges_of cl)%nat -> (1 <= caller_ops_of cl)%nat ->
    (nf <-> bufsz_ok cl) ->
    run_ok fuel cl w (fst x) (mk (snd x)).
  Proof.
    intros Hp Hmk1 Hmk2 Hpg Hk Hops Hnf. apply post_final in Hp as (H1 & H2 & H3 & H4 & H5 & H6).
    unfold run_ok. rewrite Hpg, Hmk1. repeat split; auto; try lia.
    - exists (Z.of_nat (exchanges_of cl)). repeat split; lia.
    - intros E. right. apply Hmk2 in E. intros Hb. apply (H6 E). now apply Hnf.
  Qed.

  Lemma run_ok_let {A} fuel cl w (x : world * R gerr A) (mk : R gerr A -> outcome) :
    run_ok fuel cl w (fst x) (mk (snd x)) ->
    run_ok fuel cl w (fst (let '(w1, r) := x in (w1, mk r))) (snd (let '(w1, r) := x in (w1, mk r))).
  Proof. destruct x; auto. Qed.

  Lemma run_ok_writer fuel cl ops (m : M writer) w :
    inv w -> post True 10 w (m w) (fun _ _ => True) ->
    is_paged cl = false -> caller_ops_of cl = S (length ops) -> exchanges_of cl = S (length ops) ->
    run_ok fuel cl w (fst (let '(w1, r) := with_writer Srv serve ev bd m ops w in (w1, OWriter r)))
                     (snd (let '(w1, r) := with_writer Srv serve ev bd m ops w in (w1, OWriter r))).
  Proof.
    intros Hi Hm Hpg Hops Hex. pose proof (with_writer_spec m ops w Hi Hm) as H.
    destruct (with_writer Srv serve ev bd m ops w) as [w1 r]. destruct H as (H1 & H2 & H3 & H4 & H5 & H6).
    cbn [fst snd]. unfold run_ok. rewrite Hpg, Hops, Hex.
    repeat split; auto.
    - exists (Z.of_nat (S (length ops))). repeat split; lia.
    - intros E. congruence.
  Qed.

  Lemma run_ok_pager fuel cl tg k repo dig start budget w :
    inv w -> is_paged cl = true -> caller_ops_of cl = 1%nat ->
    run_ok fuel cl w
      (fst (let '(w1, (ys, e)) := pager Srv serve ev fuel tg (list_rreq c k repo dig start) budget w in (w1, ONames ys e)))
      (snd (let '(w1, (ys, e)) := pager Srv serve ev fuel tg (list_rreq c k repo dig start) budget w in (w1, ONames ys e))).
  Proof.
    intros Hi Hpg Hops. pose proof (pager_spec fuel tg k repo dig start budget w Hi) as H.
    destruct (pager Srv serve ev fuel tg _ budget w) as [w1 [ys e]].
    destruct H as (H1 & H2 & H3 & H4 & (j & Hj0 & Hj1 & Hj2) & H6).
    cbn [fst snd]. unfold run_ok. rewrite Hpg, Hops. cbn [outcome_panics names_yielded].
    repeat split; auto.
    - destruct e; try reflexivity. congruence.
    - exists j. repeat split; auto.
    - intros E. left. split; [reflexivity|]. apply H6. destruct e; cbn in E; congruence.
  Qed.

  Theorem run_spec fuel cl w :
    inv w ->
    run_ok fuel cl w (fst (Client.run Srv serve ev bd c fuel cl w)) (snd (Client.run Srv serve ev bd c fuel cl w)).
  Proof.
    intros Hi.
    assert (HD : forall r : R gerr desc, outcome_out_of_fuel (ODesc r) = true -> r = OutOfFuel)
      by (intros [| | |]; cbn; congruence).
    assert (HR : forall r : R gerr (desc * bytes * rend), outcome_out_of_fuel (ORead r) = true -> r = OutOfFuel)
      by (intros [| | |]; cbn; congruence).
    assert (HU : forall r : R gerr unit, outcome_out_of_fuel (OUnit r) = true -> r = OutOfFuel)
      by (intros [| | |]; cbn; congruence).
    Ltac side := cbn; try reflexivity; try lia; try tauto; auto.
    destruct cl; cbn [Client.run].
    - apply run_ok_let. eapply run_ok_of_post;
        [apply read_and_drain_spec; [exact Hi|apply client_read_spec; exact Hi] | ..]; side.
    - apply run_ok_let. eapply run_ok_of_post;
        [apply read_and_drain_spec; [exact Hi|apply get_blob_range_spec; exact Hi] | ..]; side.
    - apply run_ok_let. eapply run_ok_of_post;
        [apply read_and_drain_spec; [exact Hi|apply client_read_spec; exact Hi] | ..]; side.
    - apply run_ok_let. eapply run_ok_of_post;
        [apply read_and_drain_spec; [exact Hi|apply client_read_spec; exact Hi] | ..]; side.
    - apply run_ok_let. eapply run_ok_of_post; [apply (resolve_spec True); exact Hi | ..]; side.
    - apply run_ok_let. eapply run_ok_of_post; [apply (resolve_spec True); exact Hi | ..]; side.
    - apply run_ok_let. eapply run_ok_of_post; [apply (resolve_spec True); exact Hi | ..]; side.
    - apply run_ok_let. eapply run_ok_of_post; [apply (push_blob_spec True); exact Hi | ..]; side.
    - apply run_ok_writer; auto. apply push_blob_chunked_spec; exact Hi.
    - apply run_ok_writer; auto. apply push_blob_chunked_resume_spec; exact Hi.
    - apply run_ok_let. eapply run_ok_of_post; [apply (mount_blob_spec True); exact Hi | ..]; side.
    - apply run_ok_let. eapply run_ok_of_post; [apply (push_manifest_spec True); exact Hi | ..]; side.
    - apply run_ok_let. eapply run_ok_of_post; [apply (delete_spec True); exact Hi | ..]; side.
    - apply run_ok_let. eapply run_ok_of_post; [apply (delete_spec True); exact Hi | ..]; side.
    - apply run_ok_let. eapply run_ok_of_post; [apply (delete_spec True); exact Hi | ..]; side.
    - apply run_ok_pager; auto.
    - apply run_ok_pager; auto.
    - pose proof (referrers_spec repo dig art budget w Hi) as H.
      destruct (referrers Srv serve ev c repo dig art budget w) as [w1 [ys e]].
      destruct H as (H1 & H2 & -> & H4 & H5).
      cbn [fst snd]. unfold run_ok. cbn [is_paged caller_ops_of exchanges_of outcome_panics].
      repeat split; auto.
      + exists 1. repeat split; lia.
      + cbn. discriminate.
  Qed.

End ClientProofs.

Arguments run_ok {Srv}. Arguments post {Srv}.

(* ---------------------------------------------------------------- configuration *)

Lemma new_client_page_size page : 1 <= c_page_size (new_client current page).
Proof.
  unfold new_client; cbn [b_page_default_le0 current c_page_size].
  destruct (page <=? 0) eqn:E; [unfold default_list_page_size; lia | apply Z.leb_gt in E; lia].
Qed.

(* ---------------------------------------------------------------- a scripted server *)

Definition st_of (a : option hresp) : option Z := option_map rs_status a.

(* the log against the script: request i got answer i, requests beyond the script failed *)
Fixpoint log_matches (sc : script) (log : list entry) : Prop :=
  match log with
  | [] => True
  | e :: log' =>
      match sc with
      | [] => en_status e = None /\ log_matches [] log'
      | a :: sc' => en_status e = st_of a /\ log_matches sc' log'
      end
  end.

Lemma log_matches_status sc l1 : forall l2,
  map en_status l1 = map en_status l2 -> log_matches sc l1 -> log_matches sc l2.
Proof.
  revert sc; induction l1 as [|e l1 IH]; intros sc [|e2 l2] H; cbn in *; try discriminate; auto.
  injection H as He H. destruct sc as [|a sc]; intros [H1 H2]; (split; [congruence|eapply IH; eauto]).
Qed.

Lemma log_matches_snoc sc log e :
  log_matches sc log ->
  en_status e = match nth_error sc (length log) with Some a => st_of a | None => None end ->
  log_matches sc (log ++ [e]).
Proof.
  revert sc; induction log as [|e0 log IH]; intros sc H He; cbn in *.
  - destruct sc; cbn in *; auto.
  - destruct sc as [|a sc]; destruct H as [H1 H2]; (split; [exact H1|apply IH; auto]).
    destruct (length log); exact He.
Qed.

Lemma skipn_step {A} n (l : list A) a rest : skipn n l = a :: rest -> nth_error l n = Some a /\ skipn (S n) l = rest.
Proof.
  revert l; induction n as [|n IH]; intros [|x l] H; cbn in *; try discriminate.
  - injection H as -> ->. auto.
  - apply IH in H. exact H.
Qed.

Lemma skipn_nil_nth {A} n (l : list A) : skipn n l = [] -> nth_error l n = None /\ skipn (S n) l = [].
Proof.
  revert l; induction n as [|n IH]; intros [|x l] H; cbn in *; try discriminate; auto.
Qed.

Lemma count_some_le sc log :
  log_matches sc log -> (length (filter (fun e => is_some (en_status e)) log) <= length sc)%nat.
Proof.
  revert sc; induction log as [|e log IH]; intros sc H; cbn in *; [lia|].
  destruct sc as [|a sc]; destruct H as [H1 H2]; rewrite H1; cbn.
  - apply (IH [] H2).
  - specialize (IH sc H2). destruct (st_of a); cbn; lia.
Qed.

Lemma length_split (log : list entry) :
  length log = (length (filter (fun e => is_some (en_status e)) log)
                + length (filter (fun e => is_none (en_status e)) log))%nat.
Proof. induction log as [|e log IH]; cbn; [reflexivity|]. destruct (en_status e); cbn; lia. Qed.

Section Script.
  Variable sc : script.
  Notation world := (world script).

  Definition sinv (w : world) : Prop :=
    log_matches sc (w_log w) /\ w_srv w = skipn (length (w_log w)) sc.

  Lemma sinv_init : sinv (init_world sc).
  Proof. split; cbn; auto. Qed.

  Lemma sinv_reach w w' : reach script_serve w w' -> sinv w -> sinv w'.
  Proof.
    induction 1 as [w | w rq w1 a w' Hrt _ IH | w i n w' _ IH]; intros Hsi; [exact Hsi| |]; destruct Hsi as [Hm Hs].
    - apply IH. pose proof (round_trip_log _ script_serve _ _ _ _ Hrt) as [Hl _].
      unfold round_trip in Hrt. rewrite Hs in Hrt. unfold script_serve in Hrt.
      destruct (skipn (length (w_log w)) sc) as [|x rest] eqn:Hsk.
      + apply skipn_nil_nth in Hsk as [Hn Hk]. injection Hrt as <- <-. split; cbn.
        * apply log_matches_snoc; auto. rewrite Hn. reflexivity.
        * rewrite app_length. cbn. rewrite Nat.add_1_r. symmetry. exact Hk.
      + apply skipn_step in Hsk as [Hn Hk]. destruct x as [rs|]; injection Hrt as <- <-; split; cbn.
        * apply log_matches_snoc; auto. rewrite Hn. reflexivity.
        * rewrite app_length. cbn. rewrite Nat.add_1_r. symmetry. exact Hk.
        * apply log_matches_snoc; auto. rewrite Hn. reflexivity.
        * rewrite app_length. cbn. rewrite Nat.add_1_r. symmetry. exact Hk.
    - apply IH. unfold do_read. split; cbn.
      + eapply log_matches_status; [|exact Hm]. now rewrite add_read_status.
      + rewrite add_read_length. exact Hs.
  Qed.

  Variable ev : env.
  Variable page : Z.
  Hypothesis Henv : env_ok ev.

  Let c := new_client current page.

  (* everything the correspondence needs about one call on a scripted server *)
  Theorem script_run fuel cl :
    let w' := fst (Client.run script script_serve ev current c fuel cl (init_world sc)) in
    let o := snd (Client.run script script_serve ev current c fuel cl (init_world sc)) in
    outcome_panics o = false /\
    ((length sc < fuel)%nat -> bufsz_ok cl -> outcome_out_of_fuel o = false) /\
    (nreq w' <= length sc + caller_ops_of cl)%nat /\
    (exists j, 0 <= j /\ Z.of_nat (nreq w') <= 10 * j /\
               if is_paged cl then (j - 1) * c_page_size c <= names_yielded o
               else j <= Z.of_nat (exchanges_of cl)) /\
    Forall entry_ok (w_log w') /\ log_matches sc (w_log w').
  Proof.
    assert (Hi0 : inv (init_world sc)) by constructor.
    pose proof (run_spec script script_serve ev c Henv (new_client_page_size page) fuel cl (init_world sc) Hi0) as H.
    cbv zeta. destruct (Client.run script script_serve ev current c fuel cl (init_world sc)) as [w' o].
    cbn [fst snd] in *. destruct H as (H1 & H2 & H3 & H4 & (j & Hj0 & Hj1 & Hj2) & H6).
    destruct (sinv_reach _ _ H2 sinv_init) as [Hm Hs].
    pose proof (count_some_le _ _ Hm) as Hans. fold (nans w') in Hans.
    change (nans (init_world sc)) with 0%nat in H6. change (nerr (init_world sc)) with 0%nat in H4.
    change (nreq (init_world sc)) with 0%nat in Hj1.
    split; [exact H3|]. split; [|split; [|split; [|split]]]; auto.
    - intros Hfuel Hb. destruct (outcome_out_of_fuel o) eqn:E; [|reflexivity].
      destruct (H6 eq_refl) as [[_ Hf]|Hnb]; [|contradiction]. lia.
    - unfold nreq. rewrite (length_split (w_log w')). fold (nans w') (nerr w'). lia.
    - exists j. repeat split; auto; lia.
  Qed.

End Script.

(* ---------------------------------------------------------------- the theorems of C18 *)

Section Theorems.
  Variable Srv : Type.
  Variable serve : Srv -> hreq -> Srv * option hresp.
  Variable ev : env.
  Hypothesis Henv : env_ok ev.
  Variable page : Z.
  Let c := new_client current page.
  Notation run := (Client.run Srv serve ev current c).

  Lemma run_all fuel cl w : inv w -> run_ok serve c fuel cl w (fst (run fuel cl w)) (snd (run fuel cl w)).
  Proof. apply (run_spec Srv serve ev c Henv (new_client_page_size page)). Qed.

  (* no call panics, whatever the server, the oracles' answers, the arguments, the page size *)
  Theorem client_no_panic fuel cl w : inv w -> outcome_panics (snd (run fuel cl w)) = false.
  Proof. intros Hi. apply (run_all fuel cl w Hi). Qed.

  (* at most 10 requests per exchange, a fixed number of exchanges per call *)
  Theorem client_requests_bounded fuel cl w :
    inv w -> is_paged cl = false ->
    (nreq (fst (run fuel cl w)) <= nreq w + 10 * exchanges_of cl)%nat.
  Proof.
    intros Hi Hp. destruct (run_all fuel cl w Hi) as (_ & _ & _ & _ & (j & Hj0 & Hj1 & Hj2) & _).
    rewrite Hp in Hj2. lia.
  Qed.

  (* a listing asks for another page only after a full page: with j exchanges, (j-1) full
     pages were yielded *)
  Theorem client_paging_progress fuel cl w :
    inv w -> is_paged cl = true ->
    exists j, 0 <= j /\ Z.of_nat (nreq (fst (run fuel cl w))) <= Z.of_nat (nreq w) + 10 * j /\
              (j - 1) * c_page_size c <= names_yielded (snd (run fuel cl w)).
  Proof.
    intros Hi Hp. destruct (run_all fuel cl w Hi) as (_ & _ & _ & _ & (j & Hj0 & Hj1 & Hj2) & _).
    rewrite Hp in Hj2. eauto.
  Qed.

  (* after a transport failure the operation stops: one failure per operation of the caller *)
  Theorem client_stops_on_transport_failure fuel cl w :
    inv w -> (nerr (fst (run fuel cl w)) <= nerr w + caller_ops_of cl)%nat.
  Proof. intros Hi. apply (run_all fuel cl w Hi). Qed.

  (* the body of a response that is not a 2xx is read at most 8 KiB + 1 *)
  Theorem client_error_body_read_bounded fuel cl w :
    inv w -> Forall entry_ok (w_log (fst (run fuel cl w))).
  Proof. intros Hi. apply (run_all fuel cl w Hi). Qed.

  (* fuel runs out only in a listing, after as many answered requests as there was fuel (or
     when the caller reads with an empty buffer) *)
  Theorem client_out_of_fuel fuel cl w :
    inv w -> outcome_out_of_fuel (snd (run fuel cl w)) = true ->
    (is_paged cl = true /\ (nans w + fuel <= nans (fst (run fuel cl w)))%nat) \/ ~ bufsz_ok cl.
  Proof. intros Hi. apply (run_all fuel cl w Hi). Qed.

End Theorems.

(* the header parsers are total: a value or an error *)
Theorem parsers_total ev r known rs rd q last :
  clean (descriptor_from_response ev current r known rs rd) /\
  clean (location_from_response ev r) /\ clean (next_link ev r q last).
Proof.
  split; [apply descriptor_clean | split; [apply location_clean | apply next_link_clean]].
Qed.

(* chunkSizeFromResponse never lowers the chunk size *)
Theorem chunk_size_from_response_ge r cs : cs <= chunk_size_from_response r cs.
Proof.
  unfold chunk_size_from_response. destruct (atoi _) as [m|]; [|lia].
  destruct (cs <? m) eqn:E; [apply Z.ltb_lt in E|]; lia.
Qed.

(* ---------------------------------------------------------------- the tree before the fixes *)

(* an environment that satisfies env_ok, used by the witnesses below *)
Definition witness_env : env :=
  {| e_construct_ok := fun q => match q_kind q with ReqBlobGet => negb (is_empty (q_digest q)) | _ => true end;
     e_url_ok := fun _ => true;
     e_url_rooted := fun _ => true;
     e_valid_digest := fun _ => false;
     e_available := fun a => beqb a sha256_name;
     e_hashhex := fun _ _ => [];
     e_media := fun m => m;
     e_json_errors := fun _ => None;
     e_json_names := fun _ _ => Some [];
     e_json_index := fun _ => None |}.

Lemma witness_env_ok : env_ok witness_env.
Proof.
  split; [split|].
  - intros d H. discriminate.
  - reflexivity.
  - intros q H Hk. cbn in H. rewrite Hk in H. destruct (q_digest q); [discriminate|congruence].
Qed.

Definition ok_resp (st : Z) (h : header) : option hresp :=
  Some {| rs_status := st; rs_header := h; rs_clen := 0; rs_body := {| b_data := []; b_fail := false |} |}.

Definition run_before (page : Z) (cl : call) (sc : script) : outcome :=
  snd (Client.run script script_serve witness_env before_fixes (new_client before_fixes page) 5 cl (init_world sc)).

Definition run_now (page : Z) (cl : call) (sc : script) : outcome :=
  snd (Client.run script script_serve witness_env current (new_client current page) 5 cl (init_world sc)).

(* Options{ListPageSize: -1}, an empty page: items[len(items)-1] *)
Theorem legacy_page_size_panics :
  outcome_panics (run_before (-1) (CRepositories [] None) [ok_resp 200 []]) = true
  /\ outcome_panics (run_now (-1) (CRepositories [] None) [ok_resp 200 []]) = false.
Proof. split; vm_compute; reflexivity. Qed.

(* a caller's digest that passes Construct in its URL-decoded form only, no digest header *)
Theorem legacy_known_digest_panics :
  outcome_panics (run_before 0 (CGetBlob (s "foo") (s "sha256%3Aaa") 1) [ok_resp 200 []]) = true
  /\ outcome_panics (run_now 0 (CGetBlob (s "foo") (s "sha256%3Aaa") 1) [ok_resp 200 []]) = false.
Proof. split; vm_compute; reflexivity. Qed.

(* OCI-Chunk-Min-Length: MaxInt64 on the status request of a resumed upload, then a Write *)
Theorem legacy_chunk_size_panics :
  let sc := [ok_resp 204 [(s "Location", s "/u"); (s "Range", s "0-9");
                          (s "Oci-Chunk-Min-Length", s "9223372036854775807")]] in
  let cl := CPushBlobChunkedResume (s "foo") (s "/u") (-1) 0 [WoWrite (s "x")] in
  outcome_panics (run_before 0 cl sc) = true /\ outcome_panics (run_now 0 cl sc) = false.
Proof. split; vm_compute; reflexivity. Qed.
