(* Proofs about Model/Auth.v, part 5: what one step of a schedule adds to the history, case by
   case, with every fact the model knew when it emitted the events (the model is unfolded here
   for the last time; the property proofs reason from these shapes and the invariant). *)
From Coq Require Import String ZArith Lia.
From OCI Require Import Base.Outcome Model.Scope Model.Challenge Model.Auth Model.AuthSpec
  Proofs.Challenge Proofs.AuthBase Proofs.AuthShape Proofs.AuthInv Proofs.AuthStep.

Local Open Scope Z_scope.

Section Trace.
  Variable E : env.

  (* the registry record phase 1 works on: the stored one, or a freshly initialised one *)
  Definition p1_reg (st : state) (host : bytes) : registry :=
    let ra := match reg_get host (regs st) with Some r => r | None => new_registry end in
    if r_inited ra then ra else init_inner (e_cfg E host).

  (* a token block run on registry [r0] at history [hb], and the registry after it *)
  Record blk (id : nat) (r0 : registry) (www : auth_header) (A B : scope) (hb toks : hist)
      (sc2 : scope) (res2 : R terr wire_token) (resa : R terr bytes) (r1 : registry) : Prop := {
    blk_www : r_www r0 = Some www;
    blk_block : tok_block E id (r_refresh r0) (basic_of r0) www A B toks sc2 res2;
    blk_final : aat_final E r0 sc2 res2 (toks ++ hb) resa r1;
    blk_static : static_eq r0 r1;
    blk_incl : incl (r_asked r0) (r_asked r1);
    blk_in2 : In sc2 (r_asked r1);
    blk_inU : In (Union A B) (r_asked r1)
  }.

  (* phase 1 reaches the first attempt: header, token traffic before it, registry afterwards *)
  Inductive p1_send (id : nat) (q : request) (r0 : registry) (h0 : hist) : authz -> hist -> registry -> Prop :=
    | P1Cached tok :
        access_token_for_scope r0 (q_required q) = Some tok ->
        p1_send id q r0 h0 (ABearer (st_token tok)) [] r0
    | P1Plain :
        access_token_for_scope r0 (q_required q) = None ->
        p1_send id q r0 h0 (q_auth q) [] r0
    | P1Basic www u p :
        access_token_for_scope r0 (q_required q) = None ->
        r_www r0 = Some www -> is_bearer www = false -> r_basic r0 = Some (u, p) ->
        p1_send id q r0 h0 (ABasic u p) [] r0
    | P1Refresh www toks sc2 w r1 :
        access_token_for_scope r0 (q_required q) = None ->
        is_bearer www = true -> nonempty (r_refresh r0) = true ->
        blk id r0 www (q_required q) (q_want q) h0 toks sc2 (Ok w) (Ok (tok_of w)) r1 ->
        is_nil (tok_of w) = false ->
        p1_send id q r0 h0 (ABearer (tok_of w)) toks r1.

  (* phase 2 reaches the second attempt *)
  Inductive p2_send (id : nat) (q : request) (r : registry) (ch : auth_header) (h1 : hist)
      : authz -> hist -> bool -> registry -> Prop :=
    | P2Bearer toks sc2 w r1 :
        is_bearer ch = true ->
        blk id (set_www r ch) ch (ParseScope (pget k_scope (ah_params ch))) (Union (q_want q) (q_required q))
            h1 toks sc2 (Ok w) (Ok (tok_of w)) r1 ->
        is_nil (tok_of w) = false ->
        p2_send id q r ch h1 (ABearer (tok_of w)) toks true r1
    | P2Basic u p :
        is_bearer ch = false -> r_basic r = Some (u, p) ->
        p2_send id q r ch h1 (ABasic u p) [] false (set_www r ch).

  Inductive shape (st st' : state) : hist -> Prop :=
    | ShInitErr id q :
        th_get id (threads st) = None ->
        r_initerr (p1_reg st (q_host q)) = true ->
        shape st st' (EReturn id (RetErr None) :: (if has_body (q_body q) then [ESelfClose id] else []) ++ [EStart id q])
    | ShFirst id q a toks rsp r1 :
        th_get id (threads st) = None ->
        r_initerr (p1_reg st (q_host q)) = false ->
        p1_send id q (delete_expired (p1_reg st (q_host q)) (e_clock E (EStart id q :: history st) + second))
                (EStart id q :: history st) a toks r1 ->
        reg_get (q_host q) (regs st') = Some r1 ->
        shape st st' (ESend id (MReg (q_host q) a) rsp :: toks ++ [EStart id q])
    | ShFirstFail id q www toks sc2 res2 e r1 :
        th_get id (threads st) = None ->
        r_initerr (p1_reg st (q_host q)) = false ->
        let r0 := delete_expired (p1_reg st (q_host q)) (e_clock E (EStart id q :: history st) + second) in
        access_token_for_scope r0 (q_required q) = None ->
        is_bearer www = true -> nonempty (r_refresh r0) = true ->
        blk id r0 www (q_required q) (q_want q) (EStart id q :: history st) toks sc2 res2 (Err e) r1 ->
        reg_get (q_host q) (regs st') = Some r1 ->
        shape st st' (EReturn id (RetErr None) :: (if has_body (q_body q) then [ESelfClose id] else []) ++ toks ++ [EStart id q])
    | ShEnd2 id th rsp res :
        th_get id (threads st) = Some th -> th_pc th = PAwait1 rsp ->
        match rsp with
        | RFail => res = RetErr None
        | RHttp status www _ =>
            res = RetResp status false
            /\ (status <> 401%N \/ challenge_from_response www = None
                \/ exists ch r, challenge_from_response www = Some ch /\ is_bearer ch = false
                                /\ reg_get (q_host (th_q th)) (regs st) = Some r /\ r_basic r = None)
        end ->
        shape st st' [EReturn id res; EResume id]
    | ShRetry id th rsp ch r a toks ta r1 rsp2 :
        th_get id (threads st) = Some th -> th_pc th = PAwait1 rsp ->
        challenge_of rsp = Some ch ->
        reg_get (q_host (th_q th)) (regs st) = Some r ->
        p2_send id (th_q th) r ch (EResume id :: history st) a toks ta r1 ->
        reg_get (q_host (th_q th)) (regs st') = Some r1 ->
        q_body (th_q th) <> BGetFail ->
        shape st st' (ESend id (MReg (q_host (th_q th)) a) rsp2
                      :: (match q_body (th_q th) with BGet => [EGetBody id; ERespClose id] | _ => [ERespClose id] end)
                      ++ toks ++ [EResume id])
    | ShRetryNoBody id th rsp ch r a toks ta r1 :
        th_get id (threads st) = Some th -> th_pc th = PAwait1 rsp ->
        challenge_of rsp = Some ch ->
        reg_get (q_host (th_q th)) (regs st) = Some r ->
        p2_send id (th_q th) r ch (EResume id :: history st) a toks ta r1 ->
        reg_get (q_host (th_q th)) (regs st') = Some r1 ->
        q_body (th_q th) = BGetFail ->
        shape st st' (EReturn id (RetErr None) :: [EGetBody id; ERespClose id] ++ toks ++ [EResume id])
    | ShRetryFail id th rsp ch r toks sc2 res2 e r1 :
        th_get id (threads st) = Some th -> th_pc th = PAwait1 rsp ->
        challenge_of rsp = Some ch ->
        reg_get (q_host (th_q th)) (regs st) = Some r ->
        is_bearer ch = true ->
        blk id (set_www r ch) ch (ParseScope (pget k_scope (ah_params ch)))
            (Union (q_want (th_q th)) (q_required (th_q th))) (EResume id :: history st) toks sc2 res2 (Err e) r1 ->
        reg_get (q_host (th_q th)) (regs st') = Some r1 ->
        shape st st' (EReturn id (RetErr (herr e)) :: [ERespClose id] ++ toks ++ [EResume id])
    | ShEnd3 id th rsp ta res :
        th_get id (threads st) = Some th -> th_pc th = PAwait2 rsp ta ->
        match rsp with
        | RFail => res = RetErr None
        | RHttp status _ _ => res = RetResp status false /\ (status <> 401%N \/ ta = false)
        end ->
        shape st st' [EReturn id res; EResume id]
    | ShDenied id th www b :
        th_get id (threads st) = Some th -> th_pc th = PAwait2 (RHttp 401 www b) true ->
        shape st st' [EReturn id (RetResp 403 true); ERespClose id; EResume id].

  (* every registry only ever learns more asked scopes *)
  Definition regs_grow (rg rg' : list (bytes * registry)) : Prop :=
    forall host r, reg_get host rg = Some r -> exists r', reg_get host rg' = Some r' /\ incl (r_asked r) (r_asked r').

  Lemma regs_grow_refl rg : regs_grow rg rg.
  Proof. intros host r Hg. exists r. split; [exact Hg | apply incl_refl]. Qed.

  Lemma regs_grow_set rg rg' host r' :
    regs_grow rg rg' ->
    (forall r, reg_get host rg' = Some r -> incl (r_asked r) (r_asked r')) ->
    regs_grow rg (reg_set host r' rg').
  Proof.
    intros Hk H host0 r Hg. destruct (Hk host0 r Hg) as [r1 [Hg1 Hi1]].
    destruct (beqb host0 host) eqn:Eh.
    - apply beqb_eq in Eh. subst host0. exists r'. rewrite reg_get_set_same. split; [reflexivity|].
      eapply incl_tran; [exact Hi1 | now apply H].
    - exists r1. now rewrite reg_get_set_other.
  Qed.

  Lemma regs_grow_trans a b c : regs_grow a b -> regs_grow b c -> regs_grow a c.
  Proof.
    intros H1 H2 host r Hg. destruct (H1 _ _ Hg) as [r1 [Hg1 Hi1]]. destruct (H2 _ _ Hg1) as [r2 [Hg2 Hi2]].
    exists r2. split; [exact Hg2 | eapply incl_tran; eassumption].
  Qed.

  Lemma p1_reg_grow st host : Inv E st ->
    forall r, reg_get host (regs st) = Some r -> p1_reg st host = r.
  Proof.
    intros Hinv r Hg. unfold p1_reg. rewrite Hg. pose proof (inv_reg _ _ Hinv _ _ Hg) as Hx.
    now rewrite (ri_inited _ _ _ _ Hx).
  Qed.

  Lemma phase1_shape st id q : Inv E st -> th_get id (threads st) = None ->
    let st' := phase1 E st id q in
    regs_grow (regs st) (regs st') /\ exists new, shape st st' new /\ history st' = new ++ history st.
  Proof.
    intros Hinv Hnone. cbn zeta. unfold phase1.
    set (h := history st) in *. set (h0 := EStart id q :: h). set (host := q_host q).
    fold (p1_reg st host). set (r := p1_reg st host).
    set (rg := reg_set host r (regs st)).
    assert (Hg0 : regs_grow (regs st) rg).
    { apply regs_grow_set; [apply regs_grow_refl|]. intros rx Hx. unfold r.
      rewrite (p1_reg_grow _ _ Hinv _ Hx). apply incl_refl. }
    destruct (r_initerr r) eqn:Eie.
    - split; [exact Hg0|]. unfold finish, self_close. cbn [regs history].
      eexists. split; [apply ShInitErr; [exact Hnone | exact Eie]|].
      fold h. destruct (has_body (q_body q)); reflexivity.
    - destruct (set_authorization E id r (q_auth q) (q_required q) (q_want q) h0) as [[res r1] h1] eqn:Esa.
      apply sa_shape in Esa. cbn zeta in Esa.
      set (r0 := delete_expired r (e_clock E h0 + second)) in *.
      assert (Hgrow : forall rx, incl (r_asked r0) (r_asked rx) -> regs_grow (regs st) (reg_set host rx rg)).
      { intros rx Hi. apply regs_grow_set; [exact Hg0|]. intros ry Hy. unfold rg in Hy.
        rewrite reg_get_set_same in Hy. injection Hy as <-. exact Hi. }
      assert (Hsend : forall a toks rx,
        p1_send id q r0 h0 a toks rx -> incl (r_asked r0) (r_asked rx) ->
        let st' := (let (rsp, h2) := send E id (MReg host a) (toks ++ h0) in
                    {| regs := reg_set host rx rg;
                       threads := th_set id {| th_q := q; th_hdr := a; th_pc := PAwait1 rsp |} (threads st);
                       history := h2 |}) in
        regs_grow (regs st) (regs st') /\ exists new, shape st st' new /\ history st' = new ++ h).
      { intros a toks rx Hp Hi. unfold send. cbn zeta. cbn [regs history]. split; [now apply Hgrow|].
        eexists. split.
        - eapply ShFirst with (r1 := rx); [exact Hnone | exact Eie | exact Hp|]. cbn [regs]. apply reg_get_set_same.
        - unfold h0. cbn [app]. now rewrite <- app_assoc. }
      destruct Esa as [[tok [Ha [-> [-> ->]]]]|[[Ha [-> [-> ->]]]|[[Ha [www [u [p [Hw [Hb [Hbs [-> [-> ->]]]]]]]]]|
                       [Ha [www [toks [sc2 [res2 [resa [Hw [Hb [Hrf [Hblk [-> [Hfin [Hst [Hinc [Hin [HinU ->]]]]]]]]]]]]]]]]]]].
      + apply (Hsend _ [] r0); [now apply P1Cached | apply incl_refl].
      + apply (Hsend _ [] r0); [now apply P1Plain | apply incl_refl].
      + apply (Hsend _ [] r0); [now apply P1Basic with (www := www) | apply incl_refl].
      + assert (Hblk' : forall resa', resa = resa' -> blk id r0 www (q_required q) (q_want q) h0 toks sc2 res2 resa' r1).
        { intros ? <-. now split. }
        destruct (aat_final_res _ _ _ _ _ _ _ Hfin) as [[t [-> [w [-> [-> Hne]]]]]|[e ->]]; cbn [lift_tok].
        * apply Hsend; [|exact Hinc]. eapply P1Refresh; eauto.
        * split; [now apply Hgrow|]. unfold finish, self_close. cbn [regs history].
          eexists. split.
          -- eapply ShFirstFail with (r1 := r1) (www := www); eauto. cbn [regs]. apply reg_get_set_same.
          -- fold h. unfold h0. destruct (has_body (q_body q)); cbn [app]; now rewrite <- app_assoc.
  Qed.

  Lemma phase2_shape st id th rsp : Inv E st -> th_get id (threads st) = Some th -> th_pc th = PAwait1 rsp ->
    let st' := phase2 E st id th rsp in
    regs_grow (regs st) (regs st') /\ exists new, shape st st' new /\ history st' = new ++ history st.
  Proof.
    intros Hinv Hth Hpc. pose proof (inv_thr _ _ Hinv _ _ Hth) as [Hq Hok]. rewrite Hpc in Hok.
    destruct Hok as [T1 [T2 [T3 [T4 [[older T5] [r [T6 T7]]]]]]].
    cbn zeta. unfold phase2. set (q := th_q th) in *. set (hdr := th_hdr th) in *. set (host := q_host q) in *.
    set (h := history st) in *. set (h1 := EResume id :: h).
    assert (Hplain : forall hx res,
      match rsp with
      | RFail => res = RetErr None
      | RHttp status www _ =>
          res = RetResp status false
          /\ (status <> 401%N \/ challenge_from_response www = None
              \/ exists ch r, challenge_from_response www = Some ch /\ is_bearer ch = false
                              /\ reg_get host (regs st) = Some r /\ r_basic r = None)
      end ->
      let st' := finish st id q hx (regs st) res h1 in
      regs_grow (regs st) (regs st') /\ exists new, shape st st' new /\ history st' = new ++ h).
    { intros hx res Hres. cbn zeta. unfold finish. cbn [regs history]. split; [apply regs_grow_refl|].
      eexists. split; [eapply ShEnd2; eauto | reflexivity]. }
    destruct rsp as [|status www b]; [now apply Hplain|].
    destruct (negb (status =? 401)%N) eqn:E401.
    { apply Hplain. split; [reflexivity|]. left. apply negb_true_iff, N.eqb_neq in E401. exact E401. }
    apply negb_false_iff, N.eqb_eq in E401. subst status.
    destruct (challenge_from_response www) as [ch|] eqn:Ech.
    2:{ apply Hplain. split; [reflexivity|]. right. now left. }
    rewrite T6.
    assert (Hch : challenge_of (RHttp 401 www b) = Some ch) by (cbn; exact Ech).
    destruct (set_authorization_from_challenge E id r hdr ch (q_required q) (q_want q) h1) as [[res r1] h2] eqn:Esac.
    apply sac_shape in Esac. cbn zeta in Esac. set (r0 := set_www r ch) in *.
    assert (Hgrow : forall rx, incl (r_asked r) (r_asked rx) -> regs_grow (regs st) (reg_set host rx (regs st))).
    { intros rx Hi. apply regs_grow_set; [apply regs_grow_refl|]. intros ry Hy. rewrite T6 in Hy. now injection Hy as <-. }
    (* the second attempt, or the failing GetBody *)
    assert (Hretry : forall a toks ta rx,
      p2_send id q r ch h1 a toks ta rx -> incl (r_asked r) (r_asked rx) ->
      let st' := (let h2 := ERespClose id :: toks ++ h1 in
                  match q_body q with
                  | BGetFail => finish st id q a (reg_set host rx (regs st)) (RetErr None) (EGetBody id :: h2)
                  | b0 =>
                      let h3 := match b0 with BGet => EGetBody id :: h2 | _ => h2 end in
                      let (rsp2, h4) := send E id (MReg host a) h3 in
                      {| regs := reg_set host rx (regs st);
                         threads := th_set id {| th_q := q; th_hdr := a; th_pc := PAwait2 rsp2 ta |} (threads st);
                         history := h4 |}
                  end) in
      regs_grow (regs st) (regs st') /\ exists new, shape st st' new /\ history st' = new ++ h).
    { intros a toks ta rx Hp Hi. cbn zeta.
      assert (Hgo : q_body q <> BGetFail ->
        let st' := (let (rsp2, h4) := send E id (MReg host a)
                        ((match q_body q with BGet => [EGetBody id; ERespClose id] | _ => [ERespClose id] end) ++ toks ++ h1) in
                    {| regs := reg_set host rx (regs st);
                       threads := th_set id {| th_q := q; th_hdr := a; th_pc := PAwait2 rsp2 ta |} (threads st);
                       history := h4 |}) in
        regs_grow (regs st) (regs st') /\ exists new, shape st st' new /\ history st' = new ++ h).
      { intros Hnb. unfold send. cbn zeta. cbn [regs history]. split; [now apply Hgrow|].
        eexists. split.
        - eapply ShRetry with (r1 := rx) (r := r); eauto. cbn [regs]. apply reg_get_set_same.
        - unfold h1. cbn [app]. now rewrite <- !app_assoc. }
      destruct (q_body q) eqn:Eb; try (apply Hgo; discriminate).
      unfold finish. cbn [regs history]. split; [now apply Hgrow|].
      eexists. split.
      - eapply ShRetryNoBody with (r1 := rx) (r := r); eauto. cbn [regs]. apply reg_get_set_same.
      - unfold h1. cbn [app]. now rewrite <- app_assoc. }
    destruct Esac as [[Hb [toks [sc2 [res2 [resa [Hblk [-> [Hfin [Hst [Hinc [Hin [HinU ->]]]]]]]]]]]]|
                      [[Hb [u [p [Hbs [-> [-> ->]]]]]]|[Hb [Hbs [-> [-> ->]]]]]].
    - assert (Hblk' : forall resa', resa = resa' ->
                blk id r0 ch (ParseScope (pget k_scope (ah_params ch))) (Union (q_want q) (q_required q)) h1 toks sc2 res2 resa' r1).
      { intros ? <-. now split. }
      destruct (aat_final_res _ _ _ _ _ _ _ Hfin) as [[t [-> [w [-> [-> Hne]]]]]|[e ->]].
      + cbn [negb]. apply Hretry; [|exact Hinc]. eapply P2Bearer; eauto.
      + unfold finish. cbn [regs history]. split; [now apply Hgrow|].
        eexists. split.
        * eapply ShRetryFail with (r1 := r1) (r := r); eauto. cbn [regs]. apply reg_get_set_same.
        * unfold h1. cbn [app]. now rewrite <- app_assoc.
    - cbn [negb]. apply (Hretry _ [] false r0); [now apply P2Basic | apply incl_refl].
    - cbn [negb]. unfold finish. cbn [regs history]. split; [apply Hgrow, incl_refl|].
      eexists. split; [eapply ShEnd2; eauto; cbn; split; [reflexivity|]; right; right; exists ch, r; now repeat split | reflexivity].
  Qed.

  Lemma phase3_shape st id th rsp ta : th_get id (threads st) = Some th -> th_pc th = PAwait2 rsp ta ->
    let st' := phase3 st id th rsp ta in
    regs_grow (regs st) (regs st') /\ exists new, shape st st' new /\ history st' = new ++ history st.
  Proof.
    intros Hth Hpc. cbn zeta. unfold phase3.
    destruct rsp as [|status www b].
    - unfold finish. cbn [regs history]. split; [apply regs_grow_refl|]. eexists. split; [eapply ShEnd3; eauto; reflexivity | reflexivity].
    - destruct (negb (status =? 401)%N) eqn:E4; cbn [orb].
      + unfold finish. cbn [regs history]. split; [apply regs_grow_refl|]. eexists.
        split; [eapply ShEnd3; eauto; cbn; split; [reflexivity|]; left; now apply negb_true_iff, N.eqb_neq in E4 | reflexivity].
      + destruct ta; cbn [negb].
        * apply negb_false_iff, N.eqb_eq in E4. subst status.
          unfold finish. cbn [regs history]. split; [apply regs_grow_refl|]. eexists. split; [eapply ShDenied; eauto | reflexivity].
        * unfold finish. cbn [regs history]. split; [apply regs_grow_refl|]. eexists.
          split; [eapply ShEnd3; eauto; cbn; split; [reflexivity|]; now right | reflexivity].
  Qed.

  Lemma step_shape st x : Inv E st ->
    regs_grow (regs st) (regs (step E st x))
    /\ (step E st x = st \/ exists new, shape st (step E st x) new /\ history (step E st x) = new ++ history st).
  Proof.
    intros Hinv. destruct x as [id q|id]; cbn [step].
    - destruct (th_get id (threads st)) eqn:Et; [split; [apply regs_grow_refl | now left]|].
      destruct (phase1_shape st id q Hinv Et) as [H1 H2]. split; [exact H1 | now right].
    - destruct (th_get id (threads st)) as [th|] eqn:Et; [|split; [apply regs_grow_refl | now left]].
      destruct (th_pc th) eqn:Epc.
      + destruct (phase2_shape st id th r Hinv Et Epc) as [H1 H2]. split; [exact H1 | now right].
      + destruct (phase3_shape st id th r tokenAcquired Et Epc) as [H1 H2]. split; [exact H1 | now right].
      + split; [apply regs_grow_refl | now left].
  Qed.
End Trace.
