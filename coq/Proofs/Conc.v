(* Linearizability of the sectioned model of ocimem (Model/Conc.v) for any number of threads,
   by forward simulation with one linearisation point per operation:
     - every operation but Buffer.Commit is one atomic section = Mem.step: its LP is that section;
     - Commit is the optimistic chain A (check) / B (callback) / C (record failure), kept together
       by Buffer.commitMu: a Commit that fails in A linearises there; one that passes A
       linearises in B, where the buffer is re-validated under both locks: unchanged -> the
       sequential Commit succeeds there too; grown -> (hash collision-free) the sequential
       Commit fails there with DIGEST_INVALID as well.
   The abstract state is the concrete one up to Buffer.committed / Buffer.desc (ConcErase.v).
   Corollaries: concurrent states are sequential states, stored content matches its digest,
   a tag that is live throughout is never reported missing; one thread alone = Mem.step. *)
From Coq Require Import String Lia.
From OCI Require Import Model.Conc Proofs.MemBasics Proofs.MemInv Proofs.ConcErase.

Section P.
  Variable hash : bytes -> bytes.
  Variable valid_digest : bytes -> bool.
  Variable valid_repo : bytes -> bool.
  Variable valid_tag : bytes -> bool.
  Variable decode_image : bytes -> option image_manifest.
  Variable decode_index : bytes -> option index_manifest.
  Variable cfg : config.
  Local Notation mstep := (mstep hash valid_digest valid_repo valid_tag decode_image decode_index cfg).
  Local Notation sec_step := (sec_step hash valid_digest valid_repo valid_tag decode_image decode_index cfg).
  Local Notation run_op := (run_op hash valid_digest valid_repo valid_tag decode_image decode_index cfg).

  Lemma nth_with_buf_same m i f b :
    nth_error (bufs m) i = Some b -> nth_error (bufs (with_buf m i f)) i = Some (f b).
  Proof. intros H. cbn. rewrite nth_error_upd_nth. rewrite Nat.eqb_refl, H. reflexivity. Qed.

  Theorem conc_seq m o : run_op m o = mstep m o.
  Proof.
    unfold Conc.run_op.
    destruct o;
      try (cbn [run_pc sec_step]; destruct (mstep m _) as [m' res'] eqn:E; reflexivity).
    - (* PushBlob *)
      cbn [run_pc sec_step]. unfold Conc.mstep. cbn [step].
      destruct (check_descriptor hash valid_digest de (Some content)); [reflexivity|].
      destruct (make_repo valid_repo m r); reflexivity.
    - (* WCommit *)
      cbn [run_pc sec_step]. unfold Conc.mstep. cbn [step].
      destruct (nth_error (bufs m) (N.to_nat w)) as [b|] eqn:Hb; [|reflexivity].
      destruct (u_err b) eqn:He; [reflexivity|].
      destruct (beqb (hash (u_buf b)) d) eqn:Hh; [|reflexivity].
      cbn [run_pc sec_step].
      rewrite (nth_with_buf_same _ _ _ _ Hb). cbn [set_commit u_committed negb u_err u_buf u_desc octet_desc d_size u_repo d_digest d_media].
      rewrite Z.eqb_refl. cbn [negb run_pc]. reflexivity.
  Qed.

  (* ------------------------------------------------------------ buffers only grow *)

  Definition buf_le (b b' : buffer) : Prop :=
    u_committed b' = u_committed b /\ u_desc b' = u_desc b /\
    (exists suf, u_buf b' = u_buf b ++ suf) /\ (u_err b <> None -> u_err b' <> None).
  Definition grows (skip : option nat) (m m' : state) : Prop :=
    forall i b, nth_error (bufs m) i = Some b ->
      exists b', nth_error (bufs m') i = Some b' /\ (skip = Some i \/ buf_le b b').

  Lemma buf_le_refl b : buf_le b b.
  Proof. repeat split; auto. exists []. now rewrite app_nil_r. Qed.

  Lemma grows_same_bufs skip m m' : bufs m' = bufs m -> grows skip m m'.
  Proof. intros E i b H. exists b. rewrite E. split; [exact H | right; apply buf_le_refl]. Qed.

  Lemma grows_with_buf skip m i f :
    (skip = Some i \/ forall b, buf_le b (f b)) -> grows skip m (with_buf m i f).
  Proof.
    intros Hf j b H. cbn. rewrite nth_error_upd_nth, H.
    destruct (Nat.eqb j i) eqn:E.
    - apply Nat.eqb_eq in E. subst j. exists (f b). split; [reflexivity|].
      destruct Hf as [->|Hf]; [now left | right; apply Hf].
    - exists b. split; [reflexivity | right; apply buf_le_refl].
  Qed.

  Lemma grows_app skip m m' l : bufs m' = bufs m ++ l -> grows skip m m'.
  Proof.
    intros E i b H. exists b. rewrite E. split; [|right; apply buf_le_refl].
    rewrite nth_error_app1; [exact H|]. apply nth_error_Some. congruence.
  Qed.

  Lemma bufs_make_repo m r m1 : make_repo valid_repo m r = Some m1 -> bufs m1 = bufs m.
  Proof.
    unfold make_repo. destruct (valid_repo r); [|discriminate].
    destruct (get_repo m r); intros H; injection H as <-; reflexivity.
  Qed.

  Lemma grows_trans_same skip m m1 m2 : bufs m1 = bufs m -> grows skip m1 m2 -> grows skip m m2.
  Proof. intros E H i b Hb. apply H. now rewrite E. Qed.

  Lemma mstep_grows m o : (forall w d, o <> WCommit w d) -> grows None m (fst (mstep m o)).
  Proof.
    intros Hn. unfold Conc.mstep.
    destruct o; cbn [step]; try (apply grows_same_bufs; reflexivity).
    all: try (exfalso; eapply Hn; reflexivity).
    all: repeat match goal with
      | |- grows _ _ (fst (match ?x with _ => _ end)) => destruct x eqn:?
      | |- grows _ _ (fst (if ?x then _ else _)) => destruct x eqn:?
      | |- grows _ _ (fst (let (_,_) := ?x in _)) => destruct x eqn:?
      end; cbn [fst].
    all: try (apply grows_same_bufs; rewrite ?bufs_upd_repo; solve [reflexivity | eapply bufs_make_repo; eauto]).
    all: try (eapply grows_trans_same; [eapply bufs_make_repo; eassumption|]).
    all: try (eapply grows_app; cbn [bufs]; reflexivity).
    all: try (apply grows_with_buf; right; intros b'; repeat split; cbn; try (exists []; now rewrite app_nil_r); eauto; congruence).
  Qed.

  (* every single-region operation is Mem.step, as one section *)
  Lemma sec_start_generic lk m o :
    (forall w d, o <> WCommit w d) ->
    sec_step lk m (PStart o) = Some (fst (mstep m o), true, PDone (snd (mstep m o))).
  Proof.
    intros Hn. destruct o; try (cbn [sec_step]; destruct (mstep m _); reflexivity).
    - cbn [sec_step]. unfold Conc.mstep. cbn [step].
      destruct (check_descriptor hash valid_digest de (Some content)); [reflexivity|].
      destruct (make_repo valid_repo m r); reflexivity.
    - exfalso. eapply Hn. reflexivity.
  Qed.

  Lemma sec_start_generic_inv lk m o m' lp p' :
    (forall w d, o <> WCommit w d) -> sec_step lk m (PStart o) = Some (m', lp, p') ->
    m' = fst (mstep m o) /\ lp = true /\ p' = PDone (snd (mstep m o)).
  Proof. intros Hn. rewrite (sec_start_generic lk m o Hn). intros H. injection H as <- <- <-. auto. Qed.

  Definition pc_skip (p : pc) : option nat :=
    match p with PStart (WCommit w _) => Some (N.to_nat w) | _ => None end.

  Lemma buf_le_set_err e b : buf_le b (set_err e b).
  Proof. repeat split; cbn; try congruence. exists []. now rewrite app_nil_r. Qed.

  Lemma sec_step_grows lk m p m' lp p' :
    sec_step lk m p = Some (m', lp, p') -> grows (pc_skip p) m m'.
  Proof.
    destruct p as [o|w d de|w e|r].
    - destruct o;
        try (intros H; apply sec_start_generic_inv in H as (-> & _ & _); [|intros; discriminate];
             cbn [pc_skip]; apply mstep_grows; intros; discriminate).
      cbn [sec_step pc_skip]. destruct (lk w); [discriminate|].
      destruct (nth_error (bufs m) (N.to_nat w)) as [b|]; [|intros H; injection H as E1 E2 E3; subst m'; now apply grows_same_bufs].
      destruct (u_err b); [intros H; injection H as E1 E2 E3; subst m'; now apply grows_same_bufs|].
      destruct (beqb (hash (u_buf b)) d); intros H; injection H as E1 E2 E3; subst m'; apply grows_with_buf; now left.
    - cbn [sec_step pc_skip].
      destruct (nth_error (bufs m) (N.to_nat w)) as [b|]; [|intros H; injection H as E1 E2 E3; subst m'; now apply grows_same_bufs].
      destruct (negb (u_committed b)); [intros H; injection H as E1 E2 E3; subst m'; now apply grows_same_bufs|].
      destruct (u_err b); [intros H; injection H as E1 E2 E3; subst m'; now apply grows_same_bufs|].
      destruct (negb (blen (u_buf b) =? d_size (u_desc b))%Z); intros H; injection H as E1 E2 E3; subst m'.
      + apply grows_with_buf. right. apply buf_le_set_err.
      + apply grows_same_bufs. apply bufs_upd_repo.
    - cbn [sec_step pc_skip].
      destruct (nth_error (bufs m) (N.to_nat w)) as [b|]; [|intros H; injection H as E1 E2 E3; subst m'; now apply grows_same_bufs].
      destruct (u_err b); intros H; injection H as E1 E2 E3; subst m'.
      + now apply grows_same_bufs.
      + apply grows_with_buf. right. apply buf_le_set_err.
    - discriminate.
  Qed.

  (* ------------------------------------------------------------ bookkeeping *)

  Lemma nth_set_nth {A} (l : list A) t x y t' :
    nth_error l t = Some y ->
    nth_error (set_nth t x l) t' = if Nat.eqb t' t then Some x else nth_error l t'.
  Proof.
    revert t t'; induction l as [|a l IH]; intros [|t] [|t'] H; cbn in *; try discriminate; try reflexivity.
    now apply IH.
  Qed.

  Lemma sget_sset st t x t' : sget (sset st t x) t' = if Nat.eqb t' t then x else sget st t'.
  Proof. reflexivity. Qed.

  Lemma aug_run_app {Resp} (cmp : Resp -> result -> bool) a st l1 l2 :
    aug_run hash valid_digest valid_repo valid_tag decode_image decode_index cfg cmp a st (l1 ++ l2) =
    match aug_run hash valid_digest valid_repo valid_tag decode_image decode_index cfg cmp a st l1 with
    | Some (a', st') => aug_run hash valid_digest valid_repo valid_tag decode_image decode_index cfg cmp a' st' l2
    | None => None
    end.
  Proof.
    revert a st; induction l1 as [|e l1 IH]; intros a st; cbn [app aug_run]; [reflexivity|].
    destruct e as [t o|t|t r]; destruct (sget st t); try reflexivity.
    - apply IH.
    - destruct (Conc.mstep hash valid_digest valid_repo valid_tag decode_image decode_index cfg a o). apply IH.
    - destruct (cmp r r0); [apply IH | reflexivity].
  Qed.

  (* ------------------------------------------------------------ the simulation invariant *)

  Hypothesis hash_inj : forall a b, hash a = hash b -> a = b.
  Variable cmp : result -> result -> bool.
  Hypothesis cmp_refl : forall r, cmp r r = true.
  Local Notation aug_run := (aug_run hash valid_digest valid_repo valid_tag decode_image decode_index cfg cmp).

  Definition thread_ok (m : state) (st : tstat) (th : thread) : Prop :=
    match t_cur th with
    | None => st = TIdle
    | Some (o, PStart o') => o' = o /\ st = TPend o
    | Some (o, PCommitB w d de) =>
        o = WCommit w d /\ st = TPend o /\
        exists b pre suf, nth_error (bufs m) (N.to_nat w) = Some b /\ u_committed b = true /\ u_desc b = de /\
          de = octet_desc d (blen pre) /\ u_buf b = pre ++ suf /\ hash pre = d
    | Some (o, PCommitC w e) =>
        st = TLin (Err e) /\ exists b, nth_error (bufs m) (N.to_nat w) = Some b /\ u_err b <> None
    | Some (o, PDone r) => st = TLin r
    end.

  Definition excl (ths : list thread) : Prop :=
    forall t1 t2 th1 th2 w, nth_error ths t1 = Some th1 -> nth_error ths t2 = Some th2 ->
      holds th1 w = true -> holds th2 w = true -> t1 = t2.

  Record Inv (c : conf) (a : state) (st : stmap) : Prop := {
    inv_sim : erase (c_mem c) = erase a;
    inv_thr : forall t th, nth_error (c_threads c) t = Some th -> thread_ok (c_mem c) (sget st t) th;
    inv_excl : excl (c_threads c);
    inv_seq : exists h, a = final mstep init h
  }.

  Lemma thread_ok_grows skip m m' st th :
    thread_ok m st th -> grows skip m m' ->
    (forall w, holds th w = true -> skip <> Some (N.to_nat w)) -> thread_ok m' st th.
  Proof.
    unfold thread_ok, holds. destruct (t_cur th) as [[o p]|]; [|auto].
    destruct p as [o'|w d de|w e|r]; auto; intros H G Hs.
    - destruct H as (Ho & Hst & b & pre & suf & Hb & Hc & Hd & Hde & Hbuf & Hh).
      destruct (G _ _ Hb) as (b' & Hb' & [E|L]).
      + exfalso. apply (Hs w); [apply N.eqb_refl | exact E].
      + destruct L as (L1 & L2 & [x L3] & L4).
        repeat split; auto. exists b', pre, (suf ++ x). repeat split; auto; try congruence.
        rewrite L3, Hbuf. now rewrite app_assoc.
    - destruct H as (Hst & b & Hb & He).
      destruct (G _ _ Hb) as (b' & Hb' & [E|L]).
      + exfalso. apply (Hs w); [apply N.eqb_refl | exact E].
      + destruct L as (L1 & L2 & L3 & L4). split; auto. exists b'. auto.
  Qed.

  Lemma locked_false ths w t th :
    locked ths w = false -> nth_error ths t = Some th -> holds th w = false.
  Proof.
    unfold locked. intros H Hn. destruct (holds th w) eqn:E; [|reflexivity].
    assert (existsb (fun th => holds th w) ths = true); [|congruence].
    apply existsb_exists. exists th. split; [eapply nth_error_In; eauto | exact E].
  Qed.

  Lemma excl_set ths t th th' :
    excl ths -> nth_error ths t = Some th ->
    (forall w, holds th' w = true -> holds th w = true \/ locked ths w = false) ->
    excl (set_nth t th' ths).
  Proof.
    intros Hx Ht Hh t1 t2 th1 th2 w H1 H2 A1 A2.
    rewrite (nth_set_nth _ _ _ _ t1 Ht) in H1. rewrite (nth_set_nth _ _ _ _ t2 Ht) in H2.
    destruct (Nat.eqb t1 t) eqn:E1, (Nat.eqb t2 t) eqn:E2.
    - apply Nat.eqb_eq in E1, E2. congruence.
    - injection H1 as <-. apply Nat.eqb_eq in E1. subst t1.
      destruct (Hh _ A1) as [B|B].
      + symmetry. eapply Hx; eauto.
      + rewrite (locked_false _ _ _ _ B H2) in A2. discriminate.
    - injection H2 as <-. apply Nat.eqb_eq in E2. subst t2.
      destruct (Hh _ A2) as [B|B].
      + eapply Hx; eauto.
      + rewrite (locked_false _ _ _ _ B H1) in A1. discriminate.
    - eapply Hx; eauto.
  Qed.

  Lemma final_snoc s h o : final mstep s (h ++ [o]) = fst (mstep (final mstep s h) o).
  Proof. rewrite final_app, final_cons. reflexivity. Qed.

  Lemma erase_with_buf_inv m i f b :
    nth_error (bufs m) i = Some b -> eb (f b) = eb b -> erase (with_buf m i f) = erase m.
  Proof.
    intros Hb Hf. unfold erase, with_buf. cbn. f_equal.
    revert i Hb. generalize (bufs m) as l. induction l as [|a l IH]; intros [|i] Hb; cbn in *; try discriminate.
    - injection Hb as ->. now rewrite Hf.
    - f_equal. now apply IH.
  Qed.

  Lemma inv_rebuild skip m ths a st t th m' a' st' x th' :
    Inv {| c_mem := m; c_threads := ths |} a st -> nth_error ths t = Some th ->
    erase m' = erase a' -> (exists h, a' = final mstep init h) ->
    grows skip m m' ->
    (forall w, skip = Some (N.to_nat w) -> locked ths w = false) ->
    (forall t2, sget st' t2 = if Nat.eqb t2 t then x else sget st t2) ->
    thread_ok m' x th' ->
    (forall w, holds th' w = true -> holds th w = true \/ locked ths w = false) ->
    Inv {| c_mem := m'; c_threads := set_nth t th' ths |} a' st'.
  Proof.
    intros [I1 I2 I3 I4] Ht Hsim Hseq Hg Hskip Hst Hok Hh. cbn in *.
    constructor; cbn; auto.
    - intros t2 th2. rewrite (nth_set_nth _ _ _ _ t2 Ht), Hst.
      destruct (Nat.eqb t2 t) eqn:E; intros H2.
      + injection H2 as <-. exact Hok.
      + eapply thread_ok_grows; [apply I2; exact H2 | exact Hg |].
        intros w Hw Hs. rewrite (locked_false _ _ _ _ (Hskip w Hs) H2) in Hw. discriminate.
    - eapply excl_set; eauto.
  Qed.

  Lemma sget_same st t : forall t2, sget st t2 = if Nat.eqb t2 t then sget st t else sget st t2.
  Proof. intros t2. destruct (Nat.eqb t2 t) eqn:E; [apply Nat.eqb_eq in E; now subst | reflexivity]. Qed.

  (* the abstract step at a linearisation point, from the concrete one *)
  Lemma lp_abstract m a o :
    erase m = erase a ->
    exists a' , mstep a o = (a', snd (mstep m o)) /\ erase (fst (mstep m o)) = erase a'.
  Proof.
    intros E. destruct (step_erase_eq hash valid_digest valid_repo valid_tag decode_image decode_index cfg m a o E) as [A B].
    exists (fst (mstep a o)). split; [rewrite A; apply surjective_pairing | exact B].
  Qed.

  Lemma lp_step skip m ths a st t th o m' r th' :
    Inv {| c_mem := m; c_threads := ths |} a st -> nth_error ths t = Some th -> sget st t = TPend o ->
    erase m' = erase (fst (mstep m o)) -> r = snd (mstep m o) ->
    grows skip m m' -> (forall w, skip = Some (N.to_nat w) -> locked ths w = false) ->
    thread_ok m' (TLin r) th' ->
    (forall w, holds th' w = true -> holds th w = true \/ locked ths w = false) ->
    exists a' st', aug_run a st [ALin t] = Some (a', st') /\
                   Inv {| c_mem := m'; c_threads := set_nth t th' ths |} a' st'.
  Proof.
    intros I Ht Hst Hm Hr Hg Hskip Hok Hh.
    destruct (lp_abstract m a o (inv_sim _ _ _ I)) as (a' & Ha & He).
    exists a', (sset st t (TLin r)). split.
    - cbn [Conc.aug_run]. rewrite Hst, Ha, <- Hr. reflexivity.
    - eapply inv_rebuild; eauto.
      + congruence.
      + destruct (inv_seq _ _ _ I) as [h ->]. exists (h ++ [o]). rewrite final_snoc, Ha. reflexivity.
      + intros t2. apply sget_sset.
  Qed.

  Lemma inv_step c l c1 a st :
    cstep hash valid_digest valid_repo valid_tag decode_image decode_index cfg c l c1 -> Inv c a st ->
    exists a' st', aug_run a st l = Some (a', st') /\ Inv c1 a' st'.
  Proof.
    intros S I. destruct S as [m ths t th o Ht Hc | m ths t th o p m' lp p' Ht Hc Hs | m ths t th o r Ht Hc].
    - (* invocation *)
      pose proof (inv_thr _ _ _ I t th Ht) as Hok. unfold thread_ok in Hok. cbn in Hok. rewrite Hc in Hok.
      exists a, (sset st t (TPend o)). split; [cbn [Conc.aug_run]; now rewrite Hok|].
      eapply (inv_rebuild None); eauto.
      + apply (inv_sim _ _ _ I).
      + apply (inv_seq _ _ _ I).
      + now apply grows_same_bufs.
      + discriminate.
      + intros t2. apply sget_sset.
      + unfold thread_ok. cbn. auto.
      + cbn. discriminate.
    - (* a section *)
      pose proof (inv_thr _ _ _ I t th Ht) as Hok. unfold thread_ok in Hok. cbn in Hok. rewrite Hc in Hok.
      destruct p as [o'|w d de|w e|r].
      + destruct Hok as [-> Hst].
        destruct o;
          try (apply sec_start_generic_inv in Hs as (-> & -> & ->); [|intros; discriminate];
               eapply (lp_step None); eauto;
               [ apply mstep_grows; intros; discriminate | discriminate
               | unfold thread_ok; cbn; reflexivity | cbn; discriminate ]).
        (* Commit, section A *)
        cbn [sec_step] in Hs. destruct (locked ths w) eqn:Hl; [discriminate|].
        destruct (nth_error (bufs m) (N.to_nat w)) as [b|] eqn:Hb.
        2:{ injection Hs as <- <- <-.
            refine (lp_step None m ths a st t th (WCommit w d) _ _ _ I Ht Hst _ _ _ _ _ _).
            - unfold Conc.mstep; cbn [step]; rewrite Hb; reflexivity.
            - unfold Conc.mstep; cbn [step]; rewrite Hb; reflexivity.
            - now apply grows_same_bufs.
            - discriminate.
            - unfold thread_ok; cbn; reflexivity.
            - cbn; discriminate. }
        destruct (u_err b) eqn:He.
        { injection Hs as <- <- <-.
          refine (lp_step None m ths a st t th (WCommit w d) _ _ _ I Ht Hst _ _ _ _ _ _).
          - unfold Conc.mstep; cbn [step]; rewrite Hb, He; reflexivity.
          - unfold Conc.mstep; cbn [step]; rewrite Hb, He; reflexivity.
          - now apply grows_same_bufs.
          - discriminate.
          - unfold thread_ok; cbn; reflexivity.
          - cbn; discriminate. }
        destruct (beqb (hash (u_buf b)) d) eqn:Hh; injection Hs as <- <- <-.
        * (* digest matches: committed and desc recorded, not yet linearised *)
          exists a, st. split; [reflexivity|].
          eapply (inv_rebuild (Some (N.to_nat w))); eauto.
          -- rewrite (erase_with_buf_inv _ _ _ _ Hb); [apply (inv_sim _ _ _ I)|].
             unfold eb, set_commit; cbn. now rewrite He.
          -- apply (inv_seq _ _ _ I).
          -- apply grows_with_buf. now left.
          -- intros w' E. injection E as E. apply N2Nat.inj in E. now subst.
          -- apply sget_same.
          -- unfold thread_ok; cbn. repeat split; auto.
             exists (set_commit (octet_desc d (blen (u_buf b))) b), (u_buf b), [].
             cbn. rewrite app_nil_r. apply beqb_eq in Hh.
             split; [exact (nth_with_buf_same m _ _ _ Hb) | auto 10].
          -- cbn. intros w' Hw. apply N.eqb_eq in Hw. subst. now right.
        * (* digest mismatch: recorded, commit fails here *)
          refine (lp_step None m ths a st t th (WCommit w d) _ _ _ I Ht Hst _ _ _ _ _ _).
          -- unfold Conc.mstep; cbn [step]; rewrite Hb, He, Hh; reflexivity.
          -- unfold Conc.mstep; cbn [step]; rewrite Hb, He, Hh; reflexivity.
          -- apply grows_with_buf. right. apply buf_le_set_err.
          -- discriminate.
          -- unfold thread_ok; cbn; reflexivity.
          -- cbn; discriminate.
      + (* Commit, section B: the callback *)
        destruct Hok as (-> & Hst & b & pre & suf & Hb & Hcm & Hde & Hde2 & Hbuf & Hh).
        assert (Hkeep : forall w', holds {| t_cur := Some (WCommit w d, PCommitC w e_digest_mismatch) |} w' = true ->
                              holds th w' = true).
        { intros w'. unfold holds. rewrite Hc. cbn. auto. }
        cbn [sec_step] in Hs. rewrite Hb, Hcm in Hs. cbn [negb] in Hs.
        destruct (u_err b) eqn:He.
        { injection Hs as <- <- <-.
          refine (lp_step None m ths a st t th (WCommit w d) _ _ _ I Ht Hst _ _ _ _ _ _).
          - unfold Conc.mstep; cbn [step]; rewrite Hb, He; reflexivity.
          - unfold Conc.mstep; cbn [step]; rewrite Hb, He; reflexivity.
          - now apply grows_same_bufs.
          - discriminate.
          - unfold thread_ok; cbn. split; [reflexivity|]. exists b. split; [exact Hb | rewrite He; discriminate].
          - intros w' Hw. left. revert Hw. unfold holds. rewrite Hc. cbn. auto. }
        rewrite Hde in Hs.
        assert (Hsz : d_size de = blen pre) by (rewrite Hde2; reflexivity).
        destruct (negb (blen (u_buf b) =? d_size de)%Z) eqn:Hlen; injection Hs as <- <- <-.
        * (* the buffer grew after the digest was checked *)
          assert (X : beqb (hash (u_buf b)) d = false).
          { destruct (beqb (hash (u_buf b)) d) eqn:X; [|reflexivity]. exfalso.
            apply beqb_eq in X. rewrite <- Hh in X. apply hash_inj in X.
            apply negb_true_iff, Z.eqb_neq in Hlen. apply Hlen. now rewrite X, Hsz. }
          refine (lp_step None m ths a st t th (WCommit w d) _ _ _ I Ht Hst _ _ _ _ _ _).
          -- unfold Conc.mstep; cbn [step]; rewrite Hb, He, X; reflexivity.
          -- unfold Conc.mstep; cbn [step]; rewrite Hb, He, X; reflexivity.
          -- apply grows_with_buf. right. apply buf_le_set_err.
          -- discriminate.
          -- unfold thread_ok; cbn. split; [reflexivity|]. exists (set_err e_digest_mismatch b).
             split; [exact (nth_with_buf_same m _ _ _ Hb) | cbn; discriminate].
          -- intros w' Hw. left. now apply Hkeep.
        * (* unchanged: store it; this is the linearisation point of a successful Commit *)
          apply negb_false_iff, Z.eqb_eq in Hlen.
          assert (Hsuf : suf = []).
          { rewrite Hsz, Hbuf in Hlen. unfold blen in Hlen. rewrite app_length in Hlen.
            destruct suf; [reflexivity|]. cbn in Hlen. lia. }
          subst suf. rewrite app_nil_r in Hbuf.
          assert (X : beqb (hash (u_buf b)) d = true) by (apply beqb_eq; now rewrite Hbuf).
          refine (lp_step None m ths a st t th (WCommit w d) _ _ _ I Ht Hst _ _ _ _ _ _).
          -- unfold Conc.mstep; cbn [step]; rewrite Hb, He, X. cbn [fst].
             rewrite !erase_upd_repo. rewrite (erase_with_buf_inv _ _ _ _ Hb).
             ++ rewrite Hde2. reflexivity.
             ++ unfold eb; cbn. now rewrite He.
          -- unfold Conc.mstep; cbn [step]; rewrite Hb, He, X. cbn [snd]. reflexivity.
          -- apply grows_same_bufs. apply bufs_upd_repo.
          -- discriminate.
          -- unfold thread_ok; cbn. now rewrite Hde2, Hbuf.
          -- cbn. discriminate.
      + (* Commit, section C: record the failure unless one is recorded *)
        destruct Hok as (Hst & b & Hb & He).
        cbn [sec_step] in Hs. rewrite Hb in Hs. destruct (u_err b) eqn:Hu; [|congruence].
        injection Hs as <- <- <-.
        exists a, st. split; [reflexivity|].
        eapply (inv_rebuild None); eauto.
        * apply (inv_sim _ _ _ I).
        * apply (inv_seq _ _ _ I).
        * now apply grows_same_bufs.
        * discriminate.
        * apply sget_same.
        * unfold thread_ok; cbn. exact Hst.
        * cbn. discriminate.
      + discriminate.
    - (* response *)
      pose proof (inv_thr _ _ _ I t th Ht) as Hok. unfold thread_ok in Hok. cbn in Hok. rewrite Hc in Hok.
      exists a, (sset st t TIdle). split; [cbn [Conc.aug_run]; now rewrite Hok, cmp_refl|].
      eapply (inv_rebuild None); eauto.
      + apply (inv_sim _ _ _ I).
      + apply (inv_seq _ _ _ I).
      + now apply grows_same_bufs.
      + discriminate.
      + intros t2. apply sget_sset.
      + unfold thread_ok. cbn. auto.
      + cbn. discriminate.
  Qed.

  Local Notation csteps := (csteps hash valid_digest valid_repo valid_tag decode_image decode_index cfg).

  Lemma inv_steps c tr ms c' :
    csteps c tr ms c' -> forall a st, Inv c a st ->
    exists a' st', aug_run a st tr = Some (a', st') /\ Inv c' a' st'.
  Proof.
    induction 1 as [c | c l c1 tr ms c2 S _ IH]; intros a st I.
    - exists a, st. split; [reflexivity | exact I].
    - destruct (inv_step _ _ _ _ _ S I) as (a1 & st1 & R1 & I1).
      destruct (IH _ _ I1) as (a2 & st2 & R2 & I2).
      exists a2, st2. split; [|exact I2]. rewrite aug_run_app, R1. exact R2.
  Qed.

  Lemma inv_initial c : initial c -> Inv c init [].
  Proof.
    intros [Hm Hi]. constructor.
    - now rewrite Hm.
    - intros t th Ht. unfold thread_ok. rewrite Forall_forall in Hi.
      rewrite (Hi th (nth_error_In _ _ Ht)). reflexivity.
    - intros t1 t2 th1 th2 w H1 H2 A1. rewrite Forall_forall in Hi. unfold holds in A1.
      rewrite (Hi th1 (nth_error_In _ _ H1)) in A1. discriminate.
    - exists []. reflexivity.
  Qed.

  (* LINEARIZABILITY, any number of threads, any operations, any schedule: the trace of every
     execution, with the linearisation points where the model puts them, is a valid
     linearisation w.r.t. the sequential registry Mem.step *)
  Theorem conc_linearizable c tr ms c' :
    initial c -> csteps c tr ms c' ->
    aug_ok hash valid_digest valid_repo valid_tag decode_image decode_index cfg cmp init [] tr = true.
  Proof.
    intros Hi Hs. destruct (inv_steps _ _ _ _ Hs _ _ (inv_initial _ Hi)) as (a' & st' & R & _).
    unfold aug_ok. now rewrite R.
  Qed.

  (* every state reached concurrently is, on everything Interface operations can see, a state
     of the sequential registry *)
  Theorem conc_reaches_sequential c tr ms c' :
    initial c -> csteps c tr ms c' -> exists h, erase (c_mem c') = erase (final mstep init h).
  Proof.
    intros Hi Hs. destruct (inv_steps _ _ _ _ Hs _ _ (inv_initial _ Hi)) as (a' & st' & _ & I).
    destruct (inv_seq _ _ _ I) as [h ->]. exists h. apply (inv_sim _ _ _ I).
  Qed.

  (* committed content matches its digest in every reachable concurrent state *)
  Theorem conc_content_matches_digest c tr ms c' :
    initial c -> csteps c tr ms c' ->
    forall r d b, iblob (c_mem c') r d = Some b -> hash (b_data b) = d.
  Proof.
    intros Hi Hs r d b Hb. destruct (conc_reaches_sequential _ _ _ _ Hi Hs) as [h E].
    apply (inv_iblob hash decode_image decode_index (final mstep init h) r d b).
    - apply (inv_reachable hash valid_digest valid_repo valid_tag decode_image decode_index cfg h).
    - assert (R : repos (c_mem c') = repos (final mstep init h)) by (apply (f_equal repos) in E; exact E).
      unfold iblob, get_repo in *. now rewrite <- R.
  Qed.

  (* ------------------------------------------------------------ a live tag is never reported missing *)

  Definition tag_live (m : state) (r tg : bytes) : Prop :=
    exists de b, itag m r tg = Some de /\ iman m r (d_digest de) = Some b.

  Lemma gettag_live m r tg :
    tag_live m r tg -> exists de data, snd (mstep m (GetTag r tg)) = Ok (RRead de data).
  Proof.
    intros (de & b & Ht & Hm). unfold Conc.mstep. cbn [step snd].
    unfold itag, iman, manifest_for in *. destruct (get_repo m r) as [rp|]; [|discriminate].
    rewrite Ht. cbn. rewrite Hm. cbn. eauto.
  Qed.

  Section Tag.
    Variables r tg : bytes.
    Definition answers (res : result) : Prop := exists de data, res = Ok (RRead de data).
    Definition jt (th : thread) : Prop :=
      match t_cur th with
      | None => True
      | Some (o, PStart o') => o' = o
      | Some (o, PCommitB w d _) => o = WCommit w d
      | Some (o, PCommitC w _) => exists d, o = WCommit w d
      | Some (o, PDone res) => o = GetTag r tg -> answers res
      end.

    Lemma jt_step c l c1 :
      cstep hash valid_digest valid_repo valid_tag decode_image decode_index cfg c l c1 ->
      tag_live (c_mem c) r tg -> Forall jt (c_threads c) -> Forall jt (c_threads c1).
    Proof.
      intros S L J. rewrite Forall_forall in J.
      assert (K : forall ths t th th', nth_error ths t = Some th -> (forall x, In x ths -> jt x) -> jt th' ->
                  Forall jt (set_nth t th' ths)).
      { intros ths t th th' Ht Hall Hn. apply Forall_forall. intros x Hx.
        apply In_nth_error in Hx as [t2 Hx]. rewrite (nth_set_nth _ _ _ _ t2 Ht) in Hx.
        destruct (Nat.eqb t2 t); [injection Hx as <-; exact Hn | eapply Hall, nth_error_In; eauto]. }
      destruct S as [m ths t th o Ht Hc | m ths t th o p m' lp p' Ht Hc Hs | m ths t th o res Ht Hc]; cbn in *.
      - eapply K; eauto. unfold jt. cbn. reflexivity.
      - eapply K; eauto. pose proof (J th (nth_error_In _ _ Ht)) as Jt. unfold jt in *. rewrite Hc in Jt. cbn.
        destruct p as [o'|w d de|w e|res].
        + subst o'. destruct o;
            try (apply sec_start_generic_inv in Hs as (_ & _ & ->); [|intros; discriminate]; intros Heq; try discriminate).
          * injection Heq as -> ->. now apply gettag_live.
          * cbn [sec_step] in Hs. destruct (locked ths w); [discriminate|].
            destruct (nth_error (bufs m) (N.to_nat w)) as [b|]; [|injection Hs as _ _ <-; discriminate].
            destruct (u_err b); [injection Hs as _ _ <-; discriminate|].
            destruct (beqb (hash (u_buf b)) d); injection Hs as _ _ <-; [reflexivity | discriminate].
        + subst o. cbn [sec_step] in Hs.
          destruct (nth_error (bufs m) (N.to_nat w)) as [b|]; [|injection Hs as _ _ <-; discriminate].
          destruct (negb (u_committed b)); [injection Hs as _ _ <-; eauto|].
          destruct (u_err b); [injection Hs as _ _ <-; eauto|].
          destruct (negb (blen (u_buf b) =? d_size (u_desc b))%Z); injection Hs as _ _ <-; [eauto | discriminate].
        + destruct Jt as [d ->]. cbn [sec_step] in Hs.
          destruct (nth_error (bufs m) (N.to_nat w)) as [b|]; [|injection Hs as _ _ <-; discriminate].
          destruct (u_err b); injection Hs as _ _ <-; discriminate.
        + discriminate.
      - eapply K; eauto. unfold jt. cbn. exact I.
    Qed.

    (* If at every instant of an execution the tag points at an existing manifest, then no
       GetTag of it that was invoked in that execution reports it (or anything) missing. *)
    Theorem conc_tag_never_missing c tr ms c' :
      Forall idle (c_threads c) -> csteps c tr ms c' ->
      (forall m, In m ms -> tag_live m r tg) ->
      forall t th res, nth_error (c_threads c') t = Some th ->
        t_cur th = Some (GetTag r tg, PDone res) -> answers res.
    Proof.
      intros Hi Hs. assert (J0 : Forall jt (c_threads c)).
      { eapply Forall_impl; [|exact Hi]. intros th H. unfold jt. now rewrite H. }
      clear Hi. induction Hs as [c | c l c1 tr ms c2 S _ IH]; intros L t th res Ht Hc.
      - rewrite Forall_forall in J0. pose proof (J0 th (nth_error_In _ _ Ht)) as Jt.
        unfold jt in Jt. rewrite Hc in Jt. now apply Jt.
      - apply (IH (jt_step _ _ _ S (L _ (or_introl eq_refl)) J0) (fun m Hm => L m (or_intror Hm)) t th res Ht Hc).
    Qed.
  End Tag.
End P.

(* ---------------------------------------------------------------- exact comparison of results *)

Definition res_eqb_full (a b : res) : bool :=
  match a, b with
  | RDesc x, RDesc y => desc_eqb x y
  | RRead x dx, RRead y dy => desc_eqb x y && beqb dx dy
  | RList l e, RList l' e' => list_eqb beqb l l' && option_eqb err_eqb e e'
  | RDescs l e, RDescs l' e' => list_eqb desc_eqb l l' && option_eqb err_eqb e e'
  | RWriter x, RWriter y => N.eqb x y
  | RN x, RN y => Z.eqb x y
  | RStr x, RStr y => beqb x y
  | RUnit, RUnit => true
  | _, _ => false
  end.
Definition result_eqb (a b : result) : bool :=
  match a, b with
  | Ok x, Ok y => res_eqb_full x y
  | Err x, Err y => err_eqb x y
  | Panic, Panic | OutOfFuel, OutOfFuel => true
  | _, _ => false
  end.

Lemma option_eqb_eq {A} (eqb : A -> A -> bool) (H : forall a b, eqb a b = true <-> a = b) x y :
  option_eqb eqb x y = true <-> x = y.
Proof.
  destruct x, y; cbn; split; try congruence; try reflexivity.
  - intros E. apply H in E. now subst.
  - intros E. injection E as ->. now apply H.
Qed.

Lemma res_eqb_full_eq a b : res_eqb_full a b = true <-> a = b.
Proof.
  destruct a, b; cbn; try (split; [discriminate | congruence]); try (split; reflexivity);
    rewrite ?andb_true_iff, ?desc_eqb_eq, ?beqb_eq, ?(list_eqb_eq _ beqb_eq), ?(list_eqb_eq _ desc_eqb_eq),
      ?(option_eqb_eq _ err_eqb_eq), ?N.eqb_eq, ?Z.eqb_eq;
    split; try (intros [-> ->]; reflexivity); try (intros ->; reflexivity); intros H; injection H; auto.
Qed.

Lemma result_eqb_eq a b : result_eqb a b = true <-> a = b.
Proof.
  destruct a, b; cbn; try (split; [discriminate | congruence]); try (split; reflexivity).
  - rewrite res_eqb_full_eq. split; [now intros -> | intros H; now injection H].
  - rewrite err_eqb_eq. split; [now intros -> | intros H; now injection H].
Qed.
Lemma result_eqb_refl r : result_eqb r r = true.
Proof. now apply result_eqb_eq. Qed.

