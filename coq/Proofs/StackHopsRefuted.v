(* C03 (d): why [Conforming] (Proofs/StackHistory.v) is not closed under putting a client and a
   server in front of a backend, as it is stated.  The stack seen as a backend ([stack_bstep])
   keeps in its state the backend events of its last call, so no call leaves it in the state it
   was in; [Conforming] asks, through [pages_well], that a listing is answered in the same state.
   Kernel-checked on the stack in front of the ocimem model:

     stack_pages_well_refuted       Repositories through the stack does not page well
     conforming_compose_refuted     no invariant that holds of the initial state and no state
                                    relation make [stack_backend ... (mstep orc)] conforming

   What composes are the per-call statements: Proofs/StackHops.v ([n_hops_one],
   [n_hops_PushBlob]).  For the listings the contract would have to compare states up to the
   recorded trace. *)
From Coq Require Import String.
From OCI Require Import Obs.StackRun Proofs.StackStep Proofs.StackListing Proofs.StackHistory Proofs.StackMem.

Import Smoke.

Definition so0 : soracles := soracles_of orc [].
Definition stack0 : backend (sstate state) := stack_backend so0 default_opts default_ccfg (mstep orc).

Theorem stack_pages_well_refuted :
  ~ exists full, pages_well (sstate state) stack0 (sstate0 init) (list_call (Repositories [])) full.
Proof.
  intros (full & Hback & _). specialize (Hback []). cbn [list_call] in Hback.
  apply (f_equal (fun x => sv_tr (st_srv (fst x)))) in Hback. vm_compute in Hback. discriminate Hback.
Qed.

Theorem conforming_compose_refuted :
  ~ exists (Inv' : sstate state -> Prop) (sim' : sstate state -> sstate state -> Prop),
      Conforming (so_linked so0) (so_hash so0) (so_subject so0) enc0 (sstate state) stack0 default_opts Inv' sim'
      /\ Inv' (sstate0 init).
Proof.
  intros (Inv' & sim' & CF & Hi).
  destruct (cf_list _ _ _ _ _ _ _ _ _ CF (sstate0 init) (Repositories []) Hi eq_refl) as [(e & Hfe & _) | (full & Hpw)].
  - vm_compute in Hfe. discriminate Hfe.
  - apply stack_pages_well_refuted. exists full. exact Hpw.
Qed.

Print Assumptions stack_pages_well_refuted.
Print Assumptions conforming_compose_refuted.
