(* Bridge between the per-property model of C01 (Model/IntegrityStack.v over Model/BlobReader.v and
   Model/RangeCodec.v, theorems in Props/C01.v) and the line-by-line composition of C03 / C06 / C18
   (Model/Stack.v = Model/Client.v over the wire over Model/Server.v, theorems in Props/C03Stack.v):

     sections 1-4   the pieces IntegrityStack.v transcribes a second time (decimal codec, Range and
                    Content-Range texts, parseRange, descriptorFromResponse, blobReader.Read, io.ReadAll)
                    ARE the pieces of the client and server models, on every input;
     section 5      one hop of IntegrityStack.v ([http_layer]) over a backend answers what
                    [Stack.stack_call] answers for GetBlob, GetBlobRange, GetManifest, GetTag - the same
                    descriptor and bytes, or an error on both sides - for every backend whose answer to
                    the dispatched call is conforming in size (the digest need not match);
     sections 6-9   C01_range_over_http (and C01_hops_refine for GetBlob, at one hop) restated for the
                    composed model over ocimem; the differences between the two models as kernel-checked
                    witnesses.

   The list of statements with their hypotheses is at the end of the file. *)
From Coq Require Import String.
From OCI Require Import Model.Stack Proofs.Request Proofs.StackBase Proofs.StackDesc Proofs.StackRead Proofs.StackRange.
From OCI Require Import Model.RequestCodecSpec Proofs.RequestCodec Proofs.StackTransparent.
From OCI Require Proofs.Server.
From OCI Require Model.RangeCodec Proofs.RangeCodec Model.BlobReader Proofs.BlobReader.
From OCI Require Model.IntegritySpec Model.IntegrityStack Proofs.IntegrityStack Proofs.Integrity Proofs.MemInv.
From OCI Require Obs.StackRun Proofs.StackJson Proofs.StackHistoryRun.

Module RC := OCI.Model.RangeCodec.
Module RCP := OCI.Proofs.RangeCodec.
Module BR := OCI.Model.BlobReader.
Module BRP := OCI.Proofs.BlobReader.
Module IS := OCI.Model.IntegrityStack.
Module ISP := OCI.Proofs.IntegrityStack.

Local Open Scope Z_scope.

(* ================================================================ 1. strconv: the fourth copy agrees *)

(* fmt "%d": Model/RangeCodec.v prints least significant digit first and reverses, Model/Errors.v
   (and Model/Http.v) accumulate *)
Lemma dec_rev_dec_fuel f1 : forall f2 n acc,
  (n < 2 ^ N.of_nat f1)%N -> (n < 2 ^ N.of_nat f2)%N ->
  rev (RC.dec_rev (S f1) n) ++ acc = dec_fuel (S f2) n acc.
Proof.
  induction f1 as [|f1 IH]; intros f2 n acc H1 H2.
  - cbn in H1. assert (n = 0%N) as -> by lia. reflexivity.
  - cbn [RC.dec_rev dec_fuel].
    destruct (N.ltb_spec n 10) as [Hlt|Hge].
    + rewrite (N.div_small n 10 Hlt). reflexivity.
    + assert (Hq : (n / 10 <> 0)%N).
      { intros E. apply N.div_small_iff in E; lia. }
      apply N.eqb_neq in Hq. rewrite Hq.
      destruct f2 as [|f2]; [cbn in H2; lia|].
      assert (Hd1 : (n / 10 < 2 ^ N.of_nat f1)%N).
      { rewrite Nat2N.inj_succ, N.pow_succ_r' in H1. apply N.div_lt_upper_bound; lia. }
      assert (Hd2 : (n / 10 < 2 ^ N.of_nat f2)%N).
      { rewrite Nat2N.inj_succ, N.pow_succ_r' in H2. apply N.div_lt_upper_bound; lia. }
      rewrite <- (IH f2 (n / 10)%N _ Hd1 Hd2). cbn [rev]. rewrite <- app_assoc. reflexivity.
Qed.

Lemma fmt_N_dec_N n : RC.fmt_N n = dec_N n.
Proof.
  unfold RC.fmt_N, dec_N.
  etransitivity; [symmetry; apply app_nil_r|]. apply dec_rev_dec_fuel.
  - rewrite N2Nat.id. apply N.size_gt.
  - destruct n as [|p]; [cbn; lia|]. cbn [N.size_nat]. apply pos_lt_pow_size.
Qed.

(* the decimal text of an integer is the same text in all four models *)
Theorem fmt_int_dec_Z z : RC.fmt_int z = dec_Z z.
Proof. destruct z; cbn [RC.fmt_int dec_Z]; rewrite ?fmt_N_dec_N; reflexivity. Qed.

Corollary fmt_int_fmt_d z : RC.fmt_int z = fmt_d z.
Proof. rewrite fmt_int_dec_Z. symmetry. apply fmt_d_dec_Z. Qed.

(* strconv.ParseInt(s, 10, 64) *)
Lemma rc_digits_val a : forall acc, RC.digits_val acc a = Http.digits_val a acc.
Proof.
  induction a as [|c a IH]; intros acc; cbn [RC.digits_val Http.digits_val]; [reflexivity|].
  change (RC.is_digit c) with (Http.is_digit c). destruct (Http.is_digit c); [|reflexivity].
  rewrite IH. f_equal. lia.
Qed.

Lemma rc_parse_digits a : RC.parse_digits a = Http.parse_digits a.
Proof. unfold RC.parse_digits, Http.parse_digits. destruct a; [reflexivity | apply rc_digits_val]. Qed.

Lemma rc_parse_int_parse_int64 a : RC.parse_int a = parse_int64 a.
Proof.
  unfold RC.parse_int, parse_int64. destruct a as [|c r]; [reflexivity|].
  assert (G : forall (neg : bool) ds,
    match RC.parse_digits ds with
    | Some n => let z := if neg then - Z.of_N n else Z.of_N n in if RC.in_int64 z then Some z else None
    | None => None
    end =
    match Http.parse_digits ds with
    | Some n => let z := Z.of_N n in
                if neg then (if z <=? two63 then Some (- z) else None) else (if z <? two63 then Some z else None)
    | None => None
    end).
  { intros neg ds. rewrite rc_parse_digits. destruct (Http.parse_digits ds) as [n|]; [|reflexivity].
    cbv zeta. unfold RC.in_int64, RC.MIN64, RC.MAX64, two63. destruct neg.
    - destruct (Z.leb_spec (Z.of_N n) 9223372036854775808);
      destruct (Z.leb_spec (-9223372036854775808) (- Z.of_N n));
      destruct (Z.leb_spec (- Z.of_N n) 9223372036854775807); cbn; try reflexivity; lia.
    - destruct (Z.ltb_spec (Z.of_N n) 9223372036854775808);
      destruct (Z.leb_spec (-9223372036854775808) (Z.of_N n));
      destruct (Z.leb_spec (Z.of_N n) 9223372036854775807); cbn; try reflexivity; lia. }
  destruct (c =? 43)%N; [apply (G false)|]. destruct (c =? 45)%N; [apply (G true) | apply (G false)].
Qed.

(* ... so the server model's and the client model's readings of a number are RangeCodec's *)
Theorem rc_parse_int a : RC.parse_int a = Request.parse_int a.
Proof. rewrite rc_parse_int_parse_int64. apply parse_int64_parse_int. Qed.

Lemma wrap64_eq z : RC.wrap64 z = Request.wrap64 z.
Proof. reflexivity. Qed.

Lemma in64_iff z : ISP.in64 z <-> min_int64 <= z <= max_int64.
Proof. unfold ISP.in64, RC.MIN64, RC.MAX64, min_int64, max_int64. tauto. Qed.

(* ================================================================ 2. the header texts *)

(* the Range header ociclient.GetBlobRange writes: Model/Client.v [range_header] and
   Model/RangeCodec.v [client_range_header] produce the same bytes for every int64 pair *)
Theorem bridge_range_header_text o0 o1 :
  ISP.in64 o1 -> range_header o0 o1 = RC.client_range_header o0 o1.
Proof.
  intros [H1 H2]. unfold range_header, RC.client_range_header, RC.BYTES_EQ, RC.DASH.
  rewrite <- !fmt_int_fmt_d. destruct (Z.ltb_spec o1 0); [reflexivity|].
  rewrite RCP.wrap64_id by (unfold RC.MIN64, RC.MAX64 in *; lia). reflexivity.
Qed.

(* the Content-Range header ociserver.handleBlobGet writes: Model/Server.v (as named by
   Proofs/StackDesc.v [content_range]) and Model/RangeCodec.v [content_range_header] *)
Theorem bridge_content_range_text start end_ size :
  ISP.in64 (end_ - 1) -> content_range start end_ size = RC.content_range_header start end_ size.
Proof.
  intros H. unfold content_range, RC.content_range_header, RC.DASH.
  rewrite (RCP.wrap64_id _ H), !fmt_int_dec_Z. reflexivity.
Qed.

(* ---- ociserver.parseRange: Model/Server.v [parse_range_header] vs Model/RangeCodec.v
   [parse_http_range], for EVERY header text ---- *)

Lemma rc_split_nonempty c a : RC.split_byte c a <> [].
Proof.
  destruct a as [|d a]; cbn [RC.split_byte]; [discriminate|].
  destruct (N.eqb d c); [discriminate|]. destruct (RC.split_byte c a); discriminate.
Qed.

Lemma split_byte_aux_rc c a : forall cur,
  split_byte_aux c a cur = (rev cur ++ hd [] (RC.split_byte c a)) :: tl (RC.split_byte c a).
Proof.
  induction a as [|d a IH]; intros cur; cbn [split_byte_aux RC.split_byte].
  - cbn. now rewrite app_nil_r.
  - pose proof (rc_split_nonempty c a) as Hne.
    destruct (N.eqb d c).
    + cbn [hd tl]. rewrite app_nil_r. rewrite IH. cbn [rev app].
      destruct (RC.split_byte c a); [congruence | reflexivity].
    + rewrite IH. cbn [rev]. rewrite <- app_assoc. cbn [app].
      destruct (RC.split_byte c a) as [|x rest]; [congruence | reflexivity].
Qed.

Lemma split_byte_rc c a : Request.split_byte c a = RC.split_byte c a.
Proof.
  unfold Request.split_byte. rewrite split_byte_aux_rc. cbn [rev app].
  pose proof (rc_split_nonempty c a). destruct (RC.split_byte c a); [congruence | reflexivity].
Qed.

Lemma trim_left_rc a : Server.trim_left a = RC.trim_left a.
Proof. induction a as [|c a IH]; [reflexivity|]. cbn. now rewrite IH. Qed.

Lemma trim_string_rc a : Server.trim_string a = RC.trim_string a.
Proof. unfold Server.trim_string, RC.trim_string. now rewrite !trim_left_rc. Qed.

Definition pair_of (r : RC.http_range) : Z * Z := (RC.hr_start r, RC.hr_end r).

Definition hr_view (x : RC.http_range_result) : R unit (list (Z * Z)) :=
  match x with
  | RC.HROk l => Ok (map pair_of l)
  | RC.HRInvalid | RC.HREndRelative => Err tt
  end.

Lemma parse_http_ranges_cons ra rest acc :
  hr_view (RC.parse_http_ranges (ra :: rest) acc) =
  match parse_range_one ra with
  | None => hr_view (RC.parse_http_ranges rest acc)
  | Some (Ok (i, j)) => hr_view (RC.parse_http_ranges rest ({| RC.hr_start := i; RC.hr_end := j |} :: acc))
  | Some _ => Err tt
  end.
Proof.
  unfold parse_range_one. cbn [RC.parse_http_ranges].
  change (Server.trim_string ra) with (RC.trim_string ra).
  destruct (RC.trim_string ra) as [|c0 ra'] eqn:Era; [reflexivity|]. rewrite <- Era. clear Era.
  change RC.DASH with 45%N.
  destruct (cut_byte 45 (RC.trim_string ra)) as [[st0 en0]|]; [|reflexivity].
  change (Server.trim_string st0) with (RC.trim_string st0).
  change (Server.trim_string en0) with (RC.trim_string en0).
  destruct (RC.trim_string st0) as [|s0 st'] eqn:Est.
  { destruct (RC.trim_string en0) as [|e0 en']; [reflexivity|]. destruct (e0 =? 45)%N; reflexivity. }
  rewrite <- Est. clear Est. rewrite <- rc_parse_int.
  destruct (RC.parse_int (RC.trim_string st0)) as [i|]; [|reflexivity].
  destruct (i <? 0); [reflexivity|].
  destruct (RC.trim_string en0) as [|e0 en'] eqn:Een; [reflexivity|]. rewrite <- Een. clear Een.
  rewrite <- rc_parse_int. destruct (RC.parse_int (RC.trim_string en0)) as [j|]; [|reflexivity].
  rewrite Z.gtb_ltb. destruct (j <? i); reflexivity.
Qed.

Lemma parse_http_ranges_rc parts : forall acc,
  hr_view (RC.parse_http_ranges parts acc) =
  match parse_range_list parts with
  | Ok rs => Ok (map pair_of (rev acc) ++ rs)
  | other => other
  end.
Proof.
  induction parts as [|ra rest IH]; intros acc.
  - cbn [RC.parse_http_ranges parse_range_list hr_view]. now rewrite app_nil_r.
  - rewrite parse_http_ranges_cons. cbn [parse_range_list].
    destruct (parse_range_one ra) as [[[i j]|[]| |]|]; try reflexivity.
    + rewrite IH. cbn [rev]. rewrite map_app. cbn [map pair_of RC.hr_start RC.hr_end].
      destruct (parse_range_list rest) as [rs|[]| |]; try reflexivity. now rewrite <- app_assoc.
    + apply IH.
Qed.

(* the two transcriptions of parseRange read every header text alike (the server model does
   not distinguish "invalid" from "end-relative": both are a 416) *)
Theorem bridge_parse_range a : hr_view (RC.parse_http_range a) = parse_range_header a.
Proof.
  unfold RC.parse_http_range, parse_range_header. destruct a as [|c a]; [reflexivity|].
  change RC.BYTES_EQ with (s "bytes="). change (List.length (s "bytes=")) with 6%nat.
  destruct (has_prefix (s "bytes=") (c :: a)); cbn [negb]; [|reflexivity].
  rewrite split_byte_rc, parse_http_ranges_rc. cbn [rev map app].
  destruct (parse_range_list _) as [rs|[]| |]; reflexivity.
Qed.

(* ================================================================ 3. descriptorFromResponse *)

Definition opt_of {E A} (x : R E A) : option A := match x with Ok a => Some a | _ => None end.

(* what Model/BlobReader.v keeps of a response in the client's hands *)
Definition resp_view (r : Http.resp) : BR.response :=
  {| BR.rs_status := Http.status r;
     BR.rs_ctype := rheader h_content_type r;
     BR.rs_clen := Http.rs_clen (hr_rs r);
     BR.rs_crange := rheader h_content_range r;
     BR.rs_digest := rheader h_digest r |}.

Lemma after_last_none c l : ~ In c l -> BR.after_last c l = None.
Proof.
  induction l as [|d l IH]; [reflexivity|]. intros H. cbn [BR.after_last].
  rewrite IH by (intros Hi; apply H; now right).
  destruct (N.eqb_spec d c) as [->|]; [exfalso; apply H; now left | reflexivity].
Qed.

(* strings.LastIndex + slicing: the client model cuts at the first occurrence in the reversed
   string, BlobReader.v searches from the right *)
Lemma cut_last_after_last c l : option_map snd (Client.cut_last c l) = BR.after_last c l.
Proof.
  unfold Client.cut_last. destruct (cut_byte c (rev l)) as [[a b]|] eqn:E.
  - apply cut_byte_some in E as [E Hn]. cbn [option_map snd].
    assert (El : l = rev b ++ c :: rev a).
    { rewrite <- (rev_involutive l), E, rev_app_distr. cbn [rev]. now rewrite <- app_assoc. }
    rewrite El. symmetry. apply BRP.after_last_app. intros Hi. apply Hn. now apply in_rev.
  - apply cut_byte_none in E. cbn [option_map]. symmetry. apply after_last_none.
    intros Hi. apply E. now apply in_rev in Hi.
Qed.

(* descriptorFromResponse: for EVERY response, caller's digest and flag pair the two
   transcriptions build the same descriptor or both refuse *)
Theorem bridge_descriptor_from_response (ev : env) r known rs rd :
  opt_of (Client.descriptor_from_response ev current r known rs rd)
  = BR.descriptor_from_response (e_valid_digest ev) (resp_view r) known rs rd.
Proof.
  unfold Client.descriptor_from_response, BR.descriptor_from_response, resp_view.
  cbn [BR.rs_status BR.rs_ctype BR.rs_clen BR.rs_crange BR.rs_digest current b_known_digest_checked].
  assert (Hct : (if is_empty (rheader h_content_type r) then octet_stream else rheader h_content_type r)
                = match rheader h_content_type r with [] => BR.OCTET | c => c end).
  { destruct (rheader h_content_type r); reflexivity. }
  rewrite Hct. clear Hct. generalize (match rheader h_content_type r with [] => BR.OCTET | c => c end). intros ct.
  (* the size *)
  assert (Hsz : opt_of
      (if rs then
         if Http.status r =? 206 then
           let content_range := rheader h_content_range r in
           if is_empty content_range then Err (Plain (s "no Content-Range in partial content response"))
           else match Client.cut_last 47%N content_range with
                | None => Err (Plain (s "malformed Content-Range"))
                | Some (_, sz) =>
                    match parse_int64 sz with
                    | None => Err (Plain (s "malformed Content-Range"))
                    | Some n => Ok n
                    end
                end
         else if Http.rs_clen (hr_rs r) <? 0 then Err (Plain (s "unknown content length"))
         else Ok (Http.rs_clen (hr_rs r))
       else Ok 0)
     = (if rs then
          if Http.status r =? 206 then
            match rheader h_content_range r with
            | [] => None
            | cr => match BR.after_last 47%N cr with
                    | None => None
                    | Some t => RC.parse_int t
                    end
            end
          else if Http.rs_clen (hr_rs r) <? 0 then None
          else Some (Http.rs_clen (hr_rs r))
        else Some 0)).
  { destruct rs; [|reflexivity]. destruct (Http.status r =? 206).
    - cbv zeta. destruct (rheader h_content_range r) as [|c0 cr] eqn:Ecr; [reflexivity|]. cbn [is_empty].
      rewrite <- cut_last_after_last. destruct (Client.cut_last 47 (c0 :: cr)) as [[x sz]|]; [|reflexivity].
      cbn [option_map snd]. rewrite rc_parse_int_parse_int64. destruct (parse_int64 sz); reflexivity.
    - destruct (Http.rs_clen (hr_rs r) <? 0); reflexivity. }
  match goal with |- opt_of (rbind ?x _) = _ => destruct x as [sz|e| |] end;
    match type of Hsz with _ = ?y => destruct y as [sz'|] end; cbn [opt_of] in Hsz; try discriminate Hsz;
    cbn [rbind opt_of]; try reflexivity.
  injection Hsz as <-.
  (* the digest *)
  destruct (rheader h_digest r) as [|d0 dg] eqn:Edg; cbn [is_empty negb].
  - destruct known as [|k0 kn]; cbn [is_empty negb andb rbind].
    + destruct rd; reflexivity.
    + destruct (e_valid_digest ev (k0 :: kn)); cbn [negb rbind opt_of]; [|reflexivity].
      cbn [is_empty andb]. rewrite andb_false_r. reflexivity.
  - destruct (e_valid_digest ev (d0 :: dg)); cbn [rbind opt_of]; [|reflexivity].
    cbn [is_empty]. rewrite andb_false_r. reflexivity.
Qed.

(* ================================================================ 4. blobReader *)

Section Reader.
  Variable Srv : Type.
  Variable ev : env.

  Notation W := (world Srv).

  (* digest.NewDigest(alg, h): BlobReader.v's [hashd] read off the client model's oracle *)
  Definition hashd_of (hashhex : bytes -> bytes -> bytes) : bytes -> bytes -> bytes :=
    fun alg data => alg ++ 58%N :: hashhex alg data.

  Notation hashd := (hashd_of (e_hashhex ev)).

  Lemma new_digest_hashd alg data : new_digest ev alg data = hashd alg data.
  Proof. reflexivity. Qed.

  (* the state of a client-model reader as BlobReader.v keeps it (its source apart) *)
  Definition br_view (b : blob_reader) : BR.br :=
    {| BR.br_n := br_n b; BR.br_acc := br_seen b; BR.br_desc := br_desc b; BR.br_verify := br_verify b |}.

  (* the reader's algorithm field is the algorithm of its descriptor's digest *)
  Definition alg_inv (b : blob_reader) : Prop := BR.alg_of (d_digest (br_desc b)) = Some (br_alg b).

  Lemma br_alg_view b : alg_inv b -> BR.br_alg (br_view b) = br_alg b.
  Proof. unfold alg_inv, BR.br_alg. cbn [br_view BR.br_desc]. now intros ->. Qed.

  (* err of the underlying Read *)
  Definition rerr_of (e : option bool) : BR.rerr :=
    match e with None => BR.RNil | Some false => BR.REOF | Some true => BR.RFail end.

  (* the verdict of a Read: Model/Client.v says which Go error, BlobReader.v which class *)
  Definition rres_of (e : rend) : BR.rres :=
    match e with
    | RdMore => BR.RROk
    | RdEOF => BR.RREOF
    | RdErr (Wrap _ _) => BR.RRSize
    | RdErr (Plain t) => if beqb t (s "read error") then BR.RRUnder else BR.RRDigest
    | RdErr _ => BR.RRUnder
    end.

  (* func (r *blobReader) Read: one call, any buffer size, any state of the underlying reader *)
  Theorem bridge_blob_read b k (w : W) :
    alg_inv b ->
    let '(w1, (b', data, e)) := blob_read Srv ev b k w in
    let '(_, (_, data', se)) := source_read Srv (br_src b) k w in
    data' = data /\ alg_inv b' /\ w_srv w1 = w_srv w /\
    BR.br_read hashd (br_view b) data (rerr_of se) = (br_view b', rres_of e).
  Proof.
    intros Ha. unfold blob_read.
    destruct (source_read Srv (br_src b) k w) as [w1 [[src' data] se]] eqn:Es.
    split; [reflexivity|]. split; [exact Ha|].
    split.
    { unfold source_read in Es. destruct (src_rest (br_src b)); [injection Es as <- _ _ _; reflexivity|].
      injection Es as <- _ _ _. destruct (src_idx (br_src b)); reflexivity. }
    unfold BR.br_read. rewrite (br_alg_view b Ha).
    cbn [br_view BR.br_n BR.br_acc BR.br_desc BR.br_verify br_n br_seen br_desc br_verify].
    unfold blenZ. fold (blen data). rewrite !Z.gtb_ltb.
    destruct se as [[|]|]; cbn [rerr_of].
    - reflexivity.
    - destruct (br_verify b); cbn [negb].
      + destruct (br_n b + blen data =? d_size (br_desc b)); cbn [negb]; [|reflexivity].
        rewrite new_digest_hashd. destruct (beqb _ _); reflexivity.
      + destruct (d_size (br_desc b) <? br_n b + blen data); reflexivity.
    - destruct (d_size (br_desc b) <? br_n b + blen data); reflexivity.
  Qed.

  (* the Read results of a body held in [rest], read [k] bytes at a time, ending in io.EOF or
     (fail) in the underlying reader's error *)
  Fixpoint chunks (fuel k : nat) (rest : bytes) : list bytes :=
    match fuel with
    | O => []
    | S f => match rest with
             | [] => []
             | _ => firstn k rest :: chunks f k (skipn k rest)
             end
    end.

  Definition script_of (k : nat) (rest : bytes) (fail : bool) : BR.script :=
    map (fun p => (p, BR.RNil)) (chunks (length rest) k rest) ++ [([], if fail then BR.RFail else BR.REOF)].

  Lemma chunks_fuel k : (1 <= k)%nat -> forall f1 f2 rest,
    (length rest <= f1)%nat -> (length rest <= f2)%nat -> chunks f1 k rest = chunks f2 k rest.
  Proof.
    intros Hk. induction f1 as [|f1 IH]; intros f2 rest H1 H2.
    - destruct rest; [|cbn in H1; lia]. destruct f2; reflexivity.
    - destruct rest as [|c rest]; [destruct f2; reflexivity|].
      destruct f2 as [|f2]; [cbn in H2; lia|]. cbn [chunks]. f_equal.
      apply IH; rewrite skipn_length; cbn [length] in *; lia.
  Qed.

  Lemma concat_chunks k : (1 <= k)%nat -> forall f rest, (length rest <= f)%nat -> concat (chunks f k rest) = rest.
  Proof.
    intros Hk. induction f as [|f IH]; intros rest H.
    - destruct rest; [reflexivity | cbn in H; lia].
    - destruct rest as [|c rest]; [reflexivity|]. cbn [chunks concat].
      rewrite IH by (rewrite skipn_length; cbn [length] in *; lia). apply firstn_skipn.
  Qed.

  Definition drained_of (data : bytes) (e : rend) : BR.drained :=
    match e with
    | RdEOF => BR.DClean data
    | RdMore => BR.DHang data
    | RdErr _ => BR.DErr data (rres_of e)
    end.

  (* io.ReadAll over the reader, k bytes at a time: the client model's [drain] computes what
     BlobReader.v's [drain] computes on the corresponding script *)
  Theorem bridge_drain k : (1 <= k)%nat -> forall fuel b acc (w : W),
    (length (src_rest (br_src b)) < fuel)%nat -> alg_inv b ->
    exists w' data e,
      drain Srv ev fuel b k acc w = (w', Ok (data, e)) /\ w_srv w' = w_srv w /\ e <> RdMore /\
      BR.drain hashd (br_view b) (script_of k (src_rest (br_src b)) (src_fail (br_src b))) acc = drained_of data e.
  Proof.
    intros Hk. induction fuel as [|fuel IH]; intros b acc w Hf Ha; [lia|].
    cbn [drain]. pose proof (bridge_blob_read b k w Ha) as Hb.
    destruct (blob_read Srv ev b k w) as [w1 [[b' data] e]] eqn:Eb.
    destruct (source_read Srv (br_src b) k w) as [w0 [[src0 data0] se]] eqn:Es.
    destruct Hb as (-> & Ha' & Hw1 & Hr).
    unfold source_read in Es. unfold script_of.
    destruct (src_rest (br_src b)) as [|c rest] eqn:Erest.
    - (* the underlying reader is at its end *)
      injection Es; intros <- <- _ _. cbn [length chunks map app BR.drain]. cbn [rerr_of] in Hr.
      assert (Hr' : BR.br_read hashd (br_view b) [] (if src_fail (br_src b) then BR.RFail else BR.REOF)
                    = (br_view b', rres_of e)) by (destruct (src_fail (br_src b)); exact Hr).
      rewrite Hr'.
      assert (Hne : e <> RdMore).
      { intros ->. unfold BR.br_read in Hr'. cbn [rres_of] in Hr'.
        destruct (src_fail (br_src b)); [discriminate|].
        destruct (negb (BR.br_verify (br_view b))).
        - destruct (_ >? _); discriminate.
        - destruct (negb _); [discriminate|]. destruct (negb _); discriminate. }
      exists w1, (acc ++ []), e. split; [destruct e; try reflexivity; congruence|].
      split; [exact Hw1|]. split; [exact Hne|].
      destruct e as [| |x]; [congruence|reflexivity|]. cbn [drained_of]. destruct (rres_of (RdErr x)) eqn:Ex; try reflexivity.
      + cbn in Ex. destruct x; try discriminate. destruct (beqb _ _); discriminate.
      + cbn in Ex. destruct x; try discriminate. destruct (beqb _ _); discriminate.
    - (* a Read that returns data and nil *)
      injection Es; intros <- <- _ _. cbn [rerr_of] in Hr.
      cbn [length chunks map app BR.drain]. rewrite Hr.
      assert (Hsrc' : br_src b' = {| src_idx := src_idx (br_src b); src_rest := skipn k (c :: rest); src_fail := src_fail (br_src b) |}).
      { unfold blob_read, source_read in Eb. rewrite Erest in Eb. injection Eb; intros _ <- _. reflexivity. }
      assert (Hlen : (length (skipn k (c :: rest)) <= length rest)%nat) by (rewrite skipn_length; cbn [length]; lia).
      destruct e as [| |x].
      + cbn [rres_of].
        destruct (IH b' (acc ++ firstn k (c :: rest)) w1) as (w' & data' & e' & E & Hw & Hne & Hd).
        { rewrite Hsrc'. cbn [src_rest]. cbn [length] in Hf. lia. }
        { exact Ha'. }
        exists w', data', e'. split; [exact E|]. split; [now rewrite Hw|]. split; [exact Hne|].
        rewrite <- Hd. rewrite Hsrc'. cbn [src_rest src_fail]. unfold script_of.
        rewrite (chunks_fuel k Hk (length rest) (length (skipn k (c :: rest))) _ Hlen (le_n _)). reflexivity.
      + (* io.EOF cannot come with a nil underlying error *)
        exfalso. unfold BR.br_read in Hr. destruct (_ >? _); discriminate.
      + exists w1, (acc ++ firstn k (c :: rest)), (RdErr x). split; [reflexivity|]. split; [exact Hw1|].
        split; [discriminate|]. cbn [drained_of].
        destruct (rres_of (RdErr x)) eqn:Ex; try reflexivity.
        * cbn in Ex. destruct x; try discriminate. destruct (beqb _ _); discriminate.
        * cbn in Ex. destruct x; try discriminate. destruct (beqb _ _); discriminate.
  Qed.
End Reader.

(* ---- the verdict does not depend on the buffer size: IntegrityStack.v feeds the body in one
   piece ([BR.whole]), the composed model k bytes at a time ---- *)

(* how a drained stream ended: the bytes of a clean end, or the class of the error *)
Definition verdict (x : BR.drained) : bytes + option BR.rres :=
  match x with
  | BR.DClean d => inl d
  | BR.DErr _ r => inr (Some r)
  | BR.DHang _ => inr None
  end.

Lemma verdict_cut_independent hashd r parts data :
  verdict (BR.drain hashd r (BRP.deliver parts []) data)
  = verdict (BR.drain hashd r (BR.whole (concat parts)) data).
Proof.
  change (BR.whole (concat parts)) with (BRP.deliver [] (concat parts)).
  rewrite !BRP.drain_deliver. cbn [BRP.cross]. unfold BRP.body_of. cbn [concat app]. rewrite app_nil_r.
  destruct (BRP.cross (BR.br_n r) (BRP.size_of r) parts data) as [d|] eqn:EC; [|reflexivity].
  apply BRP.cross_some_total in EC. unfold BRP.at_eof. destruct (BR.br_verify r).
  - destruct (Z.eqb_spec (BR.br_n r + blen (concat parts)) (BRP.size_of r)); [lia | reflexivity].
  - rewrite Z.gtb_ltb. destruct (Z.ltb_spec (BRP.size_of r) (BR.br_n r + blen (concat parts))); [reflexivity | lia].
Qed.

Section Verdict.
  Variable Srv : Type.
  Variable ev : env.
  Notation hashd := (hashd_of (e_hashhex ev)).

  (* the caller of the client model draining a reader over an intact body [rest], with any
     buffer size: same clean bytes / same class of error as BlobReader.v's reader fed [rest] in
     one piece *)
  Theorem bridge_reader_verdict k fuel b acc (w : world Srv) :
    (1 <= k)%nat -> (length (src_rest (br_src b)) < fuel)%nat -> alg_inv b -> src_fail (br_src b) = false ->
    exists w' data e,
      drain Srv ev fuel b k acc w = (w', Ok (data, e)) /\ w_srv w' = w_srv w /\ e <> RdMore /\
      verdict (drained_of data e) = verdict (BR.drain hashd (br_view b) (BR.whole (src_rest (br_src b))) acc).
  Proof.
    intros Hk Hf Ha Hnf. destruct (bridge_drain Srv ev k Hk fuel b acc w Hf Ha) as (w' & data & e & E & Hw & Hne & Hd).
    exists w', data, e. split; [exact E|]. split; [exact Hw|]. split; [exact Hne|]. rewrite <- Hd, Hnf. unfold script_of.
    change (map (fun p => (p, BR.RNil)) (chunks (length (src_rest (br_src b))) k (src_rest (br_src b))) ++ [([], BR.REOF)])
      with (BRP.deliver (chunks (length (src_rest (br_src b))) k (src_rest (br_src b))) []).
    rewrite verdict_cut_independent, (concat_chunks k Hk) by apply le_n. reflexivity.
  Qed.
End Verdict.

(* ================================================================ 5. one hop, operation by operation *)

(* the two models agree on an answer: the same descriptor and bytes, or an error on both sides.
   (Error prose is not modelled on either side; the codes are compared separately below.) *)
Definition sim (x y : R err (desc * bytes)) : Prop :=
  match x, y with
  | Ok a, Ok b => a = b
  | Err _, Err _ => True
  | _, _ => False
  end.

Lemma sim_pres x y : sim x y -> ISP.pres x = ISP.pres y.
Proof. destruct x as [[]|?| |], y as [[]|?| |]; cbn; try tauto. intros H; injection H as -> ->. reflexivity. Qed.

Lemma sim_proj x y : sim x y -> IntegritySpec.proj (IS.back x) = IntegritySpec.proj (IS.back y).
Proof. destruct x as [[]|?| |], y as [[]|?| |]; cbn; try tauto. intros H; injection H as -> ->. reflexivity. Qed.

(* the answer of a call of the composed model as the layers above see it: Model/Stack.v's own
   adapters ([read_res]: a reader drained; [result_of_bres]: Go error to code), then
   IntegrityStack.v's [rd] *)
Definition seen (o : outcome) : R err (desc * bytes) :=
  match o with
  | ORead r => IS.rd (result_of_bres (read_res r))
  | _ => Panic
  end.

(* a backend's answer to one call, and the answer IntegrityStack.v's [rb] gives for it *)
Definition ans_rel (a : bres) (x : R err (desc * bytes)) : Prop :=
  match a, x with
  | Ok v, Ok (de, data) => desc_of v = de /\ data_of v = data
  | Err _, Err _ => True
  | _, _ => False
  end.

(* IntegrityStack.v's view of a backend in state b (as [IS.mem_rb] is its view of ocimem) *)
Definition rb_of {B} (bstep : backend B) (b : B) : IS.rb :=
  {| IS.rb_blob := fun r d => IS.rd (result_of_bres (snd (bstep b (GetBlob r d))));
     IS.rb_range := fun r d o0 o1 => IS.rd (result_of_bres (snd (bstep b (GetBlobRange r d o0 o1))));
     IS.rb_man := fun r d => IS.rd (result_of_bres (snd (bstep b (GetManifest r d))));
     IS.rb_tag := fun r t => IS.rd (result_of_bres (snd (bstep b (GetTag r t)))) |}.

Lemma avail_alg_available linked a : Ref.available linked a = true -> BR.alg_available a = true.
Proof.
  unfold Ref.available, Ref.alg_of, BR.alg_available.
  destruct (beqb a (s "sha256")); [reflexivity|]. destruct (beqb a (s "sha384")); [reflexivity|].
  destruct (beqb a (s "sha512")); [reflexivity | discriminate].
Qed.

Lemma vdigest_alg_ok linked d : vdigest linked d = true -> BR.alg_ok d = true.
Proof.
  intros H. apply vdigest_cut in H as (a & e & C & Hav & _). unfold BR.alg_ok, BR.alg_of. rewrite C.
  now apply avail_alg_available in Hav.
Qed.

Lemma finish_sim d (x : BR.drained) data e :
  e <> RdMore -> verdict (drained_of data e) = verdict x ->
  sim (IS.rd (result_of_bres (read_res (Ok (d, data, e))))) (BR.finish (Ok (d, x))).
Proof.
  intros Hne Hv. destruct e as [| |g]; [congruence| |]; cbn [drained_of verdict] in Hv.
  - destruct x; cbn [verdict] in Hv; try discriminate. injection Hv as <-. reflexivity.
  - destruct x; cbn [verdict] in Hv; try discriminate. exact I.
Qed.

Section Hop.
  Variable linked : alg -> bool.
  Variable hash : bytes -> bytes -> bytes.
  Variable subject_of : bytes -> option (option bytes).
  Variable media : bytes -> bytes.
  Variable enc : jval -> bytes.
  Variable dec_errors : bytes -> option (list werr).
  Variable dec_names : bool -> bytes -> option (list bytes).
  Variable dec_index : bytes -> option (list desc).
  Variable redirect : bytes -> bytes -> bytes * bytes.
  Variable B : Type.
  Variable bstep : backend B.
  Variable o : opts.
  Variable cc : ccfg.

  (* the JSON round trip of the error document, as in Proofs/StackTransparent.v (discharged for
     the concrete oracles in Proofs/StackJson.v) *)
  Hypothesis media_json : media json_ct = json_ct.
  Hypothesis json_errors_rt : forall w, dec_errors (enc (JErr w)) = Some [w].

  Notation serve := (serve_stack linked hash subject_of enc redirect bstep o).
  Notation env := (stack_env linked hash media dec_errors dec_names dec_index).
  Notation call_ := (stack_call linked hash subject_of media enc dec_errors dec_names dec_index redirect bstep o cc).
  Notation W := (world (srv B)).
  Notation EM := (fun L => L linked (digest_of hash) subject_of enc redirect B bstep o).
  Notation merr := (marshal_error go_sprefix go_cprefix).

  (* IntegrityStack.v's two oracles, read off the stack's *)
  Notation vref := (vdigest linked).
  Notation hashd := (hashd_of hash).

  (* what the bridge asks of a backend answer: a reader whose descriptor's size is the length
     of what it delivers (an int64), or an error the server can serve whose JSON document fits
     the client's 8 KiB limit; a backend that panics is outside (see bridge_panic_refuted) *)
  Definition conf_read (a : bres) : Prop :=
    match a with
    | Ok v => d_size (desc_of v) = blen (data_of v) /\ blen (data_of v) <= max_int64
    | Err e => conf_err e /\ blen (enc (JErr (r_err (merr e)))) <= 8192
    | _ => False
    end.

  Ltac wf_codec :=
    match goal with
    | |- codec_at ?lk ?r ?r' =>
        change r' with (norm r); apply codec_of_wf; unfold wf_request; cbn [Request.q_kind req_of kind_of mk_rreq
          Http.q_kind Http.q_repo Http.q_digest Http.q_tag Http.q_from Http.q_upload Http.q_n Http.q_last
          Request.q_repo Request.q_digest Request.q_tag Request.q_from];
        repeat match goal with H : _ = true |- _ => rewrite H end; try reflexivity
    end.

  (* a reader of the client model drained by the caller, against BlobReader.v's *)
  Lemma read_drain_verdict k (w : W) (m : M (srv B) blob_reader) w1 i data alg d verify :
    (1 <= k)%nat -> m w = (w1, Ok (reader i data alg d verify)) -> BR.alg_of (d_digest d) = Some alg ->
    exists w' data' e,
      read_and_drain (srv B) env m k w = (w', Ok (d, data', e)) /\ w_srv w' = w_srv w1 /\ e <> RdMore /\
      verdict (drained_of data' e) = verdict (BR.drain hashd (BRP.fresh_reader d verify) (BR.whole data) []).
  Proof.
    intros Hk Hm Ha. unfold read_and_drain, bind. rewrite Hm. unfold drain_all.
    destruct (bridge_reader_verdict (srv B) env k (S (length data)) (reader i data alg d verify) [] w1 Hk)
      as (w' & data' & e & E & Hw & Hne & Hv); [cbn; lia | exact Ha | reflexivity|].
    cbn [reader br_src src_rest src_of] in *. rewrite E. exists w', data', e.
    split; [reflexivity|]. split; [exact Hw|]. split; [exact Hne | exact Hv].
  Qed.

  Definition hop_desc (dig : bytes) (de : desc) : desc :=
    {| d_media := media_or_octet (d_media de); d_digest := dig; d_size := d_size de; d_artifact := [] |}.

  (* ---------------------------------------------------------- GetBlob *)

  (* IntegrityStack.v's hop for an answered GetBlob, computed *)
  Lemma is_get_blob_ok dig de data :
    vref dig = true -> 0 <= d_size de ->
    BR.http_get_blob vref hashd dig (Ok (de, data))
    = BR.finish (Ok (hop_desc dig de, BR.drain hashd (BRP.fresh_reader (hop_desc dig de) true) (BR.whole data) [])).
  Proof.
    intros Hv Hsz. pose proof (vdigest_alg_ok _ _ Hv) as Hok.
    unfold BR.http_get_blob, BR.server_blob_get. cbn [RC.parse_http_range].
    unfold BR.client_read, BR.descriptor_from_response.
    cbn [BR.rs_status BR.rs_ctype BR.rs_clen BR.rs_crange BR.rs_digest Z.eqb Pos.eqb negb].
    destruct (Z.ltb_spec (d_size de) 0); [lia|].
    destruct dig as [|c0 dg]; [discriminate Hok|]. rewrite Hv. cbn [andb d_digest].
    unfold BR.new_blob_reader. cbn [d_digest]. rewrite Hok. cbn [rbind].
    unfold hop_desc, media_or_octet, BRP.fresh_reader. destruct (d_media de); reflexivity.
  Qed.

  Theorem bridge_get_blob (w : W) repo dig k get :
    o_locs o = None -> (1 <= k)%nat -> vrepo repo = true -> vref dig = true ->
    let a := snd (bstep (sv_b (w_srv w)) (GetBlob repo dig)) in
    conf_read a -> ans_rel a get ->
    sim (seen (snd (call_ (CGetBlob repo dig k) w))) (BR.http_get_blob vref hashd dig get).
  Proof.
    intros Hl Hk Hr Hd a Hc Hrel. subst a.
    destruct (bstep (sv_b (w_srv w)) (GetBlob repo dig)) as [b' [v|e| |]] eqn:Hb; cbn [snd] in *; try contradiction.
    - destruct get as [[de data]|?| |]; try contradiction. destruct Hrel as [<- <-]. destruct Hc as [Hsz Hmax].
      assert (Hi : int64 (d_size (desc_of v))) by (rewrite Hsz; split; [apply Nat2Z.is_nonneg | exact Hmax]).
      destruct (vdigest_cut _ _ Hd) as (alg & e_ & Hcut & Hav & _).
      unfold stack_call, Client.run.
      edestruct (client_read_stack_ok linked hash subject_of media enc dec_errors dec_names dec_index redirect B bstep o
                   (mk_rreq Http.ReqBlobGet repo dig []) w
                   (mkreq Request.ReqBlobGet repo dig [] [] [] 0 []) b' [ECall (GetBlob repo dig) (Ok v); ECloseR]
                   (hdrs_blob_get dig (desc_of v)) (data_of v)) as (w1 & E1 & Hw1).
      + reflexivity.
      + wf_codec.
      + intros p rawq Hp.
        apply (EM emit_blob_get (sv_b (w_srv w)) (plain_req MGet p rawq) _ Hp b' v eq_refl Hl eq_refl Hb).
      + rewrite <- Hsz. apply declared_clen; [exact Hi|]. unfold hdrs_blob_get. hdrs. reflexivity.
      + apply descriptor_roundtrip_blob_get; assumption.
      + exact Hcut.
      + exact Hav.
      + unfold get_blob.
        edestruct (read_drain_verdict k w _ w1 _ (data_of v) alg _ true Hk E1) as (w2 & data' & e & E2 & _ & Hne & Hv).
        { unfold BR.alg_of. cbn [d_digest]. now rewrite Hcut. }
        rewrite E2. cbn [snd seen]. rewrite (is_get_blob_ok dig (desc_of v) (data_of v) Hd (proj1 Hi)).
        apply finish_sim; assumption.
    - destruct get as [?|e'| |]; try contradiction. destruct Hc as [He Hlen].
      destruct (transparent_GetBlob_err linked hash subject_of media enc dec_errors dec_names dec_index redirect B bstep o cc
                  media_json json_errors_rt w repo dig k b' e Hl Hr Hd Hb He Hlen) as (w' & E & _).
      rewrite E. exact I.
  Qed.

  (* ---------------------------------------------------------- GetBlobRange *)

  (* the server model reads the client model's Range header as RangeCodec.v says, for every
     int64 pair (Proofs/StackRange.v has the expressible ones) *)
  Theorem bridge_range_header_parses o0 o1 : ISP.in64 o0 -> ISP.in64 o1 ->
    parse_range_header (range_header o0 o1) =
      if o0 <? 0 then Err tt
      else if o1 <? 0 then Ok [(o0, -1)]
      else if o1 <=? o0 then Err tt
      else Ok [(o0, o1)].
  Proof.
    intros H0 H1. rewrite (bridge_range_header_text o0 o1 H1), <- bridge_parse_range, (BRP.parse_client_range o0 o1 H0 H1).
    destruct (o0 <? 0); [reflexivity|]. destruct (o1 <? 0); [reflexivity|]. destruct (o1 <=? o0); reflexivity.
  Qed.

  (* ociserver answers a Range header it cannot read with 416 before asking the backend *)
  Definition e416 : gerr := with_http_code 416 (Plain (s "invalid range")).

  Lemma conf_e416 : conf_err e416.
  Proof. split; [reflexivity|]. vm_compute. split; discriminate. Qed.

  Lemma emit_blob_get_416 b req r :
    parse_req linked (hq_method req) (hq_path req) (hq_rawquery req) = Ok r ->
    Request.q_kind r = Request.ReqBlobGet -> o_locs o = None ->
    parse_range_header (hq_range req) = Err tt ->
    handle linked (digest_of hash) subject_of enc redirect B bstep o b req
    = (b, [], Ok (err_resp enc [] (merr e416))).
  Proof.
    intros Hp Hk Hl Hrg. unfold Server.handle, Server.v2. rewrite Hp. unfold Server.dispatch. rewrite Hk.
    unfold handle_blob_get. rewrite Hl. unfold handle_blob_get_body. rewrite Hrg.
    fold e416. rewrite (write_error_rw0 enc B b [] e416 _ (conf_err_serve e416 conf_e416)). reflexivity.
  Qed.

  Lemma composed_range_416 (w : W) repo dig o0 o1 k :
    o_locs o = None -> vrepo repo = true -> vref dig = true ->
    (o0 =? 0) && (o1 <? 0) = false ->
    parse_range_header (range_header o0 o1) = Err tt ->
    blen (enc (JErr (r_err (merr e416)))) <= 8192 ->
    exists w', call_ (CGetBlobRange repo dig o0 o1 k) w = (w', ORead (Err (wire_error enc false e416)))
               /\ w_srv w' = after B (w_srv w) (sv_b (w_srv w)) [].
  Proof.
    intros Hl Hr Hd Hnz Hrg Hlen.
    assert (Hc : codec_at linked (req_of (mk_rreq Http.ReqBlobGet repo dig []))
                   (mkreq Request.ReqBlobGet repo dig [] [] [] 0 [])) by wf_codec.
    pose proof (codec_construct_ok _ _ _ Hc) as HC. destruct Hc as (p & rawq & Hu & Hp).
    unfold stack_call, Client.run, read_and_drain, bind.
    rewrite get_blob_range_request; [|exact Hnz|unfold Stack.construct_ok; now rewrite HC].
    pose proof conf_e416 as [Hte Hst]. destruct (err_status_facts _ Hst) as (Hrd & Hnb & Hok).
    rewrite (client_do_stack linked hash subject_of media enc dec_errors dec_names dec_index redirect B bstep o
               (range_request repo dig o0 o1) [200; 206] w _ (sv_b (w_srv w)) []
               (err_resp enc [] (merr e416))
               (to_server_req_range repo dig o0 o1 p rawq Hu)).
    2:{ apply (emit_blob_get_416 (sv_b (w_srv w)) (mkhreq m_GET p rawq (range_header o0 o1) [] [] 0 []) _ Hp eq_refl Hl Hrg). }
    2:{ exact Hrd. }
    cbv zeta. cbn [p_status err_resp r_status marshal_error]. rewrite Hok. cbn [negb].
    assert (Hacc : status_accepted [200; 206] (marshal_status e416) = false) by (vm_compute; reflexivity).
    rewrite Hacc. unfold fail_make_error.
    erewrite make_error_stack; try eassumption; try reflexivity; [|apply json_errors_rt].
    cbn [rq_method range_request meth_eqb]. eexists. split; reflexivity.
  Qed.

  (* a conforming answer to GetBlobRange (as in transparent_GetBlobRange_ok): the descriptor is
     the whole blob's, the start is inside it, the bytes are the bytes asked for *)
  Definition conf_range (o0 e : Z) (a : bres) : Prop :=
    match a with
    | Ok v => int64 (d_size (desc_of v)) /\ o0 <= d_size (desc_of v) /\
              blen (data_of v) = range_end (d_size (desc_of v)) e - o0
    | Err e => conf_err e /\ blen (enc (JErr (r_err (merr e)))) <= 8192
    | _ => False
    end.

  (* IntegrityStack.v's hop for GetBlobRange, computed *)
  Lemma is_range_416 dig o0 o1 get getrange :
    ISP.in64 o0 -> ISP.in64 o1 -> (o0 =? 0) && (o1 <? 0) = false -> o0 < 0 \/ 0 <= o1 <= o0 ->
    BR.http_get_blob_range vref hashd dig o0 o1 get getrange = Err (E RANGE_INVALID (s "416")).
  Proof.
    intros H0 H1 Hnz Hbad. unfold BR.http_get_blob_range. rewrite Hnz. unfold BR.server_blob_get.
    rewrite (BRP.parse_client_range o0 o1 H0 H1).
    destruct (Z.ltb_spec o0 0); [reflexivity|]. destruct Hbad as [?|[? ?]]; [lia|].
    destruct (Z.ltb_spec o1 0); [lia|]. destruct (Z.leb_spec o1 o0); [reflexivity | lia].
  Qed.

  Lemma is_range_answer dig o0 o1 get getrange :
    ISP.in64 o0 -> ISP.in64 o1 -> (o0 =? 0) && (o1 <? 0) = false -> 0 <= o0 -> o1 < 0 \/ o0 < o1 ->
    BR.http_get_blob_range vref hashd dig o0 o1 get getrange =
    match BR.server_blob_get (RC.client_range_header o0 o1) dig get getrange with
    | BR.SResp resp body => BR.finish (BR.client_get_blob_range vref hashd o0 o1 dig resp (BR.whole body))
    | other => BR.sresp_err other
    end
    /\ RC.parse_http_range (RC.client_range_header o0 o1) = RC.HROk [{| RC.hr_start := o0; RC.hr_end := server_end o1 |}].
  Proof.
    intros H0 H1 Hnz Hp Hr. unfold BR.http_get_blob_range. rewrite Hnz. split; [reflexivity|].
    rewrite (BRP.parse_client_range o0 o1 H0 H1). unfold server_end.
    destruct (Z.ltb_spec o0 0); [lia|]. destruct (Z.ltb_spec o1 0); [reflexivity|].
    destruct (Z.leb_spec o1 o0); [lia | reflexivity].
  Qed.

  Lemma is_range_ok dig o0 o1 get getrange de data :
    ISP.in64 o0 -> ISP.in64 o1 -> (o0 =? 0) && (o1 <? 0) = false -> 0 <= o0 -> o1 < 0 \/ o0 < o1 ->
    vref dig = true ->
    getrange o0 (server_end o1) = Ok (de, data) ->
    int64 (d_size de) -> o0 <= d_size de -> blen data = range_end (d_size de) (server_end o1) - o0 ->
    BR.http_get_blob_range vref hashd dig o0 o1 get getrange = Ok (hop_desc dig de, data).
  Proof.
    intros H0 H1 Hnz Hp Hr Hv Hg [Hs0 Hs1] Hle Hlen.
    destruct (is_range_answer dig o0 o1 get getrange H0 H1 Hnz Hp Hr) as [-> Hparse].
    unfold BR.server_blob_get. rewrite Hparse. cbn [RC.hr_start RC.hr_end]. rewrite Hg.
    pose proof (BRP.blen_nonneg data) as Hn.
    assert (Hen : (if (server_end o1 =? -1) || (server_end o1 >? d_size de) then d_size de else server_end o1)
                  = range_end (d_size de) (server_end o1)).
    { unfold range_end. now rewrite Z.gtb_ltb. }
    rewrite Hen. rewrite Z.gtb_ltb. destruct (Z.ltb_spec (d_size de) o0); [lia|].
    destruct (Z.ltb_spec (range_end (d_size de) (server_end o1)) o0); [lia|].
    assert (Hre : range_end (d_size de) (server_end o1) <= d_size de).
    { unfold range_end. destruct ((server_end o1 =? -1) || (d_size de <? server_end o1)) eqn:E; [lia|].
      apply orb_false_iff in E as [_ E]. apply Z.ltb_ge in E. lia. }
    rewrite (ISP.client_range_206_ok vref hashd o0 o1 dig (d_media de) _ o0 _ (d_size de) data Hnz).
    - unfold hop_desc, media_or_octet. destruct (d_media de); reflexivity.
    - apply RCP.in_int64_iff. unfold RC.MIN64, RC.MAX64, max_int64 in *. lia.
    - exact Hv.
    - exact (vdigest_alg_ok _ _ Hv).
    - lia.
  Qed.

  Lemma is_range_err dig o0 o1 get getrange e :
    ISP.in64 o0 -> ISP.in64 o1 -> (o0 =? 0) && (o1 <? 0) = false -> 0 <= o0 -> o1 < 0 \/ o0 < o1 ->
    getrange o0 (server_end o1) = Err e ->
    BR.http_get_blob_range vref hashd dig o0 o1 get getrange = Err e.
  Proof.
    intros H0 H1 Hnz Hp Hr Hg.
    destruct (is_range_answer dig o0 o1 get getrange H0 H1 Hnz Hp Hr) as [-> Hparse].
    unfold BR.server_blob_get. rewrite Hparse. cbn [RC.hr_start RC.hr_end]. rewrite Hg. reflexivity.
  Qed.

  (* what the bridge asks of the backend for GetBlobRange(o0, o1): about its answer to the ONE call
     the pair leads to, none when the client refuses to send / the server refuses to read *)
  Definition range_hyp (b : B) repo dig o0 o1 (get : R err (desc * bytes)) (getrange : Z -> Z -> R err (desc * bytes)) : Prop :=
    if (o0 =? 0) && (o1 <? 0) then
      let a := snd (bstep b (GetBlob repo dig)) in conf_read a /\ ans_rel a get
    else if (0 <=? o0) && ((o1 <? 0) || (o0 <? o1)) then
      let a := snd (bstep b (GetBlobRange repo dig o0 (server_end o1))) in
      conf_range o0 (server_end o1) a /\ ans_rel a (getrange o0 (server_end o1))
    else True.

  Theorem bridge_get_blob_range (w : W) repo dig o0 o1 k get getrange :
    o_locs o = None -> (1 <= k)%nat -> vrepo repo = true -> vref dig = true ->
    ISP.in64 o0 -> ISP.in64 o1 ->
    blen (enc (JErr (r_err (merr e416)))) <= 8192 ->
    range_hyp (sv_b (w_srv w)) repo dig o0 o1 get getrange ->
    sim (seen (snd (call_ (CGetBlobRange repo dig o0 o1 k) w)))
        (BR.http_get_blob_range vref hashd dig o0 o1 get getrange).
  Proof.
    intros Hl Hk Hr Hd H0 H1 H416 Hyp. unfold range_hyp in Hyp.
    destruct ((o0 =? 0) && (o1 <? 0)) eqn:Hnz.
    - (* the client asks for the whole blob *)
      apply andb_true_iff in Hnz as [E0 E1]. apply Z.eqb_eq in E0. apply Z.ltb_lt in E1. subst o0.
      rewrite (GetBlobRange_whole_is_GetBlob linked hash subject_of media enc dec_errors dec_names dec_index redirect
                 B bstep o cc w repo dig o1 k E1).
      unfold BR.http_get_blob_range. destruct (Z.ltb_spec o1 0); [|lia]. cbn [Z.eqb andb].
      destruct Hyp as [Hc Hrel]. now apply bridge_get_blob.
    - destruct ((0 <=? o0) && ((o1 <? 0) || (o0 <? o1))) eqn:Hex.
      + apply andb_true_iff in Hex as [Ep Er]. apply Z.leb_le in Ep.
        assert (Hrr : o1 < 0 \/ o0 < o1).
        { apply orb_true_iff in Er as [E|E]; apply Z.ltb_lt in E; auto. }
        assert (Hexp : expressible o0 o1).
        { destruct H0 as [_ H0], H1 as [_ H1]. unfold RC.MAX64 in *. unfold expressible, max_int64.
          split; [lia|]. destruct Hrr; [left; lia | right; lia]. }
        cbv zeta in Hyp. destruct Hyp as [Hc Hrel].
        destruct (bstep (sv_b (w_srv w)) (GetBlobRange repo dig o0 (server_end o1))) as [b' [v|e| |]] eqn:Hb;
          cbn [snd] in *; try contradiction.
        * destruct (getrange o0 (server_end o1)) as [[de data]|?| |] eqn:Hg; try contradiction.
          destruct Hrel as [<- <-]. destruct Hc as (Hi & Hle & Hlen).
          destruct (transparent_GetBlobRange_ok linked hash subject_of media enc dec_errors dec_names dec_index redirect
                      B bstep o cc w repo dig o0 o1 k b' v Hl Hk Hr Hd Hexp Hnz Hb Hi Hle Hlen) as (w' & E & _).
          rewrite E. cbn [snd seen read_res result_of_bres res_of_bval IS.rd].
          rewrite (is_range_ok dig o0 o1 get getrange _ _ H0 H1 Hnz Ep Hrr Hd Hg Hi Hle Hlen). reflexivity.
        * destruct (getrange o0 (server_end o1)) as [?|e'| |] eqn:Hg; try contradiction.
          destruct Hc as [He Hlen].
          destruct (transparent_GetBlobRange_err linked hash subject_of media enc dec_errors dec_names dec_index redirect
                      B bstep o cc media_json json_errors_rt w repo dig o0 o1 k b' e Hl Hr Hd Hexp Hnz Hb He Hlen)
            as (w' & E & _).
          rewrite E, (is_range_err dig o0 o1 get getrange _ H0 H1 Hnz Ep Hrr Hg). exact I.
      + (* a pair HTTP cannot express: the server refuses the header with 416 *)
        assert (Hbad : o0 < 0 \/ 0 <= o1 <= o0).
        { apply andb_false_iff in Hex as [E|E]; [apply Z.leb_gt in E; left; exact E|].
          apply orb_false_iff in E as [E1 E2]. apply Z.ltb_ge in E1, E2.
          destruct (Z.ltb_spec o0 0); [left; assumption | right; lia]. }
        assert (Hrg : parse_range_header (range_header o0 o1) = Err tt).
        { rewrite (bridge_range_header_parses o0 o1 H0 H1). destruct (Z.ltb_spec o0 0); [reflexivity|].
          destruct Hbad as [?|[? ?]]; [lia|]. destruct (Z.ltb_spec o1 0); [lia|].
          destruct (Z.leb_spec o1 o0); [reflexivity | lia]. }
        destruct (composed_range_416 w repo dig o0 o1 k Hl Hr Hd Hnz Hrg H416) as (w' & E & _).
        rewrite E, (is_range_416 dig o0 o1 get getrange H0 H1 Hnz Hbad). exact I.
  Qed.

  (* ---------------------------------------------------------- GetManifest / GetTag *)

  (* for the two manifest reads the digest on the wire is the backend descriptor's: the bridge
     asks that it be a well-formed digest of a linked algorithm (what it hashes to is NOT asked:
     a mismatch is the blobReader's verdict, on both sides) *)
  Definition conf_manifest (a : bres) : Prop :=
    conf_read a /\ match a with Ok v => vref (d_digest (desc_of v)) = true | _ => True end.

  Lemma is_get_manifest_ok known de data :
    vref (d_digest de) = true -> 0 <= d_size de ->
    BR.http_get_manifest vref hashd known (Ok (de, data))
    = BR.finish (Ok (hop_desc (d_digest de) de,
                     BR.drain hashd (BRP.fresh_reader (hop_desc (d_digest de) de) true) (BR.whole data) [])).
  Proof.
    intros Hv Hsz. pose proof (vdigest_alg_ok _ _ Hv) as Hok.
    unfold BR.http_get_manifest, BR.client_read, BR.descriptor_from_response.
    cbn [BR.rs_status BR.rs_ctype BR.rs_clen BR.rs_crange BR.rs_digest Z.eqb Pos.eqb negb].
    destruct (Z.ltb_spec (d_size de) 0); [lia|].
    destruct (d_digest de) as [|c0 dg] eqn:Edg; [discriminate Hok|]. rewrite Hv. cbn [andb d_digest].
    unfold BR.new_blob_reader. cbn [d_digest]. rewrite Hok. cbn [rbind].
    unfold hop_desc, media_or_octet, BRP.fresh_reader. destruct (d_media de); reflexivity.
  Qed.

  (* the composed model's manifest GET for an answered backend call, up to the drained reader *)
  Lemma composed_manifest_get (w : W) repo dig tag k b' v c :
    o_omit_digest_from_tag_get o = false -> (1 <= k)%nat -> vrepo repo = true ->
    (tag = [] /\ vref dig = true /\ c = GetManifest repo dig) \/ (dig = [] /\ vtag tag = true /\ c = GetTag repo tag) ->
    bstep (sv_b (w_srv w)) c = (b', Ok v) ->
    d_size (desc_of v) = blen (data_of v) -> blen (data_of v) <= max_int64 ->
    vref (d_digest (desc_of v)) = true ->
    exists w' data' e,
      read_and_drain (srv B) env (client_read (srv B) serve env current (mk_rreq Http.ReqManifestGet repo dig tag)) k w
      = (w', Ok (hop_desc (d_digest (desc_of v)) (desc_of v), data', e)) /\ e <> RdMore /\
      verdict (drained_of data' e)
      = verdict (BR.drain hashd (BRP.fresh_reader (hop_desc (d_digest (desc_of v)) (desc_of v)) true) (BR.whole (data_of v)) []).
  Proof.
    intros Hom Hk Hr Hcase Hb Hsz Hmax Hvd.
    assert (Hi : int64 (d_size (desc_of v))) by (rewrite Hsz; split; [apply Nat2Z.is_nonneg | exact Hmax]).
    destruct (vdigest_cut _ _ Hvd) as (alg & e_ & Hcut & Hav & _).
    assert (Hrd : exists w1,
      client_read (srv B) serve env current (mk_rreq Http.ReqManifestGet repo dig tag) w
      = (w1, Ok (reader (Some (length (w_log w))) (data_of v) alg (hop_desc (d_digest (desc_of v)) (desc_of v)) true))).
    { destruct Hcase as [(-> & Hd & ->)|(-> & Ht & ->)].
      - edestruct (client_read_stack_ok linked hash subject_of media enc dec_errors dec_names dec_index redirect B bstep o
                     (mk_rreq Http.ReqManifestGet repo dig []) w
                     (mkreq Request.ReqManifestGet repo dig [] [] [] 0 []) b'
                     [ECall (GetManifest repo dig) (Ok v); ECloseR]
                     (hdrs_manifest_get o (desc_of v)) (data_of v)
                     (hop_desc (d_digest (desc_of v)) (desc_of v))) as (w1 & E1 & _).
        + reflexivity.
        + wf_codec.
        + intros p rawq Hp.
          apply (EM emit_manifest_get (sv_b (w_srv w)) (plain_req MGet p rawq) _ Hp b' v eq_refl Hb).
        + rewrite <- Hsz. apply declared_clen; [exact Hi|]. unfold hdrs_manifest_get. hdrs. reflexivity.
        + cbn [Http.q_digest mk_rreq].
          rewrite (descriptor_roundtrip_manifest_get linked hash media dec_errors dec_names dec_index o _ _
                     (desc_of v) (data_of v) dig); [|exact Hvd|exact Hi|left; exact Hd].
          rewrite Hom. reflexivity.
        + exact Hcut.
        + exact Hav.
        + eexists. exact E1.
      - destruct (vtag_cons tag Ht) as (t0 & tg & ->).
        edestruct (client_read_stack_ok linked hash subject_of media enc dec_errors dec_names dec_index redirect B bstep o
                     (mk_rreq Http.ReqManifestGet repo [] (t0 :: tg)) w
                     (mkreq Request.ReqManifestGet repo [] (t0 :: tg) [] [] 0 []) b'
                     [ECall (GetTag repo (t0 :: tg)) (Ok v); ECloseR]
                     (hdrs_manifest_get o (desc_of v)) (data_of v)
                     (hop_desc (d_digest (desc_of v)) (desc_of v))) as (w1 & E1 & _).
        + reflexivity.
        + wf_codec.
        + intros p rawq Hp.
          apply (EM emit_manifest_get (sv_b (w_srv w)) (plain_req MGet p rawq) _ Hp b' v eq_refl Hb).
        + rewrite <- Hsz. apply declared_clen; [exact Hi|]. unfold hdrs_manifest_get. hdrs. reflexivity.
        + cbn [Http.q_digest mk_rreq].
          rewrite (descriptor_roundtrip_manifest_get linked hash media dec_errors dec_names dec_index o _ _
                     (desc_of v) (data_of v) []); [|exact Hvd|exact Hi|right; reflexivity].
          rewrite Hom. reflexivity.
        + exact Hcut.
        + exact Hav.
        + eexists. exact E1. }
    destruct Hrd as (w1 & E1).
    edestruct (read_drain_verdict k w _ w1 _ (data_of v) alg _ true Hk E1) as (w2 & data' & e & E2 & _ & Hne & Hv).
    { unfold BR.alg_of. cbn [d_digest hop_desc]. now rewrite Hcut. }
    exists w2, data', e. split; [exact E2|]. split; assumption.
  Qed.

  Theorem bridge_get_manifest (w : W) repo dig k get :
    o_omit_digest_from_tag_get o = false -> (1 <= k)%nat -> vrepo repo = true -> vref dig = true ->
    let a := snd (bstep (sv_b (w_srv w)) (GetManifest repo dig)) in
    conf_manifest a -> ans_rel a get ->
    sim (seen (snd (call_ (CGetManifest repo dig k) w))) (BR.http_get_manifest vref hashd dig get).
  Proof.
    intros Hom Hk Hr Hd a [Hc Hvd] Hrel. subst a.
    destruct (bstep (sv_b (w_srv w)) (GetManifest repo dig)) as [b' [v|e| |]] eqn:Hb; cbn [snd] in *; try contradiction.
    - destruct get as [[de data]|?| |]; try contradiction. destruct Hrel as [<- <-]. destruct Hc as [Hsz Hmax].
      destruct (composed_manifest_get w repo dig [] k b' v (GetManifest repo dig) Hom Hk Hr) as (w' & data' & e & E & Hne & Hv);
        auto.
      unfold stack_call, Client.run, get_manifest. rewrite E. cbn [snd seen].
      rewrite (is_get_manifest_ok dig (desc_of v) (data_of v) Hvd); [|rewrite Hsz; apply Nat2Z.is_nonneg].
      apply finish_sim; assumption.
    - destruct get as [?|e'| |]; try contradiction. destruct Hc as [He Hlen].
      destruct (transparent_GetManifest_err linked hash subject_of media enc dec_errors dec_names dec_index redirect B bstep o cc
                  media_json json_errors_rt w repo dig k b' e Hr Hd Hb He Hlen) as (w' & E & _).
      rewrite E. exact I.
  Qed.

  Theorem bridge_get_tag (w : W) repo tag k get :
    o_omit_digest_from_tag_get o = false -> (1 <= k)%nat -> vrepo repo = true -> vtag tag = true ->
    let a := snd (bstep (sv_b (w_srv w)) (GetTag repo tag)) in
    conf_manifest a -> ans_rel a get ->
    sim (seen (snd (call_ (CGetTag repo tag k) w))) (BR.http_get_manifest vref hashd [] get).
  Proof.
    intros Hom Hk Hr Ht a [Hc Hvd] Hrel. subst a.
    destruct (bstep (sv_b (w_srv w)) (GetTag repo tag)) as [b' [v|e| |]] eqn:Hb; cbn [snd] in *; try contradiction.
    - destruct get as [[de data]|?| |]; try contradiction. destruct Hrel as [<- <-]. destruct Hc as [Hsz Hmax].
      destruct (composed_manifest_get w repo [] tag k b' v (GetTag repo tag) Hom Hk Hr) as (w' & data' & e & E & Hne & Hv);
        auto.
      unfold stack_call, Client.run, get_tag. rewrite E. cbn [snd seen].
      rewrite (is_get_manifest_ok [] (desc_of v) (data_of v) Hvd); [|rewrite Hsz; apply Nat2Z.is_nonneg].
      apply finish_sim; assumption.
    - destruct get as [?|e'| |]; try contradiction. destruct Hc as [He Hlen].
      destruct (transparent_GetTag_err linked hash subject_of media enc dec_errors dec_names dec_index redirect B bstep o cc
                  media_json json_errors_rt w repo tag k b' e Hr Ht Hb He Hlen) as (w' & E & _).
      rewrite E. exact I.
  Qed.

  (* ---------------------------------------------------------- the four reads of IS.http_layer *)

  (* the answer has the shape its Go type promises (a BlobReader or an error) *)
  Definition read_shaped (a : bres) : Prop :=
    match a with Ok (VRead _ _) | Err _ => True | _ => False end.

  Lemma ans_rel_rb_of a : read_shaped a -> ans_rel a (IS.rd (result_of_bres a)).
  Proof. destruct a as [[]|?| |]; cbn; try tauto. Qed.

  (* One hop of IntegrityStack.v over the backend = the composed model over the backend, for each
     of the four reads: for every backend whose answer to the dispatched call is conforming
     (bridge_get_blob_range asks only about the one call the pair (o0, o1) leads to). *)
  Theorem bridge_http_layer (w : W) k :
    o_locs o = None -> o_omit_digest_from_tag_get o = false -> (1 <= k)%nat ->
    blen (enc (JErr (r_err (merr e416)))) <= 8192 ->
    let b := sv_b (w_srv w) in
    let top := IS.http_layer vref hashd (rb_of bstep b) in
    (forall repo dig, vrepo repo = true -> vref dig = true ->
       let a := snd (bstep b (GetBlob repo dig)) in read_shaped a -> conf_read a ->
       sim (seen (snd (call_ (CGetBlob repo dig k) w))) (IS.rb_blob top repo dig)) /\
    (forall repo dig o0 o1, vrepo repo = true -> vref dig = true -> ISP.in64 o0 -> ISP.in64 o1 ->
       let aB := snd (bstep b (GetBlob repo dig)) in
       let aR := snd (bstep b (GetBlobRange repo dig o0 (server_end o1))) in
       read_shaped aB -> read_shaped aR -> conf_read aB -> conf_range o0 (server_end o1) aR ->
       sim (seen (snd (call_ (CGetBlobRange repo dig o0 o1 k) w))) (IS.rb_range top repo dig o0 o1)) /\
    (forall repo dig, vrepo repo = true -> vref dig = true ->
       let a := snd (bstep b (GetManifest repo dig)) in read_shaped a -> conf_manifest a ->
       sim (seen (snd (call_ (CGetManifest repo dig k) w))) (IS.rb_man top repo dig)) /\
    (forall repo tag, vrepo repo = true -> vtag tag = true ->
       let a := snd (bstep b (GetTag repo tag)) in read_shaped a -> conf_manifest a ->
       sim (seen (snd (call_ (CGetTag repo tag k) w))) (IS.rb_tag top repo tag)).
  Proof.
    intros Hl Hom Hk H416 b top. subst top. cbn [IS.http_layer IS.rb_blob IS.rb_range IS.rb_man IS.rb_tag rb_of].
    split; [|split; [|split]].
    - intros repo dig Hr Hd Hs Hc. apply bridge_get_blob; auto. now apply ans_rel_rb_of.
    - intros repo dig o0 o1 Hr Hd H0 H1 HsB HsR HcB HcR. apply bridge_get_blob_range; auto. unfold range_hyp.
      destruct ((o0 =? 0) && (o1 <? 0)); [split; [exact HcB | apply ans_rel_rb_of, HsB]|].
      destruct ((0 <=? o0) && ((o1 <? 0) || (o0 <? o1))); [|exact I].
      split; [exact HcR | apply ans_rel_rb_of, HsR].
    - intros repo dig Hr Hd Hs Hc. apply bridge_get_manifest; auto. now apply ans_rel_rb_of.
    - intros repo tag Hr Ht Hs Hc. apply bridge_get_tag; auto. now apply ans_rel_rb_of.
  Qed.
End Hop.

(* ---------------------------------------------------------------- error codes *)

Section HopCodes.
  Variable linked : alg -> bool.
  Variable hash : bytes -> bytes -> bytes.
  Variable subject_of : bytes -> option (option bytes).
  Variable media : bytes -> bytes.
  Variable enc : jval -> bytes.
  Variable dec_errors : bytes -> option (list werr).
  Variable dec_names : bool -> bytes -> option (list bytes).
  Variable dec_index : bytes -> option (list desc).
  Variable redirect : bytes -> bytes -> bytes * bytes.
  Variable B : Type.
  Variable bstep : backend B.
  Variable o : opts.
  Variable cc : ccfg.
  Hypothesis media_json : media json_ct = json_ct.
  Hypothesis json_errors_rt : forall w, dec_errors (enc (JErr w)) = Some [w].

  Notation call_ := (stack_call linked hash subject_of media enc dec_errors dec_names dec_index redirect bstep o cc).
  Notation merr := (marshal_error go_sprefix go_cprefix).
  Notation vref := (vdigest linked).
  Notation hashd := (hashd_of hash).

  (* an error without a registry code is served, and read back, as UNKNOWN *)
  Definition on_wire (c : ecode) : ecode := StackHistoryRun.wire_ecode c.

  Lemma wire_error_code e : blen (enc (JErr (r_err (merr e)))) <= 8192 ->
    on_wire (e_code (err_of_gerr (wire_error enc false e))) = on_wire (e_code (err_of_gerr e)).
  Proof.
    intros Hlen. unfold on_wire. rewrite <- !StackHistoryRun.code_of_marshal_code.
    now rewrite (proj1 (wire_error_body enc e Hlen)).
  Qed.

  (* A backend error on the four reads: IntegrityStack.v hands the backend's error to the caller
     unchanged ([SBackend]); the composed client rebuilds it from the JSON body.  The registry
     code is the same, except that "no code" comes back as UNKNOWN. *)
  Theorem bridge_backend_error_code (w : world (srv B)) c e k :
    o_locs o = None -> conf_err e -> blen (enc (JErr (r_err (merr e)))) <= 8192 ->
    snd (bstep (sv_b (w_srv w)) c) = Err e ->
    match c with
    | GetBlob r d =>
        vrepo r = true -> vref d = true ->
        exists x, seen (snd (call_ (CGetBlob r d k) w)) = Err x /\
                  IS.rb_blob (IS.http_layer vref hashd (rb_of bstep (sv_b (w_srv w)))) r d = Err (err_of_gerr e) /\
                  on_wire (e_code x) = on_wire (e_code (err_of_gerr e))
    | GetManifest r d =>
        vrepo r = true -> vref d = true ->
        exists x, seen (snd (call_ (CGetManifest r d k) w)) = Err x /\
                  IS.rb_man (IS.http_layer vref hashd (rb_of bstep (sv_b (w_srv w)))) r d = Err (err_of_gerr e) /\
                  on_wire (e_code x) = on_wire (e_code (err_of_gerr e))
    | GetTag r t =>
        vrepo r = true -> vtag t = true ->
        exists x, seen (snd (call_ (CGetTag r t k) w)) = Err x /\
                  IS.rb_tag (IS.http_layer vref hashd (rb_of bstep (sv_b (w_srv w)))) r t = Err (err_of_gerr e) /\
                  on_wire (e_code x) = on_wire (e_code (err_of_gerr e))
    | _ => True
    end.
  Proof.
    intros Hl He Hlen Hb. destruct c; try exact I; intros Hr Hd;
      destruct (bstep (sv_b (w_srv w)) _) as [b' a] eqn:Eb; cbn [snd] in Hb; subst a.
    - destruct (transparent_GetBlob_err linked hash subject_of media enc dec_errors dec_names dec_index redirect B bstep o cc
                  media_json json_errors_rt w r d k b' e Hl Hr Hd Eb He Hlen) as (w' & E & _).
      rewrite E. eexists. split; [reflexivity|]. split; [|now apply wire_error_code].
      cbn [IS.http_layer IS.rb_blob rb_of]. rewrite Eb. reflexivity.
    - destruct (transparent_GetManifest_err linked hash subject_of media enc dec_errors dec_names dec_index redirect B bstep o cc
                  media_json json_errors_rt w r d k b' e Hr Hd Eb He Hlen) as (w' & E & _).
      rewrite E. eexists. split; [reflexivity|]. split; [|now apply wire_error_code].
      cbn [IS.http_layer IS.rb_man rb_of]. rewrite Eb. reflexivity.
    - destruct (transparent_GetTag_err linked hash subject_of media enc dec_errors dec_names dec_index redirect B bstep o cc
                  media_json json_errors_rt w r t k b' e Hr Hd Eb He Hlen) as (w' & E & _).
      rewrite E. eexists. split; [reflexivity|]. split; [|now apply wire_error_code].
      cbn [IS.http_layer IS.rb_tag rb_of]. rewrite Eb. reflexivity.
  Qed.
End HopCodes.

(* ================================================================ 6. transfer: C01_range_over_http for the composed model *)

Section Transfer.
  Variable linked : alg -> bool.
  Variable hash : bytes -> bytes -> bytes.
  Variable subject_of : bytes -> option (option bytes).
  Variable media : bytes -> bytes.
  Variable enc : jval -> bytes.
  Variable dec_errors : bytes -> option (list werr).
  Variable dec_names : bool -> bytes -> option (list bytes).
  Variable dec_index : bytes -> option (list desc).
  Variable redirect : bytes -> bytes -> bytes * bytes.
  Variable o : opts.
  Variable cc : ccfg.
  (* the parameters of the ocimem model, as in Props/C01.v *)
  Variable valid_digest valid_repo valid_tag : bytes -> bool.
  Variable decode_image : bytes -> option Mem.image_manifest.
  Variable decode_index : bytes -> option Mem.index_manifest.
  Variable cfg : Mem.config.

  Hypothesis media_json : media json_ct = json_ct.
  Hypothesis json_errors_rt : forall w, dec_errors (enc (JErr w)) = Some [w].

  Notation vref := (vdigest linked).
  Notation hashd := (hashd_of hash).
  Notation mhash := (BR.canon_hash hashd).
  Notation mem := (Mem.step mhash valid_digest valid_repo valid_tag decode_image decode_index cfg).
  Notation mem_rb := (IS.mem_rb hashd valid_digest valid_repo valid_tag decode_image decode_index cfg).
  Notation merr := (marshal_error go_sprefix go_cprefix).

  (* ocimem behind the server: the backend of C03's one_hop *)
  Definition mstep : backend Mem.state := backend_of_registry mem.

  Notation call_ := (stack_call linked hash subject_of media enc dec_errors dec_names dec_index redirect mstep o cc).

  (* digest.FromBytes is the same function on both sides *)
  Lemma canon_hash_digest_of data : mhash data = digest_of hash data.
  Proof. reflexivity. Qed.

  Definition e_invalid_range : gerr := Plain (s "invalid range").

  (* C01_range_over_http, with the hop being the line-by-line client over the wire over the
     line-by-line server over ocimem instead of IntegrityStack.v's [http_layer] *)
  Theorem range_over_http_composed (w : world (srv Mem.state)) r d o0 o1 b k :
    let st := sv_b (w_srv w) in
    o_locs o = None -> (1 <= k)%nat -> vrepo r = true ->
    blen (enc (JErr (r_err (merr e416)))) <= 8192 ->
    blen (enc (JErr (r_err (merr e_invalid_range)))) <= 8192 ->
    MemInv.Inv mhash decode_image decode_index st -> Mem.iblob st r d = Some b ->
    ISP.in64 o0 -> ISP.in64 o1 -> blen (Mem.b_data b) <= RC.MAX64 ->
    vref d = true -> BR.alg_of d = Some (s "sha256") ->
    let direct := IS.rb_range (mem_rb st) r d o0 o1 in
    let via := seen (snd (call_ (CGetBlobRange r d o0 o1 k) w)) in
    (0 <= o0 -> o1 < 0 \/ o0 < o1 -> ISP.pres via = ISP.pres direct) /\
    (o0 < 0 \/ 0 <= o1 <= o0 -> ISP.pres via = None).
  Proof.
    intros st Hl Hk Hr H416 Hinv HI Hb H0 H1 Hmax Hd Ha. cbv zeta.
    assert (Hsim : sim (seen (snd (call_ (CGetBlobRange r d o0 o1 k) w)))
                       (IS.rb_range (IS.http_layer vref hashd (mem_rb st)) r d o0 o1)).
    { cbn [IS.http_layer IS.rb_range].
      apply (bridge_get_blob_range linked hash subject_of media enc dec_errors dec_names dec_index redirect
               Mem.state mstep o cc media_json json_errors_rt w r d o0 o1 k); auto.
      fold st. unfold range_hyp, mstep, backend_of_registry. cbn [IS.mem_rb IS.rb_blob IS.rb_range].
      pose proof (proj2 (Proofs.Integrity.blob_for_iblob st r d b) Hb) as Hbf.
      pose proof (BRP.blen_nonneg (Mem.b_data b)) as Hn.
      destruct ((o0 =? 0) && (o1 <? 0)).
      - cbn [Mem.step]. rewrite Hbf. cbn [rbind snd bres_of_result bval_of_res IS.rd conf_read ans_rel desc_of data_of].
        unfold Mem.blob_desc. cbn [d_size]. unfold RC.MAX64, max_int64 in *. auto.
      - destruct ((0 <=? o0) && ((o1 <? 0) || (o0 <? o1))) eqn:Hex; [|exact I].
        apply andb_true_iff in Hex as [Ep _]. apply Z.leb_le in Ep.
        cbn [Mem.step]. rewrite Hbf. cbn [rbind].
        set (e := server_end o1). set (n := blen (Mem.b_data b)).
        assert (He : e = -1 \/ 0 <= e) by (unfold e, server_end; destruct (Z.ltb_spec o1 0); [left; reflexivity | right; assumption]).
        set (e' := if (e <? 0) || (e >? n) then n else e).
        assert (He' : e' = range_end n e /\ e' <= n).
        { unfold e', range_end. rewrite Z.gtb_ltb. destruct He as [->|He]; [cbn; split; [reflexivity | lia]|].
          destruct (Z.ltb_spec e 0); [lia|]. destruct (Z.eqb_spec e (-1)); [lia|]. cbn [orb].
          destruct (Z.ltb_spec n e); split; try reflexivity; lia. }
        destruct He' as [Ere Hle].
        destruct ((o0 <? 0) || (o0 >? e')) eqn:Ebad.
        + cbn [snd bres_of_result conf_range ans_rel IS.rd gerr_of_err e_code Mem.e_plain e_tag].
          split; [|exact I]. split; [|exact Hinv]. split; [reflexivity|]. vm_compute. split; discriminate.
        + apply orb_false_iff in Ebad as [_ Eb2]. rewrite Z.gtb_ltb in Eb2. apply Z.ltb_ge in Eb2.
          cbn [snd bres_of_result bval_of_res conf_range ans_rel IS.rd desc_of data_of].
          unfold Mem.blob_desc. cbn [d_size]. fold n.
          split; [|split; reflexivity]. split; [unfold int64, RC.MAX64, max_int64 in *; lia|].
          split; [lia|]. rewrite <- Ere. apply ISP.blen_slice; lia. }
    pose proof (ISP.range_over_http vref hashd valid_digest valid_repo valid_tag decode_image decode_index cfg
                  st r d o0 o1 b HI Hb H0 H1 Hmax Hd Ha) as [P1 P2]. cbv zeta in P1, P2.
    rewrite (sim_pres _ _ Hsim). split; assumption.
  Qed.
End Transfer.

(* ================================================================ 7. the same, with the concrete JSON of Obs/StackRun.v *)

(* the Section hypotheses discharged (Proofs/StackJson.v), the two size conditions computed *)
Theorem range_over_http_composed0
  (linked : alg -> bool) (hash : bytes -> bytes -> bytes) (subject_of : bytes -> option (option bytes))
  (o : opts) (cc : ccfg) (valid_digest valid_repo valid_tag : bytes -> bool)
  (decode_image : bytes -> option Mem.image_manifest) (decode_index : bytes -> option Mem.index_manifest)
  (cfg : Mem.config) (w : world (srv Mem.state)) r d o0 o1 b k :
  let hashd := hashd_of hash in
  let mhash := BR.canon_hash hashd in
  let st := sv_b (w_srv w) in
  o_locs o = None -> (1 <= k)%nat -> vrepo r = true ->
  MemInv.Inv mhash decode_image decode_index st -> Mem.iblob st r d = Some b ->
  ISP.in64 o0 -> ISP.in64 o1 -> blen (Mem.b_data b) <= RC.MAX64 ->
  vdigest linked d = true -> BR.alg_of d = Some (s "sha256") ->
  let direct := IS.rb_range (IS.mem_rb hashd valid_digest valid_repo valid_tag decode_image decode_index cfg st) r d o0 o1 in
  let via := seen (snd (stack_call linked hash subject_of StackRun.media0 StackRun.enc0 StackRun.dec_errors0
                          StackRun.dec_names0 StackRun.dec_index0 StackRun.redirect0
                          (mstep hash valid_digest valid_repo valid_tag decode_image decode_index cfg) o cc
                          (CGetBlobRange r d o0 o1 k) w)) in
  (0 <= o0 -> o1 < 0 \/ o0 < o1 -> ISP.pres via = ISP.pres direct) /\
  (o0 < 0 \/ 0 <= o1 <= o0 -> ISP.pres via = None).
Proof.
  intros hashd mhash st Hl Hk Hr HI Hb H0 H1 Hmax Hd Ha.
  apply (range_over_http_composed linked hash subject_of StackRun.media0 StackRun.enc0 StackRun.dec_errors0
           StackRun.dec_names0 StackRun.dec_index0 StackRun.redirect0 o cc valid_digest valid_repo valid_tag
           decode_image decode_index cfg StackJson.media_json0 StackJson.json_errors_rt0 w r d o0 o1 b k); auto.
  - vm_compute. discriminate.
  - vm_compute. discriminate.
Qed.

(* ================================================================ 8. where the two models differ *)

Module Witness.
  Import StackRun.Smoke.

  Definition all : alg -> bool := fun _ => true.
  Definition fhash : bytes -> bytes -> bytes := fun _ d => fake_hex d.    (* Smoke's checksum as the hash *)
  Definition call0 {B} (bk : backend B) (b : B) (c : Client.call) : outcome :=
    snd (stack_call all fhash (fun _ => Some None) StackRun.media0 StackRun.enc0 StackRun.dec_errors0
           StackRun.dec_names0 StackRun.dec_index0 StackRun.redirect0 bk StackRun.default_opts StackRun.default_ccfg
           c (init_world (srv0 b))).
  Definition rp : bytes := s "foo/bar".
  Definition abc : bytes := s "abc".
  Definition ab : bytes := s "ab".
  Definition de_ab : desc := {| d_media := []; d_digest := dg ab; d_size := 2; d_artifact := [] |}.
  Definition bk_panic : backend unit := fun b _ => (b, Panic).
  Definition bk_long : backend unit := fun b _ => (b, Ok (VRead de_ab abc)).
  Definition bk_ab : backend unit := fun b _ => (b, Ok (VRead de_ab ab)).
End Witness.
Import Witness.

(* (a) The error code of a refused Range header.  IntegrityStack.v reports ociserver's 416 as
   code RANGE_INVALID; in the composed model - and in the Go code: withHTTPCode(416, errors.New(...))
   carries no registry code, WriteError marshals it as "UNKNOWN" - the client sees code UNKNOWN with
   HTTP status 416 (Proofs/StackRefuted.v has the same observation on ocimem).  Harmless for C01,
   whose observation [proj] keeps only "failed". *)
Theorem bridge_416_code_refuted :
  exists e1 e2,
    seen (call0 bk_panic tt (CGetBlobRange rp (StackRun.Smoke.dg StackRun.Smoke.blob1) 5 5 512)) = Err e1 /\
    BR.http_get_blob_range (vdigest all) (hashd_of fhash) (StackRun.Smoke.dg StackRun.Smoke.blob1) 5 5 Panic (fun _ _ => Panic) = Err e2 /\
    e_code e1 = ECustom (s "UNKNOWN") /\ e_tag e1 = s "416" /\ e_code e2 = RANGE_INVALID.
Proof. eexists. eexists. vm_compute. repeat split; reflexivity. Qed.

(* (b) A backend that panics.  IntegrityStack.v lets the panic through to the caller ([SPanic] ->
   [Panic]); in the composed model - and in Go: net/http recovers a handler panic and closes the
   connection - the client gets a transport error.  C01's specification accepts either. *)
Theorem bridge_panic_refuted :
  ~ sim (seen (call0 bk_panic tt (CGetBlob rp (StackRun.Smoke.dg StackRun.Smoke.blob1) 512)))
        (BR.http_get_blob (vdigest all) (hashd_of fhash) (StackRun.Smoke.dg StackRun.Smoke.blob1) Panic).
Proof. vm_compute. tauto. Qed.

(* (c) A backend reader that delivers more bytes than its descriptor's size (not ocimem: there
   size = length).  IntegrityStack.v hands the whole body to the blobReader, which refuses it
   (size mismatch); Model/Stack.v's wire holds the body to the declared Content-Length, the
   client reads the first [size] bytes and - here they hash to the digest - succeeds.  Neither is
   the Go code in general: net/http's server refuses the whole Write call that crosses the declared
   length (checked on go1.23.5 with a 20-line program: Content-Length 2, one Write of 3 bytes ->
   the client reads 0 bytes and io.ErrUnexpectedEOF; Writes of 2 then 1 bytes -> the client reads
   2 bytes, clean), so the outcome depends on how io.Copy cuts the backend reader.  Outside the
   bridge's domain ([conf_read] asks size = length). *)
Theorem bridge_overlong_body_refuted :
  seen (call0 bk_long tt (CGetBlob rp (StackRun.Smoke.dg ab) 512)) = Ok (hop_desc (StackRun.Smoke.dg ab) de_ab, ab) /\
  exists e, BR.http_get_blob (vdigest all) (hashd_of fhash) (StackRun.Smoke.dg ab) (Ok (de_ab, abc)) = Err e.
Proof. split; [vm_compute; reflexivity | eexists; vm_compute; reflexivity]. Qed.

(* (d) A repository name the client cannot put in a URL.  IntegrityStack.v does not model
   ocirequest.Construct: the request reaches the backend; in the composed model and in Go the
   client refuses to build the request ("invalid OCI request"). *)
Theorem bridge_invalid_repo_refuted :
  exists e,
    seen (call0 bk_ab tt (CGetBlob (s "UPPER") (StackRun.Smoke.dg ab) 512)) = Err e /\
    BR.http_get_blob (vdigest all) (hashd_of fhash) (StackRun.Smoke.dg ab) (Ok (de_ab, ab)) = Ok (hop_desc (StackRun.Smoke.dg ab) de_ab, ab).
Proof. eexists. split; vm_compute; reflexivity. Qed.

(* non-vacuity: on the same tiny backend with a valid name the two models agree, bytes included *)
Example bridge_agree_example :
  seen (call0 bk_ab tt (CGetBlob rp (StackRun.Smoke.dg ab) 1)) = Ok (hop_desc (StackRun.Smoke.dg ab) de_ab, ab) /\
  BR.http_get_blob (vdigest all) (hashd_of fhash) (StackRun.Smoke.dg ab) (Ok (de_ab, ab)) = Ok (hop_desc (StackRun.Smoke.dg ab) de_ab, ab) /\
  (* a digest mismatch is the reader's verdict on both sides *)
  (exists e, seen (call0 bk_ab tt (CGetBlob rp (StackRun.Smoke.dg abc) 1)) = Err e) /\
  (exists e, BR.http_get_blob (vdigest all) (hashd_of fhash) (StackRun.Smoke.dg abc) (Ok (de_ab, ab)) = Err e).
Proof. repeat split; try (vm_compute; reflexivity); eexists; vm_compute; reflexivity. Qed.

(* ================================================================ 9. the history vocabulary; a second transfer *)

(* [stack_call] with the caller's buffer and a fresh request log is what Model/Stack.v's [raw_step]
   (the step of C03's histories, before the outside-the-model check of [stack_bstep]) returns for
   the four reads: the bridge theorems are statements about that step *)
Lemma raw_step_seen linked hash subject_of media enc dec_errors dec_names dec_index redirect
      {B} (bstep : backend B) o cc (st : sstate B) c :
  match c with
  | GetBlob r d =>
      IS.rd (result_of_bres (snd (raw_step linked hash subject_of media enc dec_errors dec_names dec_index redirect bstep o cc st c)))
      = seen (snd (stack_call linked hash subject_of media enc dec_errors dec_names dec_index redirect bstep o cc
                     (CGetBlob r d (cc_bufsz cc)) (start B st)))
  | GetBlobRange r d o0 o1 =>
      IS.rd (result_of_bres (snd (raw_step linked hash subject_of media enc dec_errors dec_names dec_index redirect bstep o cc st c)))
      = seen (snd (stack_call linked hash subject_of media enc dec_errors dec_names dec_index redirect bstep o cc
                     (CGetBlobRange r d o0 o1 (cc_bufsz cc)) (start B st)))
  | GetManifest r d =>
      IS.rd (result_of_bres (snd (raw_step linked hash subject_of media enc dec_errors dec_names dec_index redirect bstep o cc st c)))
      = seen (snd (stack_call linked hash subject_of media enc dec_errors dec_names dec_index redirect bstep o cc
                     (CGetManifest r d (cc_bufsz cc)) (start B st)))
  | GetTag r t =>
      IS.rd (result_of_bres (snd (raw_step linked hash subject_of media enc dec_errors dec_names dec_index redirect bstep o cc st c)))
      = seen (snd (stack_call linked hash subject_of media enc dec_errors dec_names dec_index redirect bstep o cc
                     (CGetTag r t (cc_bufsz cc)) (start B st)))
  | _ => True
  end.
Proof.
  destruct c; try exact I; unfold raw_step, stack_call, Client.run;
    match goal with |- context [read_and_drain ?S ?e ?m ?k ?w] => destruct (read_and_drain S e m k w) as [w1 r0] end;
    reflexivity.
Qed.

(* C01_hops_refine at one hop, GetBlob: the line-by-line hop over ocimem answers an error, or
   ocimem's digest, size and bytes - for every reachable state, every valid name (concrete JSON) *)
Theorem get_blob_composed_refines
  (linked : alg -> bool) (hash : bytes -> bytes -> bytes) (subject_of : bytes -> option (option bytes))
  (o : opts) (cc : ccfg) (valid_digest valid_repo valid_tag : bytes -> bool)
  (decode_image : bytes -> option Mem.image_manifest) (decode_index : bytes -> option Mem.index_manifest)
  (cfg : Mem.config) (w : world (srv Mem.state)) r d k :
  let hashd := hashd_of hash in
  let st := sv_b (w_srv w) in
  o_locs o = None -> (1 <= k)%nat -> vrepo r = true -> vdigest linked d = true ->
  MemInv.Inv (BR.canon_hash hashd) decode_image decode_index st ->
  (forall b, Mem.iblob st r d = Some b -> blen (Mem.b_data b) <= max_int64) ->
  ISP.refines
    (seen (snd (stack_call linked hash subject_of StackRun.media0 StackRun.enc0 StackRun.dec_errors0
                  StackRun.dec_names0 StackRun.dec_index0 StackRun.redirect0
                  (mstep hash valid_digest valid_repo valid_tag decode_image decode_index cfg) o cc
                  (CGetBlob r d k) w)))
    (IS.rb_blob (IS.mem_rb hashd valid_digest valid_repo valid_tag decode_image decode_index cfg st) r d).
Proof.
  intros hashd st Hl Hk Hr Hd HI Hsmall.
  set (get := IS.rb_blob (IS.mem_rb hashd valid_digest valid_repo valid_tag decode_image decode_index cfg st) r d).
  assert (Hsim : sim (seen (snd (stack_call linked hash subject_of StackRun.media0 StackRun.enc0 StackRun.dec_errors0
                  StackRun.dec_names0 StackRun.dec_index0 StackRun.redirect0
                  (mstep hash valid_digest valid_repo valid_tag decode_image decode_index cfg) o cc
                  (CGetBlob r d k) w)))
                     (BR.http_get_blob (vdigest linked) hashd d get)).
  { apply (bridge_get_blob linked hash subject_of StackRun.media0 StackRun.enc0 StackRun.dec_errors0
             StackRun.dec_names0 StackRun.dec_index0 StackRun.redirect0 Mem.state _ o cc
             StackJson.media_json0 StackJson.json_errors_rt0 w r d k get); auto; fold st;
      unfold get, mstep, backend_of_registry; cbn [IS.mem_rb IS.rb_blob Mem.step snd].
    - unfold Mem.blob_for. destruct (Mem.get_repo st r) as [rp|] eqn:Eg.
      + destruct (AList.alookup d (Mem.blobs rp)) as [b|] eqn:Eb.
        * cbn. split; [reflexivity|]. apply Hsmall. unfold Mem.iblob. now rewrite Eg.
        * cbn. split; [split; [reflexivity | vm_compute; split; discriminate] | vm_compute; discriminate].
      + cbn. split; [split; [reflexivity | vm_compute; split; discriminate] | vm_compute; discriminate].
    - unfold Mem.blob_for. destruct (Mem.get_repo st r) as [rp|]; [|exact I].
      destruct (AList.alookup d (Mem.blobs rp)); cbn; auto. }
  pose proof (ISP.hop_blob (vdigest linked) hashd d get) as Href.
  unfold ISP.refines in *. rewrite (sim_pres _ _ Hsim). apply Href.
  intros de data Hg. exact (proj1 (ISP.mem_blob_facts hashd valid_digest valid_repo valid_tag decode_image decode_index cfg
                                     st r d de data HI Hg)).
Qed.

(* ================================================================ the statements

   Codecs, for ALL inputs (no hypotheses beyond int64 where a value is printed after arithmetic):
     fmt_int_dec_Z, fmt_int_fmt_d      "%d": RangeCodec.fmt_int = Errors.dec_Z = Http.fmt_d
     rc_parse_int                      strconv.ParseInt: RangeCodec.parse_int = Request.parse_int (= Http.parse_int64)
     bridge_range_header_text          Client.range_header = RangeCodec.client_range_header
     bridge_content_range_text         the server model's Content-Range = RangeCodec.content_range_header
     bridge_parse_range                ociserver.parseRange: Server.parse_range_header = RangeCodec.parse_http_range on
                                       every header text (both refusals of RangeCodec are the one 416 of Server)
     bridge_range_header_parses        hence what the composed server reads for every int64 pair (o0, o1)
     bridge_descriptor_from_response   descriptorFromResponse: Client's = BlobReader's on every response / digest / flags
     bridge_blob_read, bridge_drain    blobReader.Read / io.ReadAll: Client's reader over a body read k bytes at a time
                                       = BlobReader's reader over the corresponding script, every state, every k >= 1
     bridge_reader_verdict             the verdict (clean bytes / class of error) does not depend on k: it is that of
                                       BlobReader's reader fed the body in one piece, as IntegrityStack.v does
   One hop ([sim]: the same descriptor and bytes, or an error on both sides), every backend, option set, buffer:
     bridge_get_blob, bridge_get_blob_range, bridge_get_manifest, bridge_get_tag, bridge_http_layer
       hypotheses: o_locs = None; OmitDigestFromTagGetResponse off (manifests); valid repository / digest / tag;
       k >= 1; int64 offsets; the JSON round trip of the error document (Section hypotheses, discharged for enc0
       in section 7) and its size <= 8 KiB; the backend's answer to the one dispatched call is [conf_read] /
       [conf_range] / [conf_manifest]: size = length (an int64) - NOT that the bytes hash to the digest: a
       mismatch is the blobReader's verdict, the same on both sides - or a servable error.
     bridge_backend_error_code       on a backend error the registry code IntegrityStack.v passes through is the code
                                     the composed client reads back, except that "no code" arrives as UNKNOWN
   Transfer:
     range_over_http_composed(0)       C01_range_over_http with the hop replaced by the composed model over ocimem
     get_blob_composed_refines         C01_hops_refine at one hop, GetBlob
     raw_step_seen                     the same statements read on Stack.raw_step, the step of C03's histories
   Differences (vm_compute witnesses): bridge_416_code_refuted, bridge_panic_refuted,
     bridge_overlong_body_refuted, bridge_invalid_repo_refuted.
   Not bridged: k >= 2 hops (IS.hops iterates http_layer; the composed model's second hop is
     Proofs/StackTwoHops.v), IS.mount_layer, the HEAD fallback for a large manifest without digest
     (IntegrityStack.v passes "HEAD failed"), OmitDigestFromTagGetResponse (not in IntegrityStack.v). *)

Print Assumptions fmt_int_dec_Z.
Print Assumptions rc_parse_int.
Print Assumptions bridge_range_header_text.
Print Assumptions bridge_content_range_text.
Print Assumptions bridge_parse_range.
Print Assumptions bridge_descriptor_from_response.
Print Assumptions bridge_blob_read.
Print Assumptions bridge_drain.
Print Assumptions bridge_reader_verdict.
Print Assumptions bridge_range_header_parses.
Print Assumptions bridge_get_blob.
Print Assumptions bridge_get_blob_range.
Print Assumptions bridge_get_manifest.
Print Assumptions bridge_get_tag.
Print Assumptions bridge_http_layer.
Print Assumptions bridge_backend_error_code.
Print Assumptions range_over_http_composed.
Print Assumptions range_over_http_composed0.
Print Assumptions get_blob_composed_refines.
Print Assumptions raw_step_seen.
Print Assumptions bridge_416_code_refuted.
Print Assumptions bridge_panic_refuted.
Print Assumptions bridge_overlong_body_refuted.
Print Assumptions bridge_invalid_repo_refuted.
Print Assumptions bridge_agree_example.
